import Yaql.Props.C11
import Yaql.Props.C12
/-!
C11, spelling: laziness is decided by the PARAMETER an argument is bound to, not by the way the
argument arrives.  Moving the last positional argument of a call to its keyword (alias) name

* makes `map_args` bind it to the same parameter (`mapArgs_kw_move`): the positional part of the
  mapping loses its last entry `p`, the keyword part gains `(p.argName, p)`,
* hence moves its laziness flag from the positional to the keyword part of the lazy signature
  (`lazySig_kw_move`),
* and, when that parameter is lazy, leaves the evaluation log and the bound vector - the whole
  outcome of the resolution - unchanged (`lazy_spelling_invariant`).
-/
namespace Yaql.Props.C11Spell
open Yaql.Types Yaql.Resolve Yaql.Registry Yaql.Props.C05 Yaql.Props.C12 Yaql.Props.C11

/-! ## `given` on an argument list and on the list without its last argument -/

theorem given_append_lt (args' : List Arg) (a : Arg) {i : Nat} (h : i < args'.length) :
    given (args' ++ [a]) i = given args' i := by
  simp [given, List.getElem?_append_left h]

theorem given_append_self (args' : List Arg) (a : Arg) (ha : a.isNoValue = false) :
    given (args' ++ [a]) args'.length = true := by
  simp [given, ha]

theorem given_ge (args : List Arg) {i : Nat} (h : args.length ≤ i) : given args i = false := by
  simp [given, List.getElem?_eq_none h]

/-! ## the loop of `map_args` in the two spellings, side by side -/

/-- the states of the two runs: `stp` with the argument in its slot `s` (the last one), `stk` with
    the argument among the keywords under the name `n`; `done`: the parameter `p` has had its turn -/
structure Rel (n : Name) (a : Arg) (p : Param) (s : Nat) (done : Bool) (stp stk : MapSt) : Prop where
  len : stk.pos.length = s
  pos : ∃ x, stp.pos = stk.pos ++ [x] ∧ (done = true → x = some p)
  rest : stk.rest = if done then stp.rest else stp.rest ++ [(n, a)]
  nohas : ahas n stp.rest = false
  kwd : ∀ k, alookup k stk.kwd = if done && (n == k) then some p else alookup k stp.kwd

def StepRel (R : MapSt → MapSt → Prop) : Option MapSt → Option MapSt → Prop
  | some x, some y => R x y
  | none, none => True
  | _, _ => False

variable {n : Name} {a : Arg} {p : Param} {s : Nat} {done : Bool} {stp stk : MapSt}

theorem Rel.ahas_other (hR : Rel n a p s done stp stk) {an : Name} (hne : an ≠ n) :
    ahas an stk.rest = ahas an stp.rest := by
  rw [hR.rest]
  cases done
  · simp only [Bool.false_eq_true, if_false]
    exact ahas_append_other a stp.rest (Ne.symm hne)
  · simp

theorem Rel.set (hR : Rel n a p s done stp stk) {i : Nat} (hi : i < s) (v : Option Param) :
    Rel n a p s done { stp with pos := stp.pos.set i v } { stk with pos := stk.pos.set i v } := by
  obtain ⟨x, hx, hd⟩ := hR.pos
  refine ⟨by simp [hR.len], ⟨x, ?_, hd⟩, hR.rest, hR.nohas, hR.kwd⟩
  simp only [hx]
  rw [List.set_append]
  simp [hR.len, hi]

theorem Rel.toKwd (hR : Rel n a p s done stp stk) {an : Name} (hne : an ≠ n) (p' : Param) :
    Rel n a p s done { stp with kwd := aset an p' stp.kwd, rest := adel an stp.rest }
      { stk with kwd := aset an p' stk.kwd, rest := adel an stk.rest } := by
  refine ⟨hR.len, hR.pos, ?_, ?_, ?_⟩
  · simp only [hR.rest]
    cases done
    · simp only [Bool.false_eq_true, if_false]
      exact adel_append_other a stp.rest (Ne.symm hne)
    · simp
  · exact ahas_adel_false _ _ _ hR.nohas
  · intro k
    simp only [alookup_aset, hR.kwd k]
    by_cases h1 : (an == k) = true
    · have e1 : an = k := by simpa using h1
      have h2 : (n == k) = false := by
        cases h : n == k with
        | false => rfl
        | true => exact absurd ((beq_iff_eq.1 h).trans e1.symm).symm hne
      simp [h1, h2]
    · simp [h1]

/-- a parameter that owns another slot and is passed under another name takes the same branch in
    both runs -/
theorem mapStep_other (ps : List Param) (args' : List Arg) (hs : s = args'.length)
    (hR : Rel n a p s done stp stk) (p' : Param)
    (hslot : slotOf ps p' ≠ some s) (hname : NameOther n p') :
    StepRel (Rel n a p s done) (mapStep ps (args' ++ [a]) stp p') (mapStep ps args' stk p') := by
  unfold mapStep
  cases hq : p'.position with
  | none =>
      simp only
      by_cases h1 : p'.isStarStar = true
      · simpa [h1, StepRel] using hR
      · by_cases h2 : p'.hidden = true
        · simpa [h1, h2, StepRel] using hR
        · have hne : p'.argName ≠ n := hname (by simpa using h2)
          simp only [h1, h2, Bool.false_eq_true, if_false, hR.ahas_other hne]
          cases hah : ahas p'.argName stp.rest with
          | true => simpa [StepRel] using hR.toKwd hne p'
          | false =>
              cases hd : p'.default.isNone with
              | true => simp [StepRel]
              | false => simpa [StepRel] using hR
  | some q =>
      simp only
      by_cases h1 : p'.isStar = true
      · simpa [h1, StepRel] using hR
      · by_cases h2 : p'.hidden = true
        · simpa [h1, h2, StepRel] using hR
        · have hne : p'.argName ≠ n := hname (by simpa using h2)
          have hap : q - fixAt ps q ≠ s := by
            intro e
            apply hslot
            simp [slotOf, hq, h1, h2, e]
          simp only [h1, h2, Bool.false_eq_true, if_false, hR.ahas_other hne, List.length_append,
            List.length_singleton]
          rcases Nat.lt_or_gt_of_ne hap with hlt | hgt
          · have hlt' : q - fixAt ps q < args'.length := hs ▸ hlt
            rw [given_append_lt args' a hlt']
            cases hg : given args' (q - fixAt ps q) with
            | true =>
                cases hah : ahas p'.argName stp.rest with
                | true => simp [StepRel]
                | false => simpa [StepRel] using hR.set hlt (some p')
            | false =>
                cases hah : ahas p'.argName stp.rest with
                | true => simpa [StepRel] using hR.toKwd hne p'
                | false =>
                    cases hd : p'.default.isNone with
                    | true => simp [StepRel]
                    | false =>
                        have h3 : q - fixAt ps q < args'.length + 1 := by omega
                        simpa [StepRel, hlt', h3] using hR.set hlt (some p')
          · have hge : args'.length + 1 ≤ q - fixAt ps q := by omega
            have hge' : args'.length ≤ q - fixAt ps q := by omega
            rw [given_ge (args' ++ [a]) (by simpa using hge), given_ge args' hge']
            cases hah : ahas p'.argName stp.rest with
            | true => simpa [StepRel] using hR.toKwd hne p'
            | false =>
                cases hd : p'.default.isNone with
                | true => simp [StepRel]
                | false =>
                    have h3 : ¬ q - fixAt ps q < args'.length + 1 := by omega
                    have h4 : ¬ q - fixAt ps q < args'.length := by omega
                    simpa [StepRel, h3, h4] using hR

/-- the parameter itself: entered into its slot in one run, into the keyword part in the other -/
theorem mapStep_self (ps : List Param) (args' : List Arg) (hs : s = args'.length) (hn : n = p.argName)
    (ha : a.isNoValue = false) (hR : Rel n a p s false stp stk) (hslot : slotOf ps p = some s) :
    ∃ stp' stk', mapStep ps (args' ++ [a]) stp p = some stp' ∧ mapStep ps args' stk p = some stk' ∧
      Rel n a p s true stp' stk' := by
  unfold slotOf at hslot
  cases hq : p.position with
  | none => simp [hq] at hslot
  | some q =>
      simp only [hq] at hslot
      by_cases hsh : (p.isStar || p.hidden) = true
      · simp [hsh] at hslot
      · simp only [hsh, Bool.false_eq_true, if_false, Option.some.injEq] at hslot
        simp only [Bool.or_eq_true, not_or, Bool.not_eq_true] at hsh
        have hrk : stk.rest = stp.rest ++ [(n, a)] := by simpa using hR.rest
        have hnh : ahas p.argName stp.rest = false := hn ▸ hR.nohas
        have hhas : ahas p.argName stk.rest = true := by
          rw [hrk, ← hn]; simp [ahas]
        have hdel : adel p.argName stk.rest = stp.rest := by
          rw [hrk, ← hn]; exact adel_append_self n a stp.rest hR.nohas
        obtain ⟨x, hx, _⟩ := hR.pos
        refine ⟨{ stp with pos := stp.pos.set s (some p) },
          { stk with kwd := aset p.argName p stk.kwd, rest := adel p.argName stk.rest }, ?_, ?_, ?_⟩
        · unfold mapStep
          simp only [hq, hsh.1, hsh.2, Bool.false_eq_true, if_false, hslot, hs,
            given_append_self args' a ha, if_true, hnh]
        · unfold mapStep
          simp only [hq, hsh.1, hsh.2, Bool.false_eq_true, if_false, hslot, hs,
            given_ge args' (Nat.le_refl _), hhas, if_true]
        · refine ⟨hR.len, ⟨some p, ?_, fun _ => rfl⟩, by simpa using hdel, hR.nohas, ?_⟩
          · simp only [hx]
            rw [List.set_append]
            simp [hR.len]
          · intro k
            simp only [alookup_aset, hR.kwd k, ← hn, Bool.false_and, Bool.false_eq_true, if_false, Bool.true_and]

theorem mapLoop_other (ps : List Param) (args' : List Arg) (hs : s = args'.length) :
    ∀ (l : List Param) (stp stk : MapSt), Rel n a p s done stp stk →
      (∀ p' ∈ l, slotOf ps p' ≠ some s ∧ NameOther n p') →
      StepRel (Rel n a p s done) (mapLoop ps (args' ++ [a]) stp l) (mapLoop ps args' stk l)
  | [], stp, stk, hR, _ => by simpa [mapLoop, StepRel] using hR
  | p' :: r, stp, stk, hR, hl => by
      have h1 := mapStep_other ps args' hs hR p' (hl p' (by simp)).1 (hl p' (by simp)).2
      simp only [mapLoop]
      cases hp : mapStep ps (args' ++ [a]) stp p' with
      | none =>
          cases hk : mapStep ps args' stk p' with
          | none => simp [StepRel]
          | some y => simp [hp, hk, StepRel] at h1
      | some x =>
          cases hk : mapStep ps args' stk p' with
          | none => simp [hp, hk, StepRel] at h1
          | some y =>
              simp only [hp, hk, StepRel] at h1
              exact mapLoop_other ps args' hs r x y h1 (fun p' hp' => hl p' (by simp [hp']))

theorem mapLoop_append (ps : List Param) (args : List Arg) : ∀ (l1 l2 : List Param) (st : MapSt),
    mapLoop ps args st (l1 ++ l2) = (mapLoop ps args st l1).bind fun st' => mapLoop ps args st' l2
  | [], _, _ => rfl
  | p :: r, l2, st => by
      simp only [List.cons_append, mapLoop]
      cases mapStep ps args st p with
      | none => rfl
      | some st' => exact mapLoop_append ps args r l2 st'

/-- the whole loop: both runs fail, or both succeed in related states -/
theorem mapLoop_move (ps : List Param) (args' : List Arg) (kw : KwArgs) (pre post : List Param)
    (hps : ps = pre ++ p :: post) (hslot : slotOf ps p = some args'.length)
    (hothers : ∀ p' ∈ pre ++ post, slotOf ps p' ≠ some args'.length ∧ NameOther p.argName p')
    (ha : a.isNoValue = false) (hkw : ahas p.argName kw = false) :
    StepRel (Rel p.argName a p args'.length true)
      (mapLoop ps (args' ++ [a]) { pos := List.replicate (args'.length + 1) (starParam ps), kwd := [], rest := kw } ps)
      (mapLoop ps args' { pos := List.replicate args'.length (starParam ps), kwd := [], rest := kw ++ [(p.argName, a)] } ps) := by
  have h0 : Rel p.argName a p args'.length false
      { pos := List.replicate (args'.length + 1) (starParam ps), kwd := [], rest := kw }
      { pos := List.replicate args'.length (starParam ps), kwd := [], rest := kw ++ [(p.argName, a)] } := by
    refine ⟨by simp, ⟨starParam ps, ?_, by simp⟩, by simp, hkw, by simp⟩
    simp [List.replicate_succ']
  conv => lhs; arg 4; rw [hps]
  conv => rhs; arg 4; rw [hps]
  rw [mapLoop_append, mapLoop_append]
  have h1 := mapLoop_other (n := p.argName) (a := a) (p := p) (done := false) ps args' rfl pre _ _ h0
    (fun p' h => hothers p' (by simp [h]))
  cases hp : mapLoop ps (args' ++ [a]) { pos := List.replicate (args'.length + 1) (starParam ps), kwd := [], rest := kw } pre with
  | none =>
      cases hk : mapLoop ps args' { pos := List.replicate args'.length (starParam ps), kwd := [], rest := kw ++ [(p.argName, a)] } pre with
      | none => simp [StepRel]
      | some y => simp [hp, hk, StepRel] at h1
  | some x =>
      cases hk : mapLoop ps args' { pos := List.replicate args'.length (starParam ps), kwd := [], rest := kw ++ [(p.argName, a)] } pre with
      | none => simp [hp, hk, StepRel] at h1
      | some y =>
          simp only [hp, hk, StepRel] at h1
          obtain ⟨x', y', hx', hy', h2⟩ := mapStep_self ps args' rfl rfl ha h1 hslot
          simp only [Option.bind_some, mapLoop, hx', hy']
          exact mapLoop_other ps args' rfl post x' y' h2 (fun p' h => hothers p' (by simp [h]))

/-! ## the part of `map_args` behind the loop -/

/-- the mapping of the keyword spelling, from the mapping of the positional one -/
def moveKw (n : Name) (p : Param) (m : Mapping) : Mapping :=
  { pos := m.pos.dropLast, kwd := m.kwd ++ [(n, p)] }

theorem posOk_append (L : Lattice) (p : Param) (a : Arg) (ha : a.isNoValue = false) :
    ∀ (pos : List (Option Param)) (args : List Arg), pos.length = args.length →
      posOk L (pos ++ [some p]) (args ++ [a]) = (posOk L pos args && check L p.ty a)
  | [], [], _ => by simp [posOk, ha]
  | [], _ :: _, h => by simp at h
  | _ :: _, [], h => by simp at h
  | none :: r, x :: as, _ => by simp [posOk]
  | some q :: r, x :: as, h => by
      simp only [List.cons_append, posOk, posOk_append L p a ha r as (by simpa using h), Bool.and_assoc]

theorem posOk_length (L : Lattice) : ∀ (pos : List (Option Param)) (args : List Arg),
    posOk L pos args = true → (pos.filterMap id).length = pos.length
  | [], _, _ => rfl
  | none :: _, _, h => by simp [posOk] at h
  | some _ :: _, [], h => by simp [posOk] at h
  | some q :: r, x :: as, h => by
      simp only [posOk, Bool.and_eq_true] at h
      simp [posOk_length L r as h.2]

def KwdRel (n : Name) (p : Param) (kk kp : List (Name × Param)) : Prop :=
  ∀ k, alookup k kk = if n == k then some p else alookup k kp

theorem not_has_ne {α : Type} {n : Name} : ∀ {l : List (Name × α)}, ahas n l = false → ∀ kv ∈ l, kv.1 ≠ n
  | [], _, _, h => by cases h
  | x :: r, h, kv, hkv => by
      simp only [ahas, List.any_cons, Bool.or_eq_false_iff] at h
      rcases List.mem_cons.1 hkv with rfl | hr
      · intro e; simp [e] at h
      · exact not_has_ne (l := r) (by simpa [ahas] using h.2) kv hr

theorem kwdRel_aset {n : Name} {p : Param} {kk kp : List (Name × Param)} (h : KwdRel n p kk kp) {k' : Name}
    (hne : k' ≠ n) (sp : Param) : KwdRel n p (aset k' sp kk) (aset k' sp kp) := by
  intro k
  simp only [alookup_aset, h k]
  by_cases h1 : (k' == k) = true
  · have e1 : k' = k := by simpa using h1
    have h2 : (n == k) = false := by
      cases hh : n == k with
      | false => rfl
      | true => exact absurd ((beq_iff_eq.1 hh).trans e1.symm).symm hne
    simp [h1, h2]
  · simp [h1]

theorem kwdRel_foldl {n : Name} {p : Param} (sp : Param) : ∀ (rest : KwArgs) (kk kp : List (Name × Param)),
    KwdRel n p kk kp → (∀ kv ∈ rest, kv.1 ≠ n) →
    KwdRel n p (rest.foldl (fun acc kv => aset kv.1 sp acc) kk) (rest.foldl (fun acc kv => aset kv.1 sp acc) kp)
  | [], _, _, h, _ => h
  | kv :: r, kk, kp, h, hr => by
      simp only [List.foldl_cons]
      exact kwdRel_foldl sp r _ _ (kwdRel_aset h (hr kv (by simp)) sp) (fun kv' h' => hr kv' (by simp [h']))

/-- `keyword_args` after the `**` part was entered -/
def kwdOf (ps : List Param) (st : MapSt) : Option (List (Name × Param)) :=
  if st.rest.isEmpty then some st.kwd
  else match starStarParam ps with
    | some sp => some (st.rest.foldl (fun acc kv => aset kv.1 sp acc) st.kwd)
    | none => none

theorem mapFinish_eq (L : Lattice) (ps : List Param) (args : List Arg) (kwargs : KwArgs) (st : MapSt) :
    mapFinish L ps args kwargs st =
      match kwdOf ps st with
      | none => none
      | some kwd =>
          if !posOk L st.pos args then none
          else if !(st.rest.all fun kv => checkOpt L (alookup kv.1 kwd) kv.2) then none
          else some { pos := st.pos.filterMap id,
                      kwd := kwargs.filterMap fun kv => (alookup kv.1 kwd).map fun p => (kv.1, p) } := rfl

theorem all_congr' {α : Type} {f g : α → Bool} : ∀ {l : List α}, (∀ x ∈ l, f x = g x) → l.all f = l.all g
  | [], _ => rfl
  | x :: r, h => by
      simp only [List.all_cons, h x (by simp), all_congr' (l := r) (fun y hy => h y (by simp [hy]))]

theorem filterMap_congr' {α β : Type} {f g : α → Option β} : ∀ {l : List α}, (∀ x ∈ l, f x = g x) →
    l.filterMap f = l.filterMap g
  | [], _ => rfl
  | x :: r, h => by
      simp only [List.filterMap_cons, h x (by simp), filterMap_congr' (l := r) (fun y hy => h y (by simp [hy]))]

theorem kwdOf_rel {n : Name} {a : Arg} {p : Param} {s : Nat} {stp stk : MapSt} (ps : List Param)
    (hR : Rel n a p s true stp stk) :
    match kwdOf ps stp, kwdOf ps stk with
    | some kp, some kk => KwdRel n p kk kp
    | none, none => True
    | _, _ => False := by
  have hrest : stk.rest = stp.rest := by simpa using hR.rest
  have hk0 : KwdRel n p stk.kwd stp.kwd := fun k => by simpa using hR.kwd k
  unfold kwdOf
  rw [hrest]
  by_cases he : stp.rest.isEmpty = true
  · simpa [he] using hk0
  · simp only [he, Bool.false_eq_true, if_false]
    cases starStarParam ps with
    | none => trivial
    | some sp => exact kwdRel_foldl sp stp.rest _ _ hk0 (not_has_ne hR.nohas)

theorem mapFinish_move (L : Lattice) (ps : List Param) (args' : List Arg) (a : Arg) (kw : KwArgs)
    {n : Name} {p : Param} {stp stk : MapSt} (hR : Rel n a p args'.length true stp stk)
    (ha : a.isNoValue = false) (hkw : ahas n kw = false) (hchk : check L p.ty a = true) :
    mapFinish L ps args' (kw ++ [(n, a)]) stk = (mapFinish L ps (args' ++ [a]) kw stp).map (moveKw n p) ∧
    ∀ m, mapFinish L ps (args' ++ [a]) kw stp = some m → ∃ pos0, m.pos = pos0 ++ [p] ∧ pos0.length = args'.length := by
  have hrest : stk.rest = stp.rest := by simpa using hR.rest
  obtain ⟨x, hx, hxp⟩ := hR.pos
  have hx' : stp.pos = stk.pos ++ [some p] := by rw [hx, hxp rfl]
  have hrel := kwdOf_rel ps hR
  rw [mapFinish_eq, mapFinish_eq]
  cases hkp : kwdOf ps stp with
  | none =>
      cases hkk : kwdOf ps stk with
      | none => simp
      | some kk => simp [hkp, hkk] at hrel
  | some kp =>
      cases hkk : kwdOf ps stk with
      | none => simp [hkp, hkk] at hrel
      | some kk =>
          simp only [hkp, hkk] at hrel
          have hpos : posOk L stp.pos (args' ++ [a]) = posOk L stk.pos args' := by
            rw [hx', posOk_append L p a ha stk.pos args' hR.len, hchk, Bool.and_true]
          have hall : (stk.rest.all fun kv => checkOpt L (alookup kv.1 kk) kv.2) =
              (stp.rest.all fun kv => checkOpt L (alookup kv.1 kp) kv.2) := by
            rw [hrest]
            apply all_congr'
            intro kv hkv
            have hne := not_has_ne hR.nohas kv hkv
            have h2 : (n == kv.1) = false := by
              cases hh : n == kv.1 with
              | false => rfl
              | true => exact absurd (beq_iff_eq.1 hh).symm hne
            rw [hrel kv.1, h2]; rfl
          have hkwd : ((kw ++ [(n, a)]).filterMap fun kv => (alookup kv.1 kk).map fun q => (kv.1, q)) =
              (kw.filterMap fun kv => (alookup kv.1 kp).map fun q => (kv.1, q)) ++ [(n, p)] := by
            rw [List.filterMap_append]
            congr 1
            · apply filterMap_congr'
              intro kv hkv
              have hne := not_has_ne hkw kv hkv
              have h2 : (n == kv.1) = false := by
                cases hh : n == kv.1 with
                | false => rfl
                | true => exact absurd (beq_iff_eq.1 hh).symm hne
              rw [hrel kv.1, h2]; rfl
            · simp [hrel n]
          simp only [hpos, hall]
          cases hpo : posOk L stk.pos args' with
          | false => simp
          | true =>
              cases hal : (stp.rest.all fun kv => checkOpt L (alookup kv.1 kp) kv.2) with
              | false => simp
              | true =>
                  simp only [Bool.not_true, Bool.false_eq_true, if_false, Option.map_some, Option.some.injEq]
                  refine ⟨?_, ?_⟩
                  · simp [moveKw, hkwd, hx', List.filterMap_append]
                  · intro m hm
                    subst hm
                    refine ⟨stk.pos.filterMap id, by simp [hx', List.filterMap_append], ?_⟩
                    rw [posOk_length L stk.pos args' hpo, hR.len]

/-- **`map_args` binds the argument to the same parameter in both spellings**: with the last
    positional argument `a` (slot `args'.length`, owned by `p`) moved to the keyword `p.argName`,
    `map_args` succeeds exactly when it did, the positional part of the mapping loses its last entry -
    which is `p` - and the keyword part gains `(p.argName, p)` -/
theorem mapArgs_kw_move (L : Lattice) (ps : List Param) (args' : List Arg) (a : Arg) (kw : KwArgs)
    (p : Param) (pre post : List Param)
    (hps : ps = pre ++ p :: post) (hslot : slotOf ps p = some args'.length)
    (hothers : ∀ p' ∈ pre ++ post, slotOf ps p' ≠ some args'.length ∧ NameOther p.argName p')
    (ha : a.isNoValue = false) (hkw : ahas p.argName kw = false) (hchk : check L p.ty a = true) :
    mapArgs L ps args' (kw ++ [(p.argName, a)]) = (mapArgs L ps (args' ++ [a]) kw).map (moveKw p.argName p) ∧
    ∀ m, mapArgs L ps (args' ++ [a]) kw = some m → ∃ pos0, m.pos = pos0 ++ [p] ∧ pos0.length = args'.length := by
  have hl := mapLoop_move (a := a) ps args' kw pre post hps hslot hothers ha hkw
  rw [mapArgs_eq_finish, mapArgs_eq_finish]
  simp only [List.length_append, List.length_singleton]
  cases hp : mapLoop ps (args' ++ [a]) { pos := List.replicate (args'.length + 1) (starParam ps), kwd := [], rest := kw } ps with
  | none =>
      cases hk : mapLoop ps args' { pos := List.replicate args'.length (starParam ps), kwd := [], rest := kw ++ [(p.argName, a)] } ps with
      | none => simp
      | some y => simp [hp, hk, StepRel] at hl
  | some x =>
      cases hk : mapLoop ps args' { pos := List.replicate args'.length (starParam ps), kwd := [], rest := kw ++ [(p.argName, a)] } ps with
      | none => simp [hp, hk, StepRel] at hl
      | some y =>
          simp only [hp, hk, StepRel] at hl
          simpa using mapFinish_move L ps args' a kw hl ha hkw hchk

/-! ## every keyword of the call is bound by the mapping -/

def Cover (kw : KwArgs) (st : MapSt) : Prop :=
  ∀ kv ∈ kw, ahas kv.1 st.rest = true ∨ (alookup kv.1 st.kwd).isSome = true

theorem cover_kwd {kw : KwArgs} {st : MapSt} (an : Name) (q : Param) (hc : Cover kw st) :
    Cover kw { st with kwd := aset an q st.kwd, rest := adel an st.rest } := by
  intro kv hkv
  by_cases h : (an == kv.1) = true
  · right; simp [alookup_aset, h]
  · have hne : kv.1 ≠ an := fun e => h (by simp [e])
    rcases hc kv hkv with h1 | h1
    · left; rw [ahas_adel_other hne]; exact h1
    · right; simpa [alookup_aset, h] using h1

theorem mapStep_cover {kw : KwArgs} (ps : List Param) (args : List Arg) (st st' : MapSt) (q : Param)
    (h : mapStep ps args st q = some st') (hc : Cover kw st) : Cover kw st' := by
  unfold mapStep at h
  cases hq : q.position with
  | none =>
      simp only [hq] at h
      by_cases h1 : q.isStarStar = true
      · simp only [h1, if_true, Option.some.injEq] at h; exact h ▸ hc
      · by_cases h2 : q.hidden = true
        · simp only [h1, h2, if_true, Bool.false_eq_true, if_false, Option.some.injEq] at h; exact h ▸ hc
        · cases hah : ahas q.argName st.rest <;> cases hd : q.default.isNone <;>
            simp only [h1, h2, hah, hd, if_true, Bool.false_eq_true, if_false, Option.some.injEq, reduceCtorEq] at h
          all_goals (subst h; first | exact hc | exact cover_kwd _ _ hc)
  | some i =>
      simp only [hq] at h
      by_cases h1 : q.isStar = true
      · simp only [h1, if_true, Option.some.injEq] at h; exact h ▸ hc
      · by_cases h2 : q.hidden = true
        · simp only [h1, h2, if_true, Bool.false_eq_true, if_false, Option.some.injEq] at h; exact h ▸ hc
        · cases hg : given args (i - fixAt ps i) <;> cases hah : ahas q.argName st.rest <;>
            cases hd : q.default.isNone <;> by_cases hlt : i - fixAt ps i < args.length <;>
            simp only [h1, h2, hg, hah, hd, hlt, if_true, Bool.false_eq_true, if_false, Option.some.injEq,
              reduceCtorEq] at h
          all_goals (subst h; first | exact hc | exact cover_kwd _ _ hc)

theorem mapLoop_cover {kw : KwArgs} (ps : List Param) (args : List Arg) : ∀ (l : List Param) (st st' : MapSt),
    mapLoop ps args st l = some st' → Cover kw st → Cover kw st'
  | [], st, st', h, hc => by simp only [mapLoop, Option.some.injEq] at h; exact h ▸ hc
  | q :: r, st, st', h, hc => by
      simp only [mapLoop] at h
      cases hs : mapStep ps args st q with
      | none => simp [hs] at h
      | some st1 =>
          simp only [hs] at h
          exact mapLoop_cover ps args r st1 st' h (mapStep_cover ps args st st1 q hs hc)

theorem isSome_foldl_aset (sp : Param) (k : Name) : ∀ (rest : KwArgs) (acc : List (Name × Param)),
    (ahas k rest = true ∨ (alookup k acc).isSome = true) →
    (alookup k (rest.foldl (fun acc kv => aset kv.1 sp acc) acc)).isSome = true
  | [], acc, h => by
      rcases h with h | h
      · simp [ahas] at h
      · exact h
  | kv :: r, acc, h => by
      simp only [List.foldl_cons]
      apply isSome_foldl_aset sp k r
      rw [alookup_aset]
      by_cases hk : (kv.1 == k) = true
      · exact Or.inr (by simp [hk])
      · rcases h with h | h
        · simp only [ahas, List.any_cons, Bool.or_eq_true] at h
          rcases h with h | h
          · exact absurd h hk
          · exact Or.inl (by simpa [ahas] using h)
        · exact Or.inr (by simpa [hk] using h)

theorem filterMap_keys {f : Name → Option Param} : ∀ (kw : KwArgs), (∀ kv ∈ kw, (f kv.1).isSome = true) →
    (kw.filterMap fun kv => (f kv.1).map fun q => (kv.1, q)).map (·.1) = kw.map (·.1)
  | [], _ => rfl
  | kv :: r, h => by
      have h0 := h kv (by simp)
      cases hf : f kv.1 with
      | none => simp [hf] at h0
      | some q =>
          simp only [List.filterMap_cons, hf, Option.map_some, List.map_cons,
            filterMap_keys r (fun kv' h' => h kv' (by simp [h']))]

/-- after a successful `map_args` the keyword part of the mapping has exactly the call's keywords, in
    the call's order (what the header of `Model/Resolve.lean` says in prose) -/
theorem mapArgs_kwd_keys (L : Lattice) (ps : List Param) (args : List Arg) (kw : KwArgs) (m : Mapping)
    (h : mapArgs L ps args kw = some m) : m.kwd.map (·.1) = kw.map (·.1) := by
  rw [mapArgs_eq_finish] at h
  cases hl : mapLoop ps args { pos := List.replicate args.length (starParam ps), kwd := [], rest := kw } ps with
  | none => simp [hl] at h
  | some st =>
      simp only [hl, Option.bind_some, mapFinish_eq] at h
      have hc : Cover kw st := mapLoop_cover ps args ps _ st hl (fun kv hkv => Or.inl (by
        simp only [ahas, List.any_eq_true]; exact ⟨kv, hkv, by simp⟩))
      cases hk : kwdOf ps st with
      | none => simp [hk] at h
      | some kwd =>
          simp only [hk] at h
          have hall : ∀ kv ∈ kw, (alookup kv.1 kwd).isSome = true := by
            intro kv hkv
            unfold kwdOf at hk
            by_cases he : st.rest.isEmpty = true
            · simp only [he, if_true, Option.some.injEq] at hk
              subst hk
              have : st.rest = [] := by simpa using he
              rcases hc kv hkv with h1 | h1
              · simp [this, ahas] at h1
              · exact h1
            · simp only [he, Bool.false_eq_true, if_false] at hk
              cases hsp : starStarParam ps with
              | none => simp [hsp] at hk
              | some sp =>
                  simp only [hsp, Option.some.injEq] at hk
                  subst hk
                  exact isSome_foldl_aset sp kv.1 st.rest st.kwd (hc kv hkv)
          split at h
          · cases h
          · split at h
            · cases h
            · simp only [Option.some.injEq] at h
              subst h
              exact filterMap_keys (f := fun k => alookup k kwd) kw hall

/-! ## the evaluation pass in the two spellings -/

theorem evalPos_append_lazy : ∀ (lz : List Bool) (args : List Arg) (a : Arg), lz.length = args.length →
    evalPos (lz ++ [true]) (args ++ [a]) = ((evalPos lz args).1 ++ [a], (evalPos lz args).2)
  | [], [], a, _ => by simp [evalPos]
  | [], _ :: _, _, h => by simp at h
  | _ :: _, [], _, h => by simp at h
  | b :: lz, x :: args, a, h => by
      have ih := evalPos_append_lazy lz args a (by simpa using h)
      simp only [List.cons_append, evalPos, List.headD_cons, List.tail_cons, ih]
      by_cases hc : (!b && x.evaluable) = true <;> simp [hc]

theorem evalKw_append_lazy (n : Name) : ∀ (lz : List Bool) (kw : KwArgs) (a : Arg), lz.length = kw.length →
    evalKw (lz ++ [true]) (kw ++ [(n, a)]) = ((evalKw lz kw).1 ++ [(n, a)], (evalKw lz kw).2)
  | [], [], a, _ => by simp [evalKw]
  | [], _ :: _, _, h => by simp at h
  | _ :: _, [], _, h => by simp at h
  | b :: lz, (k, x) :: kw, a, h => by
      have ih := evalKw_append_lazy n lz kw a (by simpa using h)
      simp only [List.cons_append, evalKw, List.headD_cons, List.tail_cons, ih]
      by_cases hc : (!b && x.evaluable) = true <;> simp [hc]

theorem evalKw_keys : ∀ (lz : List Bool) (kw : KwArgs), (evalKw lz kw).1.map (·.1) = kw.map (·.1)
  | _, [] => rfl
  | lz, (k, x) :: kw => by
      simp only [evalKw]
      split <;> simp [evalKw_keys lz.tail kw]

theorem ahas_of_keys {α β : Type} (k : Name) (l1 : List (Name × α)) (l2 : List (Name × β))
    (h : l1.map (·.1) = l2.map (·.1)) : ahas k l1 = ahas k l2 := by
  have e : ∀ {γ : Type} (l : List (Name × γ)), ahas k l = (l.map (·.1)).any (· == k) := by
    intro γ l; simp [ahas, List.any_map, Function.comp_def]
  rw [e, e, h]

theorem selectLevel_single (L : Lattice) (args : List Arg) (kw : KwArgs) (cd : Cand) :
    selectLevel L args kw [[cd]] =
      match getDelegate L cd.fd.params args kw with
      | some b => Except.ok (cd.fd.id, b)
      | none => Except.error Err.noMatching := by
  cases hd : getDelegate L cd.fd.params args kw <;> simp [selectLevel, matchesOf, hd, winners, allSpec]

/-- the resolution against one definition, in closed form -/
theorem chooseOverload_single (L : Lattice) (f : FDef) (c : Call) (hnk : f.noKwargs = false)
    (args : List Arg) (kw : KwArgs) (htr : translateArgs false (callArgs c) c.kwargs = .ok (args, kw)) :
    chooseOverload L [[f]] c =
      match mapArgs L f.params args kw with
      | none => ⟨[], .error .noMatching⟩
      | some m =>
          ⟨(evalPos m.lazySig.pos args).2 ++ (evalKw m.lazySig.kw kw).2,
           match getDelegate L f.params (evalPos m.lazySig.pos args).1 (evalKw m.lazySig.kw kw).1 with
           | some b => .ok (f.id, b)
           | none => .error .noMatching⟩ := by
  unfold chooseOverload
  simp only [List.flatten_cons, List.flatten_nil, List.append_nil, List.map_cons, List.map_nil, hnk,
    List.any_cons, List.any_nil, Bool.or_false, id, Bool.false_and, Bool.false_eq_true, if_false,
    List.headD_cons, htr, mapLevels, mapLevel]
  cases hm : mapArgs L f.params args kw with
  | none => simp
  | some m =>
      simp only [List.isEmpty_cons, Bool.false_eq_true, if_false, Option.getD_some, selectLevel_single]

/-- **laziness is decided by the parameter an argument is bound to, not by its spelling**: a call
    whose last positional argument `a` is bound to a LAZY parameter `p`, and the same call with `a`
    passed by keyword under `p`'s alias name, have the same outcome - the same evaluation log (`a` is
    not evaluated in either, every other argument once, in the same order) and the same bound vector
    (or the same error) -/
theorem lazy_spelling_invariant (L : Lattice) (f : FDef) (c c' : Call) (args' : List Arg) (a : Arg) (kw : KwArgs)
    (p : Param) (pre post : List Param) (hnk : f.noKwargs = false)
    (htr : translateArgs false (callArgs c) c.kwargs = .ok (args' ++ [a], kw))
    (htr' : translateArgs false (callArgs c') c'.kwargs = .ok (args', kw ++ [(p.argName, a)]))
    (hps : f.params = pre ++ p :: post) (hslot : slotOf f.params p = some args'.length)
    (hs : args'.length < visCount f.params)
    (hothers : ∀ p' ∈ pre ++ post, slotOf f.params p' ≠ some args'.length ∧ NameOther p.argName p')
    (ha : a.isNoValue = false) (hkw : ahas p.argName kw = false)
    (hlazy : p.ty.isLazy = true) (hchk : check L p.ty a = true) :
    chooseOverload L [[f]] c' = chooseOverload L [[f]] c := by
  rw [chooseOverload_single L f c hnk _ _ htr, chooseOverload_single L f c' hnk _ _ htr']
  obtain ⟨hmove, hlast⟩ := mapArgs_kw_move L f.params args' a kw p pre post hps hslot hothers ha hkw hchk
  rw [hmove]
  cases hm : mapArgs L f.params (args' ++ [a]) kw with
  | none => rfl
  | some m =>
      obtain ⟨pos0, hpos, hlen⟩ := hlast m hm
      have hklen : (m.kwd.map (·.2.ty.isLazy)).length = kw.length := by
        have := congrArg List.length (mapArgs_kwd_keys L f.params _ kw m hm)
        simpa using this
      have hsig1 : m.lazySig.pos = pos0.map (·.ty.isLazy) ++ [true] := by
        simp [Mapping.lazySig, hpos, hlazy]
      have hsig2 : (moveKw p.argName p m).lazySig =
          { pos := pos0.map (·.ty.isLazy), kw := m.lazySig.kw ++ [true] } := by
        simp [Mapping.lazySig, moveKw, hpos, hlazy]
      have hplen : (pos0.map (·.ty.isLazy)).length = args'.length := by simpa using hlen
      simp only [Option.map_some, hsig2, hsig1, evalPos_append_lazy _ _ a hplen,
        evalKw_append_lazy p.argName m.lazySig.kw kw a (by simpa [Mapping.lazySig] using hklen)]
      have hE : (evalPos (pos0.map (·.ty.isLazy)) args').1.length = args'.length := evalPos_args _ _
      have hK : ahas p.argName (evalKw m.lazySig.kw kw).1 = false := by
        rw [ahas_of_keys p.argName _ kw (evalKw_keys _ _)]; exact hkw
      have hdel := spelling_kw_move L f.params ((evalPos (pos0.map (·.ty.isLazy)) args').1 ++ [a])
        (evalPos (pos0.map (·.ty.isLazy)) args').1 (evalKw m.lazySig.kw kw).1 p pre post args'.length a hps hslot hs hothers
        (by rw [← hE]; exact given_append_self _ a ha)
        (by rw [← hE]; simp)
        hK (by rw [← hE]; exact slotFreed_dropLast _ a)
      rw [hdel]

/-- the same for any parameter of a definition whose table passed `movesOk` - which
    `C12Gen.registry_moves_ok` establishes for EVERY definition of the live registry: there the side
    conditions on the other parameters need not be supplied -/
theorem lazy_spelling_invariant_of_table (L : Lattice) (f : FDef) (c c' : Call) (args' : List Arg) (a : Arg)
    (kw : KwArgs) (p : Param) (i : Nat) (hok : movesOk f.params = true) (hnk : f.noKwargs = false)
    (htr : translateArgs false (callArgs c) c.kwargs = .ok (args' ++ [a], kw))
    (htr' : translateArgs false (callArgs c') c'.kwargs = .ok (args', kw ++ [(p.argName, a)]))
    (hi : f.params[i]? = some p) (hslot : slotOf f.params p = some args'.length)
    (ha : a.isNoValue = false) (hkw : ahas p.argName kw = false)
    (hlazy : p.ty.isLazy = true) (hchk : check L p.ty a = true) :
    chooseOverload L [[f]] c' = chooseOverload L [[f]] c := by
  obtain ⟨hps, hs, hothers⟩ := movesOk_spec hok hi hslot
  exact lazy_spelling_invariant L f c c' args' a kw p _ _ hnk htr htr' hps hslot hs hothers ha hkw hlazy hchk

/-! ## non-vacuity, and why the parameter has to be lazy -/

namespace Ex
open C05.Ex

/-- `toDict(collection, key_selector, value_selector = null)`-like: the parameters in the order of the
    definition's dict (as in yaql: last decorated first), keyword names by the camelCase convention -/
def pColl : Param := pos 'c' 0 (cls 4)
def pKey : Param :=
  { key := .name ['k', '_', 's'], name := ['k', '_', 's'], alias := some ['k', 'S'], position := some 1,
    default := none, ty := .lambda false }
def pVal : Param :=
  { key := .name ['v', '_', 's'], name := ['v', '_', 's'], alias := some ['v', 'S'], position := some 2,
    default := some (.value .none), ty := .lambda false }
/-- the same parameters, eagerly evaluated -/
def pValE : Param := { pVal with ty := cls 4 }
def pKeyE : Param := { pKey with ty := cls 4 }
def toDict : FDef := fn 0 [pVal, pKey, pColl]
def toDictE : FDef := fn 1 [pValE, pKeyE, pColl]

/-- `toDict(tick 1, <lambda 2>, <lambda 3>)` -/
def cPos : Call := { receiver := none, args := [tick 1, tick 2, tick 3], kwargs := [] }
/-- `toDict(tick 1, <lambda 2>, vS => <lambda 3>)`: handed over at the Python level .. -/
def cKw : Call := { receiver := none, args := [tick 1, tick 2], kwargs := [(['v', 'S'], tick 3)] }
/-- .. and written `vS => ..` in the argument list -/
def cKwSyntax : Call :=
  { receiver := none, args := [tick 1, tick 2, .mapRule (.const dVal .str (some ['v', 'S']) 1) (tick 3) .none 3],
    kwargs := [] }

def translatesTo (c : Call) (args : List Arg) (kw : KwArgs) : Bool :=
  match translateArgs false (callArgs c) c.kwargs with
  | .ok r => r == (args, kw)
  | .error _ => false

theorem translatesTo_spec {c : Call} {args : List Arg} {kw : KwArgs} (h : translatesTo c args kw = true) :
    translateArgs false (callArgs c) c.kwargs = .ok (args, kw) := by
  unfold translatesTo at h
  cases ht : translateArgs false (callArgs c) c.kwargs with
  | error e => simp [ht] at h
  | ok r => simp only [ht, beq_iff_eq] at h; rw [h]

/-- the hypotheses of `lazy_spelling_invariant` hold for these calls (both ways of writing the
    keyword), and the outcome is: only the collection is evaluated, the lambdas are bound unevaluated -/
example :
    translatesTo cPos ([tick 1, tick 2] ++ [tick 3]) [] = true ∧
    translatesTo cKw [tick 1, tick 2] ([] ++ [(pVal.argName, tick 3)]) = true ∧
    translatesTo cKwSyntax [tick 1, tick 2] ([] ++ [(pVal.argName, tick 3)]) = true ∧
    toDict.params = [] ++ pVal :: [pKey, pColl] ∧ slotOf toDict.params pVal = some [tick 1, tick 2].length ∧
    [tick 1, tick 2].length < visCount toDict.params ∧
    ([pKey, pColl].all fun p' => slotOf toDict.params p' != some 2 && (p'.hidden || p'.argName != pVal.argName)) = true ∧
    pVal.ty.isLazy = true ∧ check lat pVal.ty (tick 3) = true ∧
    (chooseOverload lat [[toDict]] cPos).log = [1] ∧
    chooseOverload lat [[toDict]] cKw = chooseOverload lat [[toDict]] cPos ∧
    chooseOverload lat [[toDict]] cKwSyntax = chooseOverload lat [[toDict]] cPos ∧
    (chooseOverload lat [[toDict]] cPos).res =
      .ok (0, { pos := [some (.arg (.value dVal)), some (.arg (tick 2)), some (.arg (tick 3))], extra := [], kw := [] }) := by
  decide

/-- the second-to-last argument moved behind a keyword that is already there: `f(1, <2>, vS => <3>)` and
    `f(1, vS => <3>, kS => <2>)`.  With lazy parameters nothing changes (the theorem, with
    `args' = [tick 1]`, `a = tick 2`, `kw = [(vS, tick 3)]`); with EAGER parameters the move is visible in
    the log, because keyword arguments are evaluated behind the positional ones in source order: the
    hypothesis `p.ty.isLazy` of `lazy_spelling_invariant` cannot be dropped -/
example :
    chooseOverload lat [[toDict]] { receiver := none, args := [tick 1], kwargs := [(['v', 'S'], tick 3), (['k', 'S'], tick 2)] } =
      chooseOverload lat [[toDict]] { receiver := none, args := [tick 1, tick 2], kwargs := [(['v', 'S'], tick 3)] } ∧
    (chooseOverload lat [[toDictE]]
      { receiver := none, args := [tick 1, tick 2], kwargs := [(['v', 'S'], tick 3)] }).log = [1, 2, 3] ∧
    (chooseOverload lat [[toDictE]]
      { receiver := none, args := [tick 1], kwargs := [(['v', 'S'], tick 3), (['k', 'S'], tick 2)] }).log = [1, 3, 2] := by
  decide

end Ex

end Yaql.Props.C11Spell
