import Yaql.Props.C11
import Yaql.Props.C12
/-!
C11, spelling: laziness is decided by the PARAMETER an argument is bound to, not by the way the
argument arrives.  Moving the last positional argument of a call to its keyword (alias) name

* makes `map_args` bind it to the same parameter (`mapArgs_kw_move`): the positional part of the
  mapping loses its last entry `p`, the keyword part gains `(p.argName, p)`,
* hence moves its laziness flag from the positional to the keyword part of the lazy signature
  (`lazySig_kw_move`),
* and, when that parameter is lazy, leaves the evaluation log and the bound vector - the whole
  outcome of the resolution - unchanged (`lazy_spelling_invariant` for one definition,
  `lazy_spelling_invariant_family` for a family of overloads that all own the slot that way).
-/
namespace Yaql.Props.C11Spell
open Yaql.Types Yaql.Resolve Yaql.Registry Yaql.Props.C05 Yaql.Props.C12 Yaql.Props.C11

/-! ## `given` on an argument list and on the list without its last argument -/

theorem given_append_lt (args' : List Arg) (a : Arg) {i : Nat} (h : i < args'.length) :
    given (args' ++ [a]) i = given args' i := by
  simp [given, List.getElem?_append_left h]

theorem given_append_self (args' : List Arg) (a : Arg) (ha : a.isNoValue = false) :
    given (args' ++ [a]) args'.length = true := by
  simp [given, ha]

theorem given_ge (args : List Arg) {i : Nat} (h : args.length ≤ i) : given args i = false := by
  simp [given, List.getElem?_eq_none h]

/-! ## the loop of `map_args` in the two spellings, side by side -/

/-- the states of the two runs: `stp` with the argument in its slot `s` (the last one), `stk` with
    the argument among the keywords under the name `n`; `done`: the parameter `p` has had its turn -/
structure Rel (n : Name) (a : Arg) (p : Param) (s : Nat) (done : Bool) (stp stk : MapSt) : Prop where
  len : stk.pos.length = s
  pos : ∃ x, stp.pos = stk.pos ++ [x] ∧ (done = true → x = some p)
  rest : stk.rest = if done then stp.rest else stp.rest ++ [(n, a)]
  nohas : ahas n stp.rest = false
  kwd : ∀ k, alookup k stk.kwd = if done && (n == k) then some p else alookup k stp.kwd

def StepRel (R : MapSt → MapSt → Prop) : Option MapSt → Option MapSt → Prop
  | some x, some y => R x y
  | none, none => True
  | _, _ => False

variable {n : Name} {a : Arg} {p : Param} {s : Nat} {done : Bool} {stp stk : MapSt}

theorem Rel.ahas_other (hR : Rel n a p s done stp stk) {an : Name} (hne : an ≠ n) :
    ahas an stk.rest = ahas an stp.rest := by
  rw [hR.rest]
  cases done
  · simp only [Bool.false_eq_true, if_false]
    exact ahas_append_other a stp.rest (Ne.symm hne)
  · simp

theorem Rel.set (hR : Rel n a p s done stp stk) {i : Nat} (hi : i < s) (v : Option Param) :
    Rel n a p s done { stp with pos := stp.pos.set i v } { stk with pos := stk.pos.set i v } := by
  obtain ⟨x, hx, hd⟩ := hR.pos
  refine ⟨by simp [hR.len], ⟨x, ?_, hd⟩, hR.rest, hR.nohas, hR.kwd⟩
  simp only [hx]
  rw [List.set_append]
  simp [hR.len, hi]

theorem Rel.toKwd (hR : Rel n a p s done stp stk) {an : Name} (hne : an ≠ n) (p' : Param) :
    Rel n a p s done { stp with kwd := aset an p' stp.kwd, rest := adel an stp.rest }
      { stk with kwd := aset an p' stk.kwd, rest := adel an stk.rest } := by
  refine ⟨hR.len, hR.pos, ?_, ?_, ?_⟩
  · simp only [hR.rest]
    cases done
    · simp only [Bool.false_eq_true, if_false]
      exact adel_append_other a stp.rest (Ne.symm hne)
    · simp
  · exact ahas_adel_false _ _ _ hR.nohas
  · intro k
    simp only [alookup_aset, hR.kwd k]
    by_cases h1 : (an == k) = true
    · have e1 : an = k := by simpa using h1
      have h2 : (n == k) = false := by
        cases h : n == k with
        | false => rfl
        | true => exact absurd ((beq_iff_eq.1 h).trans e1.symm).symm hne
      simp [h1, h2]
    · simp [h1]

/-- a parameter that owns another slot and is passed under another name takes the same branch in
    both runs -/
theorem mapStep_other (ps : List Param) (args' : List Arg) (hs : s = args'.length)
    (hR : Rel n a p s done stp stk) (p' : Param)
    (hslot : slotOf ps p' ≠ some s) (hname : NameOther n p') :
    StepRel (Rel n a p s done) (mapStep ps (args' ++ [a]) stp p') (mapStep ps args' stk p') := by
  unfold mapStep
  cases hq : p'.position with
  | none =>
      simp only
      by_cases h1 : p'.isStarStar = true
      · simpa [h1, StepRel] using hR
      · by_cases h2 : p'.hidden = true
        · simpa [h1, h2, StepRel] using hR
        · have hne : p'.argName ≠ n := hname (by simpa using h2)
          simp only [h1, h2, Bool.false_eq_true, if_false, hR.ahas_other hne]
          cases hah : ahas p'.argName stp.rest with
          | true => simpa [StepRel] using hR.toKwd hne p'
          | false =>
              cases hd : p'.default.isNone with
              | true => simp [StepRel]
              | false => simpa [StepRel] using hR
  | some q =>
      simp only
      by_cases h1 : p'.isStar = true
      · simpa [h1, StepRel] using hR
      · by_cases h2 : p'.hidden = true
        · simpa [h1, h2, StepRel] using hR
        · have hne : p'.argName ≠ n := hname (by simpa using h2)
          have hap : q - fixAt ps q ≠ s := by
            intro e
            apply hslot
            simp [slotOf, hq, h1, h2, e]
          simp only [h1, h2, Bool.false_eq_true, if_false, hR.ahas_other hne, List.length_append,
            List.length_singleton]
          rcases Nat.lt_or_gt_of_ne hap with hlt | hgt
          · have hlt' : q - fixAt ps q < args'.length := hs ▸ hlt
            rw [given_append_lt args' a hlt']
            cases hg : given args' (q - fixAt ps q) with
            | true =>
                cases hah : ahas p'.argName stp.rest with
                | true => simp [StepRel]
                | false => simpa [StepRel] using hR.set hlt (some p')
            | false =>
                cases hah : ahas p'.argName stp.rest with
                | true => simpa [StepRel] using hR.toKwd hne p'
                | false =>
                    cases hd : p'.default.isNone with
                    | true => simp [StepRel]
                    | false =>
                        have h3 : q - fixAt ps q < args'.length + 1 := by omega
                        simpa [StepRel, hlt', h3] using hR.set hlt (some p')
          · have hge : args'.length + 1 ≤ q - fixAt ps q := by omega
            have hge' : args'.length ≤ q - fixAt ps q := by omega
            rw [given_ge (args' ++ [a]) (by simpa using hge), given_ge args' hge']
            cases hah : ahas p'.argName stp.rest with
            | true => simpa [StepRel] using hR.toKwd hne p'
            | false =>
                cases hd : p'.default.isNone with
                | true => simp [StepRel]
                | false =>
                    have h3 : ¬ q - fixAt ps q < args'.length + 1 := by omega
                    have h4 : ¬ q - fixAt ps q < args'.length := by omega
                    simpa [StepRel, h3, h4] using hR

/-- the parameter itself: entered into its slot in one run, into the keyword part in the other -/
theorem mapStep_self (ps : List Param) (args' : List Arg) (hs : s = args'.length) (hn : n = p.argName)
    (ha : a.isNoValue = false) (hR : Rel n a p s false stp stk) (hslot : slotOf ps p = some s) :
    ∃ stp' stk', mapStep ps (args' ++ [a]) stp p = some stp' ∧ mapStep ps args' stk p = some stk' ∧
      Rel n a p s true stp' stk' := by
  unfold slotOf at hslot
  cases hq : p.position with
  | none => simp [hq] at hslot
  | some q =>
      simp only [hq] at hslot
      by_cases hsh : (p.isStar || p.hidden) = true
      · simp [hsh] at hslot
      · simp only [hsh, Bool.false_eq_true, if_false, Option.some.injEq] at hslot
        simp only [Bool.or_eq_true, not_or, Bool.not_eq_true] at hsh
        have hrk : stk.rest = stp.rest ++ [(n, a)] := by simpa using hR.rest
        have hnh : ahas p.argName stp.rest = false := hn ▸ hR.nohas
        have hhas : ahas p.argName stk.rest = true := by
          rw [hrk, ← hn]; simp [ahas]
        have hdel : adel p.argName stk.rest = stp.rest := by
          rw [hrk, ← hn]; exact adel_append_self n a stp.rest hR.nohas
        obtain ⟨x, hx, _⟩ := hR.pos
        refine ⟨{ stp with pos := stp.pos.set s (some p) },
          { stk with kwd := aset p.argName p stk.kwd, rest := adel p.argName stk.rest }, ?_, ?_, ?_⟩
        · unfold mapStep
          simp only [hq, hsh.1, hsh.2, Bool.false_eq_true, if_false, hslot, hs,
            given_append_self args' a ha, if_true, hnh]
        · unfold mapStep
          simp only [hq, hsh.1, hsh.2, Bool.false_eq_true, if_false, hslot, hs,
            given_ge args' (Nat.le_refl _), hhas, if_true]
        · refine ⟨hR.len, ⟨some p, ?_, fun _ => rfl⟩, by simpa using hdel, hR.nohas, ?_⟩
          · simp only [hx]
            rw [List.set_append]
            simp [hR.len]
          · intro k
            simp only [alookup_aset, hR.kwd k, ← hn, Bool.false_and, Bool.false_eq_true, if_false, Bool.true_and]

theorem mapLoop_other (ps : List Param) (args' : List Arg) (hs : s = args'.length) :
    ∀ (l : List Param) (stp stk : MapSt), Rel n a p s done stp stk →
      (∀ p' ∈ l, slotOf ps p' ≠ some s ∧ NameOther n p') →
      StepRel (Rel n a p s done) (mapLoop ps (args' ++ [a]) stp l) (mapLoop ps args' stk l)
  | [], stp, stk, hR, _ => by simpa [mapLoop, StepRel] using hR
  | p' :: r, stp, stk, hR, hl => by
      have h1 := mapStep_other ps args' hs hR p' (hl p' (by simp)).1 (hl p' (by simp)).2
      simp only [mapLoop]
      cases hp : mapStep ps (args' ++ [a]) stp p' with
      | none =>
          cases hk : mapStep ps args' stk p' with
          | none => simp [StepRel]
          | some y => simp [hp, hk, StepRel] at h1
      | some x =>
          cases hk : mapStep ps args' stk p' with
          | none => simp [hp, hk, StepRel] at h1
          | some y =>
              simp only [hp, hk, StepRel] at h1
              exact mapLoop_other ps args' hs r x y h1 (fun p' hp' => hl p' (by simp [hp']))

theorem mapLoop_append (ps : List Param) (args : List Arg) : ∀ (l1 l2 : List Param) (st : MapSt),
    mapLoop ps args st (l1 ++ l2) = (mapLoop ps args st l1).bind fun st' => mapLoop ps args st' l2
  | [], _, _ => rfl
  | p :: r, l2, st => by
      simp only [List.cons_append, mapLoop]
      cases mapStep ps args st p with
      | none => rfl
      | some st' => exact mapLoop_append ps args r l2 st'

/-- the whole loop: both runs fail, or both succeed in related states -/
theorem mapLoop_move (ps : List Param) (args' : List Arg) (kw : KwArgs) (pre post : List Param)
    (hps : ps = pre ++ p :: post) (hslot : slotOf ps p = some args'.length)
    (hothers : ∀ p' ∈ pre ++ post, slotOf ps p' ≠ some args'.length ∧ NameOther p.argName p')
    (ha : a.isNoValue = false) (hkw : ahas p.argName kw = false) :
    StepRel (Rel p.argName a p args'.length true)
      (mapLoop ps (args' ++ [a]) { pos := List.replicate (args'.length + 1) (starParam ps), kwd := [], rest := kw } ps)
      (mapLoop ps args' { pos := List.replicate args'.length (starParam ps), kwd := [], rest := kw ++ [(p.argName, a)] } ps) := by
  have h0 : Rel p.argName a p args'.length false
      { pos := List.replicate (args'.length + 1) (starParam ps), kwd := [], rest := kw }
      { pos := List.replicate args'.length (starParam ps), kwd := [], rest := kw ++ [(p.argName, a)] } := by
    refine ⟨by simp, ⟨starParam ps, ?_, by simp⟩, by simp, hkw, by simp⟩
    simp [List.replicate_succ']
  conv => lhs; arg 4; rw [hps]
  conv => rhs; arg 4; rw [hps]
  rw [mapLoop_append, mapLoop_append]
  have h1 := mapLoop_other (n := p.argName) (a := a) (p := p) (done := false) ps args' rfl pre _ _ h0
    (fun p' h => hothers p' (by simp [h]))
  cases hp : mapLoop ps (args' ++ [a]) { pos := List.replicate (args'.length + 1) (starParam ps), kwd := [], rest := kw } pre with
  | none =>
      cases hk : mapLoop ps args' { pos := List.replicate args'.length (starParam ps), kwd := [], rest := kw ++ [(p.argName, a)] } pre with
      | none => simp [StepRel]
      | some y => simp [hp, hk, StepRel] at h1
  | some x =>
      cases hk : mapLoop ps args' { pos := List.replicate args'.length (starParam ps), kwd := [], rest := kw ++ [(p.argName, a)] } pre with
      | none => simp [hp, hk, StepRel] at h1
      | some y =>
          simp only [hp, hk, StepRel] at h1
          obtain ⟨x', y', hx', hy', h2⟩ := mapStep_self ps args' rfl rfl ha h1 hslot
          simp only [Option.bind_some, mapLoop, hx', hy']
          exact mapLoop_other ps args' rfl post x' y' h2 (fun p' h => hothers p' (by simp [h]))

/-! ## the part of `map_args` behind the loop -/

/-- the mapping of the keyword spelling, from the mapping of the positional one -/
def moveKw (n : Name) (p : Param) (m : Mapping) : Mapping :=
  { pos := m.pos.dropLast, kwd := m.kwd ++ [(n, p)] }

theorem posOk_append (L : Lattice) (p : Param) (a : Arg) (ha : a.isNoValue = false) :
    ∀ (pos : List (Option Param)) (args : List Arg), pos.length = args.length →
      posOk L (pos ++ [some p]) (args ++ [a]) = (posOk L pos args && check L p.ty a)
  | [], [], _ => by simp [posOk, ha]
  | [], _ :: _, h => by simp at h
  | _ :: _, [], h => by simp at h
  | none :: r, x :: as, _ => by simp [posOk]
  | some q :: r, x :: as, h => by
      simp only [List.cons_append, posOk, posOk_append L p a ha r as (by simpa using h), Bool.and_assoc]

theorem posOk_length (L : Lattice) : ∀ (pos : List (Option Param)) (args : List Arg),
    posOk L pos args = true → (pos.filterMap id).length = pos.length
  | [], _, _ => rfl
  | none :: _, _, h => by simp [posOk] at h
  | some _ :: _, [], h => by simp [posOk] at h
  | some q :: r, x :: as, h => by
      simp only [posOk, Bool.and_eq_true] at h
      simp [posOk_length L r as h.2]

def KwdRel (n : Name) (p : Param) (kk kp : List (Name × Param)) : Prop :=
  ∀ k, alookup k kk = if n == k then some p else alookup k kp

theorem not_has_ne {α : Type} {n : Name} : ∀ {l : List (Name × α)}, ahas n l = false → ∀ kv ∈ l, kv.1 ≠ n
  | [], _, _, h => by cases h
  | x :: r, h, kv, hkv => by
      simp only [ahas, List.any_cons, Bool.or_eq_false_iff] at h
      rcases List.mem_cons.1 hkv with rfl | hr
      · intro e; simp [e] at h
      · exact not_has_ne (l := r) (by simpa [ahas] using h.2) kv hr

theorem kwdRel_aset {n : Name} {p : Param} {kk kp : List (Name × Param)} (h : KwdRel n p kk kp) {k' : Name}
    (hne : k' ≠ n) (sp : Param) : KwdRel n p (aset k' sp kk) (aset k' sp kp) := by
  intro k
  simp only [alookup_aset, h k]
  by_cases h1 : (k' == k) = true
  · have e1 : k' = k := by simpa using h1
    have h2 : (n == k) = false := by
      cases hh : n == k with
      | false => rfl
      | true => exact absurd ((beq_iff_eq.1 hh).trans e1.symm).symm hne
    simp [h1, h2]
  · simp [h1]

theorem kwdRel_foldl {n : Name} {p : Param} (sp : Param) : ∀ (rest : KwArgs) (kk kp : List (Name × Param)),
    KwdRel n p kk kp → (∀ kv ∈ rest, kv.1 ≠ n) →
    KwdRel n p (rest.foldl (fun acc kv => aset kv.1 sp acc) kk) (rest.foldl (fun acc kv => aset kv.1 sp acc) kp)
  | [], _, _, h, _ => h
  | kv :: r, kk, kp, h, hr => by
      simp only [List.foldl_cons]
      exact kwdRel_foldl sp r _ _ (kwdRel_aset h (hr kv (by simp)) sp) (fun kv' h' => hr kv' (by simp [h']))

/-- `keyword_args` after the `**` part was entered -/
def kwdOf (ps : List Param) (st : MapSt) : Option (List (Name × Param)) :=
  if st.rest.isEmpty then some st.kwd
  else match starStarParam ps with
    | some sp => some (st.rest.foldl (fun acc kv => aset kv.1 sp acc) st.kwd)
    | none => none

theorem mapFinish_eq (L : Lattice) (ps : List Param) (args : List Arg) (kwargs : KwArgs) (st : MapSt) :
    mapFinish L ps args kwargs st =
      match kwdOf ps st with
      | none => none
      | some kwd =>
          if !posOk L st.pos args then none
          else if !(st.rest.all fun kv => checkOpt L (alookup kv.1 kwd) kv.2) then none
          else some { pos := st.pos.filterMap id,
                      kwd := kwargs.filterMap fun kv => (alookup kv.1 kwd).map fun p => (kv.1, p) } := rfl

theorem all_congr' {α : Type} {f g : α → Bool} : ∀ {l : List α}, (∀ x ∈ l, f x = g x) → l.all f = l.all g
  | [], _ => rfl
  | x :: r, h => by
      simp only [List.all_cons, h x (by simp), all_congr' (l := r) (fun y hy => h y (by simp [hy]))]

theorem filterMap_congr' {α β : Type} {f g : α → Option β} : ∀ {l : List α}, (∀ x ∈ l, f x = g x) →
    l.filterMap f = l.filterMap g
  | [], _ => rfl
  | x :: r, h => by
      simp only [List.filterMap_cons, h x (by simp), filterMap_congr' (l := r) (fun y hy => h y (by simp [hy]))]

theorem kwdOf_rel {n : Name} {a : Arg} {p : Param} {s : Nat} {stp stk : MapSt} (ps : List Param)
    (hR : Rel n a p s true stp stk) :
    match kwdOf ps stp, kwdOf ps stk with
    | some kp, some kk => KwdRel n p kk kp
    | none, none => True
    | _, _ => False := by
  have hrest : stk.rest = stp.rest := by simpa using hR.rest
  have hk0 : KwdRel n p stk.kwd stp.kwd := fun k => by simpa using hR.kwd k
  unfold kwdOf
  rw [hrest]
  by_cases he : stp.rest.isEmpty = true
  · simpa [he] using hk0
  · simp only [he, Bool.false_eq_true, if_false]
    cases starStarParam ps with
    | none => trivial
    | some sp => exact kwdRel_foldl sp stp.rest _ _ hk0 (not_has_ne hR.nohas)

theorem mapFinish_move (L : Lattice) (ps : List Param) (args' : List Arg) (a : Arg) (kw : KwArgs)
    {n : Name} {p : Param} {stp stk : MapSt} (hR : Rel n a p args'.length true stp stk)
    (ha : a.isNoValue = false) (hkw : ahas n kw = false) (hchk : check L p.ty a = true) :
    mapFinish L ps args' (kw ++ [(n, a)]) stk = (mapFinish L ps (args' ++ [a]) kw stp).map (moveKw n p) ∧
    ∀ m, mapFinish L ps (args' ++ [a]) kw stp = some m → ∃ pos0, m.pos = pos0 ++ [p] ∧ pos0.length = args'.length := by
  have hrest : stk.rest = stp.rest := by simpa using hR.rest
  obtain ⟨x, hx, hxp⟩ := hR.pos
  have hx' : stp.pos = stk.pos ++ [some p] := by rw [hx, hxp rfl]
  have hrel := kwdOf_rel ps hR
  rw [mapFinish_eq, mapFinish_eq]
  cases hkp : kwdOf ps stp with
  | none =>
      cases hkk : kwdOf ps stk with
      | none => simp
      | some kk => simp [hkp, hkk] at hrel
  | some kp =>
      cases hkk : kwdOf ps stk with
      | none => simp [hkp, hkk] at hrel
      | some kk =>
          simp only [hkp, hkk] at hrel
          have hpos : posOk L stp.pos (args' ++ [a]) = posOk L stk.pos args' := by
            rw [hx', posOk_append L p a ha stk.pos args' hR.len, hchk, Bool.and_true]
          have hall : (stk.rest.all fun kv => checkOpt L (alookup kv.1 kk) kv.2) =
              (stp.rest.all fun kv => checkOpt L (alookup kv.1 kp) kv.2) := by
            rw [hrest]
            apply all_congr'
            intro kv hkv
            have hne := not_has_ne hR.nohas kv hkv
            have h2 : (n == kv.1) = false := by
              cases hh : n == kv.1 with
              | false => rfl
              | true => exact absurd (beq_iff_eq.1 hh).symm hne
            rw [hrel kv.1, h2]; rfl
          have hkwd : ((kw ++ [(n, a)]).filterMap fun kv => (alookup kv.1 kk).map fun q => (kv.1, q)) =
              (kw.filterMap fun kv => (alookup kv.1 kp).map fun q => (kv.1, q)) ++ [(n, p)] := by
            rw [List.filterMap_append]
            congr 1
            · apply filterMap_congr'
              intro kv hkv
              have hne := not_has_ne hkw kv hkv
              have h2 : (n == kv.1) = false := by
                cases hh : n == kv.1 with
                | false => rfl
                | true => exact absurd (beq_iff_eq.1 hh).symm hne
              rw [hrel kv.1, h2]; rfl
            · simp [hrel n]
          simp only [hpos, hall]
          cases hpo : posOk L stk.pos args' with
          | false => simp
          | true =>
              cases hal : (stp.rest.all fun kv => checkOpt L (alookup kv.1 kp) kv.2) with
              | false => simp
              | true =>
                  simp only [Bool.not_true, Bool.false_eq_true, if_false, Option.map_some, Option.some.injEq]
                  refine ⟨?_, ?_⟩
                  · simp [moveKw, hkwd, hx', List.filterMap_append]
                  · intro m hm
                    subst hm
                    refine ⟨stk.pos.filterMap id, by simp [hx', List.filterMap_append], ?_⟩
                    rw [posOk_length L stk.pos args' hpo, hR.len]

/-- **`map_args` binds the argument to the same parameter in both spellings**: with the last
    positional argument `a` (slot `args'.length`, owned by `p`) moved to the keyword `p.argName`,
    `map_args` succeeds exactly when it did, the positional part of the mapping loses its last entry -
    which is `p` - and the keyword part gains `(p.argName, p)` -/
theorem mapArgs_kw_move (L : Lattice) (ps : List Param) (args' : List Arg) (a : Arg) (kw : KwArgs)
    (p : Param) (pre post : List Param)
    (hps : ps = pre ++ p :: post) (hslot : slotOf ps p = some args'.length)
    (hothers : ∀ p' ∈ pre ++ post, slotOf ps p' ≠ some args'.length ∧ NameOther p.argName p')
    (ha : a.isNoValue = false) (hkw : ahas p.argName kw = false) (hchk : check L p.ty a = true) :
    mapArgs L ps args' (kw ++ [(p.argName, a)]) = (mapArgs L ps (args' ++ [a]) kw).map (moveKw p.argName p) ∧
    ∀ m, mapArgs L ps (args' ++ [a]) kw = some m → ∃ pos0, m.pos = pos0 ++ [p] ∧ pos0.length = args'.length := by
  have hl := mapLoop_move (a := a) ps args' kw pre post hps hslot hothers ha hkw
  rw [mapArgs_eq_finish, mapArgs_eq_finish]
  simp only [List.length_append, List.length_singleton]
  cases hp : mapLoop ps (args' ++ [a]) { pos := List.replicate (args'.length + 1) (starParam ps), kwd := [], rest := kw } ps with
  | none =>
      cases hk : mapLoop ps args' { pos := List.replicate args'.length (starParam ps), kwd := [], rest := kw ++ [(p.argName, a)] } ps with
      | none => simp
      | some y => simp [hp, hk, StepRel] at hl
  | some x =>
      cases hk : mapLoop ps args' { pos := List.replicate args'.length (starParam ps), kwd := [], rest := kw ++ [(p.argName, a)] } ps with
      | none => simp [hp, hk, StepRel] at hl
      | some y =>
          simp only [hp, hk, StepRel] at hl
          simpa using mapFinish_move L ps args' a kw hl ha hkw hchk

/-! ## every keyword of the call is bound by the mapping -/

def Cover (kw : KwArgs) (st : MapSt) : Prop :=
  ∀ kv ∈ kw, ahas kv.1 st.rest = true ∨ (alookup kv.1 st.kwd).isSome = true

theorem cover_kwd {kw : KwArgs} {st : MapSt} (an : Name) (q : Param) (hc : Cover kw st) :
    Cover kw { st with kwd := aset an q st.kwd, rest := adel an st.rest } := by
  intro kv hkv
  by_cases h : (an == kv.1) = true
  · right; simp [alookup_aset, h]
  · have hne : kv.1 ≠ an := fun e => h (by simp [e])
    rcases hc kv hkv with h1 | h1
    · left; rw [ahas_adel_other hne]; exact h1
    · right; simpa [alookup_aset, h] using h1

theorem mapStep_cover {kw : KwArgs} (ps : List Param) (args : List Arg) (st st' : MapSt) (q : Param)
    (h : mapStep ps args st q = some st') (hc : Cover kw st) : Cover kw st' := by
  unfold mapStep at h
  cases hq : q.position with
  | none =>
      simp only [hq] at h
      by_cases h1 : q.isStarStar = true
      · simp only [h1, if_true, Option.some.injEq] at h; exact h ▸ hc
      · by_cases h2 : q.hidden = true
        · simp only [h1, h2, if_true, Bool.false_eq_true, if_false, Option.some.injEq] at h; exact h ▸ hc
        · cases hah : ahas q.argName st.rest <;> cases hd : q.default.isNone <;>
            simp only [h1, h2, hah, hd, if_true, Bool.false_eq_true, if_false, Option.some.injEq, reduceCtorEq] at h
          all_goals (subst h; first | exact hc | exact cover_kwd _ _ hc)
  | some i =>
      simp only [hq] at h
      by_cases h1 : q.isStar = true
      · simp only [h1, if_true, Option.some.injEq] at h; exact h ▸ hc
      · by_cases h2 : q.hidden = true
        · simp only [h1, h2, if_true, Bool.false_eq_true, if_false, Option.some.injEq] at h; exact h ▸ hc
        · cases hg : given args (i - fixAt ps i) <;> cases hah : ahas q.argName st.rest <;>
            cases hd : q.default.isNone <;> by_cases hlt : i - fixAt ps i < args.length <;>
            simp only [h1, h2, hg, hah, hd, hlt, if_true, Bool.false_eq_true, if_false, Option.some.injEq,
              reduceCtorEq] at h
          all_goals (subst h; first | exact hc | exact cover_kwd _ _ hc)

theorem mapLoop_cover {kw : KwArgs} (ps : List Param) (args : List Arg) : ∀ (l : List Param) (st st' : MapSt),
    mapLoop ps args st l = some st' → Cover kw st → Cover kw st'
  | [], st, st', h, hc => by simp only [mapLoop, Option.some.injEq] at h; exact h ▸ hc
  | q :: r, st, st', h, hc => by
      simp only [mapLoop] at h
      cases hs : mapStep ps args st q with
      | none => simp [hs] at h
      | some st1 =>
          simp only [hs] at h
          exact mapLoop_cover ps args r st1 st' h (mapStep_cover ps args st st1 q hs hc)

theorem isSome_foldl_aset (sp : Param) (k : Name) : ∀ (rest : KwArgs) (acc : List (Name × Param)),
    (ahas k rest = true ∨ (alookup k acc).isSome = true) →
    (alookup k (rest.foldl (fun acc kv => aset kv.1 sp acc) acc)).isSome = true
  | [], acc, h => by
      rcases h with h | h
      · simp [ahas] at h
      · exact h
  | kv :: r, acc, h => by
      simp only [List.foldl_cons]
      apply isSome_foldl_aset sp k r
      rw [alookup_aset]
      by_cases hk : (kv.1 == k) = true
      · exact Or.inr (by simp [hk])
      · rcases h with h | h
        · simp only [ahas, List.any_cons, Bool.or_eq_true] at h
          rcases h with h | h
          · exact absurd h hk
          · exact Or.inl (by simpa [ahas] using h)
        · exact Or.inr (by simpa [hk] using h)

theorem filterMap_keys {f : Name → Option Param} : ∀ (kw : KwArgs), (∀ kv ∈ kw, (f kv.1).isSome = true) →
    (kw.filterMap fun kv => (f kv.1).map fun q => (kv.1, q)).map (·.1) = kw.map (·.1)
  | [], _ => rfl
  | kv :: r, h => by
      have h0 := h kv (by simp)
      cases hf : f kv.1 with
      | none => simp [hf] at h0
      | some q =>
          simp only [List.filterMap_cons, hf, Option.map_some, List.map_cons,
            filterMap_keys r (fun kv' h' => h kv' (by simp [h']))]

/-- after a successful `map_args` the keyword part of the mapping has exactly the call's keywords, in
    the call's order (what the header of `Model/Resolve.lean` says in prose) -/
theorem mapArgs_kwd_keys (L : Lattice) (ps : List Param) (args : List Arg) (kw : KwArgs) (m : Mapping)
    (h : mapArgs L ps args kw = some m) : m.kwd.map (·.1) = kw.map (·.1) := by
  rw [mapArgs_eq_finish] at h
  cases hl : mapLoop ps args { pos := List.replicate args.length (starParam ps), kwd := [], rest := kw } ps with
  | none => simp [hl] at h
  | some st =>
      simp only [hl, Option.bind_some, mapFinish_eq] at h
      have hc : Cover kw st := mapLoop_cover ps args ps _ st hl (fun kv hkv => Or.inl (by
        simp only [ahas, List.any_eq_true]; exact ⟨kv, hkv, by simp⟩))
      cases hk : kwdOf ps st with
      | none => simp [hk] at h
      | some kwd =>
          simp only [hk] at h
          have hall : ∀ kv ∈ kw, (alookup kv.1 kwd).isSome = true := by
            intro kv hkv
            unfold kwdOf at hk
            by_cases he : st.rest.isEmpty = true
            · simp only [he, if_true, Option.some.injEq] at hk
              subst hk
              have : st.rest = [] := by simpa using he
              rcases hc kv hkv with h1 | h1
              · simp [this, ahas] at h1
              · exact h1
            · simp only [he, Bool.false_eq_true, if_false] at hk
              cases hsp : starStarParam ps with
              | none => simp [hsp] at hk
              | some sp =>
                  simp only [hsp, Option.some.injEq] at hk
                  subst hk
                  exact isSome_foldl_aset sp kv.1 st.rest st.kwd (hc kv hkv)
          split at h
          · cases h
          · split at h
            · cases h
            · simp only [Option.some.injEq] at h
              subst h
              exact filterMap_keys (f := fun k => alookup k kwd) kw hall

/-! ## the evaluation pass in the two spellings -/

theorem evalPos_append_lazy : ∀ (lz : List Bool) (args : List Arg) (a : Arg), lz.length = args.length →
    evalPos (lz ++ [true]) (args ++ [a]) = ((evalPos lz args).1 ++ [a], (evalPos lz args).2)
  | [], [], a, _ => by simp [evalPos]
  | [], _ :: _, _, h => by simp at h
  | _ :: _, [], _, h => by simp at h
  | b :: lz, x :: args, a, h => by
      have ih := evalPos_append_lazy lz args a (by simpa using h)
      simp only [List.cons_append, evalPos, List.headD_cons, List.tail_cons, ih]
      by_cases hc : (!b && x.evaluable) = true <;> simp [hc]

theorem evalKw_append_lazy (n : Name) : ∀ (lz : List Bool) (kw : KwArgs) (a : Arg), lz.length = kw.length →
    evalKw (lz ++ [true]) (kw ++ [(n, a)]) = ((evalKw lz kw).1 ++ [(n, a)], (evalKw lz kw).2)
  | [], [], a, _ => by simp [evalKw]
  | [], _ :: _, _, h => by simp at h
  | _ :: _, [], _, h => by simp at h
  | b :: lz, (k, x) :: kw, a, h => by
      have ih := evalKw_append_lazy n lz kw a (by simpa using h)
      simp only [List.cons_append, evalKw, List.headD_cons, List.tail_cons, ih]
      by_cases hc : (!b && x.evaluable) = true <;> simp [hc]

theorem evalKw_keys : ∀ (lz : List Bool) (kw : KwArgs), (evalKw lz kw).1.map (·.1) = kw.map (·.1)
  | _, [] => rfl
  | lz, (k, x) :: kw => by
      simp only [evalKw]
      split <;> simp [evalKw_keys lz.tail kw]

theorem ahas_of_keys {α β : Type} (k : Name) (l1 : List (Name × α)) (l2 : List (Name × β))
    (h : l1.map (·.1) = l2.map (·.1)) : ahas k l1 = ahas k l2 := by
  have e : ∀ {γ : Type} (l : List (Name × γ)), ahas k l = (l.map (·.1)).any (· == k) := by
    intro γ l; simp [ahas, List.any_map, Function.comp_def]
  rw [e, e, h]

theorem selectLevel_single (L : Lattice) (args : List Arg) (kw : KwArgs) (cd : Cand) :
    selectLevel L args kw [[cd]] =
      match getDelegate L cd.fd.params args kw with
      | some b => Except.ok (cd.fd.id, b)
      | none => Except.error Err.noMatching := by
  cases hd : getDelegate L cd.fd.params args kw <;> simp [selectLevel, matchesOf, hd, winners, allSpec]

/-- the resolution against one definition, in closed form -/
theorem chooseOverload_single (L : Lattice) (f : FDef) (c : Call) (hnk : f.noKwargs = false)
    (args : List Arg) (kw : KwArgs) (htr : translateArgs false (callArgs c) c.kwargs = .ok (args, kw)) :
    chooseOverload L [[f]] c =
      match mapArgs L f.params args kw with
      | none => ⟨[], .error .noMatching⟩
      | some m =>
          ⟨(evalPos m.lazySig.pos args).2 ++ (evalKw m.lazySig.kw kw).2,
           match getDelegate L f.params (evalPos m.lazySig.pos args).1 (evalKw m.lazySig.kw kw).1 with
           | some b => .ok (f.id, b)
           | none => .error .noMatching⟩ := by
  unfold chooseOverload
  simp only [List.flatten_cons, List.flatten_nil, List.append_nil, List.map_cons, List.map_nil, hnk,
    List.any_cons, List.any_nil, Bool.or_false, id, Bool.false_and, Bool.false_eq_true, if_false,
    List.headD_cons, htr, mapLevels, mapLevel]
  cases hm : mapArgs L f.params args kw with
  | none => simp
  | some m =>
      simp only [List.isEmpty_cons, Bool.false_eq_true, if_false, Option.getD_some, selectLevel_single]

/-- **laziness is decided by the parameter an argument is bound to, not by its spelling**: a call
    whose last positional argument `a` is bound to a LAZY parameter `p`, and the same call with `a`
    passed by keyword under `p`'s alias name, have the same outcome - the same evaluation log (`a` is
    not evaluated in either, every other argument once, in the same order) and the same bound vector
    (or the same error) -/
theorem lazy_spelling_invariant (L : Lattice) (f : FDef) (c c' : Call) (args' : List Arg) (a : Arg) (kw : KwArgs)
    (p : Param) (pre post : List Param) (hnk : f.noKwargs = false)
    (htr : translateArgs false (callArgs c) c.kwargs = .ok (args' ++ [a], kw))
    (htr' : translateArgs false (callArgs c') c'.kwargs = .ok (args', kw ++ [(p.argName, a)]))
    (hps : f.params = pre ++ p :: post) (hslot : slotOf f.params p = some args'.length)
    (hs : args'.length < visCount f.params)
    (hothers : ∀ p' ∈ pre ++ post, slotOf f.params p' ≠ some args'.length ∧ NameOther p.argName p')
    (ha : a.isNoValue = false) (hkw : ahas p.argName kw = false)
    (hlazy : p.ty.isLazy = true) (hchk : check L p.ty a = true) :
    chooseOverload L [[f]] c' = chooseOverload L [[f]] c := by
  rw [chooseOverload_single L f c hnk _ _ htr, chooseOverload_single L f c' hnk _ _ htr']
  obtain ⟨hmove, hlast⟩ := mapArgs_kw_move L f.params args' a kw p pre post hps hslot hothers ha hkw hchk
  rw [hmove]
  cases hm : mapArgs L f.params (args' ++ [a]) kw with
  | none => rfl
  | some m =>
      obtain ⟨pos0, hpos, hlen⟩ := hlast m hm
      have hklen : (m.kwd.map (·.2.ty.isLazy)).length = kw.length := by
        have := congrArg List.length (mapArgs_kwd_keys L f.params _ kw m hm)
        simpa using this
      have hsig1 : m.lazySig.pos = pos0.map (·.ty.isLazy) ++ [true] := by
        simp [Mapping.lazySig, hpos, hlazy]
      have hsig2 : (moveKw p.argName p m).lazySig =
          { pos := pos0.map (·.ty.isLazy), kw := m.lazySig.kw ++ [true] } := by
        simp [Mapping.lazySig, moveKw, hpos, hlazy]
      have hplen : (pos0.map (·.ty.isLazy)).length = args'.length := by simpa using hlen
      simp only [Option.map_some, hsig2, hsig1, evalPos_append_lazy _ _ a hplen,
        evalKw_append_lazy p.argName m.lazySig.kw kw a (by simpa [Mapping.lazySig] using hklen)]
      have hE : (evalPos (pos0.map (·.ty.isLazy)) args').1.length = args'.length := evalPos_args _ _
      have hK : ahas p.argName (evalKw m.lazySig.kw kw).1 = false := by
        rw [ahas_of_keys p.argName _ kw (evalKw_keys _ _)]; exact hkw
      have hdel := spelling_kw_move L f.params ((evalPos (pos0.map (·.ty.isLazy)) args').1 ++ [a])
        (evalPos (pos0.map (·.ty.isLazy)) args').1 (evalKw m.lazySig.kw kw).1 p pre post args'.length a hps hslot hs hothers
        (by rw [← hE]; exact given_append_self _ a ha)
        (by rw [← hE]; simp)
        hK (by rw [← hE]; exact slotFreed_dropLast _ a)
      rw [hdel]

/-- the same for any parameter of a definition whose table passed `movesOk` - which
    `C12Gen.registry_moves_ok` establishes for EVERY definition of the live registry: there the side
    conditions on the other parameters need not be supplied -/
theorem lazy_spelling_invariant_of_table (L : Lattice) (f : FDef) (c c' : Call) (args' : List Arg) (a : Arg)
    (kw : KwArgs) (p : Param) (i : Nat) (hok : movesOk f.params = true) (hnk : f.noKwargs = false)
    (htr : translateArgs false (callArgs c) c.kwargs = .ok (args' ++ [a], kw))
    (htr' : translateArgs false (callArgs c') c'.kwargs = .ok (args', kw ++ [(p.argName, a)]))
    (hi : f.params[i]? = some p) (hslot : slotOf f.params p = some args'.length)
    (ha : a.isNoValue = false) (hkw : ahas p.argName kw = false)
    (hlazy : p.ty.isLazy = true) (hchk : check L p.ty a = true) :
    chooseOverload L [[f]] c' = chooseOverload L [[f]] c := by
  obtain ⟨hps, hs, hothers⟩ := movesOk_spec hok hi hslot
  exact lazy_spelling_invariant L f c c' args' a kw p _ _ hnk htr htr' hps hslot hs hothers ha hkw hlazy hchk

/-! ## non-vacuity, and why the parameter has to be lazy -/

namespace Ex
open C05.Ex

/-- `toDict(collection, key_selector, value_selector = null)`-like: the parameters in the order of the
    definition's dict (as in yaql: last decorated first), keyword names by the camelCase convention -/
def pColl : Param := pos 'c' 0 (cls 4)
def pKey : Param :=
  { key := .name ['k', '_', 's'], name := ['k', '_', 's'], alias := some ['k', 'S'], position := some 1,
    default := none, ty := .lambda false }
def pVal : Param :=
  { key := .name ['v', '_', 's'], name := ['v', '_', 's'], alias := some ['v', 'S'], position := some 2,
    default := some (.value .none), ty := .lambda false }
/-- the same parameters, eagerly evaluated -/
def pValE : Param := { pVal with ty := cls 4 }
def pKeyE : Param := { pKey with ty := cls 4 }
def toDict : FDef := fn 0 [pVal, pKey, pColl]
def toDictE : FDef := fn 1 [pValE, pKeyE, pColl]

/-- `toDict(tick 1, <lambda 2>, <lambda 3>)` -/
def cPos : Call := { receiver := none, args := [tick 1, tick 2, tick 3], kwargs := [] }
/-- `toDict(tick 1, <lambda 2>, vS => <lambda 3>)`: handed over at the Python level .. -/
def cKw : Call := { receiver := none, args := [tick 1, tick 2], kwargs := [(['v', 'S'], tick 3)] }
/-- .. and written `vS => ..` in the argument list -/
def cKwSyntax : Call :=
  { receiver := none, args := [tick 1, tick 2, .mapRule (.const dVal .str (some ['v', 'S']) 1) (tick 3) .none 3],
    kwargs := [] }

def translatesTo (c : Call) (args : List Arg) (kw : KwArgs) : Bool :=
  match translateArgs false (callArgs c) c.kwargs with
  | .ok r => r == (args, kw)
  | .error _ => false

theorem translatesTo_spec {c : Call} {args : List Arg} {kw : KwArgs} (h : translatesTo c args kw = true) :
    translateArgs false (callArgs c) c.kwargs = .ok (args, kw) := by
  unfold translatesTo at h
  cases ht : translateArgs false (callArgs c) c.kwargs with
  | error e => simp [ht] at h
  | ok r => simp only [ht, beq_iff_eq] at h; rw [h]

/-- the hypotheses of `lazy_spelling_invariant` hold for these calls (both ways of writing the
    keyword), and the outcome is: only the collection is evaluated, the lambdas are bound unevaluated -/
example :
    translatesTo cPos ([tick 1, tick 2] ++ [tick 3]) [] = true ∧
    translatesTo cKw [tick 1, tick 2] ([] ++ [(pVal.argName, tick 3)]) = true ∧
    translatesTo cKwSyntax [tick 1, tick 2] ([] ++ [(pVal.argName, tick 3)]) = true ∧
    toDict.params = [] ++ pVal :: [pKey, pColl] ∧ slotOf toDict.params pVal = some [tick 1, tick 2].length ∧
    [tick 1, tick 2].length < visCount toDict.params ∧
    ([pKey, pColl].all fun p' => slotOf toDict.params p' != some 2 && (p'.hidden || p'.argName != pVal.argName)) = true ∧
    pVal.ty.isLazy = true ∧ check lat pVal.ty (tick 3) = true ∧
    (chooseOverload lat [[toDict]] cPos).log = [1] ∧
    chooseOverload lat [[toDict]] cKw = chooseOverload lat [[toDict]] cPos ∧
    chooseOverload lat [[toDict]] cKwSyntax = chooseOverload lat [[toDict]] cPos ∧
    (chooseOverload lat [[toDict]] cPos).res =
      .ok (0, { pos := [some (.arg (.value dVal)), some (.arg (tick 2)), some (.arg (tick 3))], extra := [], kw := [] }) := by
  decide

/-- the second-to-last argument moved behind a keyword that is already there: `f(1, <2>, vS => <3>)` and
    `f(1, vS => <3>, kS => <2>)`.  With lazy parameters nothing changes (the theorem, with
    `args' = [tick 1]`, `a = tick 2`, `kw = [(vS, tick 3)]`); with EAGER parameters the move is visible in
    the log, because keyword arguments are evaluated behind the positional ones in source order: the
    hypothesis `p.ty.isLazy` of `lazy_spelling_invariant` cannot be dropped -/
example :
    chooseOverload lat [[toDict]] { receiver := none, args := [tick 1], kwargs := [(['v', 'S'], tick 3), (['k', 'S'], tick 2)] } =
      chooseOverload lat [[toDict]] { receiver := none, args := [tick 1, tick 2], kwargs := [(['v', 'S'], tick 3)] } ∧
    (chooseOverload lat [[toDictE]]
      { receiver := none, args := [tick 1, tick 2], kwargs := [(['v', 'S'], tick 3)] }).log = [1, 2, 3] ∧
    (chooseOverload lat [[toDictE]]
      { receiver := none, args := [tick 1], kwargs := [(['v', 'S'], tick 3), (['k', 'S'], tick 2)] }).log = [1, 3, 2] := by
  decide

end Ex

/-! ## a whole family of overloads

If EVERY visible candidate owns the moved slot with a lazy parameter passed under the same keyword name,
the call with the last positional argument moved to that keyword has the same outcome
(`lazy_spelling_invariant_family`; through `C05.chooseOverload_eq`, the declarative form of the resolver).
Without the condition on every candidate the statement is false in the model and in the real code:
`map_args` does not type-check keywords taken by named parameters, so a candidate that is dropped in the
positional spelling can stay in the keyword spelling with another lazy signature (`C12`, notes). -/

/-- what makes the move legal for one definition: the slot behind `args'` is owned by a LAZY parameter
    that is passed under the name `n`, no other parameter owns the slot or the name, and the argument
    passes that parameter's `check` -/
def MoveOk (L : Lattice) (args' : List Arg) (a : Arg) (n : Name) (f : FDef) : Prop :=
  ∃ p pre post, f.params = pre ++ p :: post ∧ p.argName = n ∧ slotOf f.params p = some args'.length ∧
    args'.length < visCount f.params ∧
    (∀ p' ∈ pre ++ post, slotOf f.params p' ≠ some args'.length ∧ NameOther n p') ∧
    p.ty.isLazy = true ∧ check L p.ty a = true

/-- for a definition whose table passed `movesOk` (`C12Gen.registry_moves_ok`: every definition of the live
    registry) the conditions on the other parameters need not be supplied -/
theorem MoveOk.of_table {L : Lattice} {args' : List Arg} {a : Arg} {f : FDef} {p : Param} {i : Nat}
    (hok : movesOk f.params = true) (hi : f.params[i]? = some p) (hslot : slotOf f.params p = some args'.length)
    (hlazy : p.ty.isLazy = true) (hchk : check L p.ty a = true) : MoveOk L args' a p.argName f := by
  obtain ⟨hps, hs, hothers⟩ := movesOk_spec hok hi hslot
  exact ⟨p, _, _, hps, rfl, hslot, hs, hothers, hlazy, hchk⟩

/-- the mapping of the keyword spelling, whatever the parameter in the last slot is -/
def moveKwG (n : Name) (m : Mapping) : Mapping :=
  match m.pos.getLast? with
  | some p => moveKw n p m
  | none => m

def mvCand (n : Name) (c : Cand) : Cand := ⟨c.fd, moveKwG n c.mapping⟩
def mvMatch (n : Name) (m : Match) : Match := ⟨mvCand n m.cand, m.bound⟩
def mvSig (s : LazySig) : LazySig := ⟨s.pos.dropLast, s.kw ++ [true]⟩

/-- what the later stages need to know about a mapped candidate of the positional spelling -/
structure Good (L : Lattice) (args' : List Arg) (a : Arg) (kw : KwArgs) (n : Name) (c : Cand) : Prop where
  last : ∃ pos0 p, c.mapping.pos = pos0 ++ [p] ∧ pos0.length = args'.length ∧ p.ty.isLazy = true
  klen : c.mapping.kwd.length = kw.length
  deleg : ∀ (E : List Arg) (K : KwArgs), E.length = args'.length → ahas n K = false →
    getDelegate L c.fd.params E (K ++ [(n, a)]) = getDelegate L c.fd.params (E ++ [a]) K

variable {L : Lattice} {args' : List Arg} {a : Arg} {kw : KwArgs} {n : Name}

theorem good_of_mapped (ha : a.isNoValue = false) {f : FDef} (hf : MoveOk L args' a n f) {m : Mapping}
    (hm : mapArgs L f.params (args' ++ [a]) kw = some m) (hkw : ahas n kw = false) :
    Good L args' a kw n ⟨f, m⟩ ∧ mapArgs L f.params args' (kw ++ [(n, a)]) = some (moveKwG n m) := by
  obtain ⟨p, pre, post, hps, hn, hslot, hs, hothers, hlazy, hchk⟩ := hf
  subst hn
  obtain ⟨hmove, hlast⟩ := mapArgs_kw_move L f.params args' a kw p pre post hps hslot hothers ha hkw hchk
  obtain ⟨pos0, hpos, hlen⟩ := hlast m hm
  refine ⟨⟨⟨pos0, p, hpos, hlen, hlazy⟩, ?_, ?_⟩, ?_⟩
  · have := congrArg List.length (mapArgs_kwd_keys L f.params _ kw m hm)
    simpa using this
  · intro E K hE hK
    exact spelling_kw_move L f.params (E ++ [a]) E K p pre post args'.length a hps hslot hs hothers
      (by rw [← hE]; exact given_append_self _ a ha) (by rw [← hE]; simp) hK
      (by rw [← hE]; exact slotFreed_dropLast _ a)
  · rw [hmove, hm]
    simp [moveKwG, hpos]

theorem mappedOf_move (ha : a.isNoValue = false) (hkw : ahas n kw = false) :
    ∀ (lv : List FDef), (∀ f ∈ lv, MoveOk L args' a n f) →
      mappedOf L args' (kw ++ [(n, a)]) lv = (mappedOf L (args' ++ [a]) kw lv).map (mvCand n) ∧
      ∀ c ∈ mappedOf L (args' ++ [a]) kw lv, Good L args' a kw n c
  | [], _ => by simp [mappedOf]
  | f :: r, h => by
      obtain ⟨ih1, ih2⟩ := mappedOf_move ha hkw r (fun f' hf' => h f' (by simp [hf']))
      have hf := h f (by simp)
      cases hm : mapArgs L f.params (args' ++ [a]) kw with
      | none =>
          obtain ⟨p, pre, post, hps, hn, hslot, hs, hothers, hlazy, hchk⟩ := hf
          subst hn
          have hmove := (mapArgs_kw_move L f.params args' a kw p pre post hps hslot hothers ha hkw hchk).1
          rw [hm] at hmove
          have e1 : mappedOf L (args' ++ [a]) kw (f :: r) = mappedOf L (args' ++ [a]) kw r := by
            simp [mappedOf, hm]
          have e2 : mappedOf L args' (kw ++ [(p.argName, a)]) (f :: r) = mappedOf L args' (kw ++ [(p.argName, a)]) r := by
            simp only [mappedOf, List.filterMap_cons, hmove, Option.map_none]
          rw [e1, e2]
          exact ⟨ih1, ih2⟩
      | some m =>
          obtain ⟨hg, hm'⟩ := good_of_mapped ha hf hm hkw
          have e1 : mappedOf L (args' ++ [a]) kw (f :: r) = ⟨f, m⟩ :: mappedOf L (args' ++ [a]) kw r := by
            simp [mappedOf, hm]
          have e2 : mappedOf L args' (kw ++ [(n, a)]) (f :: r) =
              ⟨f, moveKwG n m⟩ :: mappedOf L args' (kw ++ [(n, a)]) r := by
            simp [mappedOf, hm']
          rw [e1, e2, ih1]
          refine ⟨by simp [mvCand], ?_⟩
          intro c hc
          rcases List.mem_cons.1 hc with rfl | hc'
          · exact hg
          · exact ih2 c hc'

/-! ### laziness signatures -/

theorem Good.sig_pos {c : Cand} (hg : Good L args' a kw n c) :
    ∃ lz0, c.sig.pos = lz0 ++ [true] ∧ lz0.length = args'.length := by
  obtain ⟨pos0, p, hpos, hlen, hlazy⟩ := hg.last
  exact ⟨pos0.map (·.ty.isLazy), by simp [Cand.sig, Mapping.lazySig, hpos, hlazy], by simpa using hlen⟩

theorem Good.sig_kw {c : Cand} (hg : Good L args' a kw n c) : c.sig.kw.length = kw.length := by
  simpa [Cand.sig, Mapping.lazySig] using hg.klen

theorem Good.sig_move {c : Cand} (hg : Good L args' a kw n c) : (mvCand n c).sig = mvSig c.sig := by
  obtain ⟨pos0, p, hpos, hlen, hlazy⟩ := hg.last
  simp [mvCand, moveKwG, Cand.sig, Mapping.lazySig, mvSig, moveKw, hpos, hlazy]

theorem mvSig_inj {c1 c2 : Cand} (h1 : Good L args' a kw n c1) (h2 : Good L args' a kw n c2) :
    (mvSig c1.sig = mvSig c2.sig) ↔ (c1.sig = c2.sig) := by
  obtain ⟨l1, e1, _⟩ := h1.sig_pos
  obtain ⟨l2, e2, _⟩ := h2.sig_pos
  constructor
  · intro h
    simp only [mvSig, e1, e2, List.dropLast_concat, LazySig.mk.injEq] at h
    have hk : c1.sig.kw = c2.sig.kw := List.append_cancel_right h.2
    have hp : c1.sig.pos = c2.sig.pos := by rw [e1, e2, h.1]
    cases hc1 : c1.sig; cases hc2 : c2.sig
    simp_all
  · intro h; rw [h]

/-! ### the matches -/

theorem matchesOf_move (E : List Arg) (K : KwArgs) (hE : E.length = args'.length) (hK : ahas n K = false) :
    ∀ (cs : List Cand), (∀ c ∈ cs, Good L args' a kw n c) →
      matchesOf L E (K ++ [(n, a)]) (cs.map (mvCand n)) = (matchesOf L (E ++ [a]) K cs).map (mvMatch n)
  | [], _ => rfl
  | c :: r, h => by
      have ih := matchesOf_move E K hE hK r (fun c' hc' => h c' (by simp [hc']))
      have hd := (h c (by simp)).deleg E K hE hK
      simp only [matchesOf, List.map_cons, List.filterMap_cons] at ih ⊢
      have hfd : (mvCand n c).fd = c.fd := rfl
      rw [hfd, hd]
      cases getDelegate L c.fd.params (E ++ [a]) K with
      | none => simpa using ih
      | some b => simpa [mvMatch] using ih

/-! ### the choice among the matches does not see the move -/

theorem typePairs_move {c1 c2 : Cand} (h1 : Good L args' a kw n c1) (h2 : Good L args' a kw n c2) (f : PTy × PTy → Bool) :
    (((mvCand n c1).mapping.typePairs (mvCand n c2).mapping).all f =
      (c1.mapping.typePairs c2.mapping).all f) ∧
    (((mvCand n c1).mapping.typePairs (mvCand n c2).mapping).any f =
      (c1.mapping.typePairs c2.mapping).any f) := by
  obtain ⟨p1, q1, e1, l1, _⟩ := h1.last
  obtain ⟨p2, q2, e2, l2, _⟩ := h2.last
  have hk := h1.klen.trans h2.klen.symm
  have hl : p1.length = p2.length := l1.trans l2.symm
  simp only [mvCand, moveKwG, e1, e2, List.getLast?_concat, moveKw, List.dropLast_concat, Mapping.typePairs,
    List.zip_append hl, List.zip_append hk, List.map_append, List.all_append, List.any_append, List.zip_cons_cons,
    List.zip_nil_right, List.map_cons, List.map_nil, List.all_cons, List.all_nil, List.any_cons, List.any_nil,
    Bool.and_true, Bool.or_false]
  constructor
  · cases ((p1.zip p2).map fun p => (p.1.ty, p.2.ty)).all f <;>
      cases ((c1.mapping.kwd.zip c2.mapping.kwd).map fun p => (p.1.2.ty, p.2.2.ty)).all f <;> simp
  · cases ((p1.zip p2).map fun p => (p.1.ty, p.2.ty)).any f <;>
      cases ((c1.mapping.kwd.zip c2.mapping.kwd).map fun p => (p.1.2.ty, p.2.2.ty)).any f <;> simp

theorem moreSpecific_move {c1 c2 : Cand} (h1 : Good L args' a kw n c1) (h2 : Good L args' a kw n c2) :
    moreSpecific L (mvCand n c1).mapping (mvCand n c2).mapping = moreSpecific L c1.mapping c2.mapping := by
  unfold moreSpecific
  rw [(typePairs_move h1 h2 _).1, (typePairs_move h1 h2 _).2]

theorem filter_map_congr {α β : Type} (g : α → β) (q : β → Bool) (r : α → Bool) :
    ∀ (l : List α), (∀ x ∈ l, q (g x) = r x) → (l.map g).filter q = (l.filter r).map g
  | [], _ => rfl
  | x :: l, h => by
      have ih := filter_map_congr g q r l (fun y hy => h y (by simp [hy]))
      simp only [List.map_cons, List.filter_cons, h x (by simp), ih]
      cases r x <;> simp

theorem best_move (ms : List Match) (hg : ∀ m ∈ ms, Good L args' a kw n m.cand) :
    best L (ms.map (mvMatch n)) = (best L ms).map (mvMatch n) := by
  unfold best
  apply filter_map_congr
  intro m hm
  rw [List.all_map]
  apply all_congr'
  intro o ho
  simp only [Function.comp_apply, mvMatch]
  rw [moreSpecific_move (hg m hm) (hg o ho)]
  rfl

theorem choose_move (ms : List Match) (hg : ∀ m ∈ ms, Good L args' a kw n m.cand) :
    choose L (ms.map (mvMatch n)) = choose L ms := by
  unfold choose
  rw [best_move ms hg]
  cases best L ms with
  | nil => rfl
  | cons w r => cases r <;> rfl

theorem matchesOf_good (E : List Arg) (K : KwArgs) (cs : List Cand) (h : ∀ c ∈ cs, Good L args' a kw n c) :
    ∀ m ∈ matchesOf L E K cs, Good L args' a kw n m.cand := by
  intro m hm
  simp only [matchesOf, List.mem_filterMap] at hm
  obtain ⟨c, hc, hb⟩ := hm
  cases hd : getDelegate L c.fd.params E K with
  | none => simp [hd] at hb
  | some b =>
      simp only [hd, Option.map_some, Option.some.injEq] at hb
      subst hb
      exact h c hc

theorem decide'_move : ∀ (mls : List (List Match)), (∀ ms ∈ mls, ∀ m ∈ ms, Good L args' a kw n m.cand) →
    decide' L (mls.map (List.map (mvMatch n))) = decide' L mls
  | [], _ => rfl
  | ms :: r, h => by
      have ih := decide'_move r (fun ms' h' => h ms' (by simp [h']))
      unfold decide' at ih ⊢
      simp only [List.map_cons, List.find?_cons]
      cases hms : ms with
      | nil => simpa using ih
      | cons x xs =>
          simp only [List.map_cons, List.isEmpty_cons, Bool.not_false]
          have := choose_move (L := L) (args' := args') (a := a) (kw := kw) (n := n) (x :: xs)
            (fun m hm => h ms (by simp) m (hms ▸ hm))
          simpa using this

/-! ### the stage function and the final statement -/

theorem headD_noKwargs : ∀ (l : List FDef), (∀ f ∈ l, f.noKwargs = false) → (l.map (·.noKwargs)).headD false = false
  | [], _ => rfl
  | f :: _, h => by simpa using h f (by simp)

theorem any_noKwargs (l : List FDef) (h : ∀ f ∈ l, f.noKwargs = false) : l.any (·.noKwargs) = false := by
  cases hh : l.any (·.noKwargs) with
  | false => rfl
  | true =>
      obtain ⟨f, hf, hk⟩ := List.any_eq_true.1 hh
      rw [h f hf] at hk; cases hk

theorem mapped_move (ha : a.isNoValue = false) (hkw : ahas n kw = false) :
    ∀ (vis : List (List FDef)), (∀ f ∈ vis.flatten, MoveOk L args' a n f) →
      vis.map (mappedOf L args' (kw ++ [(n, a)])) = (vis.map (mappedOf L (args' ++ [a]) kw)).map (List.map (mvCand n)) ∧
      ∀ cs ∈ vis.map (mappedOf L (args' ++ [a]) kw), ∀ c ∈ cs, Good L args' a kw n c
  | [], _ => by simp
  | lv :: r, h => by
      obtain ⟨ih1, ih2⟩ := mapped_move ha hkw r (fun f hf => h f (by simp [hf]))
      obtain ⟨h1, h2⟩ := mappedOf_move (L := L) ha hkw lv (fun f hf => h f (by simp [hf]))
      refine ⟨by simp only [List.map_cons, h1, ih1], ?_⟩
      intro cs hcs c hc
      simp only [List.map_cons, List.mem_cons] at hcs
      rcases hcs with rfl | hcs
      · exact h2 c hc
      · exact ih2 cs hcs c hc

theorem matches_move (E : List Arg) (K : KwArgs) (hE : E.length = args'.length) (hK : ahas n K = false) :
    ∀ (css : List (List Cand)), (∀ cs ∈ css, ∀ c ∈ cs, Good L args' a kw n c) →
      (css.map (List.map (mvCand n))).map (matchesOf L E (K ++ [(n, a)])) =
        (css.map (matchesOf L (E ++ [a]) K)).map (List.map (mvMatch n))
  | [], _ => rfl
  | cs :: r, h => by
      simp only [List.map_cons, matchesOf_move E K hE hK cs (h cs (by simp)),
        matches_move E K hE hK r (fun cs' h' => h cs' (by simp [h']))]

/-- the first stage of the resolution (what is evaluated, which candidates match) in the two spellings -/
theorem stage_move (vis : List (List FDef)) (c c' : Call)
    (hnk : ∀ f ∈ vis.flatten, f.noKwargs = false)
    (htr : translateArgs false (callArgs c) c.kwargs = .ok (args' ++ [a], kw))
    (htr' : translateArgs false (callArgs c') c'.kwargs = .ok (args', kw ++ [(n, a)]))
    (hall : ∀ f ∈ vis.flatten, MoveOk L args' a n f) (ha : a.isNoValue = false) (hkw : ahas n kw = false) :
    match stage L vis c, stage L vis c' with
    | .error e, .error e' => e = e'
    | .ok (log, mls), .ok (log', mls') => log' = log ∧ mls' = mls.map (List.map (mvMatch n)) ∧
        ∀ ms ∈ mls, ∀ m ∈ ms, Good L args' a kw n m.cand
    | _, _ => False := by
  obtain ⟨hm1, hm2⟩ := mapped_move (L := L) ha hkw vis hall
  unfold stage
  simp only [any_noKwargs _ hnk, Bool.false_and, Bool.false_eq_true, if_false, headD_noKwargs _ hnk, htr, htr', hm1]
  have hflat : ((vis.map (mappedOf L (args' ++ [a]) kw)).map (List.map (mvCand n))).flatten =
      (vis.map (mappedOf L (args' ++ [a]) kw)).flatten.map (mvCand n) := by
    rw [List.map_flatten]
  rw [hflat]
  have hgood : ∀ c ∈ (vis.map (mappedOf L (args' ++ [a]) kw)).flatten, Good L args' a kw n c := by
    intro c hc
    obtain ⟨cs, hcs, hc'⟩ := List.mem_flatten.1 hc
    exact hm2 cs hcs c hc'
  cases hfl : (vis.map (mappedOf L (args' ++ [a]) kw)).flatten with
  | nil => simp
  | cons m0 rest =>
      rw [hfl] at hgood
      have hg0 := hgood m0 (by simp)
      have hagree : ((rest.map (mvCand n)).all fun m => decide (m.sig = (mvCand n m0).sig)) =
          (rest.all fun m => decide (m.sig = m0.sig)) := by
        rw [List.all_map]
        apply all_congr'
        intro m hm
        have hg := hgood m (by simp [hm])
        simp only [Function.comp_apply, hg.sig_move, hg0.sig_move]
        by_cases h : m.sig = m0.sig
        · simp [h]
        · have : ¬ mvSig m.sig = mvSig m0.sig := fun e => h ((mvSig_inj hg hg0).1 e)
          simp [h, this]
      simp only [List.map_cons, hagree]
      cases hag : (rest.all fun m => decide (m.sig = m0.sig)) with
      | false => simp
      | true =>
          obtain ⟨lz0, hlz, hlen⟩ := hg0.sig_pos
          have hE : (evalPos lz0 args').1.length = args'.length := evalPos_args _ _
          have hK : ahas n (evalKw m0.sig.kw kw).1 = false := by
            rw [ahas_of_keys n _ kw (evalKw_keys _ _)]; exact hkw
          simp only [Bool.not_true, Bool.false_eq_true, if_false, hg0.sig_move, mvSig, hlz, List.dropLast_concat,
            evalPos_append_lazy lz0 args' a hlen, evalKw_append_lazy n m0.sig.kw kw a hg0.sig_kw,
            matches_move (evalPos lz0 args').1 (evalKw m0.sig.kw kw).1 hE hK _ hm2, true_and]
          intro ms hms m hm
          obtain ⟨cs, hcs, rfl⟩ := List.mem_map.1 hms
          exact matchesOf_good _ _ cs (hm2 cs hcs) m hm

/-- **for a whole family of overloads**: if every visible candidate owns the slot behind `args'` with a
    lazy parameter that is passed under the name `n` (and takes the argument), the call with the last
    positional argument moved to the keyword `n` has the same outcome - the same evaluation log, the same
    winner with the same bound vector, or the same error -/
theorem lazy_spelling_invariant_family (L : Lattice) (vis : List (List FDef)) (c c' : Call) (args' : List Arg)
    (a : Arg) (kw : KwArgs) (n : Name)
    (hnk : ∀ f ∈ vis.flatten, f.noKwargs = false)
    (htr : translateArgs false (callArgs c) c.kwargs = .ok (args' ++ [a], kw))
    (htr' : translateArgs false (callArgs c') c'.kwargs = .ok (args', kw ++ [(n, a)]))
    (hall : ∀ f ∈ vis.flatten, MoveOk L args' a n f) (ha : a.isNoValue = false) (hkw : ahas n kw = false) :
    chooseOverload L vis c' = chooseOverload L vis c := by
  rw [chooseOverload_eq, chooseOverload_eq]
  have h := stage_move (L := L) vis c c' hnk htr htr' hall ha hkw
  unfold chooseSpec
  cases h1 : stage L vis c with
  | error e =>
      cases h2 : stage L vis c' with
      | error e' => simp only [h1, h2] at h; rw [h]
      | ok r => simp [h1, h2] at h
  | ok r =>
      obtain ⟨log, mls⟩ := r
      cases h2 : stage L vis c' with
      | error e' => simp [h1, h2] at h
      | ok r' =>
          obtain ⟨log', mls'⟩ := r'
          simp only [h1, h2] at h
          obtain ⟨e1, e2, hg⟩ := h
          simp only [e1, e2, decide'_move mls hg]


namespace Ex
open C05.Ex

/-- a second overload of the same shape over a more general collection class -/
def toDictB : FDef := fn 2 [pVal, pKey, { pColl with ty := cls 1 }]

example : MoveOk lat [tick 1, tick 2] (tick 3) pVal.argName toDict ∧ MoveOk lat [tick 1, tick 2] (tick 3) pVal.argName toDictB :=
  ⟨MoveOk.of_table (i := 0) (by decide) rfl (by decide) rfl (by decide),
   MoveOk.of_table (i := 0) (by decide) rfl (by decide) rfl (by decide)⟩

/-- two candidates: the more specific one wins in both spellings, with the same log and bound vector -/
example :
    chooseOverload lat [[toDictB, toDict]] cKw = chooseOverload lat [[toDictB, toDict]] cPos ∧
    chooseOverload lat [[toDictB, toDict]] cKwSyntax = chooseOverload lat [[toDictB, toDict]] cPos ∧
    (chooseOverload lat [[toDictB, toDict]] cPos).log = [1] ∧
    (chooseOverload lat [[toDictB, toDict]] cPos).res =
      .ok (0, { pos := [some (.arg (.value dVal)), some (.arg (tick 2)), some (.arg (tick 3))], extra := [], kw := [] }) := by
  decide

/-- the condition on EVERY candidate cannot be dropped: `P(x: Lambda)`, `Q(x: str)` and a numeric constant -
    `P` owns the slot with a lazy parameter named `x`, `Q` owns it with an eager one that does not take the
    constant.  `f(1)` is answered by `P` (`map_args` drops `Q`), `f(x => 1)` is Ambiguous: `map_args` does
    not look at keywords taken by named parameters, `Q` stays in with another lazy signature
    (the real resolver does the same: notes/C12.md) -/
example :
    (chooseOverload lat [[fn 0 [pos 'x' 0 (.lambda false)], fn 1 [pos 'x' 0 (cls 5)]]]
      { receiver := none, args := [.const (.obj 6 [] 2) .num none 0], kwargs := [] }).res =
        .ok (0, { pos := [some (.arg (.const (.obj 6 [] 2) .num none 0))], extra := [], kw := [] }) ∧
    (chooseOverload lat [[fn 0 [pos 'x' 0 (.lambda false)], fn 1 [pos 'x' 0 (cls 5)]]]
      { receiver := none, args := [], kwargs := [(['x'], .const (.obj 6 [] 2) .num none 0)] }).res = .error .ambiguous := by
  decide

end Ex

end Yaql.Props.C11Spell
