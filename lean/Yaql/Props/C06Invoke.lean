import Yaql.Props.C06
import Yaql.Model.Invoke
/-!
C06 over the phase after winner selection (argument conversion, payload call).

* `callFinal_perm_invariant` - evaluation log and FINAL outcome (payload that ran / the chosen overload's conversion
  failure / resolution error) do not depend on the enumeration order of any layer, for every class graph, family,
  call and every conversion behaviour;
* `conversion_failure_is_final` - when the chosen overload's conversion fails, that IS the outcome, whatever else
  matched;
* the contrasting design `chooseFallback` (after a conversion failure of the winner the layer's other matches are
  tried in enumeration order) is order dependent: `Ex.fallback_order_dependent`.
-/
namespace Yaql.Props.C06Invoke
open Yaql.Types Yaql.Resolve Yaql.Props.C05 Yaql.Props.C06

/-- **C06 including conversion**: same log, same final outcome for every layer-wise permutation -/
theorem callFinal_perm_invariant (L : Lattice) (conv : Conv) (c : Call) (ls ls' : List Layer)
    (h : LayersPerm ls ls') : callFinal L conv ls' c = callFinal L conv ls c := by
  simp only [callFinal, perm_invariant L c ls ls' h]

/-- a conversion failure of the chosen overload is the outcome of the call -/
theorem conversion_failure_is_final (L : Lattice) (conv : Conv) (ls : List Layer) (c : Call) (i : Nat) (b : Bound)
    (hr : (resolve L ls c).res = .ok (i, b)) (hc : conv i b = false) :
    (callFinal L conv ls c).2 = .conversionFailed i := by
  simp [callFinal, invoke, hr, hc]

/-- and it is the same failure in every enumeration order -/
theorem conversion_failure_every_order (L : Lattice) (conv : Conv) (ls ls' : List Layer) (c : Call) (i : Nat)
    (b : Bound) (h : LayersPerm ls ls') (hr : (resolve L ls c).res = .ok (i, b)) (hc : conv i b = false) :
    (callFinal L conv ls' c).2 = .conversionFailed i := by
  rw [callFinal_perm_invariant L conv c ls ls' h]
  exact conversion_failure_is_final L conv ls c i b hr hc

/-! ## the contrasting design -/

/-- the selection over the matches of the deciding layer, followed by the invocation -/
def chooseFinal (L : Lattice) (conv : Conv) (ms : List Match) : Final :=
  match choose L ms with
  | .error e => .error e
  | .ok (i, b) => if conv i b then .ran i b else .conversionFailed i

/-- with a fallback: when the winner's conversion fails, the other matches get their turn in the order the
    layer enumerated them -/
def chooseFallback (L : Lattice) (conv : Conv) (ms : List Match) : Final :=
  match choose L ms with
  | .error e => .error e
  | .ok (i, b) =>
      if conv i b then .ran i b
      else match (ms.filter fun m => m.cand.fd.id != i).find? (fun m => conv m.cand.fd.id m.bound) with
        | some m => .ran m.cand.fd.id m.bound
        | none => .conversionFailed i

theorem chooseFinal_perm (L : Lattice) (conv : Conv) {ms ms' : List Match} (h : ms.Perm ms') :
    chooseFinal L conv ms = chooseFinal L conv ms' := by
  simp only [chooseFinal, choose_perm L h]

namespace Ex
open Yaql.Props.C06.Ex

/-- the conversion of overload 0 (`A(D, D)`, the winner over `B(L, Base)` and `C(Base, R)`) turns the value down -/
def convA : Conv := fun i _ => i != 0

/-- the real selection: the winner's conversion failure in every order; the fallback: `B` or `C` by order -/
theorem fallback_order_dependent :
    (∀ ms, ms.Perm [mA, mB, mC] → chooseFinal C05.Ex.lat convA ms = .conversionFailed 0) ∧
    chooseFallback C05.Ex.lat convA [mA, mB, mC] = .ran 1 mB.bound ∧
    chooseFallback C05.Ex.lat convA [mA, mC, mB] = .ran 2 mC.bound ∧
    chooseFallback C05.Ex.lat convA [mC, mB, mA] = .ran 2 mC.bound := by
  refine ⟨fun ms h => ?_, by decide, by decide, by decide⟩
  rw [chooseFinal_perm _ _ h]
  decide

/-- through the whole model: `f($x, $x)` on the one-below-two family, conversion of the winner failing -/
example : (callFinal C05.Ex.lat convA C05.Ex.famABC C05.Ex.callXX) = ([1, 2], .conversionFailed 0) ∧
    (callFinal C05.Ex.lat convA [{ fns := (C05.Ex.famABC.head!).fns.reverse, exclusive := false }] C05.Ex.callXX)
      = ([1, 2], .conversionFailed 0) ∧
    (callFinal C05.Ex.lat (fun _ _ => true) C05.Ex.famABC C05.Ex.callXX).2 =
      .ran 0 { pos := [some (.arg (.value C05.Ex.dVal)), some (.arg (.value C05.Ex.dVal))], extra := [], kw := [] } := by
  decide

end Ex

end Yaql.Props.C06Invoke
