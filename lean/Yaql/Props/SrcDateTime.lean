import Yaql.Gen.SrcDateTime
import Yaql.Lemmas.PyPrelude
/-!
Equivalence of the operator payloads translated from the CURRENT source of `yaql/standard_library/date_time.py`
(`Yaql.Gen.SrcDateTime`, regenerated on every run by harness/py2lean.py) with the hand-written model
`Yaql.DateTime` of C20 - for all inputs.  Each payload is one Python operator application; the theorems fix WHICH
operator on WHICH operands in WHICH order (`PyDt.liftErr` embeds the model's error classes).
-/
set_option linter.unusedSimpArgs false
namespace Yaql.Props.SrcDateTime
open Yaql Yaql.DateTime Yaql.Gen

theorem datetime_plus_timespan_src_eq (left : DT) (right : PyDt.TS) :
    SrcDateTime.datetime_plus_timespan left right
      = PyDt.liftErr (DateTime.pyAddTd left right) := by
  simp [SrcDateTime.datetime_plus_timespan, PyDt.addTd, PyDt.subTd, PyDt.subDt, PyDt.cmp, PyDt.tsAdd, PyDt.tsSub, PyDt.tsNeg,
    PyDt.tsPos, PyDt.tsCmp, PyDt.liftErr, DateTime.tsPos]

theorem timespan_plus_datetime_src_eq (left : PyDt.TS) (right : DT) :
    SrcDateTime.timespan_plus_datetime left right
      = PyDt.liftErr (DateTime.pyAddTd right left) := by
  simp [SrcDateTime.timespan_plus_datetime, PyDt.addTd, PyDt.subTd, PyDt.subDt, PyDt.cmp, PyDt.tsAdd, PyDt.tsSub, PyDt.tsNeg,
    PyDt.tsPos, PyDt.tsCmp, PyDt.liftErr, DateTime.tsPos]

theorem datetime_minus_timespan_src_eq (dt : DT) (ts : PyDt.TS) :
    SrcDateTime.datetime_minus_timespan dt ts
      = PyDt.liftErr (DateTime.pyAddTd dt (-ts)) := by
  simp [SrcDateTime.datetime_minus_timespan, PyDt.addTd, PyDt.subTd, PyDt.subDt, PyDt.cmp, PyDt.tsAdd, PyDt.tsSub, PyDt.tsNeg,
    PyDt.tsPos, PyDt.tsCmp, PyDt.liftErr, DateTime.tsPos]

theorem datetime_minus_datetime_src_eq (dt1 : DT) (dt2 : DT) :
    SrcDateTime.datetime_minus_datetime dt1 dt2
      = PyDt.liftErr (DateTime.pySubDt dt1 dt2) := by
  simp [SrcDateTime.datetime_minus_datetime, PyDt.addTd, PyDt.subTd, PyDt.subDt, PyDt.cmp, PyDt.tsAdd, PyDt.tsSub, PyDt.tsNeg,
    PyDt.tsPos, PyDt.tsCmp, PyDt.liftErr, DateTime.tsPos]

theorem timespan_plus_timespan_src_eq (ts1 : PyDt.TS) (ts2 : PyDt.TS) :
    SrcDateTime.timespan_plus_timespan ts1 ts2
      = PyDt.liftErr (DateTime.tsAdd ts1 ts2) := by
  simp [SrcDateTime.timespan_plus_timespan, PyDt.addTd, PyDt.subTd, PyDt.subDt, PyDt.cmp, PyDt.tsAdd, PyDt.tsSub, PyDt.tsNeg,
    PyDt.tsPos, PyDt.tsCmp, PyDt.liftErr, DateTime.tsPos]

theorem timespan_minus_timespan_src_eq (ts1 : PyDt.TS) (ts2 : PyDt.TS) :
    SrcDateTime.timespan_minus_timespan ts1 ts2
      = PyDt.liftErr (DateTime.tsSub ts1 ts2) := by
  simp [SrcDateTime.timespan_minus_timespan, PyDt.addTd, PyDt.subTd, PyDt.subDt, PyDt.cmp, PyDt.tsAdd, PyDt.tsSub, PyDt.tsNeg,
    PyDt.tsPos, PyDt.tsCmp, PyDt.liftErr, DateTime.tsPos]

theorem negative_timespan_src_eq (ts : PyDt.TS) :
    SrcDateTime.negative_timespan ts
      = PyDt.liftErr (DateTime.tsNeg ts) := by
  simp [SrcDateTime.negative_timespan, PyDt.addTd, PyDt.subTd, PyDt.subDt, PyDt.cmp, PyDt.tsAdd, PyDt.tsSub, PyDt.tsNeg,
    PyDt.tsPos, PyDt.tsCmp, PyDt.liftErr, DateTime.tsPos]

theorem positive_timespan_src_eq (ts : PyDt.TS) :
    SrcDateTime.positive_timespan ts
      = PyDt.liftErr (DateTime.tsPos ts) := by
  simp [SrcDateTime.positive_timespan, PyDt.addTd, PyDt.subTd, PyDt.subDt, PyDt.cmp, PyDt.tsAdd, PyDt.tsSub, PyDt.tsNeg,
    PyDt.tsPos, PyDt.tsCmp, PyDt.liftErr, DateTime.tsPos]

theorem datetime_eq_datetime_src_eq (dt1 : DT) (dt2 : DT) :
    SrcDateTime.datetime_eq_datetime dt1 dt2
      = PyDt.liftErr (DateTime.pyCmp .eq dt1 dt2) := by
  simp [SrcDateTime.datetime_eq_datetime, PyDt.addTd, PyDt.subTd, PyDt.subDt, PyDt.cmp, PyDt.tsAdd, PyDt.tsSub, PyDt.tsNeg,
    PyDt.tsPos, PyDt.tsCmp, PyDt.liftErr, DateTime.tsPos]

theorem datetime_neq_datetime_src_eq (dt1 : DT) (dt2 : DT) :
    SrcDateTime.datetime_neq_datetime dt1 dt2
      = PyDt.liftErr (DateTime.pyCmp .ne dt1 dt2) := by
  simp [SrcDateTime.datetime_neq_datetime, PyDt.addTd, PyDt.subTd, PyDt.subDt, PyDt.cmp, PyDt.tsAdd, PyDt.tsSub, PyDt.tsNeg,
    PyDt.tsPos, PyDt.tsCmp, PyDt.liftErr, DateTime.tsPos]

theorem datetime_gt_datetime_src_eq (dt1 : DT) (dt2 : DT) :
    SrcDateTime.datetime_gt_datetime dt1 dt2
      = PyDt.liftErr (DateTime.pyCmp .gt dt1 dt2) := by
  simp [SrcDateTime.datetime_gt_datetime, PyDt.addTd, PyDt.subTd, PyDt.subDt, PyDt.cmp, PyDt.tsAdd, PyDt.tsSub, PyDt.tsNeg,
    PyDt.tsPos, PyDt.tsCmp, PyDt.liftErr, DateTime.tsPos]

theorem datetime_gte_datetime_src_eq (dt1 : DT) (dt2 : DT) :
    SrcDateTime.datetime_gte_datetime dt1 dt2
      = PyDt.liftErr (DateTime.pyCmp .ge dt1 dt2) := by
  simp [SrcDateTime.datetime_gte_datetime, PyDt.addTd, PyDt.subTd, PyDt.subDt, PyDt.cmp, PyDt.tsAdd, PyDt.tsSub, PyDt.tsNeg,
    PyDt.tsPos, PyDt.tsCmp, PyDt.liftErr, DateTime.tsPos]

theorem datetime_lt_datetime_src_eq (dt1 : DT) (dt2 : DT) :
    SrcDateTime.datetime_lt_datetime dt1 dt2
      = PyDt.liftErr (DateTime.pyCmp .lt dt1 dt2) := by
  simp [SrcDateTime.datetime_lt_datetime, PyDt.addTd, PyDt.subTd, PyDt.subDt, PyDt.cmp, PyDt.tsAdd, PyDt.tsSub, PyDt.tsNeg,
    PyDt.tsPos, PyDt.tsCmp, PyDt.liftErr, DateTime.tsPos]

theorem datetime_lte_datetime_src_eq (dt1 : DT) (dt2 : DT) :
    SrcDateTime.datetime_lte_datetime dt1 dt2
      = PyDt.liftErr (DateTime.pyCmp .le dt1 dt2) := by
  simp [SrcDateTime.datetime_lte_datetime, PyDt.addTd, PyDt.subTd, PyDt.subDt, PyDt.cmp, PyDt.tsAdd, PyDt.tsSub, PyDt.tsNeg,
    PyDt.tsPos, PyDt.tsCmp, PyDt.liftErr, DateTime.tsPos]

theorem timespan_gt_timespan_src_eq (ts1 : PyDt.TS) (ts2 : PyDt.TS) :
    SrcDateTime.timespan_gt_timespan ts1 ts2
      = DateTime.tsCmp .gt ts1 ts2 := by
  simp [SrcDateTime.timespan_gt_timespan, PyDt.addTd, PyDt.subTd, PyDt.subDt, PyDt.cmp, PyDt.tsAdd, PyDt.tsSub, PyDt.tsNeg,
    PyDt.tsPos, PyDt.tsCmp, PyDt.liftErr, DateTime.tsPos]

theorem timespan_gte_timespan_src_eq (ts1 : PyDt.TS) (ts2 : PyDt.TS) :
    SrcDateTime.timespan_gte_timespan ts1 ts2
      = DateTime.tsCmp .ge ts1 ts2 := by
  simp [SrcDateTime.timespan_gte_timespan, PyDt.addTd, PyDt.subTd, PyDt.subDt, PyDt.cmp, PyDt.tsAdd, PyDt.tsSub, PyDt.tsNeg,
    PyDt.tsPos, PyDt.tsCmp, PyDt.liftErr, DateTime.tsPos]

theorem timespan_lt_timespan_src_eq (ts1 : PyDt.TS) (ts2 : PyDt.TS) :
    SrcDateTime.timespan_lt_timespan ts1 ts2
      = DateTime.tsCmp .lt ts1 ts2 := by
  simp [SrcDateTime.timespan_lt_timespan, PyDt.addTd, PyDt.subTd, PyDt.subDt, PyDt.cmp, PyDt.tsAdd, PyDt.tsSub, PyDt.tsNeg,
    PyDt.tsPos, PyDt.tsCmp, PyDt.liftErr, DateTime.tsPos]

theorem timespan_lte_timespan_src_eq (ts1 : PyDt.TS) (ts2 : PyDt.TS) :
    SrcDateTime.timespan_lte_timespan ts1 ts2
      = DateTime.tsCmp .le ts1 ts2 := by
  simp [SrcDateTime.timespan_lte_timespan, PyDt.addTd, PyDt.subTd, PyDt.subDt, PyDt.cmp, PyDt.tsAdd, PyDt.tsSub, PyDt.tsNeg,
    PyDt.tsPos, PyDt.tsCmp, PyDt.liftErr, DateTime.tsPos]

end Yaql.Props.SrcDateTime
