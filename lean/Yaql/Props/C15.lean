import Yaql.Model.Scalar
/-!
C15 - scalar operators form a consistent arithmetic and ordering.
All statements are about `Yaql.Scalar.evalBin` / `evalUn` (the model of `$a OP $b` / `OP $a` in the
default engine), for every `FloatOps` (the four IEEE operations are parameters), every allocator
capacity `cap`, every integer, every double bit pattern and every string.
-/
namespace Yaql.Props.C15
open Yaql.Scalar Yaql.FloatRound
set_option linter.unusedSimpArgs false
set_option linter.unnecessarySimpa false

/-! ### the dispatch matrix: which payload runs for which pair of operand kinds -/

def isNumK : Kind → Bool
  | .int => true
  | .float => true
  | _ => false

def numOnly (i : Impl) (k1 k2 : Kind) : Except Err Impl :=
  if isNumK k1 && isNumK k2 then .ok i else .error .noMatching

def ordImpl (nn nr ln num str : Impl) : Kind → Kind → Except Err Impl
  | .null, .null => .ok nn
  | .null, _ => .ok nr
  | _, .null => .ok ln
  | .str, .str => .ok str
  | k1, k2 => numOnly num k1 k2

def binImpl : BinOp → Kind → Kind → Except Err Impl
  | .mul, .int, .str => .ok .intByStr
  | .mul, .str, .int => .ok .strByInt
  | .mul, k1, k2 => numOnly .mathMul k1 k2
  | .div, k1, k2 => numOnly .mathDiv k1 k2
  | .mod, k1, k2 => numOnly .mathMod k1 k2
  | .add, .str, .str => .ok .strConcat
  | .add, k1, k2 => numOnly .mathPlus k1 k2
  | .sub, k1, k2 => numOnly .mathMinus k1 k2
  | .gt, k1, k2 => ordImpl .nullGtNull .nullGtRight .leftGtNull .mathGt .strGt k1 k2
  | .lt, k1, k2 => ordImpl .nullLtNull .nullLtRight .leftLtNull .mathLt .strLt k1 k2
  | .ge, k1, k2 => ordImpl .nullGteNull .nullGteRight .leftGteNull .mathGte .strGte k1 k2
  | .le, k1, k2 => ordImpl .nullLteNull .nullLteRight .leftLteNull .mathLte .strLte k1 k2
  | .ne, _, _ => .ok .neq
  | .eq, _, _ => .ok .eq
  | .isIn, .str, .str => .ok .strIn
  | .isIn, _, _ => .error .noMatching
  | .and, _, _ => .ok .and
  | .or, _, _ => .ok .or

def unImpl : UnOp → Kind → Except Err Impl
  | .pos, k => if isNumK k then .ok .mathUPlus else .error .noMatching
  | .neg, k => if isNumK k then .ok .mathUMinus else .error .noMatching
  | .not, _ => .ok .not

/-- overload selection over the registered table computes the matrix: in particular the choice is
    never ambiguous -/
theorem select_bin (op : BinOp) (k1 k2 : Kind) : select op.fname [k1, k2] = binImpl op k1 k2 := by
  cases op <;> cases k1 <;> cases k2 <;> rfl

theorem select_un (op : UnOp) (k : Kind) : select op.fname [k] = unImpl op k := by
  cases op <;> cases k <;> rfl

theorem evalBin_eq (F : FloatOps) (cap : Nat) (op : BinOp) (a b : SVal) :
    evalBin F cap op a b =
      match binImpl op (kindOf a) (kindOf b) with
      | .ok i => run F cap i [a, b]
      | .error e => .error e := by
  simp only [evalBin, call, List.map, select_bin]
  cases binImpl op (kindOf a) (kindOf b) <;> rfl

theorem evalUn_eq (F : FloatOps) (cap : Nat) (op : UnOp) (a : SVal) :
    evalUn F cap op a =
      match unImpl op (kindOf a) with
      | .ok i => run F cap i [a]
      | .error e => .error e := by
  simp only [evalUn, call, List.map, select_un]
  cases unImpl op (kindOf a) <;> rfl

instance instDecEqExcept {ε α : Type} [DecidableEq ε] [DecidableEq α] : DecidableEq (Except ε α)
  | .ok a, .ok b => if h : a = b then isTrue (by rw [h]) else isFalse (by intro e; cases e; exact h rfl)
  | .error a, .error b => if h : a = b then isTrue (by rw [h]) else isFalse (by intro e; cases e; exact h rfl)
  | .ok _, .error _ => isFalse (by intro e; cases e)
  | .error _, .ok _ => isFalse (by intro e; cases e)

/-! ### integers are exact -/

/-- `int_exact`: on integers `+ - *` and unary `- +` are the operations of `Int`, at any magnitude -/
theorem int_exact (F : FloatOps) (cap : Nat) (a b : Int) :
    evalBin F cap .add (.int a) (.int b) = .ok (.int (a + b)) ∧
    evalBin F cap .sub (.int a) (.int b) = .ok (.int (a - b)) ∧
    evalBin F cap .mul (.int a) (.int b) = .ok (.int (a * b)) ∧
    evalUn F cap .neg (.int a) = .ok (.int (-a)) ∧
    evalUn F cap .pos (.int a) = .ok (.int a) := by
  refine ⟨?_, ?_, ?_, ?_, ?_⟩ <;> rfl

/-- so the ring laws of `Int` hold for the model's operators (here: the ones tests of a few
    constants cannot establish) -/
theorem int_ring_laws (F : FloatOps) (cap : Nat) (a b c : Int) :
    evalBin F cap .add (.int a) (.int b) = evalBin F cap .add (.int b) (.int a) ∧
    evalBin F cap .mul (.int a) (.int b) = evalBin F cap .mul (.int b) (.int a) ∧
    ((evalBin F cap .add (.int a) (.int b)).bind fun s => evalBin F cap .add s (.int c)) =
      ((evalBin F cap .add (.int b) (.int c)).bind fun s => evalBin F cap .add (.int a) s) ∧
    ((evalBin F cap .mul (.int a) (.int b)).bind fun s => evalBin F cap .mul s (.int c)) =
      ((evalBin F cap .mul (.int b) (.int c)).bind fun s => evalBin F cap .mul (.int a) s) ∧
    ((evalBin F cap .add (.int b) (.int c)).bind fun s => evalBin F cap .mul (.int a) s) =
      ((evalBin F cap .mul (.int a) (.int b)).bind fun x =>
        (evalBin F cap .mul (.int a) (.int c)).bind fun y => evalBin F cap .add x y) ∧
    ((evalUn F cap .neg (.int a)).bind fun n => evalBin F cap .add (.int a) n) = .ok (.int 0) ∧
    ((evalBin F cap .sub (.int a) (.int b)).bind fun d => evalBin F cap .add d (.int b)) = .ok (.int a) := by
  simp only [(int_exact F cap _ _).1, (int_exact F cap _ _).2.1, (int_exact F cap _ _).2.2.1,
    (int_exact F cap _ 0).2.2.2.1, Except.bind]
  refine ⟨?_, ?_, ?_, ?_, ?_, ?_, ?_⟩
  · rw [Int.add_comm]
  · rw [Int.mul_comm]
  · rw [Int.add_assoc]
  · rw [Int.mul_assoc]
  · rw [Int.mul_add]
  · rw [Int.add_right_neg]
  · rw [Int.sub_add_cancel]

/-! ### floor division and modulo -/

theorem fmod_range_neg (a : Int) {b : Int} (hb : b < 0) : b < a.fmod b ∧ a.fmod b ≤ 0 := by
  rw [Int.fmod_eq_emod]
  have h0 : 0 ≤ a % b := Int.emod_nonneg a (Int.ne_of_lt hb)
  have h1 : a % b < -b := Int.emod_lt_of_neg a hb
  by_cases hd : b ∣ a
  · have : a % b = 0 := Int.emod_eq_zero_of_dvd hd
    simp [hd, this]; omega
  · have hne : a % b ≠ 0 := fun h => hd (Int.dvd_of_emod_eq_zero h)
    have hnb : ¬ (0 ≤ b) := by omega
    simp [hd, hnb]; omega

/-- `floor_div_mod`: for `b ≠ 0`, `a / b` and `a mod b` on integers are values `q`, `r` with
    `q * b + r = a` (also when computed with the model's own `*` and `+`), the remainder has the
    sign of the divisor and is smaller in magnitude; for `b = 0` both raise `ZeroDivisionError` -/
theorem floor_div_mod (F : FloatOps) (cap : Nat) (a b : Int) :
    (b = 0 → evalBin F cap .div (.int a) (.int b) = .error .zeroDivision ∧
             evalBin F cap .mod (.int a) (.int b) = .error .zeroDivision) ∧
    (b ≠ 0 → ∃ q r : Int,
      evalBin F cap .div (.int a) (.int b) = .ok (.int q) ∧
      evalBin F cap .mod (.int a) (.int b) = .ok (.int r) ∧
      q * b + r = a ∧
      ((evalBin F cap .mul (.int q) (.int b)).bind fun p => evalBin F cap .add p (.int r)) = .ok (.int a) ∧
      (0 < b → 0 ≤ r ∧ r < b) ∧ (b < 0 → b < r ∧ r ≤ 0)) := by
  have hd : evalBin F cap .div (.int a) (.int b) =
      if b = 0 then .error .zeroDivision else .ok (.int (a.fdiv b)) := rfl
  have hm : evalBin F cap .mod (.int a) (.int b) =
      if b = 0 then .error .zeroDivision else .ok (.int (a.fmod b)) := rfl
  constructor
  · intro h; rw [hd, hm]; simp [h]
  · intro h
    have hid : a.fdiv b * b + a.fmod b = a := by
      rw [Int.mul_comm]; exact Int.mul_fdiv_add_fmod a b
    refine ⟨a.fdiv b, a.fmod b, by simp [hd, h], by simp [hm, h], hid, ?_, ?_, ?_⟩
    · simp only [(int_exact F cap _ _).2.2.1, (int_exact F cap _ _).1, Except.bind, hid]
    · intro hb; exact ⟨Int.fmod_nonneg_of_pos a hb, Int.fmod_lt_of_pos a hb⟩
    · intro hb; exact fmod_range_neg a hb

example : ∃ a b : Int, b ≠ 0 ∧ b < 0 ∧ a.fdiv b = -4 ∧ a.fmod b = -1 := ⟨7, -2, by decide⟩

/-! ### mixed int/float arithmetic is float arithmetic -/

def aopOf : BinOp → Option AOp
  | .add => some .add
  | .sub => some .sub
  | .mul => some .mul
  | .div => some .div
  | .mod => some .mod
  | _ => none

def isFltN : Num → Bool
  | .flt _ => true
  | .int _ => false

/-- what the five arithmetic operators do on two doubles -/
def floatResult (F : FloatOps) (o : AOp) (fx fy : UInt64) : Except Err SVal :=
  match o with
  | .add => .ok (.flt (F.add fx fy))
  | .sub => .ok (.flt (F.sub fx fy))
  | .mul => .ok (.flt (F.mul fx fy))
  | .div => if isZeroBits fy then .error .zeroDivision else .ok (.flt (F.div fx fy))
  | .mod => match pyFloatMod F fx fy with | .ok w => .ok (.flt w) | .error e => .error e

theorem toFloat_err {i : Int} {e : Err} (h : toFloat i = .error e) : e = .overflow := by
  unfold toFloat at h
  split at h
  · cases h
  · cases h; rfl

theorem toF_err {x : Num} {e : Err} (h : x.toF = .error e) : e = .overflow := by
  cases x with
  | int i => exact toFloat_err h
  | flt w => cases h

theorem evalBin_num (F : FloatOps) (cap : Nat) (op : BinOp) (o : AOp) (h : aopOf op = some o) (x y : Num) :
    evalBin F cap op x.toSVal y.toSVal = arith F o x y := by
  cases op <;> simp [aopOf] at h <;> subst h <;> cases x <;> cases y <;> rfl

/-- `mixed_is_float`: an arithmetic operator with at least one float operand converts both operands
    with `float()` (left first; `OverflowError` when an int is too large) and applies the float
    operator -/
theorem mixed_is_float (F : FloatOps) (cap : Nat) (op : BinOp) (o : AOp) (h : aopOf op = some o)
    (x y : Num) (hf : (isFltN x || isFltN y) = true) :
    evalBin F cap op x.toSVal y.toSVal =
      match x.toF with
      | .error _ => .error .overflow
      | .ok fx =>
        match y.toF with
        | .error _ => .error .overflow
        | .ok fy => floatResult F o fx fy := by
  rw [evalBin_num F cap op o h]
  have key : ∀ (o : AOp) (x y : Num), (isFltN x || isFltN y) = true → arith F o x y =
      match x.toF with
      | .error _ => .error .overflow
      | .ok fx =>
        match y.toF with
        | .error _ => .error .overflow
        | .ok fy => floatResult F o fx fy := by
    intro o x y hf
    cases hx : x.toF with
    | error e =>
      have := toF_err hx; subst this
      cases o <;> cases x <;> cases y <;> simp_all [arith, isFltN]
    | ok fx =>
      cases hy : y.toF with
      | error e =>
        have := toF_err hy; subst this
        cases o <;> cases x <;> cases y <;> simp_all [arith, isFltN]
      | ok fy =>
        cases o <;> cases x <;> cases y <;>
          simp_all [arith, isFltN, floatResult, floatArith, pyFloatDiv] <;>
          (cases hz : isZeroBits fy <;> rfl)
  exact key o x y hf


/-! ### exact numbers and code-point lists are linearly ordered -/

theorem ext_le_iff (x y : Ext) : Ext.le x y = (Ext.lt x y || Ext.eq x y) := by
  cases x <;> cases y <;> simp [Ext.le, Ext.lt, Ext.eq]
  rename_i a b
  by_cases h1 : a < b <;> by_cases h2 : a = b <;> by_cases h3 : a ≤ b <;> simp [h1, h2, h3] <;> omega

/-- exactly one of `<`, `=`, `>` on exact numbers other than NaN -/
def exactlyOne (a b c : Bool) : Prop :=
  (a = true ∧ b = false ∧ c = false) ∨ (a = false ∧ b = true ∧ c = false) ∨ (a = false ∧ b = false ∧ c = true)

theorem ext_trichotomy (x y : Ext) (hx : x ≠ .nan) (hy : y ≠ .nan) :
    exactlyOne (Ext.lt x y) (Ext.eq x y) (Ext.lt y x) := by
  cases x <;> cases y <;> simp [Ext.lt, Ext.eq, exactlyOne] at * <;> omega

theorem ext_lt_trans (x y z : Ext) (h1 : Ext.lt x y = true) (h2 : Ext.lt y z = true) : Ext.lt x z = true := by
  cases x <;> cases y <;> cases z <;> simp [Ext.lt] at * <;> omega

theorem ext_eq_symm (x y : Ext) : Ext.eq x y = Ext.eq y x := by
  cases x <;> cases y <;> simp [Ext.eq] <;> omega

theorem str_le_iff (s t : List Char) : strLe s t = (strLt s t || decide (s = t)) := by
  induction s generalizing t with
  | nil => cases t <;> simp [strLe, strLt]
  | cons a as ih =>
    cases t with
    | nil => simp [strLe, strLt]
    | cons b bs =>
      simp only [strLe, strLt]
      by_cases h1 : a.toNat < b.toNat
      · simp [h1]
      · by_cases h2 : b.toNat < a.toNat
        · have : a ≠ b := by intro e; subst e; omega
          simp [h1, h2, this]
        · have : a = b := Char.toNat_inj.mp (by omega)
          subst this
          simp [ih bs]

theorem str_trichotomy (s t : List Char) : exactlyOne (strLt s t) (decide (s = t)) (strLt t s) := by
  induction s generalizing t with
  | nil => cases t <;> simp [strLt, exactlyOne]
  | cons a as ih =>
    cases t with
    | nil => simp [strLt, exactlyOne]
    | cons b bs =>
      simp only [strLt]
      by_cases h1 : a.toNat < b.toNat
      · have : a ≠ b := by intro e; subst e; omega
        have h3 : ¬ b.toNat < a.toNat := by omega
        simp [h1, h3, this, exactlyOne]
      · by_cases h2 : b.toNat < a.toNat
        · have : a ≠ b := by intro e; subst e; omega
          simp [h1, h2, this, exactlyOne]
        · have : a = b := Char.toNat_inj.mp (by omega)
          subst this
          have := ih bs
          simpa [exactlyOne] using this

theorem str_lt_trans (s t u : List Char) (h1 : strLt s t = true) (h2 : strLt t u = true) : strLt s u = true := by
  induction s generalizing t u with
  | nil => cases t <;> cases u <;> simp_all [strLt]
  | cons a as ih =>
    cases t with
    | nil => simp [strLt] at h1
    | cons b bs =>
      cases u with
      | nil => simp [strLt] at h2
      | cons c cs =>
        simp only [strLt] at h1 h2 ⊢
        by_cases ab : a.toNat < b.toNat
        · by_cases bc : b.toNat < c.toNat
          · have : a.toNat < c.toNat := by omega
            simp [this]
          · by_cases cb : c.toNat < b.toNat
            · simp [bc, cb] at h2
            · have : a.toNat < c.toNat := by omega
              simp [this]
        · by_cases ba : b.toNat < a.toNat
          · simp [ab, ba] at h1
          · simp only [ab, ba, if_false] at h1
            by_cases bc : b.toNat < c.toNat
            · have : a.toNat < c.toNat := by omega
              simp [this]
            · by_cases cb : c.toNat < b.toNat
              · simp [bc, cb] at h2
              · simp only [bc, cb, if_false] at h2
                have e1 : ¬ a.toNat < c.toNat := by omega
                have e2 : ¬ c.toNat < a.toNat := by omega
                simp only [e1, e2, if_false]
                exact ih bs cs h1 h2


/-! ### the ordering operators -/

/-- `a > b` is `b < a`, for all scalars (value or error alike) -/
theorem gt_flip (F : FloatOps) (cap : Nat) (a b : SVal) :
    evalBin F cap .gt a b = evalBin F cap .lt b a := by
  cases a <;> cases b <;>
    simp [evalBin_eq, binImpl, ordImpl, numOnly, isNumK, kindOf, run, const2, numCmp, strCmp, asNum]

/-- `a >= b` is `b <= a`, for all scalars -/
theorem ge_flip (F : FloatOps) (cap : Nat) (a b : SVal) :
    evalBin F cap .ge a b = evalBin F cap .le b a := by
  cases a <;> cases b <;>
    simp [evalBin_eq, binImpl, ordImpl, numOnly, isNumK, kindOf, run, const2, numCmp, strCmp, asNum]

theorem eq_total (F : FloatOps) (cap : Nat) (a b : SVal) :
    evalBin F cap .eq a b = .ok (.bool (pyEq a b)) ∧ evalBin F cap .ne a b = .ok (.bool (!pyEq a b)) := by
  constructor <;> simp [evalBin_eq, binImpl, run]

/-- wherever `a < b` has a value, `a <= b` is `a < b or a = b` -/
theorem le_iff (F : FloatOps) (cap : Nat) (a b : SVal) (x : Bool)
    (h : evalBin F cap .lt a b = .ok (.bool x)) :
    evalBin F cap .le a b = .ok (.bool (x || pyEq a b)) := by
  cases a <;> cases b <;>
    simp [evalBin_eq, binImpl, ordImpl, numOnly, isNumK, kindOf, run, const2, numCmp, strCmp, asNum,
      pyEq, numView, Num.ext, ext_le_iff, str_le_iff] at h ⊢ <;> simp [← h]

def notNaN : SVal → Prop
  | .flt w => decode w ≠ .nan
  | _ => True

/-- wherever `a < b` has a value and no NaN is involved, exactly one of `a < b`, `a = b`, `a > b` holds -/
theorem trichotomy (F : FloatOps) (cap : Nat) (a b : SVal) (x : Bool) (ha : notNaN a) (hb : notNaN b)
    (h : evalBin F cap .lt a b = .ok (.bool x)) :
    ∃ z, evalBin F cap .gt a b = .ok (.bool z) ∧ exactlyOne x (pyEq a b) z := by
  rw [gt_flip]
  cases a <;> cases b <;>
    simp [evalBin_eq, binImpl, ordImpl, numOnly, isNumK, kindOf, run, const2, numCmp, strCmp, asNum,
      pyEq, numView, Num.ext, notNaN] at h ha hb ⊢ <;> subst h
  all_goals first
    | exact ext_trichotomy _ _ (by simp_all [extOfInt]) (by simp_all [extOfInt])
    | exact str_trichotomy _ _
    | (simp [exactlyOne]; done)
    | simpa [exactlyOne] using str_trichotomy _ _

/-- `<` is transitive across all scalars (through null, within numbers - ints and floats mixed,
    compared exactly - and within strings) -/
theorem lt_trans (F : FloatOps) (cap : Nat) (a b c : SVal)
    (h1 : evalBin F cap .lt a b = .ok (.bool true)) (h2 : evalBin F cap .lt b c = .ok (.bool true)) :
    evalBin F cap .lt a c = .ok (.bool true) := by
  cases a <;> cases b <;> cases c <;>
    simp [evalBin_eq, binImpl, ordImpl, numOnly, isNumK, kindOf, run, const2, numCmp, strCmp, asNum] at h1 h2 ⊢
  all_goals first
    | exact ext_lt_trans _ _ _ h1 h2
    | exact str_lt_trans _ _ _ h1 h2

def isNumber : SVal → Bool
  | .int _ => true
  | .flt _ => true
  | _ => false

def isString : SVal → Bool
  | .str _ => true
  | _ => false

/-- both numbers (ints and floats mixed freely) or both strings -/
def comparable (a b : SVal) : Prop :=
  (isNumber a = true ∧ isNumber b = true) ∨ (isString a = true ∧ isString b = true)

/-- `order_consistent`: within numbers and within strings, NaN excluded (hypotheses `notNaN`: a NaN
    is unordered and unequal to everything, itself included, so trichotomy cannot hold for it):
    the four ordering operators and `=`/`!=` all have boolean values, `a > b` iff `b < a`,
    `a <= b` iff `a < b or a = b`, `a >= b` iff `b <= a`, exactly one of `<`, `=`, `>` holds,
    `!=` is the negation of `=` -/
theorem order_consistent (F : FloatOps) (cap : Nat) (a b : SVal) (hc : comparable a b)
    (ha : notNaN a) (hb : notNaN b) :
    ∃ lt eq gt : Bool,
      evalBin F cap .lt a b = .ok (.bool lt) ∧
      evalBin F cap .eq a b = .ok (.bool eq) ∧
      evalBin F cap .gt a b = .ok (.bool gt) ∧
      evalBin F cap .lt b a = .ok (.bool gt) ∧
      evalBin F cap .le a b = .ok (.bool (lt || eq)) ∧
      evalBin F cap .ge a b = evalBin F cap .le b a ∧
      evalBin F cap .ne a b = .ok (.bool (!eq)) ∧
      exactlyOne lt eq gt := by
  have hlt : ∃ x, evalBin F cap .lt a b = .ok (.bool x) := by
    cases a <;> cases b <;>
      simp [comparable, isNumber, isString] at hc <;>
      simp [evalBin_eq, binImpl, ordImpl, numOnly, isNumK, kindOf, run, numCmp, strCmp, asNum]
  obtain ⟨x, hx⟩ := hlt
  obtain ⟨z, hz, h1⟩ := trichotomy F cap a b x ha hb hx
  refine ⟨x, pyEq a b, z, hx, (eq_total F cap a b).1, hz, ?_, le_iff F cap a b x hx, ge_flip F cap a b,
    (eq_total F cap a b).2, h1⟩
  rw [← gt_flip]; exact hz

example : comparable (.int (2 ^ 53 + 1)) (.flt 0x4340000000000000) ∧ notNaN (.flt 0x4340000000000000) := by
  refine ⟨Or.inl ⟨rfl, rfl⟩, ?_⟩
  simp only [notNaN]; decide +kernel

/-- int/float comparison is exact, not via rounding the int: `2^53 + 1 > 9007199254740992.0`
    although `float(2^53 + 1)` is that double -/
theorem mixed_compare_exact (F : FloatOps) (cap : Nat) :
    evalBin F cap .gt (.int (2 ^ 53 + 1)) (.flt 0x4340000000000000) = .ok (.bool true) ∧
    evalBin F cap .eq (.int (2 ^ 53 + 1)) (.flt 0x4340000000000000) = .ok (.bool false) ∧
    toFloat (2 ^ 53 + 1) = .ok 0x4340000000000000 := by
  refine ⟨?_, ?_, ?_⟩
  · simp only [evalBin_eq, binImpl, ordImpl, numOnly, isNumK, kindOf, run, numCmp, asNum, Bool.and_self, if_true]
    decide +kernel
  · simp only [evalBin_eq, binImpl, kindOf, run]
    decide +kernel
  · decide +kernel

/-- a NaN is neither below, equal to, nor above anything: the reason for the `notNaN` hypotheses -/
theorem nan_unordered (F : FloatOps) (cap : Nat) (w : UInt64) (hw : decode w = .nan) (b : Num) :
    evalBin F cap .lt (.flt w) b.toSVal = .ok (.bool false) ∧
    evalBin F cap .gt (.flt w) b.toSVal = .ok (.bool false) ∧
    evalBin F cap .eq (.flt w) b.toSVal = .ok (.bool false) ∧
    evalBin F cap .le (.flt w) b.toSVal = .ok (.bool false) := by
  cases b <;>
    simp [evalBin_eq, binImpl, ordImpl, numOnly, isNumK, kindOf, run, numCmp, asNum, Num.toSVal, Num.ext, hw,
      Ext.lt, Ext.le, Ext.eq, pyEq, numView, extOfInt] <;>
    (try (split <;> simp_all [Ext.lt, Ext.le, Ext.eq]))

example : decode qnan = .nan := by decide +kernel

/-! ### null is the bottom -/

/-- `null_bottom`: null is below every non-null value (booleans included) under all four ordering
    operators, from either side -/
theorem null_bottom (F : FloatOps) (cap : Nat) (v : SVal) (hv : v ≠ .null) :
    evalBin F cap .lt .null v = .ok (.bool true) ∧
    evalBin F cap .le .null v = .ok (.bool true) ∧
    evalBin F cap .gt .null v = .ok (.bool false) ∧
    evalBin F cap .ge .null v = .ok (.bool false) ∧
    evalBin F cap .lt v .null = .ok (.bool false) ∧
    evalBin F cap .le v .null = .ok (.bool false) ∧
    evalBin F cap .gt v .null = .ok (.bool true) ∧
    evalBin F cap .ge v .null = .ok (.bool true) := by
  cases v <;> simp [evalBin_eq, binImpl, ordImpl, kindOf, run, const2] at hv ⊢

/-- `null <= null`, `null >= null`, not `null < null`, not `null > null`, `null = null` -/
theorem null_null (F : FloatOps) (cap : Nat) :
    evalBin F cap .le .null .null = .ok (.bool true) ∧
    evalBin F cap .ge .null .null = .ok (.bool true) ∧
    evalBin F cap .lt .null .null = .ok (.bool false) ∧
    evalBin F cap .gt .null .null = .ok (.bool false) ∧
    evalBin F cap .eq .null .null = .ok (.bool true) := by
  simp [evalBin_eq, binImpl, ordImpl, kindOf, run, const2, pyEq]

/-! ### a boolean is not a number; unrelated kinds do not match -/

def isArith : BinOp → Bool
  | .mul => true | .div => true | .mod => true | .add => true | .sub => true
  | _ => false

def isOrd : BinOp → Bool
  | .gt => true | .lt => true | .ge => true | .le => true
  | _ => false

def isBoolV : SVal → Bool
  | .bool _ => true
  | _ => false

/-- `bool_not_number`: with a boolean operand, no arithmetic operator (which covers `*` as
    repetition and `+` as concatenation), no `in`, no unary sign and - unless the other operand is
    null, where the null overloads of `null_bottom` answer - no ordering operator has a value:
    the call is rejected with `NoMatchingFunctionException` -/
theorem bool_not_number (F : FloatOps) (cap : Nat) (a b : SVal) (h : (isBoolV a || isBoolV b) = true) (op : BinOp) :
    (isArith op = true → evalBin F cap op a b = .error .noMatching) ∧
    (op = .isIn → evalBin F cap op a b = .error .noMatching) ∧
    (isOrd op = true → a ≠ .null → b ≠ .null → evalBin F cap op a b = .error .noMatching) := by
  cases a <;> cases b <;> simp [isBoolV] at h <;> cases op <;>
    simp [isArith, isOrd, evalBin_eq, binImpl, ordImpl, numOnly, isNumK, kindOf]

theorem bool_not_number_unary (F : FloatOps) (cap : Nat) (b : Bool) :
    evalUn F cap .neg (.bool b) = .error .noMatching ∧ evalUn F cap .pos (.bool b) = .error .noMatching := by
  simp [evalUn_eq, unImpl, isNumK, kindOf]

/-- the pairs of operand kinds an operator is defined for -/
def related : BinOp → Kind → Kind → Bool
  | .mul, k1, k2 => (isNumK k1 && isNumK k2) || (k1 == .int && k2 == .str) || (k1 == .str && k2 == .int)
  | .div, k1, k2 => isNumK k1 && isNumK k2
  | .mod, k1, k2 => isNumK k1 && isNumK k2
  | .sub, k1, k2 => isNumK k1 && isNumK k2
  | .add, k1, k2 => (isNumK k1 && isNumK k2) || (k1 == .str && k2 == .str)
  | .isIn, k1, k2 => k1 == .str && k2 == .str
  | .gt, k1, k2 => (isNumK k1 && isNumK k2) || (k1 == .str && k2 == .str) || k1 == .null || k2 == .null
  | .lt, k1, k2 => (isNumK k1 && isNumK k2) || (k1 == .str && k2 == .str) || k1 == .null || k2 == .null
  | .ge, k1, k2 => (isNumK k1 && isNumK k2) || (k1 == .str && k2 == .str) || k1 == .null || k2 == .null
  | .le, k1, k2 => (isNumK k1 && isNumK k2) || (k1 == .str && k2 == .str) || k1 == .null || k2 == .null
  | _, _, _ => true

/-- `unrelated_no_match`: operands of kinds the operator is not defined for give
    `NoMatchingFunctionException`, never a value (and never another error) -/
theorem unrelated_no_match (F : FloatOps) (cap : Nat) (op : BinOp) (a b : SVal)
    (h : related op (kindOf a) (kindOf b) = false) : evalBin F cap op a b = .error .noMatching := by
  cases op <;> cases a <;> cases b <;> simp [related, isNumK, kindOf] at h <;>
    simp [evalBin_eq, binImpl, ordImpl, numOnly, isNumK, kindOf]

theorem unrelated_no_match_unary (F : FloatOps) (cap : Nat) (op : UnOp) (a : SVal)
    (h : op ≠ .not) (hk : isNumK (kindOf a) = false) : evalUn F cap op a = .error .noMatching := by
  cases op <;> simp [evalUn_eq, unImpl, hk] at h ⊢


/-! ### error classes; the choice of overload is never ambiguous -/

theorem pyFloatMod_err {F : FloatOps} {x y : UInt64} {e : Err} (h : pyFloatMod F x y = .error e) :
    e = .zeroDivision := by
  unfold pyFloatMod at h
  by_cases hz : isZeroBits y = true
  · simp [hz] at h; exact h.symm
  · by_cases h1 : (!isZeroBits (fmodBits x y)) = true <;>
      by_cases h2 : (Ext.lt (decode y) (.fin 0) != Ext.lt (decode (fmodBits x y)) (.fin 0)) = true <;>
      simp [hz, h1, h2] at h

theorem floatArith_err {F : FloatOps} {o : AOp} {x y : UInt64} {e : Err} (h : floatArith F o x y = .error e) :
    e = .zeroDivision := by
  cases o <;> simp [floatArith, pyFloatDiv] at h
  · split at h <;> simp_all
  · exact pyFloatMod_err h

theorem arith_err {F : FloatOps} {o : AOp} {x y : Num} {e : Err} (h : arith F o x y = .error e) :
    e = .zeroDivision ∨ e = .overflow := by
  have key : ∀ fx fy, (match floatArith F o fx fy with
      | .ok w => (Except.ok (.flt w) : Except Err SVal) | .error e => .error e) = .error e → e = .zeroDivision := by
    intro fx fy h
    split at h
    · cases h
    · rename_i e' he; cases h; exact floatArith_err he
  have gen : (match x.toF with
      | .error e => (Except.error e : Except Err SVal)
      | .ok fx => match y.toF with
        | .error e => .error e
        | .ok fy => match floatArith F o fx fy with
          | .ok w => .ok (.flt w) | .error e => .error e) = .error e → e = .zeroDivision ∨ e = .overflow := by
    intro h
    split at h
    · rename_i e' he; cases h; exact Or.inr (toF_err he)
    · split at h
      · rename_i e' he; cases h; exact Or.inr (toF_err he)
      · exact Or.inl (key _ _ h)
  cases x with
  | flt wx => cases o <;> cases y <;> exact gen h
  | int a =>
    cases y with
    | flt wy => cases o <;> exact gen h
    | int b =>
      cases o <;> simp [arith] at h
      · by_cases hb : b = 0 <;> simp [hb] at h
        exact Or.inl h.symm
      · by_cases hb : b = 0 <;> simp [hb] at h
        exact Or.inl h.symm

theorem repeatStr_err {cap : Nat} {s : List Char} {n : Int} {e : Err} (h : repeatStr cap s n = .error e) :
    e = .overflow ∨ e = .memory := by
  unfold repeatStr at h
  repeat' (split at h)
  all_goals (first | (cases h; done) | (cases h; simp))

def okClass (e : Err) : Prop := e = .noMatching ∨ e = .zeroDivision ∨ e = .overflow ∨ e = .memory

theorem okClass_arith {F : FloatOps} {o : AOp} {x y : Num} {e : Err} (h : arith F o x y = .error e) : okClass e := by
  rcases arith_err h with h | h <;> simp [okClass, h]

theorem okClass_repeat {cap : Nat} {s : List Char} {n : Int} {e : Err} (h : repeatStr cap s n = .error e) :
    okClass e := by
  rcases repeatStr_err h with h | h <;> simp [okClass, h]

/-- every error of a binary operator is one of the four classes the real code raises: the
    selection is never ambiguous and no payload runs on operands its parameter types reject -/
theorem error_classes (F : FloatOps) (cap : Nat) (op : BinOp) (a b : SVal) (e : Err)
    (h : evalBin F cap op a b = .error e) : okClass e := by
  cases op <;> cases a <;> cases b <;>
    simp [evalBin_eq, binImpl, ordImpl, numOnly, isNumK, kindOf, run, const2, numCmp, strCmp, asNum, numArith,
      concatStrs] at h <;>
    first
    | (subst h; simp [okClass])
    | exact okClass_arith h
    | exact okClass_repeat h

theorem error_classes_unary (F : FloatOps) (cap : Nat) (op : UnOp) (a : SVal) (e : Err)
    (h : evalUn F cap op a = .error e) : e = .noMatching := by
  cases op <;> cases a <;> simp [evalUn_eq, unImpl, isNumK, kindOf, run, asNum] at h <;> simp [h]

/-- `dispatch_unique` -/
theorem dispatch_unique (F : FloatOps) (cap : Nat) (op : BinOp) (a b : SVal) :
    evalBin F cap op a b ≠ .error .ambiguous ∧ evalBin F cap op a b ≠ .error .internal := by
  constructor <;> intro h <;> have := error_classes F cap op a b _ h <;> simp [okClass] at this

/-- where the kinds are related the call is not rejected -/
theorem related_matches (F : FloatOps) (cap : Nat) (op : BinOp) (a b : SVal)
    (h : related op (kindOf a) (kindOf b) = true) : evalBin F cap op a b ≠ .error .noMatching := by
  cases op <;> cases a <;> cases b <;> simp [related, isNumK, kindOf] at h <;>
    simp [evalBin_eq, binImpl, ordImpl, numOnly, isNumK, kindOf, run, const2, numCmp, strCmp, asNum, numArith,
      concatStrs] <;>
    intro h' <;>
    first
    | exact absurd (arith_err h') (by simp)
    | exact absurd (repeatStr_err h') (by simp)

/-! ### strings, truth values -/

theorem string_ops (F : FloatOps) (cap : Nat) (s t : List Char) :
    evalBin F cap .add (.str s) (.str t) = .ok (.str (s ++ t)) ∧
    evalBin F cap .isIn (.str s) (.str t) = .ok (.bool (isInfix s t)) ∧
    evalBin F cap .eq (.str s) (.str t) = .ok (.bool (decide (s = t))) := by
  simp [evalBin_eq, binImpl, numOnly, isNumK, kindOf, run, concatStrs, pyEq]

theorem replicateStr_nil (k : Nat) : replicateStr [] k = [] := by
  induction k with
  | zero => rfl
  | succ k ih => simp [replicateStr, ih]

/-- repetition: `int * str` is `str * int`; non-positive counts give the empty string, counts
    outside the index range `OverflowError`; otherwise (allocator permitting) `n` copies -/
theorem repetition (F : FloatOps) (cap : Nat) (s : List Char) (n : Int) :
    evalBin F cap .mul (.int n) (.str s) = evalBin F cap .mul (.str s) (.int n) ∧
    (n ≤ 0 → -2 ^ 63 ≤ n → evalBin F cap .mul (.str s) (.int n) = .ok (.str [])) ∧
    ((n ≥ 2 ^ 63 ∨ n < -2 ^ 63) → evalBin F cap .mul (.str s) (.int n) = .error .overflow) ∧
    (∀ k : Nat, n = k → 2 ≤ k → (k : Int) < 2 ^ 63 → s.length * k ≤ cap → ((s.length * k : Nat) : Int) < 2 ^ 63 →
      evalBin F cap .mul (.str s) (.int n) = .ok (.str (replicateStr s k))) := by
  have e1 : evalBin F cap .mul (.int n) (.str s) = repeatStr cap s n := by
    simp [evalBin_eq, binImpl, kindOf, run]
  have e2 : evalBin F cap .mul (.str s) (.int n) = repeatStr cap s n := by
    simp [evalBin_eq, binImpl, kindOf, run]
  rw [e1, e2]
  refine ⟨rfl, ?_, ?_, ?_⟩
  · intro h1 h2
    unfold repeatStr
    have a1 : ¬ (n > ssizeMax ∨ n < -ssizeMax - 1) := by simp [ssizeMax]; omega
    have a2 : n < 1 := by omega
    simp [a1, a2]
  · intro h
    unfold repeatStr
    have a1 : (n > ssizeMax ∨ n < -ssizeMax - 1) := by simp [ssizeMax]; omega
    simp [a1]
  · intro k hk h2 hk63 hc hl
    subst hk
    unfold repeatStr
    have a1 : ¬ ((k : Int) > ssizeMax ∨ (k : Int) < -ssizeMax - 1) := by simp [ssizeMax]; omega
    have a2 : ¬ ((k : Int) < 1) := by omega
    have a3 : ¬ ((k : Int) = 1) := by omega
    have a4 : ¬ ((s.length : Int) > ssizeMax / (k : Int)) := by
      have hk0 : (0 : Int) < k := by omega
      have : (s.length : Int) ≤ ssizeMax / (k : Int) := by
        rw [Int.le_ediv_iff_mul_le hk0]
        simp [ssizeMax]
        have : ((s.length * k : Nat) : Int) = (s.length : Int) * (k : Int) := by simp
        omega
      omega
    have a5 : ¬ (s.length * (k : Int).toNat > cap) := by simp; omega
    simp [a1, a2, a3, a4]
    have a6 : ¬ (cap < s.length * k) := by omega
    simp only [a6, if_false]
    by_cases hs : s = []
    · subst hs; simp [replicateStr_nil]
    · simp [hs]

theorem truth_ops (F : FloatOps) (cap : Nat) (a b : SVal) :
    evalBin F cap .and a b = .ok (if truthy a then b else a) ∧
    evalBin F cap .or a b = .ok (if truthy a then a else b) ∧
    evalUn F cap .not a = .ok (.bool (!truthy a)) := by
  simp [evalBin_eq, evalUn_eq, binImpl, unImpl, run]


/-! ### non-vacuity and concrete values of the exact float layer -/

example : related .lt .int .str = false ∧ related .mul .str .float = false ∧ related .add .null .int = false := by decide
example : related .lt .int .float = true ∧ related .mul .str .int = true ∧ related .lt .bool .null = true := by decide
example : aopOf .mod = some .mod ∧ (isFltN (.int 3) || isFltN (.flt 0)) = true := by decide
example : (isBoolV (.bool true) || isBoolV (.int 1)) = true := by decide
-- 1.0, -0.0, the smallest subnormal, +inf
example : decode 0x3FF0000000000000 = .fin (2 ^ 1074) ∧ decode 0x8000000000000000 = .fin 0 ∧
    decode 1 = .fin 1 ∧ decode 0x7FF0000000000000 = .pinf := by decide +kernel
-- float(2^1024 - 2^970) overflows (the tie rounds to even, i.e. up to 2^1024), one less does not
example : toFloat (2 ^ 1024 - 2 ^ 970) = .error .overflow ∧
    toFloat (2 ^ 1024 - 2 ^ 970 - 1) = .ok 0x7FEFFFFFFFFFFFFF ∧ toFloat (-3) = .ok 0xC008000000000000 := by
  decide +kernel
-- fmod(5.5, -2.0) = 1.5 and python's 5.5 % -2.0 then adds the divisor; fmod(-0.0, 2.0) = -0.0 -> +0.0
example : fmodBits 0x4016000000000000 0xC000000000000000 = 0x3FF8000000000000 := by decide +kernel
def markOps : FloatOps := ⟨fun _ _ => 7, fun _ _ => 8, fun _ _ => 9, fun _ _ => 10⟩
example : pyFloatMod markOps 0x4016000000000000 0xC000000000000000 = .ok 7 ∧   -- the fix-up addition runs
    pyFloatMod markOps 0x8000000000000000 0x4000000000000000 = .ok 0 ∧          -- zero takes the divisor's sign
    pyFloatMod markOps 0x4016000000000000 0x4000000000000000 = .ok 0x3FF8000000000000 ∧
    pyFloatMod markOps 0x4016000000000000 0 = .error .zeroDivision := by
  decide +kernel

end Yaql.Props.C15
