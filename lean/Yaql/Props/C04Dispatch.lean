import Yaql.Props.C05
import Yaql.Model.EvalDispatch
import Mathlib.Data.List.Forall2
/-!
C04 / C05 - what overload resolution can see of the arguments (generic part, every lattice and family).

`resolve_congr`: two calls whose arguments look the same to every parameter type that occurs in the
candidate layers - same verdict of `check` before and after evaluation, same "is an empty slot", same
"is evaluated by resolution", same keyword spelling of mapping rules - resolve to the same overload
(or the same error class) and evaluate the same arguments.  Resolution therefore depends on argument
VALUES only through their class and the validators they pass (`resolve_kinds`): tags, probe identities
and the values themselves never matter.
-/
namespace Yaql.Props.C04Dispatch
open Yaql.Types Yaql.Resolve Yaql.Props.C05 List

/-! ## the relation -/

/-- the two arguments look the same to resolution over the parameter types satisfying `T` -/
structure Core (L : Lattice) (T : PTy → Prop) (a b : Arg) : Prop where
  noValue : a.isNoValue = b.isNoValue
  evaluable : a.evaluable = b.evaluable
  log : a.evalLog = b.evalLog
  chk : ∀ t, T t → Types.check L t a = Types.check L t b
  chkEv : ∀ t, T t → Types.check L t a.evaluated = Types.check L t b.evaluated

def isRule : Arg → Bool
  | .mapRule .. => true
  | _ => false

/-- the keyword a mapping rule is translated under (`translate_args`) -/
def kwName : Arg → Option Name
  | .const _ _ (some n) _ => some n
  | _ => none

/-- `Core`, and for mapping rules: the same keyword on the left, similar right sides -/
inductive Sim (L : Lattice) (T : PTy → Prop) : Arg → Arg → Prop
  | plain {a b : Arg} (h : Core L T a b) (ha : isRule a = false) (hb : isRule b = false) : Sim L T a b
  | rule {s d s' d' : Arg} {r r' : Val} {ek ek' : Nat}
      (h : Core L T (.mapRule s d r ek) (.mapRule s' d' r' ek')) (hk : kwName s = kwName s')
      (hd : Sim L T d d') : Sim L T (.mapRule s d r ek) (.mapRule s' d' r' ek')

variable {L : Lattice} {T : PTy → Prop}

theorem Sim.core {a b : Arg} (h : Sim L T a b) : Core L T a b := by
  cases h with
  | plain h _ _ => exact h
  | rule h _ _ => exact h

theorem Sim.isRule_eq {a b : Arg} (h : Sim L T a b) : isRule a = isRule b := by
  cases h with
  | plain _ ha hb => rw [ha, hb]
  | rule _ _ _ => rfl

theorem Core.refl (a : Arg) : Core L T a a := ⟨rfl, rfl, rfl, fun _ _ => rfl, fun _ _ => rfl⟩

theorem evaluated_evaluated (a : Arg) : a.evaluated.evaluated = a.evaluated := by
  cases a <;> rfl

theorem evaluated_not_evaluable (a : Arg) (h : a.evaluable = true) : a.evaluated.evaluable = false := by
  cases a <;> simp_all [Arg.evaluable, Arg.evaluated]

theorem evaluated_of_not_evaluable (a : Arg) (h : a.evaluable = false) : a.evaluated = a := by
  cases a <;> simp_all [Arg.evaluable, Arg.evaluated]

theorem evaluated_isRule (a : Arg) (h : a.evaluable = true) : isRule a.evaluated = false := by
  cases a <;> simp_all [Arg.evaluable, Arg.evaluated, isRule]

theorem evaluated_noValue (a : Arg) (h : a.evaluable = true) : a.evaluated.isNoValue = false := by
  cases a <;> simp_all [Arg.evaluable, Arg.evaluated, Arg.isNoValue]

theorem evaluated_log (a : Arg) (h : a.evaluable = true) : a.evaluated.evalLog = [] := by
  cases a <;> simp_all [Arg.evaluable, Arg.evaluated, Arg.evalLog]

/-- after `arg_evaluator` ran on both -/
theorem Sim.evaluated {a b : Arg} (h : Sim L T a b) : Sim L T a.evaluated b.evaluated := by
  have hc := h.core
  by_cases he : a.evaluable = true
  · have he' : b.evaluable = true := by rw [← hc.evaluable]; exact he
    refine .plain ⟨?_, ?_, ?_, ?_, ?_⟩ (evaluated_isRule a he) (evaluated_isRule b he')
    · rw [evaluated_noValue a he, evaluated_noValue b he']
    · rw [evaluated_not_evaluable a he, evaluated_not_evaluable b he']
    · rw [evaluated_log a he, evaluated_log b he']
    · exact hc.chkEv
    · intro t ht; rw [evaluated_evaluated, evaluated_evaluated]; exact hc.chkEv t ht
  · have he0 : a.evaluable = false := by simpa using he
    have he' : b.evaluable = false := by rw [← hc.evaluable]; exact he0
    rw [evaluated_of_not_evaluable a he0, evaluated_of_not_evaluable b he']
    exact h

theorem Sim.noValue_refl : Sim L T .noValue .noValue := .plain (Core.refl _) rfl rfl

theorem sim_refl : ∀ (a : Arg), Sim L T a a
  | .noValue => .plain (Core.refl _) rfl rfl
  | .const .. => .plain (Core.refl _) rfl rfl
  | .expr .. => .plain (Core.refl _) rfl rfl
  | .value _ => .plain (Core.refl _) rfl rfl
  | .mapRule _ d _ _ => .rule (Core.refl _) rfl (sim_refl d)

/-- keyword arguments: the same names in the same order, similar values -/
def KwRel (L : Lattice) (T : PTy → Prop) (kw kw' : KwArgs) : Prop :=
  Forall₂ (fun x y => x.1 = y.1 ∧ Sim L T x.2 y.2) kw kw'

abbrev ArgsRel (L : Lattice) (T : PTy → Prop) (as bs : List Arg) : Prop := Forall₂ (Sim L T) as bs

/-! ## association lists under `KwRel` -/

theorem KwRel.ahas {kw kw' : KwArgs} (h : KwRel L T kw kw') (k : Name) : ahas k kw = ahas k kw' := by
  induction h with
  | nil => rfl
  | cons hx _ ih =>
      simp only [Resolve.ahas, List.any_cons] at ih ⊢
      rw [hx.1, ih]

theorem KwRel.adel {kw kw' : KwArgs} (h : KwRel L T kw kw') (k : Name) :
    KwRel L T (adel k kw) (adel k kw') := by
  induction h with
  | nil => exact .nil
  | @cons x y l l' hx _ ih =>
      simp only [Resolve.adel, List.filter_cons] at ih ⊢
      rw [hx.1]
      split
      · exact .cons hx ih
      · exact ih

theorem KwRel.isEmpty {kw kw' : KwArgs} (h : KwRel L T kw kw') : kw.isEmpty = kw'.isEmpty := by
  cases h <;> rfl

theorem KwRel.alookup {kw kw' : KwArgs} (h : KwRel L T kw kw') (k : Name) :
    (alookup k kw = none ∧ alookup k kw' = none) ∨
    (∃ a b, alookup k kw = some a ∧ alookup k kw' = some b ∧ Sim L T a b) := by
  induction h with
  | nil => left; exact ⟨rfl, rfl⟩
  | @cons x y l l' hx _ ih =>
      obtain ⟨k1, v1⟩ := x
      obtain ⟨k2, v2⟩ := y
      have hk : k1 = k2 := hx.1
      subst hk
      simp only [Resolve.alookup]
      by_cases hkk : (k1 == k) = true
      · simp only [hkk, if_true]
        right; exact ⟨v1, v2, rfl, rfl, hx.2⟩
      · simp only [hkk]
        exact ih

theorem KwRel.aset {kw kw' : KwArgs} (h : KwRel L T kw kw') (k : Name) {a b : Arg} (hab : Sim L T a b) :
    KwRel L T (aset k a kw) (aset k b kw') := by
  induction h with
  | nil => exact .cons ⟨rfl, hab⟩ .nil
  | @cons x y l l' hx _ ih =>
      obtain ⟨k1, v1⟩ := x
      obtain ⟨k2, v2⟩ := y
      have hk : k1 = k2 := hx.1
      subst hk
      simp only [Resolve.aset]
      split
      · exact .cons ⟨rfl, hab⟩ (by assumption)
      · exact .cons hx ih

theorem KwRel.append {a a' b b' : KwArgs} (h : KwRel L T a a') (h2 : KwRel L T b b') :
    KwRel L T (a ++ b) (a' ++ b') := rel_append h h2

theorem KwRel.keys {kw kw' : KwArgs} (h : KwRel L T kw kw') : kw.map (·.1) = kw'.map (·.1) := by
  induction h with
  | nil => rfl
  | cons hx _ ih => simp only [List.map_cons, hx.1, ih]

/-! ## `translate_args` -/

theorem translatePos_congr : ∀ {as bs : List Arg}, ArgsRel L T as bs →
    ∀ {pos pos' : List Arg} {kw kw' : KwArgs}, ArgsRel L T pos pos' → KwRel L T kw kw' →
    (∃ e, translatePos as pos kw = .error e ∧ translatePos bs pos' kw' = .error e) ∨
    (∃ p k p' k', translatePos as pos kw = .ok (p, k) ∧ translatePos bs pos' kw' = .ok (p', k') ∧
      ArgsRel L T p p' ∧ KwRel L T k k')
  | [], _, h, pos, pos', kw, kw', hp, hk => by
      cases h
      right
      exact ⟨pos.reverse, kw, pos'.reverse, kw', rfl, rfl, rel_reverse hp, hk⟩
  | a :: as, _, h, pos, pos', kw, kw', hp, hk => by
      cases h with
      | @cons _ b _ bs hab hrest =>
        cases hab with
        | plain hc ha hb =>
            have e1 : translatePos (a :: as) pos kw = translatePos as (a :: pos) kw := by
              cases a <;> first | rfl | simp [isRule] at ha
            have e2 : translatePos (b :: bs) pos' kw' = translatePos bs (b :: pos') kw' := by
              cases b <;> first | rfl | simp [isRule] at hb
            rw [e1, e2]
            exact translatePos_congr hrest (.cons (.plain hc ha hb) hp) hk
        | @rule s d s' d' r r' ek ek' hc hkn hd =>
            cases hs : kwName s with
            | none =>
                have hs' : kwName s' = none := by rw [← hkn]; exact hs
                left
                refine ⟨.mappingTranslation, ?_, ?_⟩
                · cases s <;> first | rfl | (rename_i kw1 _; cases kw1 <;> first | rfl | simp [kwName] at hs)
                · cases s' <;> first | rfl | (rename_i kw1 _; cases kw1 <;> first | rfl | simp [kwName] at hs')
            | some n =>
                have hs' : kwName s' = some n := by rw [← hkn]; exact hs
                have e1 : translatePos (.mapRule s d r ek :: as) pos kw = translatePos as pos (aset n d kw) := by
                  cases s <;> first | simp [kwName] at hs | skip
                  rename_i kw1 _; cases kw1 <;> simp [kwName] at hs; subst hs; rfl
                have e2 : translatePos (.mapRule s' d' r' ek' :: bs) pos' kw' = translatePos bs pos' (aset n d' kw') := by
                  cases s' <;> first | simp [kwName] at hs' | skip
                  rename_i kw1 _; cases kw1 <;> simp [kwName] at hs'; subst hs'; rfl
                rw [e1, e2]
                exact translatePos_congr hrest hp (hk.aset n hd)

theorem mergeKw_congr : ∀ {a a' : KwArgs}, KwRel L T a a' → ∀ {kw kw' : KwArgs}, KwRel L T kw kw' →
    (∃ e, mergeKw a kw = .error e ∧ mergeKw a' kw' = .error e) ∨
    (∃ k k', mergeKw a kw = .ok k ∧ mergeKw a' kw' = .ok k' ∧ KwRel L T k k')
  | [], _, h, kw, kw', hk => by cases h; right; exact ⟨kw, kw', rfl, rfl, hk⟩
  | (k, v) :: r, _, h, kw, kw', hk => by
      cases h with
      | @cons _ y _ r' hx hr =>
        obtain ⟨k2, v2⟩ := y
        have hkk : k = k2 := hx.1
        subst hkk
        simp only [mergeKw]
        rw [← hk.ahas k]
        split
        · left; exact ⟨_, rfl, rfl⟩
        · exact mergeKw_congr hr (hk.append (.cons ⟨rfl, hx.2⟩ .nil))

theorem translateArgs_congr (nk : Bool) {as bs : List Arg} {kw kw' : KwArgs}
    (ha : ArgsRel L T as bs) (hk : KwRel L T kw kw') :
    (∃ e, translateArgs nk as kw = .error e ∧ translateArgs nk bs kw' = .error e) ∨
    (∃ p k p' k', translateArgs nk as kw = .ok (p, k) ∧ translateArgs nk bs kw' = .ok (p', k') ∧
      ArgsRel L T p p' ∧ KwRel L T k k') := by
  unfold translateArgs
  cases nk with
  | true =>
      simp only [if_true]
      rw [← hk.isEmpty]
      split
      · right; exact ⟨as, [], bs, [], rfl, rfl, ha, .nil⟩
      · left; exact ⟨_, rfl, rfl⟩
  | false =>
      simp only [Bool.false_eq_true, if_false]
      rcases translatePos_congr ha (pos := []) (pos' := []) (kw := []) (kw' := []) .nil .nil with
        ⟨e, h1, h2⟩ | ⟨p, k, p', k', h1, h2, hp, hkk⟩
      · left; rw [h1, h2]; exact ⟨e, rfl, rfl⟩
      · rw [h1, h2]
        rcases mergeKw_congr hk hkk with ⟨e, h3, h4⟩ | ⟨m, m', h3, h4, hm⟩
        · left; simp only [h3, h4]; exact ⟨e, rfl, rfl⟩
        · right; simp only [h3, h4]; exact ⟨p, m, p', m', rfl, rfl, hp, hm⟩

/-! ## `map_args` -/

theorem given_congr : ∀ {as bs : List Arg}, ArgsRel L T as bs → ∀ i, given as i = given bs i
  | _, _, .nil, i => by simp [given]
  | _, _, .cons hab hr, 0 => by simp [given, hab.core.noValue]
  | _, _, .cons _ hr, i + 1 => by
      have := given_congr hr i
      simpa [given] using this

/-- the states of the `map_args` loop on the two calls: same slots, same keyword table, similar leftovers -/
structure StRel (L : Lattice) (T : PTy → Prop) (st st' : MapSt) : Prop where
  pos : st.pos = st'.pos
  kwd : st.kwd = st'.kwd
  rest : KwRel L T st.rest st'.rest

/-- both fail, or both succeed with related results -/
def ORel {α β : Type} (R : α → β → Prop) : Option α → Option β → Prop
  | none, none => True
  | some a, some b => R a b
  | _, _ => False

theorem mapStep_congr {ps : List Param} {as bs : List Arg} {st st' : MapSt} (p : Param)
    (ha : ArgsRel L T as bs) (hs : StRel L T st st') :
    ORel (StRel L T) (mapStep ps as st p) (mapStep ps bs st' p) := by
  have hg := given_congr ha
  have hh := hs.rest.ahas
  have hl : as.length = bs.length := ha.length_eq
  obtain ⟨hpos, hkwd, hrest⟩ := hs
  unfold mapStep
  simp only [← hg, ← hh, ← hl, ← hpos, ← hkwd]
  cases p.position with
  | some q =>
      simp only
      repeat' split
      all_goals first
        | exact ⟨hpos, hkwd, hrest⟩
        | exact trivial
        | exact ⟨rfl, rfl, hrest⟩
        | exact ⟨rfl, rfl, hrest.adel _⟩
  | none =>
      simp only
      repeat' split
      all_goals first
        | exact ⟨hpos, hkwd, hrest⟩
        | exact trivial
        | exact ⟨rfl, rfl, hrest⟩
        | exact ⟨rfl, rfl, hrest.adel _⟩

theorem mapLoop_congr {ps : List Param} {as bs : List Arg} (ha : ArgsRel L T as bs) :
    ∀ (l : List Param) {st st' : MapSt}, StRel L T st st' →
    ORel (StRel L T) (mapLoop ps as st l) (mapLoop ps bs st' l)
  | [], st, st', hs => by simpa [mapLoop, ORel] using hs
  | p :: r, st, st', hs => by
      have h1 := mapStep_congr (ps := ps) p ha hs
      simp only [mapLoop]
      cases e1 : mapStep ps as st p with
      | none =>
          cases e2 : mapStep ps bs st' p with
          | none => exact trivial
          | some s2 => rw [e1, e2] at h1; exact h1.elim
      | some s1 =>
          cases e2 : mapStep ps bs st' p with
          | none => rw [e1, e2] at h1; exact h1.elim
          | some s2 =>
              rw [e1, e2] at h1
              exact mapLoop_congr ha r h1

/-- the final loop of `map_args` over the positional slots -/
theorem posOk_congr : ∀ (pos : List (Option Param)) {as bs : List Arg}, ArgsRel L T as bs →
    (∀ p, some p ∈ pos → T p.ty) → posOk L pos as = posOk L pos bs
  | [], _, _, _, _ => by simp [posOk]
  | none :: _, _, _, _, _ => by simp [posOk]
  | some _ :: _, _, _, .nil, _ => rfl
  | some p :: r, _, _, .cons hab hr, hT => by
      have hc := hab.core
      simp only [posOk]
      rw [← hc.noValue, posOk_congr r hr (fun q hq => hT q (List.mem_cons_of_mem _ hq))]
      have hp : T p.ty := hT p List.mem_cons_self
      split
      · rfl
      · rw [hc.chk _ hp]

theorem foldl_aset_keys (sp : Param) : ∀ {kw kw' : KwArgs}, KwRel L T kw kw' → ∀ (kwd : List (Name × Param)),
    kw.foldl (fun acc kv => aset kv.1 sp acc) kwd = kw'.foldl (fun acc kv => aset kv.1 sp acc) kwd
  | _, _, .nil, _ => rfl
  | _, _, .cons hx hr, kwd => by
      simp only [List.foldl_cons]
      rw [hx.1]
      exact foldl_aset_keys sp hr _

theorem checkOpt_all_congr (kwd : List (Name × Param)) (hT : ∀ q ∈ kwd, T q.2.ty) :
    ∀ {kw kw' : KwArgs}, KwRel L T kw kw' →
    (kw.all fun kv => checkOpt L (alookup kv.1 kwd) kv.2) = (kw'.all fun kv => checkOpt L (alookup kv.1 kwd) kv.2)
  | _, _, .nil => rfl
  | _, _, .cons (a := x) (b := y) hx hr => by
      simp only [List.all_cons]
      rw [checkOpt_all_congr kwd hT hr, ← hx.1]
      congr 1
      cases hl : alookup x.1 kwd with
      | none => rfl
      | some p =>
          obtain ⟨k', hk'⟩ := alookup_mem hl
          simp only [checkOpt]
          exact hx.2.core.chk _ (hT _ hk')

theorem filterMap_keys (kwd : List (Name × Param)) : ∀ {kw kw' : KwArgs}, KwRel L T kw kw' →
    (kw.filterMap fun kv => (alookup kv.1 kwd).map fun p => (kv.1, p)) =
    (kw'.filterMap fun kv => (alookup kv.1 kwd).map fun p => (kv.1, p))
  | _, _, .nil => rfl
  | _, _, .cons hx hr => by
      simp only [List.filterMap_cons]
      rw [hx.1, filterMap_keys kwd hr]

/-- `map_args` cannot tell the two calls apart -/
theorem mapArgs_congr {ps : List Param} {as bs : List Arg} {kw kw' : KwArgs}
    (ha : ArgsRel L T as bs) (hk : KwRel L T kw kw') (hT : ∀ p ∈ ps, T p.ty) :
    mapArgs L ps as kw = mapArgs L ps bs kw' := by
  have hl : as.length = bs.length := ha.length_eq
  have h0 : StRel L T { pos := List.replicate as.length (starParam ps), kwd := [], rest := kw }
      { pos := List.replicate bs.length (starParam ps), kwd := [], rest := kw' } := ⟨by rw [hl], rfl, hk⟩
  have hloop := mapLoop_congr (ps := ps) ha ps h0
  have hstar : ∀ p, starParam ps = some p → p ∈ ps := fun p hp => List.mem_of_find?_eq_some hp
  have hss : ∀ p, starStarParam ps = some p → p ∈ ps := fun p hp => List.mem_of_find?_eq_some hp
  have hinv0 : MapInv ps { pos := List.replicate as.length (starParam ps), kwd := [], rest := kw } :=
    ⟨fun p hp => hstar p (List.eq_of_mem_replicate hp).symm, fun q hq => by simp at hq⟩
  unfold mapArgs
  simp only
  cases e1 : mapLoop ps as { pos := List.replicate as.length (starParam ps), kwd := [], rest := kw } ps with
  | none =>
      cases e2 : mapLoop ps bs { pos := List.replicate bs.length (starParam ps), kwd := [], rest := kw' } ps with
      | none => rfl
      | some s2 => rw [e1, e2] at hloop; exact hloop.elim
  | some s1 =>
      cases e2 : mapLoop ps bs { pos := List.replicate bs.length (starParam ps), kwd := [], rest := kw' } ps with
      | none => rw [e1, e2] at hloop; exact hloop.elim
      | some s2 =>
          rw [e1, e2] at hloop
          obtain ⟨hpos, hkwd, hrest⟩ := hloop
          have hi := mapLoop_inv (fun p hp => hp) hinv0 e1
          simp only
          rw [← hpos, ← hkwd, ← hrest.isEmpty]
          have hfold : ∀ sp : Param, s2.rest.foldl (fun acc kv => aset kv.1 sp acc) s1.kwd =
              s1.rest.foldl (fun acc kv => aset kv.1 sp acc) s1.kwd := fun sp => (foldl_aset_keys sp hrest _).symm
          simp only [hfold]
          cases hkk : (if s1.rest.isEmpty then some s1.kwd
              else match starStarParam ps with
                | some sp => some (s1.rest.foldl (fun acc kv => aset kv.1 sp acc) s1.kwd)
                | none => none) with
          | none => rfl
          | some kwd =>
              simp only
              have hkT : ∀ q ∈ kwd, T q.2.ty := by
                intro q hq
                apply hT
                split at hkk
                · cases hkk; exact hi.kwd q hq
                · cases hsp : starStarParam ps with
                  | none => simp [hsp] at hkk
                  | some sp =>
                      simp only [hsp] at hkk
                      cases hkk
                      rcases mem_foldl_aset _ _ q hq with h' | h'
                      · exact hi.kwd q h'
                      · rw [h']; exact hss sp hsp
              rw [posOk_congr s1.pos ha (fun p hp => hT p (hi.pos p hp)), checkOpt_all_congr kwd hkT hrest,
                filterMap_keys kwd hk]

/-! ## argument evaluation -/

theorem evalPos_congr : ∀ (lz : List Bool) {as bs : List Arg}, ArgsRel L T as bs →
    ArgsRel L T (evalPos lz as).1 (evalPos lz bs).1 ∧ (evalPos lz as).2 = (evalPos lz bs).2
  | _, _, _, .nil => ⟨.nil, rfl⟩
  | lz, _, _, .cons (a := a) (b := b) hab hr => by
      have ih := evalPos_congr lz.tail hr
      have hc := hab.core
      simp only [evalPos]
      rw [← hc.evaluable]
      split
      · exact ⟨.cons hab.evaluated ih.1, by rw [hc.log, ih.2]⟩
      · exact ⟨.cons hab ih.1, ih.2⟩

theorem evalKw_congr : ∀ (lz : List Bool) {kw kw' : KwArgs}, KwRel L T kw kw' →
    KwRel L T (evalKw lz kw).1 (evalKw lz kw').1 ∧ (evalKw lz kw).2 = (evalKw lz kw').2
  | _, _, _, .nil => ⟨.nil, rfl⟩
  | lz, _, _, .cons (a := x) (b := y) hx hr => by
      obtain ⟨k1, a⟩ := x
      obtain ⟨k2, b⟩ := y
      have hk : k1 = k2 := hx.1
      subst hk
      have hab : Sim L T a b := hx.2
      have ih := evalKw_congr lz.tail hr
      have hc := hab.core
      simp only [evalKw]
      rw [← hc.evaluable]
      split
      · exact ⟨.cons ⟨rfl, hab.evaluated⟩ ih.1, by rw [hc.log, ih.2]⟩
      · exact ⟨.cons ⟨rfl, hab⟩ ih.1, ih.2⟩

/-! ## `get_delegate` -/

theorem getD_congr : ∀ {as bs : List Arg}, ArgsRel L T as bs → ∀ i, Sim L T (as.getD i .noValue) (bs.getD i .noValue)
  | _, _, .nil, _ => by simpa using Sim.noValue_refl
  | _, _, .cons hab _, 0 => by simpa using hab
  | _, _, .cons _ hr, i + 1 => by simpa using getD_congr hr i

theorem all_check_congr {t : PTy} (ht : T t) : ∀ {as bs : List Arg}, ArgsRel L T as bs →
    as.all (check L t) = bs.all (check L t)
  | _, _, .nil => rfl
  | _, _, .cons hab hr => by simp only [List.all_cons, hab.core.chk t ht, all_check_congr ht hr]

theorem all_check_kw_congr {t : PTy} (ht : T t) : ∀ {kw kw' : KwArgs}, KwRel L T kw kw' →
    (kw.all fun kv => check L t kv.2) = (kw'.all fun kv => check L t kv.2)
  | _, _, .nil => rfl
  | _, _, .cons hx hr => by simp only [List.all_cons, hx.2.core.chk t ht, all_check_kw_congr ht hr]

/-- the part of the `get_delegate` loop state that decides whether it succeeds -/
structure DRel (L : Lattice) (T : PTy → Prop) (st st' : DelSt) : Prop where
  rest : KwRel L T st.rest st'.rest
  vis : st.vis = st'.vis

theorem checked_isSome {p : Param} (hp : T p.ty) {a b : Arg} (hab : Sim L T a b) :
    (checked L p a).isSome = (checked L p b).isSome := by
  simp only [checked, hab.core.chk _ hp]
  split <;> rfl

theorem ORel_map_checked {p : Param} (hp : T p.ty) {a b : Arg} (hab : Sim L T a b)
    {f g : Slot → DelSt} (hfg : ∀ s s', DRel L T (f s) (g s')) :
    ORel (DRel L T) ((checked L p a).map f) ((checked L p b).map g) := by
  simp only [checked, hab.core.chk _ hp]
  split
  · exact hfg _ _
  · exact trivial

theorem delegStep_congr {ps : List Param} {as bs : List Arg} {st st' : DelSt} (p : Param) (hp : T p.ty)
    (ha : ArgsRel L T as bs) (hs : DRel L T st st') :
    ORel (DRel L T) (delegStep L ps as st p) (delegStep L ps bs st' p) := by
  have hg := given_congr ha
  have hh := hs.rest.ahas
  obtain ⟨hrest, hvis⟩ := hs
  have hself : ∀ d : Arg, Sim L T d d := sim_refl
  unfold delegStep
  cases hq : p.position with
  | some q =>
      simp only
      by_cases h1 : p.isStar = true
      · simp only [h1, if_true]; exact ⟨hrest, hvis⟩
      · simp only [h1]
        by_cases h2 : p.hidden = true
        · simp only [h2, if_true]; exact ⟨hrest, by simp [hvis]⟩
        · simp only [h2]
          rw [← hg]
          by_cases h3 : given as (q - fixAt ps q) = true
          · simp only [h3, if_true]
            rw [← hh]
            by_cases h4 : ahas p.argName st.rest = true
            · simp only [h4, if_true]; exact trivial
            · simp only [h4]
              exact ORel_map_checked hp (getD_congr ha _) (fun _ _ => ⟨hrest, hvis⟩)
          · simp only [h3]
            rcases hrest.alookup p.argName with ⟨e1, e2⟩ | ⟨a, b, e1, e2, hab⟩
            · rw [e1, e2]
              simp only
              cases p.default with
              | none => exact trivial
              | some d => exact ORel_map_checked hp (hself d) (fun _ _ => ⟨hrest, hvis⟩)
            · rw [e1, e2]
              simp only
              exact ORel_map_checked hp hab (fun _ _ => ⟨hrest.adel _, hvis⟩)
  | none =>
      simp only
      by_cases h1 : p.isStarStar = true
      · simp only [h1, if_true]; exact ⟨hrest, hvis⟩
      · simp only [h1]
        by_cases h2 : p.hidden = true
        · simp only [h2, if_true]; exact ⟨hrest, hvis⟩
        · simp only [h2]
          rcases hrest.alookup p.argName with ⟨e1, e2⟩ | ⟨a, b, e1, e2, hab⟩
          · rw [e1, e2]
            simp only
            cases p.default with
            | none => exact trivial
            | some d => exact ORel_map_checked hp (hself d) (fun _ _ => ⟨hrest, hvis⟩)
          · rw [e1, e2]
            simp only
            exact ORel_map_checked hp hab (fun _ _ => ⟨hrest.adel _, hvis⟩)

theorem delegLoop_congr {ps : List Param} {as bs : List Arg} (ha : ArgsRel L T as bs) :
    ∀ (l : List Param), (∀ p ∈ l, T p.ty) → ∀ {st st' : DelSt}, DRel L T st st' →
    ORel (DRel L T) (delegLoop L ps as st l) (delegLoop L ps bs st' l)
  | [], _, st, st', hs => by simpa [delegLoop, ORel] using hs
  | p :: r, hT, st, st', hs => by
      have h1 := delegStep_congr (ps := ps) p (hT p List.mem_cons_self) ha hs
      simp only [delegLoop]
      cases e1 : delegStep L ps as st p with
      | none =>
          cases e2 : delegStep L ps bs st' p with
          | none => exact trivial
          | some s2 => rw [e1, e2] at h1; exact h1.elim
      | some s1 =>
          cases e2 : delegStep L ps bs st' p with
          | none => rw [e1, e2] at h1; exact h1.elim
          | some s2 =>
              rw [e1, e2] at h1
              exact delegLoop_congr ha r (fun q hq => hT q (List.mem_cons_of_mem _ hq)) h1

theorem isSome_ite_congr {α : Type} (c : Prop) [Decidable c] (x y : α) :
    (if c then some x else none).isSome = (if c then some y else none).isSome := by
  split <;> rfl

/-- `get_delegate` accepts the one call iff it accepts the other -/
theorem getDelegate_isSome_congr {ps : List Param} {as bs : List Arg} {kw kw' : KwArgs}
    (ha : ArgsRel L T as bs) (hk : KwRel L T kw kw') (hT : ∀ p ∈ ps, T p.ty) :
    (getDelegate L ps as kw).isSome = (getDelegate L ps bs kw').isSome := by
  have hl : as.length = bs.length := ha.length_eq
  have hstar : ∀ p, starParam ps = some p → T p.ty := fun p hp => hT p (List.mem_of_find?_eq_some hp)
  have hss : ∀ p, starStarParam ps = some p → T p.ty := fun p hp => hT p (List.mem_of_find?_eq_some hp)
  have h0 : DRel L T { pos := List.replicate (positionalCount ps) none, kw := [], rest := kw, vis := positionalCount ps }
      { pos := List.replicate (positionalCount ps) none, kw := [], rest := kw', vis := positionalCount ps } := ⟨hk, rfl⟩
  have hloop := delegLoop_congr (ps := ps) ha ps hT h0
  unfold getDelegate
  simp only
  cases e1 : delegLoop L ps as
      { pos := List.replicate (positionalCount ps) none, kw := [], rest := kw, vis := positionalCount ps } ps with
  | none =>
      cases e2 : delegLoop L ps bs
          { pos := List.replicate (positionalCount ps) none, kw := [], rest := kw', vis := positionalCount ps } ps with
      | none => rfl
      | some s2 => rw [e1, e2] at hloop; exact hloop.elim
  | some s1 =>
      cases e2 : delegLoop L ps bs
          { pos := List.replicate (positionalCount ps) none, kw := [], rest := kw', vis := positionalCount ps } ps with
      | none => rw [e1, e2] at hloop; exact hloop.elim
      | some s2 =>
          rw [e1, e2] at hloop
          obtain ⟨hrest, hvis⟩ := hloop
          simp only
          rw [← hl, ← hvis, ← hrest.isEmpty]
          by_cases hgt : as.length > s1.vis
          · simp only [hgt, if_true]
            cases hsp : starParam ps with
            | none => rfl
            | some sp =>
                simp only
                rw [← all_check_congr (hstar sp hsp) (forall₂_drop s1.vis ha)]
                by_cases hall : ((as.drop s1.vis).all (check L sp.ty)) = true
                · simp only [hall, if_true]
                  by_cases hem : s1.rest.isEmpty = true
                  · simp only [hem, if_true, Option.isSome_some]
                  · simp only [hem]
                    cases hssp : starStarParam ps with
                    | none => rfl
                    | some sp2 =>
                        simp only
                        rw [← all_check_kw_congr (hss sp2 hssp) hrest]
                        exact isSome_ite_congr _ _ _
                · simp only [hall]; rfl
          · simp only [hgt, if_false]
            by_cases hem : s1.rest.isEmpty = true
            · simp only [hem, if_true, Option.isSome_some]
            · simp only [hem]
              cases hssp : starStarParam ps with
              | none => rfl
              | some sp2 =>
                  simp only
                  rw [← all_check_kw_congr (hss sp2 hssp) hrest]
                  exact isSome_ite_congr _ _ _

/-! ## the choice looks at the candidates only -/

theorem matchesOf_cands (L : Lattice) (as : List Arg) (kw : KwArgs) : ∀ (cs : List Cand),
    (matchesOf L as kw cs).map (·.cand) = cs.filter fun c => (getDelegate L c.fd.params as kw).isSome
  | [] => rfl
  | c :: r => by
      have ih := matchesOf_cands L as kw r
      simp only [matchesOf] at ih ⊢
      simp only [List.filterMap_cons, List.filter_cons]
      cases h : getDelegate L c.fd.params as kw with
      | none => simpa using ih
      | some b => simpa using ih

/-- the chosen overload as a function of the type-compatible candidates, level by level -/
def bestC (L : Lattice) (cs : List Cand) : List Cand :=
  cs.filter fun m => cs.all fun o => o.fd.id == m.fd.id || moreSpecific L m.mapping o.mapping

def chooseC (L : Lattice) (cs : List Cand) : Except Err Nat :=
  match bestC L cs with
  | [w] => .ok w.fd.id
  | _ => .error .ambiguous

def decideC (L : Lattice) (cls : List (List Cand)) : Except Err Nat :=
  match cls.find? (fun cs => !cs.isEmpty) with
  | none => .error .noMatching
  | some cs => chooseC L cs

theorem best_cands (L : Lattice) (ms : List Match) : (best L ms).map (·.cand) = bestC L (ms.map (·.cand)) := by
  unfold best bestC
  rw [List.filter_map]
  congr 1
  apply List.filter_congr
  intro m _
  simp only [List.all_map, Function.comp_def]

theorem choose_cands (L : Lattice) (ms : List Match) :
    (C05.choose L ms).map Prod.fst = chooseC L (ms.map (·.cand)) := by
  unfold C05.choose chooseC
  rw [← best_cands]
  cases h : best L ms with
  | nil => rfl
  | cons w r =>
      cases r with
      | nil => rfl
      | cons _ _ => rfl

theorem decide_cands (L : Lattice) : ∀ (mls : List (List Match)),
    (decide' L mls).map Prod.fst = decideC L (mls.map fun ms => ms.map (·.cand))
  | [] => rfl
  | ms :: r => by
      have ih := decide_cands L r
      unfold decide' decideC at ih ⊢
      simp only [List.map_cons, List.find?_cons]
      cases ms with
      | nil => simpa using ih
      | cons m ms' => simpa using choose_cands L (m :: ms')

/-! ## the theorem -/

/-- what the two outcomes share: the arguments evaluated, and the overload chosen / the error class -/
def _root_.Yaql.Resolve.Outcome.choice (o : Outcome) : List Nat × Except Err Nat := (o.log, o.res.map Prod.fst)

def CallRel (L : Lattice) (T : PTy → Prop) (c c' : Call) : Prop :=
  ArgsRel L T (callArgs c) (callArgs c') ∧ KwRel L T c.kwargs c'.kwargs ∧ c.receiver.isSome = c'.receiver.isSome

def candsOf (mls : List (List Match)) : List (List Cand) := mls.map fun ms => ms.map (·.cand)

theorem stage_congr {vis : List (List FDef)} {c c' : Call} (h : CallRel L T c c')
    (hT : ∀ lv ∈ vis, ∀ fd ∈ lv, ∀ p ∈ fd.params, T p.ty) :
    (∃ e, stage L vis c = .error e ∧ stage L vis c' = .error e) ∨
    (∃ lg mls mls', stage L vis c = .ok (lg, mls) ∧ stage L vis c' = .ok (lg, mls') ∧ candsOf mls = candsOf mls') := by
  obtain ⟨ha, hk, _⟩ := h
  unfold stage
  simp only
  by_cases hflag : (vis.flatten.any (·.noKwargs) && vis.flatten.any (!·.noKwargs)) = true
  · left; exact ⟨.ambiguous, by rw [if_pos hflag], by rw [if_pos hflag]⟩
  · rw [if_neg hflag, if_neg hflag]
    rcases translateArgs_congr ((vis.flatten.map (·.noKwargs)).headD false) ha hk with
      ⟨e, h1, h2⟩ | ⟨p, k, p', k', h1, h2, hp, hkk⟩
    · left; exact ⟨e, by rw [h1], by rw [h2]⟩
    · rw [h1, h2]
      simp only
      have hmapped : vis.map (mappedOf L p k) = vis.map (mappedOf L p' k') := by
        apply List.map_congr_left
        intro lv hlv
        unfold mappedOf
        apply List.filterMap_congr
        intro fd hfd
        rw [mapArgs_congr hp hkk (hT lv hlv fd hfd)]
      rw [← hmapped]
      cases hflat : (vis.map (mappedOf L p k)).flatten with
      | nil => left; exact ⟨.noMatching, rfl, rfl⟩
      | cons m0 rest =>
          simp only
          by_cases hsig : (!rest.all fun m => decide (m.sig = m0.sig)) = true
          · left; exact ⟨.ambiguous, by rw [if_pos hsig], by rw [if_pos hsig]⟩
          · right
            have hev := evalPos_congr m0.sig.pos hp
            have hek := evalKw_congr m0.sig.kw hkk
            refine ⟨_, _, _, by rw [if_neg hsig], by rw [if_neg hsig, ← hev.2, ← hek.2], ?_⟩
            simp only [candsOf, List.map_map]
            apply List.map_congr_left
            intro lv hlv
            simp only [Function.comp]
            rw [matchesOf_cands, matchesOf_cands]
            apply List.filter_congr
            intro cd hcd
            have hfd := (mem_mappedOf hcd).1
            exact getDelegate_isSome_congr hev.1 hek.1 (hT lv hlv cd.fd hfd)

theorem chooseSpec_congr {vis : List (List FDef)} {c c' : Call} (h : CallRel L T c c')
    (hT : ∀ lv ∈ vis, ∀ fd ∈ lv, ∀ p ∈ fd.params, T p.ty) :
    (chooseSpec L vis c).choice = (chooseSpec L vis c').choice := by
  unfold chooseSpec
  rcases stage_congr h hT with ⟨e, h1, h2⟩ | ⟨lg, mls, mls', h1, h2, hc⟩
  · rw [h1, h2]
  · rw [h1, h2]
    simp only [Outcome.choice, decide_cands]
    unfold candsOf at hc
    rw [hc]

/-- **resolution sees of the arguments only what the candidates' parameter types observe**: for every
    class graph, layer chain and pair of calls that look alike to every parameter type registered in
    the layers -/
theorem resolve_congr (L : Lattice) (T : PTy → Prop) (layers : List Layer) {c c' : Call}
    (h : CallRel L T c c') (hT : ∀ l ∈ layers, ∀ fd ∈ l.fns, ∀ p ∈ fd.params, T p.ty) :
    (resolve L layers c).choice = (resolve L layers c').choice := by
  rw [resolve_eq_spec, resolve_eq_spec]
  unfold resolveSpec
  simp only [← h.2.2]
  split
  · rfl
  · apply chooseSpec_congr h
    intro lv hlv fd hfd
    obtain ⟨l, hl, hfl, _⟩ := visible_mem hlv hfd
    exact hT l (reach_sub _ l hl) fd hfl

/-! ## (a) resolution depends on argument values only through their kinds -/

/-- two evaluated values of the same kind: both `None`, or the same class and the same validators passed -/
def SameKindV : Val → Val → Prop
  | .none, .none => True
  | .obj c ps _, .obj c' ps' _ => c = c' ∧ ps = ps'
  | _, _ => False

/-- the same argument expression up to the values involved, which only have the same KIND (identity tags, and so
    the values themselves, are free) -/
inductive SameKind : Arg → Arg → Prop
  | noValue : SameKind .noValue .noValue
  | const {v v' : Val} {lit : Lit} {kw : Option Name} {ek : Nat} (h : SameKindV v v') :
      SameKind (.const v lit kw ek) (.const v' lit kw ek)
  | expr {ek p : Nat} {ur : Bool} {r r' : Val} (h : SameKindV r r') : SameKind (.expr ek p ur r) (.expr ek p ur r')
  | mapRule {s d s' d' : Arg} {r r' : Val} {ek : Nat} (hs : SameKind s s') (hd : SameKind d d') (h : SameKindV r r') :
      SameKind (.mapRule s d r ek) (.mapRule s' d' r' ek)
  | value {v v' : Val} (h : SameKindV v v') : SameKind (.value v) (.value v')

theorem checkPyVal_sameKind (L : Lattice) (pc : PyCls) (n : Bool) (vs : List Nat) {v v' : Val} (h : SameKindV v v') :
    checkPyVal L pc n vs v = checkPyVal L pc n vs v' := by
  cases v <;> cases v' <;> simp_all [SameKindV, checkPyVal]

theorem check_value_sameKind (L : Lattice) (t : PTy) {v v' : Val} (h : SameKindV v v') :
    check L t (.value v) = check L t (.value v') := by
  cases t <;> simp only [check, Arg.ekind]
  · exact checkPyVal_sameKind L _ _ _ h
  · cases v <;> cases v' <;> simp_all [SameKindV]

theorem SameKind.check_eq (L : Lattice) (t : PTy) {a b : Arg} (h : SameKind a b) : check L t a = check L t b := by
  cases h with
  | noValue => rfl
  | @const v v' lit kw ek hv =>
      cases t <;> cases kw <;> simp only [check, Arg.ekind] <;> first | exact checkPyVal_sameKind L _ _ _ hv | rfl
  | expr _ => cases t <;> simp only [check, Arg.ekind]
  | mapRule _ _ _ => cases t <;> simp only [check, Arg.ekind]
  | value hv => exact check_value_sameKind L t hv

theorem SameKind.evalLog_eq : ∀ {a b : Arg}, SameKind a b → a.evalLog = b.evalLog
  | _, _, .noValue => rfl
  | _, _, .const _ => rfl
  | _, _, .expr _ => rfl
  | _, _, .value _ => rfl
  | _, _, .mapRule hs hd _ => by simp only [Arg.evalLog, hs.evalLog_eq, hd.evalLog_eq]

theorem SameKind.kwName_eq {a b : Arg} (h : SameKind a b) : kwName a = kwName b := by
  cases h with
  | @const v v' lit kw ek hv => cases kw <;> rfl
  | _ => rfl

theorem SameKind.core (L : Lattice) (T : PTy → Prop) {a b : Arg} (h : SameKind a b) : Core L T a b := by
  refine ⟨?_, ?_, h.evalLog_eq, fun t _ => h.check_eq L t, fun t _ => ?_⟩
  · cases h <;> rfl
  · cases h <;> rfl
  · cases h with
    | noValue => rfl
    | const hv => exact (SameKind.const hv).check_eq L t
    | expr hv => exact check_value_sameKind L t hv
    | mapRule _ _ hv => exact check_value_sameKind L t hv
    | value hv => exact check_value_sameKind L t hv

theorem SameKind.sim (L : Lattice) (T : PTy → Prop) : ∀ {a b : Arg}, SameKind a b → Sim L T a b
  | _, _, .noValue => .plain (SameKind.noValue.core L T) rfl rfl
  | _, _, .const h => .plain ((SameKind.const h).core L T) rfl rfl
  | _, _, .expr h => .plain ((SameKind.expr h).core L T) rfl rfl
  | _, _, .value h => .plain ((SameKind.value h).core L T) rfl rfl
  | _, _, .mapRule hs hd h => .rule ((SameKind.mapRule hs hd h).core L T) hs.kwName_eq (hd.sim L T)

/-- **(a)** for every class graph, layer chain and call: replacing every value that occurs in the call (the receiver,
    literal constants, the results of argument expressions, evaluated mapping rules, keyword values) by ANY value of the
    same class that passes the same validators changes neither the overload chosen, nor the error class, nor the
    arguments evaluated -/
theorem resolve_kinds (L : Lattice) (layers : List Layer) {c c' : Call}
    (hargs : Forall₂ SameKind (callArgs c) (callArgs c'))
    (hkw : Forall₂ (fun x y => x.1 = y.1 ∧ SameKind x.2 y.2) c.kwargs c'.kwargs)
    (hrecv : c.receiver.isSome = c'.receiver.isSome) :
    (resolve L layers c).choice = (resolve L layers c').choice :=
  resolve_congr L (fun _ => True) layers
    ⟨hargs.imp fun _ _ h => h.sim L _, hkw.imp fun _ _ h => ⟨h.1, h.2.sim L _⟩, hrecv⟩
    (fun _ _ _ _ _ _ => trivial)

/-! ## the call shapes of the reference interpreter (`Model/EvalDispatch.lean`) -/

open Yaql.EvalDispatch

theorem toArgP_isRule (U : Universe) (p : Nat) (a : AShape) : isRule (toArgP U p a) = a.isRule := by
  cases a <;> rfl

theorem toArgP_noValue (U : Universe) (p : Nat) (a : AShape) : (toArgP U p a).isNoValue = false := by
  cases a <;> rfl

theorem toArgP_evaluable (U : Universe) (p q : Nat) (a : AShape) :
    (toArgP U p a).evaluable = (toArgP U q a).evaluable := by
  cases a <;> rfl

theorem toArgP_log (U : Universe) (p : Nat) (a : AShape) (h : a.isRule = false) :
    (toArgP U p a).evalLog = if (toArgP U p a).evaluable then [p] else [] := by
  cases a <;> first | rfl | simp [AShape.isRule] at h

theorem toArgP_check (U : Universe) (t : PTy) (p q : Nat) (a : AShape) (h : a.isRule = false) :
    check U.L t (toArgP U p a) = check U.L t (toArgP U q a) ∧
    check U.L t (toArgP U p a).evaluated = check U.L t (toArgP U q a).evaluated := by
  cases a <;> first | (cases t <;> exact ⟨rfl, rfl⟩) | (simp [AShape.isRule] at h)

/-- shapes that look alike to the parameter types `ts` give similar arguments -/
theorem obs_sim (U : Universe) (ts : List PTy) (p : Nat) {a b : AShape} (ha : a.isRule = false)
    (h : obs U ts a = obs U ts b) : Sim U.L (· ∈ ts) (toArgP U p a) (toArgP U p b) := by
  simp only [obs, Prod.mk.injEq] at h
  obtain ⟨hpre, hpost, hev, hrule⟩ := h
  have hb : b.isRule = false := by rw [← hrule]; exact ha
  have hev' : (toArgP U p a).evaluable = (toArgP U p b).evaluable := by
    rw [toArgP_evaluable U p 1 a, toArgP_evaluable U p 1 b]; exact hev
  refine .plain ⟨?_, hev', ?_, ?_, ?_⟩ (by rw [toArgP_isRule]; exact ha) (by rw [toArgP_isRule]; exact hb)
  · rw [toArgP_noValue, toArgP_noValue]
  · rw [toArgP_log U p a ha, toArgP_log U p b hb, hev']
  · intro t ht
    rw [(toArgP_check U t p 1 a ha).1, (toArgP_check U t p 1 b hb).1]
    exact List.map_inj_left.1 hpre t ht
  · intro t ht
    rw [(toArgP_check U t p 1 a ha).2, (toArgP_check U t p 1 b hb).2]
    exact List.map_inj_left.1 hpost t ht

theorem check_kw_name (U : Universe) (t : PTy) (n m : EvalDispatch.Name) :
    check U.L t (toArgP U 1 (.kw n)) = check U.L t (toArgP U 1 (.kw m)) ∧
    check U.L t (toArgP U 1 (.kw n)).evaluated = check U.L t (toArgP U 1 (.kw m)).evaluated := by
  cases t <;> exact ⟨rfl, rfl⟩

theorem obs_kw_name (U : Universe) (ts : List PTy) (n m : EvalDispatch.Name) :
    obs U ts (.kw n) = obs U ts (.kw m) := by
  simp only [obs, Prod.mk.injEq]
  refine ⟨List.map_congr_left fun t _ => (check_kw_name U t n m).1,
    List.map_congr_left fun t _ => (check_kw_name U t n m).2, rfl, rfl⟩

/-- `obsShapes` lists every shape that is no mapping rule, up to the name a keyword carries -/
theorem nonRule_mem (a : AShape) (h : a.isRule = false) : (∃ n, a = .kw n) ∨ a ∈ obsShapes := by
  cases a with
  | lit k => right; cases k <;> decide
  | kw n => left; exact ⟨n, rfl⟩
  | expr fn k => right; cases fn <;> cases k <;> decide
  | value k => right; cases k <;> decide
  | rule _ _ => simp [AShape.isRule] at h

theorem kw_mem_obsShapes : AShape.kw ['a'] ∈ obsShapes := by decide

/-- what `Reps.obsOk` establishes, for EVERY argument shape that is no mapping rule -/
theorem obsOk_all {U : Universe} {g : Group} {r : Reps} (h : r.obsOk U g = true) (a : AShape)
    (ha : a.isRule = false) : obs U (groupTypes g) (r.app a) = obs U (groupTypes g) a := by
  have hall : ∀ b ∈ obsShapes, obs U (groupTypes g) (r.app b) = obs U (groupTypes g) b := by
    intro b hb
    have := List.all_eq_true.1 h b hb
    exact eq_of_beq this
  rcases nonRule_mem a ha with ⟨n, rfl⟩ | hm
  · have h1 := hall _ kw_mem_obsShapes
    have e : r.app (.kw n) = r.app (.kw ['a']) := rfl
    rw [e, h1]
    exact obs_kw_name U _ _ _
  · exact hall a hm

theorem app_rule (r : Reps) (a : AShape) (h : a.isRule = true) : r.app a = a := by
  cases a <;> first | rfl | simp [AShape.isRule] at h

/-- the argument lists of a call shape and of its representative are similar -/
theorem toArgs_rep {U : Universe} {g : Group} {r : Reps} (h : r.obsOk U g = true) :
    ∀ (as : List AShape) (i : Nat),
    ArgsRel U.L (· ∈ groupTypes g) (toArgs U i as) (toArgs U i (as.map r.app))
  | [], _ => .nil
  | a :: as, i => by
      simp only [List.map_cons, toArgs]
      refine .cons ?_ (toArgs_rep h as (i + 1))
      cases hr : a.isRule with
      | true => rw [app_rule r a hr]; exact sim_refl _
      | false => exact obs_sim U _ _ hr (obsOk_all h a hr).symm

theorem callRel_rep {U : Universe} {g : Group} {r : Reps} (h : r.obsOk U g = true) (s : CallShape) :
    CallRel U.L (· ∈ groupTypes g) (toCall U s) (toCall U (s.rep r)) := by
  refine ⟨?_, .nil, ?_⟩
  · simp only [callArgs, toCall, CallShape.rep]
    cases s.receiver with
    | none => exact toArgs_rep h s.args 0
    | some k =>
        simp only [Option.map_some]
        refine .cons ?_ (toArgs_rep h s.args 0)
        have := obs_sim U (groupTypes g) 1 (a := .value k) (b := r.app (.value k)) rfl (obsOk_all h (.value k) rfl).symm
        exact this
  · simp only [toCall, CallShape.rep]
    cases s.receiver <;> rfl

theorem mem_dedup {α : Type} [DecidableEq α] (a : α) : ∀ (l : List α), a ∈ EvalDispatch.dedup l ↔ a ∈ l
  | [] => by simp [EvalDispatch.dedup]
  | b :: r => by
      have ih := mem_dedup a r
      simp only [EvalDispatch.dedup]
      split
      · rename_i hc
        rw [ih]
        constructor
        · exact fun h => List.mem_cons_of_mem _ h
        · intro h
          rcases List.mem_cons.1 h with rfl | h
          · simpa using hc
          · exact h
      · simp only [List.mem_cons, ih]

theorem groupTypes_mem {g : Group} : ∀ l ∈ g.layers, ∀ fd ∈ l.fns, ∀ p ∈ fd.params, p.ty ∈ groupTypes g := by
  intro l hl fd hfd p hp
  unfold groupTypes
  rw [mem_dedup]
  simp only [List.mem_flatMap, List.mem_map]
  exact ⟨l, hl, fd, hfd, p, hp, rfl⟩

theorem ofResolve_choice (ds : List GDef) {o o' : Resolve.Outcome} (h : o.choice = o'.choice) :
    ofResolve ds o = ofResolve ds o' := by
  simp only [Outcome.choice, Prod.mk.injEq] at h
  obtain ⟨h1, h2⟩ := h
  unfold ofResolve
  rw [h1]
  cases hr : o.res with
  | error e =>
      cases hr' : o'.res with
      | error e' => rw [hr, hr'] at h2; cases h2; rfl
      | ok x => rw [hr, hr'] at h2; cases h2
  | ok x =>
      cases hr' : o'.res with
      | error e' => rw [hr, hr'] at h2; cases h2
      | ok x' =>
          rw [hr, hr'] at h2
          obtain ⟨i, b⟩ := x
          obtain ⟨i', b'⟩ := x'
          simp only [Except.map, Except.ok.injEq] at h2
          subst h2
          rfl

/-- resolution cannot tell a call shape from its representative -/
theorem resolveIn_rep {U : Universe} {g : Group} {r : Reps} (h : r.obsOk U g = true) (s : CallShape) :
    resolveIn U g s = resolveIn U g (s.rep r) :=
  ofResolve_choice _ (resolve_congr U.L (· ∈ groupTypes g) g.layers (callRel_rep h s) groupTypes_mem)

theorem mem_prod : ∀ {ls : List (List AShape)} {as : List AShape}, as ∈ EvalDispatch.prod ls ↔ Forall₂ (· ∈ ·) as ls
  | [], as => by
      simp only [EvalDispatch.prod, List.mem_singleton]
      constructor
      · rintro rfl; exact .nil
      · intro h; cases h; rfl
  | l :: r, as => by
      simp only [EvalDispatch.prod, List.mem_flatMap, List.mem_map]
      constructor
      · rintro ⟨a, ha, t, ht, rfl⟩
        exact .cons ha (mem_prod.1 ht)
      · intro h
        cases h with
        | cons ha ht => exact ⟨_, ha, _, mem_prod.2 ht, rfl⟩

theorem rep_mem_shapes (c : Callee) (r : Reps) (p : Pattern) {s : CallShape} (hs : s ∈ p.shapes c) :
    s.rep r ∈ (p.rep r).shapes c := by
  simp only [Pattern.shapes, List.mem_flatMap, List.mem_map] at hs ⊢
  obtain ⟨rv, hrv, as, has, rfl⟩ := hs
  refine ⟨rv.map r.kind, ?_, as.map r.app, ?_, rfl⟩
  · simp only [Pattern.rep]
    rw [mem_dedup]
    exact List.mem_map.2 ⟨rv, hrv, rfl⟩
  · simp only [Pattern.rep]
    rw [mem_prod] at has ⊢
    rw [forall₂_map_left_iff, forall₂_map_right_iff]
    exact has.imp fun a l ha => (mem_dedup _ _).2 (List.mem_map.2 ⟨a, ha, rfl⟩)

/-- the three per-site checks give the statement for every call shape of the pattern -/
theorem pattern_ok {U : Universe} {g : Group} {c : Callee} {r : Reps} {p : Pattern}
    (hobs : r.obsOk U g = true) (hinv : p.invOk c r = true) (hreps : p.repsOk U g c r = true) :
    ∀ s ∈ p.shapes c, dispatchOf s = some (resolveIn U g s) := by
  intro s hs
  have h1 : dispatchOf s = dispatchOf (s.rep r) := eq_of_beq (List.all_eq_true.1 hinv s hs)
  have h2 : dispatchOf (s.rep r) = some (resolveIn U g (s.rep r)) :=
    eq_of_beq (List.all_eq_true.1 hreps _ (rep_mem_shapes c r p hs))
  rw [h1, h2, resolveIn_rep hobs s]

end Yaql.Props.C04Dispatch
