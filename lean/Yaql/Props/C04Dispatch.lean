import Yaql.Props.C05
import Yaql.Model.EvalDispatch
import Mathlib.Data.List.Forall2
/-!
C04 / C05 - what overload resolution can see of the arguments (generic part, every lattice and family).

`resolve_congr`: two calls whose arguments look the same to every parameter type that occurs in the
candidate layers - same verdict of `check` before and after evaluation, same "is an empty slot", same
"is evaluated by resolution", same keyword spelling of mapping rules - resolve to the same overload
(or the same error class) and evaluate the same arguments.  Resolution therefore depends on argument
VALUES only through their class and the validators they pass (`resolve_kinds`): tags, probe identities
and the values themselves never matter.
-/
namespace Yaql.Props.C04Dispatch
open Yaql.Types Yaql.Resolve Yaql.Props.C05 List

/-! ## the relation -/

/-- the two arguments look the same to resolution over the parameter types satisfying `T` -/
structure Core (L : Lattice) (T : PTy → Prop) (a b : Arg) : Prop where
  noValue : a.isNoValue = b.isNoValue
  evaluable : a.evaluable = b.evaluable
  log : a.evalLog = b.evalLog
  chk : ∀ t, T t → Types.check L t a = Types.check L t b
  chkEv : ∀ t, T t → Types.check L t a.evaluated = Types.check L t b.evaluated

def isRule : Arg → Bool
  | .mapRule .. => true
  | _ => false

/-- the keyword a mapping rule is translated under (`translate_args`) -/
def kwName : Arg → Option Name
  | .const _ _ (some n) _ => some n
  | _ => none

/-- `Core`, and for mapping rules: the same keyword on the left, similar right sides -/
inductive Sim (L : Lattice) (T : PTy → Prop) : Arg → Arg → Prop
  | plain {a b : Arg} (h : Core L T a b) (ha : isRule a = false) (hb : isRule b = false) : Sim L T a b
  | rule {s d s' d' : Arg} {r r' : Val} {ek ek' : Nat}
      (h : Core L T (.mapRule s d r ek) (.mapRule s' d' r' ek')) (hk : kwName s = kwName s')
      (hd : Sim L T d d') : Sim L T (.mapRule s d r ek) (.mapRule s' d' r' ek')

variable {L : Lattice} {T : PTy → Prop}

theorem Sim.core {a b : Arg} (h : Sim L T a b) : Core L T a b := by
  cases h with
  | plain h _ _ => exact h
  | rule h _ _ => exact h

theorem Sim.isRule_eq {a b : Arg} (h : Sim L T a b) : isRule a = isRule b := by
  cases h with
  | plain _ ha hb => rw [ha, hb]
  | rule _ _ _ => rfl

theorem Core.refl (a : Arg) : Core L T a a := ⟨rfl, rfl, rfl, fun _ _ => rfl, fun _ _ => rfl⟩

theorem evaluated_evaluated (a : Arg) : a.evaluated.evaluated = a.evaluated := by
  cases a <;> rfl

theorem evaluated_not_evaluable (a : Arg) (h : a.evaluable = true) : a.evaluated.evaluable = false := by
  cases a <;> simp_all [Arg.evaluable, Arg.evaluated]

theorem evaluated_of_not_evaluable (a : Arg) (h : a.evaluable = false) : a.evaluated = a := by
  cases a <;> simp_all [Arg.evaluable, Arg.evaluated]

theorem evaluated_isRule (a : Arg) (h : a.evaluable = true) : isRule a.evaluated = false := by
  cases a <;> simp_all [Arg.evaluable, Arg.evaluated, isRule]

theorem evaluated_noValue (a : Arg) (h : a.evaluable = true) : a.evaluated.isNoValue = false := by
  cases a <;> simp_all [Arg.evaluable, Arg.evaluated, Arg.isNoValue]

theorem evaluated_log (a : Arg) (h : a.evaluable = true) : a.evaluated.evalLog = [] := by
  cases a <;> simp_all [Arg.evaluable, Arg.evaluated, Arg.evalLog]

/-- after `arg_evaluator` ran on both -/
theorem Sim.evaluated {a b : Arg} (h : Sim L T a b) : Sim L T a.evaluated b.evaluated := by
  have hc := h.core
  by_cases he : a.evaluable = true
  · have he' : b.evaluable = true := by rw [← hc.evaluable]; exact he
    refine .plain ⟨?_, ?_, ?_, ?_, ?_⟩ (evaluated_isRule a he) (evaluated_isRule b he')
    · rw [evaluated_noValue a he, evaluated_noValue b he']
    · rw [evaluated_not_evaluable a he, evaluated_not_evaluable b he']
    · rw [evaluated_log a he, evaluated_log b he']
    · exact hc.chkEv
    · intro t ht; rw [evaluated_evaluated, evaluated_evaluated]; exact hc.chkEv t ht
  · have he0 : a.evaluable = false := by simpa using he
    have he' : b.evaluable = false := by rw [← hc.evaluable]; exact he0
    rw [evaluated_of_not_evaluable a he0, evaluated_of_not_evaluable b he']
    exact h

theorem Sim.noValue_refl : Sim L T .noValue .noValue := .plain (Core.refl _) rfl rfl

/-- keyword arguments: the same names in the same order, similar values -/
def KwRel (L : Lattice) (T : PTy → Prop) (kw kw' : KwArgs) : Prop :=
  Forall₂ (fun x y => x.1 = y.1 ∧ Sim L T x.2 y.2) kw kw'

abbrev ArgsRel (L : Lattice) (T : PTy → Prop) (as bs : List Arg) : Prop := Forall₂ (Sim L T) as bs

/-! ## association lists under `KwRel` -/

theorem KwRel.ahas {kw kw' : KwArgs} (h : KwRel L T kw kw') (k : Name) : ahas k kw = ahas k kw' := by
  induction h with
  | nil => rfl
  | cons hx _ ih =>
      simp only [Resolve.ahas, List.any_cons] at ih ⊢
      rw [hx.1, ih]

theorem KwRel.adel {kw kw' : KwArgs} (h : KwRel L T kw kw') (k : Name) :
    KwRel L T (adel k kw) (adel k kw') := by
  induction h with
  | nil => exact .nil
  | @cons x y l l' hx _ ih =>
      simp only [Resolve.adel, List.filter_cons] at ih ⊢
      rw [hx.1]
      split
      · exact .cons hx ih
      · exact ih

theorem KwRel.isEmpty {kw kw' : KwArgs} (h : KwRel L T kw kw') : kw.isEmpty = kw'.isEmpty := by
  cases h <;> rfl

theorem KwRel.alookup {kw kw' : KwArgs} (h : KwRel L T kw kw') (k : Name) :
    (alookup k kw = none ∧ alookup k kw' = none) ∨
    (∃ a b, alookup k kw = some a ∧ alookup k kw' = some b ∧ Sim L T a b) := by
  induction h with
  | nil => left; exact ⟨rfl, rfl⟩
  | @cons x y l l' hx _ ih =>
      obtain ⟨k1, v1⟩ := x
      obtain ⟨k2, v2⟩ := y
      have hk : k1 = k2 := hx.1
      subst hk
      simp only [Resolve.alookup]
      by_cases hkk : (k1 == k) = true
      · simp only [hkk, if_true]
        right; exact ⟨v1, v2, rfl, rfl, hx.2⟩
      · simp only [hkk]
        exact ih

theorem KwRel.aset {kw kw' : KwArgs} (h : KwRel L T kw kw') (k : Name) {a b : Arg} (hab : Sim L T a b) :
    KwRel L T (aset k a kw) (aset k b kw') := by
  induction h with
  | nil => exact .cons ⟨rfl, hab⟩ .nil
  | @cons x y l l' hx _ ih =>
      obtain ⟨k1, v1⟩ := x
      obtain ⟨k2, v2⟩ := y
      have hk : k1 = k2 := hx.1
      subst hk
      simp only [Resolve.aset]
      split
      · exact .cons ⟨rfl, hab⟩ (by assumption)
      · exact .cons hx ih

theorem KwRel.append {a a' b b' : KwArgs} (h : KwRel L T a a') (h2 : KwRel L T b b') :
    KwRel L T (a ++ b) (a' ++ b') := rel_append h h2

theorem KwRel.keys {kw kw' : KwArgs} (h : KwRel L T kw kw') : kw.map (·.1) = kw'.map (·.1) := by
  induction h with
  | nil => rfl
  | cons hx _ ih => simp only [List.map_cons, hx.1, ih]

/-! ## `translate_args` -/

theorem translatePos_congr : ∀ {as bs : List Arg}, ArgsRel L T as bs →
    ∀ {pos pos' : List Arg} {kw kw' : KwArgs}, ArgsRel L T pos pos' → KwRel L T kw kw' →
    (∃ e, translatePos as pos kw = .error e ∧ translatePos bs pos' kw' = .error e) ∨
    (∃ p k p' k', translatePos as pos kw = .ok (p, k) ∧ translatePos bs pos' kw' = .ok (p', k') ∧
      ArgsRel L T p p' ∧ KwRel L T k k')
  | [], _, h, pos, pos', kw, kw', hp, hk => by
      cases h
      right
      exact ⟨pos.reverse, kw, pos'.reverse, kw', rfl, rfl, rel_reverse hp, hk⟩
  | a :: as, _, h, pos, pos', kw, kw', hp, hk => by
      cases h with
      | @cons _ b _ bs hab hrest =>
        cases hab with
        | plain hc ha hb =>
            have e1 : translatePos (a :: as) pos kw = translatePos as (a :: pos) kw := by
              cases a <;> first | rfl | simp [isRule] at ha
            have e2 : translatePos (b :: bs) pos' kw' = translatePos bs (b :: pos') kw' := by
              cases b <;> first | rfl | simp [isRule] at hb
            rw [e1, e2]
            exact translatePos_congr hrest (.cons (.plain hc ha hb) hp) hk
        | @rule s d s' d' r r' ek ek' hc hkn hd =>
            cases hs : kwName s with
            | none =>
                have hs' : kwName s' = none := by rw [← hkn]; exact hs
                left
                refine ⟨.mappingTranslation, ?_, ?_⟩
                · cases s <;> first | rfl | (rename_i kw1 _; cases kw1 <;> first | rfl | simp [kwName] at hs)
                · cases s' <;> first | rfl | (rename_i kw1 _; cases kw1 <;> first | rfl | simp [kwName] at hs')
            | some n =>
                have hs' : kwName s' = some n := by rw [← hkn]; exact hs
                have e1 : translatePos (.mapRule s d r ek :: as) pos kw = translatePos as pos (aset n d kw) := by
                  cases s <;> first | simp [kwName] at hs | skip
                  rename_i kw1 _; cases kw1 <;> simp [kwName] at hs; subst hs; rfl
                have e2 : translatePos (.mapRule s' d' r' ek' :: bs) pos' kw' = translatePos bs pos' (aset n d' kw') := by
                  cases s' <;> first | simp [kwName] at hs' | skip
                  rename_i kw1 _; cases kw1 <;> simp [kwName] at hs'; subst hs'; rfl
                rw [e1, e2]
                exact translatePos_congr hrest hp (hk.aset n hd)

theorem mergeKw_congr : ∀ {a a' : KwArgs}, KwRel L T a a' → ∀ {kw kw' : KwArgs}, KwRel L T kw kw' →
    (∃ e, mergeKw a kw = .error e ∧ mergeKw a' kw' = .error e) ∨
    (∃ k k', mergeKw a kw = .ok k ∧ mergeKw a' kw' = .ok k' ∧ KwRel L T k k')
  | [], _, h, kw, kw', hk => by cases h; right; exact ⟨kw, kw', rfl, rfl, hk⟩
  | (k, v) :: r, _, h, kw, kw', hk => by
      cases h with
      | @cons _ y _ r' hx hr =>
        obtain ⟨k2, v2⟩ := y
        have hkk : k = k2 := hx.1
        subst hkk
        simp only [mergeKw]
        rw [← hk.ahas k]
        split
        · left; exact ⟨_, rfl, rfl⟩
        · exact mergeKw_congr hr (hk.append (.cons ⟨rfl, hx.2⟩ .nil))

theorem translateArgs_congr (nk : Bool) {as bs : List Arg} {kw kw' : KwArgs}
    (ha : ArgsRel L T as bs) (hk : KwRel L T kw kw') :
    (∃ e, translateArgs nk as kw = .error e ∧ translateArgs nk bs kw' = .error e) ∨
    (∃ p k p' k', translateArgs nk as kw = .ok (p, k) ∧ translateArgs nk bs kw' = .ok (p', k') ∧
      ArgsRel L T p p' ∧ KwRel L T k k') := by
  unfold translateArgs
  cases nk with
  | true =>
      simp only [if_true]
      rw [← hk.isEmpty]
      split
      · right; exact ⟨as, [], bs, [], rfl, rfl, ha, .nil⟩
      · left; exact ⟨_, rfl, rfl⟩
  | false =>
      simp only [Bool.false_eq_true, if_false]
      rcases translatePos_congr ha (pos := []) (pos' := []) (kw := []) (kw' := []) .nil .nil with
        ⟨e, h1, h2⟩ | ⟨p, k, p', k', h1, h2, hp, hkk⟩
      · left; rw [h1, h2]; exact ⟨e, rfl, rfl⟩
      · rw [h1, h2]
        rcases mergeKw_congr hk hkk with ⟨e, h3, h4⟩ | ⟨m, m', h3, h4, hm⟩
        · left; simp only [h3, h4]; exact ⟨e, rfl, rfl⟩
        · right; simp only [h3, h4]; exact ⟨p, m, p', m', rfl, rfl, hp, hm⟩

end Yaql.Props.C04Dispatch
