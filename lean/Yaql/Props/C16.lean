import Yaql.Lemmas.Lexer
/-!
C16 - literals denote exactly the values they spell.

All theorems are about the lexer model `Yaql.Lexer` (`Model/Lexer.lean`) and hold for EVERY
configuration `cfg : LexCfg` (character classes satisfying the `CharCfg` hypotheses, any operator
table, any `\N{}` oracle, any digit limit) and every string.
-/
namespace Yaql.Props.C16
open Yaql.Lexer Yaql.Syntax

/-! ## the spelling functions -/

/-- `s.replace('\\', '\\\\').replace(q, '\\' + q)`: backslashes doubled, the quote escaped -/
def escQ (q : Char) : List Char → List Char
  | [] => []
  | c :: s => if c = '\\' ∨ c = q then '\\' :: c :: escQ q s else c :: escQ q s

/-- ``s.replace('`', '\\`')`` -/
def spellV : List Char → List Char
  | [] => []
  | c :: s => if c = '`' then '\\' :: '`' :: spellV s else c :: spellV s

/-- the token a quoted literal alone in a text must produce -/
def strTok (s : List Char) : Token := ⟨.quoted, .text s, 0⟩

/-! ## reaching the string rules: the rules before them do not match at a quote -/

theorem quote_mem {q : Char} (hq : q = '\'' ∨ q = '"' ∨ q = '`') : q ∈ nonWordChars := by
  rcases hq with h | h | h <;> subst h <;> decide

theorem ruleAt_quote (cfg : LexCfg) {q : Char} (hq : q = '\'' ∨ q = '"' ∨ q = '`') (pw : Bool) (r : List Char)
    (pos : Nat) :
    ruleAt cfg pw (q :: r) pos =
      match (if q = '\'' || q = '"' then scanStr q r else none) with
      | some content => quotedTok cfg content pos
      | none =>
        match (if q = '`' then scanStr q r else none) with
        | some content => .tok ⟨.quoted, .text (unescapeBackquote content), pos⟩ (content.length + 2)
        | none => symbolAt cfg q (q :: r) pos := by
  have hw : cfg.chars.isWord q = false := cfg.chars.nonword q (quote_mem hq)
  have hd : cfg.chars.isDigit q = false := nonword_not_digit _ hw
  have h1 : q ≠ '$' := by rcases hq with h | h | h <;> subst h <;> decide
  have h2 : matchNumber cfg.chars pw (q :: r) = none := by
    simp [matchNumber, fracPart, List.takeWhile_cons, hd]
  have h3 : matchFunc cfg.chars pw (q :: r) = none := by
    simp [matchFunc, identStart, hw]
  have h4 : matchKeyword cfg.chars pw (q :: r) = none := by
    simp [matchKeyword, identStart, hw]
  simp only [ruleAt, h1, if_false, h2, h3, h4]
  rfl

/-! ## scanning the escaped spelling -/

theorem scanStr_escQ {q : Char} (hq : q = '\'' ∨ q = '"') (s tail : List Char) :
    scanStr q (escQ q s ++ q :: tail) = some (escQ q s) := by
  have hb : q ≠ '\\' := by rcases hq with h | h <;> subst h <;> decide
  have hn : q ≠ '\n' := by rcases hq with h | h <;> subst h <;> decide
  induction s with
  | nil => simp [escQ, scanStr_cons]
  | cons c s ih =>
      by_cases hc : c = '\\' ∨ c = q
      · have hcn : c ≠ '\n' := by
          rcases hc with h | h
          · subst h; decide
          · subst h; exact hn
        simp [escQ, hc, scanStr_cons, hb.symm, hcn, ih]
      · have h1 : c ≠ '\\' := fun h => hc (Or.inl h)
        have h2 : c ≠ q := fun h => hc (Or.inr h)
        simp [escQ, hc, scanStr_cons, h1, h2, ih]

/-! ## `decode_escapes` -/

theorem decodeGo_plain (cfg : LexCfg) (b off : Nat) {c : Char} (t : List Char) (hc : c ≠ '\\') :
    decodeGo cfg b 0 off (c :: t) = consOk c (decodeGo cfg b 0 (off + 1) t) := by
  simp [decodeGo, hc]

/-- after a match of length `k + 1` the next `k` characters are not looked at -/
theorem decodeGo_skip (cfg : LexCfg) (b : Nat) : ∀ (pre : List Char) (off : Nat) (rest : List Char),
    decodeGo cfg b pre.length off (pre ++ rest) = decodeGo cfg b 0 (off + pre.length) rest
  | [], off, rest => by simp
  | c :: pre, off, rest => by
      simp only [List.length_cons, List.cons_append, decodeGo]
      rw [decodeGo_skip cfg b pre (off + 1) rest]
      congr 1
      omega

/-- the ordered alternation at a character that starts none of the earlier alternatives -/
theorem escAt_simple (cfg : LexCfg) {c : Char} (t : List Char)
    (hU : c ≠ 'U') (hu : c ≠ 'u') (hx : c ≠ 'x') (ho : isOct c = false) (hN : c ≠ 'N') :
    escAt cfg (c :: t) = singleEscape c := by
  have h1 : octEscape (c :: t) = none := by
    simp [octEscape, List.take_succ_cons, List.takeWhile_cons, ho]
  have h2 : nameEscape cfg (c :: t) = none := by
    cases t with
    | nil => simp [nameEscape]
    | cons b r => simp [nameEscape, hN]
  simp [escAt, hU, hu, hx, h1, h2]

theorem decodeGo_escQ (cfg : LexCfg) {q : Char} (hq : q = '\'' ∨ q = '"') (b : Nat) :
    ∀ (s : List Char) (off : Nat), decodeGo cfg b 0 off (escQ q s) = .ok s
  | [], off => by simp [escQ, decodeGo]
  | c :: s, off => by
      have hb : q ≠ '\\' := by rcases hq with h | h <;> subst h <;> decide
      by_cases hc : c = '\\' ∨ c = q
      · have hs : singleEscape c = some ⟨2, .ok c⟩ := by
          rcases hc with h | h
          · subst h; rfl
          · rcases hq with h' | h' <;> subst h <;> subst h' <;> rfl
        have he : escAt cfg (c :: escQ q s) = some ⟨2, .ok c⟩ := by
          rw [escAt_simple cfg _ _ _ _ _ _, hs] <;>
            (rcases hc with h | h
             · subst h; decide
             · rcases hq with h' | h' <;> subst h <;> subst h' <;> decide)
        simp only [escQ, hc, if_true]
        simp only [decodeGo, he, if_true]
        rw [decodeGo_escQ cfg hq b s (off + 1 + 1)]
        rfl
      · have h1 : c ≠ '\\' := fun h => hc (Or.inl h)
        simp only [escQ, hc, if_false]
        rw [decodeGo_plain cfg b off _ h1, decodeGo_escQ cfg hq b s (off + 1)]
        rfl

/-! ## C16.roundtrip_single / roundtrip_double -/

theorem roundtrip (cfg : LexCfg) {q : Char} (hq : q = '\'' ∨ q = '"') (s : List Char) :
    lexAll cfg (q :: (escQ q s ++ [q])) = .ok [strTok s] := by
  have hq3 : q = '\'' ∨ q = '"' ∨ q = '`' := by rcases hq with h | h <;> simp [h]
  have hi : isIgnored q = false := by rcases hq with h | h <;> subst h <;> decide
  apply lexAll_single cfg hi
  rw [ruleAt_quote cfg hq3]
  have hc : (q = '\'' || q = '"') = true := by rcases hq with h | h <;> subst h <;> decide
  simp only [hc, if_true, scanStr_escQ hq s [], quotedTok, decodeEscapes, decodeGo_escQ cfg hq (0 + 1) s 0]
  simp [strTok]

/-- **C16.roundtrip_single**: for EVERY string `s`, the single-quoted literal built by doubling the
backslashes and escaping the quote lexes as exactly one QUOTED_STRING token whose value is `s`. -/
theorem roundtrip_single (cfg : LexCfg) (s : List Char) :
    lexAll cfg ('\'' :: (escQ '\'' s ++ ['\''])) = .ok [strTok s] :=
  roundtrip cfg (Or.inl rfl) s

/-- **C16.roundtrip_double**: the same for the double-quoted style. -/
theorem roundtrip_double (cfg : LexCfg) (s : List Char) :
    lexAll cfg ('"' :: (escQ '"' s ++ ['"'])) = .ok [strTok s] :=
  roundtrip cfg (Or.inr rfl) s

/-! ## C16.unescaped_self -/

theorem escQ_plain {q : Char} : ∀ {s : List Char}, (∀ c ∈ s, c ≠ '\\' ∧ c ≠ q) → escQ q s = s
  | [], _ => rfl
  | c :: s, h => by
      have hc := h c (by simp)
      have : ¬ (c = '\\' ∨ c = q) := fun o => o.elim hc.1 hc.2
      simp only [escQ, this, if_false]
      rw [escQ_plain (fun d hd => h d (by simp [hd]))]

theorem unescapeBackquote_plain : ∀ {s : List Char}, (∀ c ∈ s, c ≠ '\\') → unescapeBackquote s = s
  | [], _ => rfl
  | c :: s, h => by
      have hc : c ≠ '\\' := h c (by simp)
      simp only [unescapeBackquote, hc, decide_false, Bool.false_and, Bool.false_eq_true, if_false]
      rw [unescapeBackquote_plain (fun d hd => h d (by simp [hd]))]

theorem scanStr_plain {q : Char} (tail : List Char) : ∀ {s : List Char}, (∀ c ∈ s, c ≠ '\\' ∧ c ≠ q) →
    scanStr q (s ++ q :: tail) = some s
  | [], _ => by simp [scanStr_cons]
  | c :: s, h => by
      have hc := h c (by simp)
      have ih : scanStr q (s ++ q :: tail) = some s := scanStr_plain tail (fun d hd => h d (by simp [hd]))
      simp [scanStr_cons, hc.1, hc.2, ih]

/-- **C16.unescaped_self**: in each of the three styles a string without a backslash and without the
quote character, put between the quotes as it is, stands for itself. -/
theorem unescaped_self (cfg : LexCfg) {q : Char} (hq : q = '\'' ∨ q = '"' ∨ q = '`') (s : List Char)
    (h : ∀ c ∈ s, c ≠ '\\' ∧ c ≠ q) :
    lexAll cfg (q :: (s ++ [q])) = .ok [strTok s] := by
  rcases hq with hq | hq | hq
  · have := roundtrip cfg (Or.inl hq) s
    rwa [escQ_plain h] at this
  · have := roundtrip cfg (Or.inr hq) s
    rwa [escQ_plain h] at this
  · subst hq
    apply lexAll_single cfg (by decide)
    rw [ruleAt_quote cfg (Or.inr (Or.inr rfl))]
    have h1 : ('`' = '\'' || '`' = '"') = false := by decide
    simp only [h1, Bool.false_eq_true, if_false, if_true, scanStr_plain [] h,
      unescapeBackquote_plain (fun c hc => (h c hc).1)]
    simp [strTok]

/-! ## C16.escape_values -/

/-- wherever the escape text `e` stands in the content of a single- or double-quoted string (followed
by a `rest` satisfying `P`), `decode_escapes` replaces it by the one character `v` and goes on behind it -/
def DenotesIf (cfg : LexCfg) (e : List Char) (v : Char) (P : List Char → Prop) : Prop :=
  ∀ (b off : Nat) (rest : List Char), P rest →
    decodeGo cfg b 0 off (e ++ rest) = consOk v (decodeGo cfg b 0 (off + e.length) rest)

def Denotes (cfg : LexCfg) (e : List Char) (v : Char) : Prop := DenotesIf cfg e v (fun _ => True)

theorem decodeGo_escape (cfg : LexCfg) (b off : Nat) {pre rest : List Char} {len : Nat} {v : Char}
    (h : escAt cfg (pre ++ rest) = some ⟨len, .ok v⟩) (hl : pre.length + 1 = len) :
    decodeGo cfg b 0 off ('\\' :: (pre ++ rest)) = consOk v (decodeGo cfg b 0 (off + len) rest) := by
  subst hl
  simp only [decodeGo, h, if_true, Nat.add_sub_cancel]
  rw [decodeGo_skip cfg b pre (off + 1) rest]
  congr 2
  omega

/-- the single-character escapes and their values -/
def singleTable : List (Char × Char) :=
  [('\\', '\\'), ('\'', '\''), ('"', '"'), ('a', Char.ofNat 7), ('b', Char.ofNat 8), ('f', Char.ofNat 12),
   ('n', '\n'), ('r', '\r'), ('t', '\t'), ('v', Char.ofNat 11)]

theorem esc_single (cfg : LexCfg) {c v : Char} (h : (c, v) ∈ singleTable) : Denotes cfg ['\\', c] v := by
  intro b off rest _
  have h' : escAt cfg ([c] ++ rest) = some ⟨2, .ok v⟩ := by
    simp only [singleTable, List.mem_cons, Prod.mk.injEq, List.not_mem_nil, or_false] at h
    rcases h with h | h | h | h | h | h | h | h | h | h <;> obtain ⟨rfl, rfl⟩ := h <;>
      (rw [List.singleton_append, escAt_simple cfg rest (by decide) (by decide) (by decide) (by decide) (by decide)]; rfl)
  exact decodeGo_escape cfg b off h' rfl

theorem hexNum_no_newline : ∀ (ds : List Char) (acc : Nat) {v : Nat}, hexNum acc ds = some v → ∀ c ∈ ds, c ≠ '\n'
  | [], _, _, _ => by simp
  | d :: ds, acc, v, h => by
      intro c hc
      simp only [hexNum] at h
      cases hd : hexVal d with
      | none => simp [hd] at h
      | some x =>
          simp only [hd] at h
          rcases List.mem_cons.mp hc with rfl | hc'
          · intro e; subst e; simp [hexVal] at hd
          · exact hexNum_no_newline ds _ h c hc'

theorem hexEscape_ok {n : Nat} {ds rest : List Char} {v : Nat} (hl : ds.length = n) (hv : hexNum 0 ds = some v)
    (hs : isSurrogate v = false) (hr : v ≤ 0x10FFFF) :
    hexEscape n (ds ++ rest) = some ⟨n + 2, .ok (Char.ofNat v)⟩ := by
  have ht : (ds ++ rest).take n = ds := by subst hl; simp
  have hnl : ds.all (fun c => c != '\n') = true := by
    rw [List.all_eq_true]; intro c hc; simpa using hexNum_no_newline ds 0 hv c hc
  simp [hexEscape, ht, hl, hnl, hv, codePoint, hs, hr]

/-- `\xHH`, `\uHHHH`, `\UHHHHHHHH`: the character with that code (not a surrogate, at most U+10FFFF) -/
theorem esc_hex (cfg : LexCfg) {letter : Char} {n : Nat} (hn : (letter, n) ∈ [('x', 2), ('u', 4), ('U', 8)])
    {ds : List Char} {v : Nat} (hl : ds.length = n) (hv : hexNum 0 ds = some v)
    (hs : isSurrogate v = false) (hr : v ≤ 0x10FFFF) :
    Denotes cfg ('\\' :: letter :: ds) (Char.ofNat v) := by
  intro b off rest _
  have h' : escAt cfg ((letter :: ds) ++ rest) = some ⟨n + 2, .ok (Char.ofNat v)⟩ := by
    have := hexEscape_ok (rest := rest) hl hv hs hr
    simp only [List.mem_cons, Prod.mk.injEq, List.not_mem_nil, or_false] at hn
    rcases hn with ⟨rfl, rfl⟩ | ⟨rfl, rfl⟩ | ⟨rfl, rfl⟩ <;> simp [escAt, this]
  have := decodeGo_escape cfg b off h' (by simp [hl])
  simpa [hl, Nat.add_assoc] using this

theorem isOct_ne {d : Char} (h : isOct d = true) : d ≠ 'U' ∧ d ≠ 'u' ∧ d ≠ 'x' ∧ d ≠ 'N' := by
  refine ⟨?_, ?_, ?_, ?_⟩ <;> (intro e; subst e; simp [isOct] at h)

/-- what may follow an octal escape of fewer than three digits: not another octal digit -/
def noOctNext : List Char → Prop
  | [] => True
  | x :: _ => isOct x = false

theorem octEscape_ok {ds rest : List Char} (hne : ds ≠ []) (hl : ds.length ≤ 3) (ho : ∀ d ∈ ds, isOct d = true)
    (hr : ds.length = 3 ∨ noOctNext rest) :
    octEscape (ds ++ rest) = some ⟨ds.length + 1, .ok (Char.ofNat (octVal ds))⟩ := by
  have key : ((ds ++ rest).take 3).takeWhile isOct = ds := by
    match ds, hne, hl, ho, hr with
    | [a], _, _, ho, hr =>
        have ha := ho a (by simp)
        rcases hr with hr | hr
        · simp at hr
        · cases rest with
          | nil => simp [List.takeWhile_cons, ha]
          | cons x r => simp [noOctNext] at hr; simp [List.take_succ_cons, List.takeWhile_cons, ha, hr]
    | [a, b], _, _, ho, hr =>
        have ha := ho a (by simp)
        have hb := ho b (by simp)
        rcases hr with hr | hr
        · simp at hr
        · cases rest with
          | nil => simp [List.takeWhile_cons, ha, hb]
          | cons x r => simp [noOctNext] at hr; simp [List.take_succ_cons, List.takeWhile_cons, ha, hb, hr]
    | [a, b, c], _, _, ho, _ =>
        have ha := ho a (by simp)
        have hb := ho b (by simp)
        have hc := ho c (by simp)
        simp [List.take_succ_cons, List.takeWhile_cons, ha, hb, hc]
    | _ :: _ :: _ :: _ :: _, _, hl, _, _ => simp at hl
  simp only [octEscape, key]
  cases ds with
  | nil => exact absurd rfl hne
  | cons d r => simp

/-- `\o`, `\oo`, `\ooo` (octal digits; at most three are taken): the character with that code -/
theorem esc_octal (cfg : LexCfg) {ds : List Char} (hne : ds ≠ []) (hl : ds.length ≤ 3)
    (ho : ∀ d ∈ ds, isOct d = true) :
    DenotesIf cfg ('\\' :: ds) (Char.ofNat (octVal ds)) (fun rest => ds.length = 3 ∨ noOctNext rest) := by
  intro b off rest hr
  have h' : escAt cfg (ds ++ rest) = some ⟨ds.length + 1, .ok (Char.ofNat (octVal ds))⟩ := by
    have hoct := octEscape_ok hne hl ho hr
    cases ds with
    | nil => exact absurd rfl hne
    | cons d r =>
        obtain ⟨h1, h2, h3, _⟩ := isOct_ne (ho d (by simp))
        simp only [List.cons_append] at hoct ⊢
        simp [escAt, h1, h2, h3, hoct]
  have := decodeGo_escape cfg b off h' rfl
  simpa [Nat.add_assoc, Nat.add_comm 1] using this

/-- `\N{name}`: the character the name table gives (the table is a parameter of the model) -/
theorem esc_name (cfg : LexCfg) {name : List Char} {v : Char} (hne : name ≠ [])
    (hb : ∀ c ∈ name, c ≠ '}') (hv : cfg.names name = some v) :
    Denotes cfg ('\\' :: 'N' :: '{' :: (name ++ ['}'])) v := by
  intro b off rest _
  have hp : ∀ c ∈ name, (fun c => c != '}') c = true := by intro c hc; simpa using hb c hc
  have hx : (fun c : Char => c != '}') '}' = false := by decide
  have h' : escAt cfg (('N' :: '{' :: (name ++ ['}'])) ++ rest) = some ⟨name.length + 4, .ok v⟩ := by
    have h1 : (name ++ '}' :: rest).takeWhile (fun c => c != '}') = name := takeWhile_append_stop hp hx
    have h2 : (name ++ '}' :: rest).dropWhile (fun c => c != '}') = '}' :: rest := dropWhile_append_stop hp hx
    have h3 : name.isEmpty = false := by cases name with
      | nil => exact absurd rfl hne
      | cons _ _ => rfl
    have hn : nameEscape cfg ('N' :: '{' :: (name ++ '}' :: rest)) = some ⟨name.length + 4, .ok v⟩ := by
      simp [nameEscape, h1, h2, h3, hv]
    have ho : octEscape ('N' :: '{' :: (name ++ '}' :: rest)) = none := by
      simp [octEscape, List.take_succ_cons, List.takeWhile_cons, isOct]
    simp [escAt, hn, ho]
  have := decodeGo_escape cfg b off h' (by simp)
  simpa [Nat.add_assoc] using this

/-- **C16.escape_values**: the value of every escape shape of single- and double-quoted strings. -/
theorem escape_values (cfg : LexCfg) :
    (∀ c v, (c, v) ∈ singleTable → Denotes cfg ['\\', c] v) ∧
    (∀ letter n, (letter, n) ∈ [('x', 2), ('u', 4), ('U', 8)] → ∀ ds v, ds.length = n → hexNum 0 ds = some v →
        isSurrogate v = false → v ≤ 0x10FFFF → Denotes cfg ('\\' :: letter :: ds) (Char.ofNat v)) ∧
    (∀ ds, ds ≠ [] → ds.length ≤ 3 → (∀ d ∈ ds, isOct d = true) →
        DenotesIf cfg ('\\' :: ds) (Char.ofNat (octVal ds)) (fun rest => ds.length = 3 ∨ noOctNext rest)) ∧
    (∀ name v, name ≠ [] → (∀ c ∈ name, c ≠ '}') → cfg.names name = some v →
        Denotes cfg ('\\' :: 'N' :: '{' :: (name ++ ['}'])) v) :=
  ⟨fun _ _ h => esc_single cfg h, fun _ _ hn _ _ hl hv hs hr => esc_hex cfg hn hl hv hs hr,
   fun _ hne hl ho => esc_octal cfg hne hl ho, fun _ _ hne hb hv => esc_name cfg hne hb hv⟩

/-- an escape alone between quotes: the literal is the one-character string -/
theorem escape_literal (cfg : LexCfg) {q : Char} (hq : q = '\'' ∨ q = '"') {e : List Char} {v : Char}
    (hd : Denotes cfg e v) (hs : scanStr q (e ++ [q]) = some e) :
    lexAll cfg (q :: (e ++ [q])) = .ok [strTok [v]] := by
  have hq3 : q = '\'' ∨ q = '"' ∨ q = '`' := by rcases hq with h | h <;> simp [h]
  have hi : isIgnored q = false := by rcases hq with h | h <;> subst h <;> decide
  apply lexAll_single cfg hi
  rw [ruleAt_quote cfg hq3]
  have hc : (q = '\'' || q = '"') = true := by rcases hq with h | h <;> subst h <;> decide
  have hdec : decodeGo cfg (0 + 1) 0 0 e = .ok [v] := by
    have := hd (0 + 1) 0 [] trivial
    simpa [decodeGo, consOk] using this
  simp only [hc, if_true, hs, quotedTok, decodeEscapes, hdec]
  simp [strTok]

example (cfg : LexCfg) : lexAll cfg ['\'', '\\', 'x', '4', '1', '\''] = .ok [strTok ['A']] :=
  escape_literal cfg (Or.inl rfl)
    (esc_hex cfg (letter := 'x') (n := 2) (by simp) (ds := ['4', '1']) (v := 65) rfl (by decide) (by decide) (by decide))
    (by decide)

/-! ## C16.unknown_escape_kept -/

/-- the characters that can follow a backslash in an escape shape -/
def escapeStarters : List Char :=
  ['U', 'u', 'x', '0', '1', '2', '3', '4', '5', '6', '7', 'N', '\\', '\'', '"', 'a', 'b', 'f', 'n', 'r', 't', 'v']

theorem isOct_mem {c : Char} (h : isOct c = true) : c ∈ ['0', '1', '2', '3', '4', '5', '6', '7'] := by
  have h1 : 48 ≤ c.toNat ∧ c.toNat ≤ 55 := by simpa [isOct] using h
  have : c = Char.ofNat c.toNat := by simp
  rw [this]
  have h2 : c.toNat = 48 ∨ c.toNat = 49 ∨ c.toNat = 50 ∨ c.toNat = 51 ∨ c.toNat = 52 ∨ c.toNat = 53 ∨
      c.toNat = 54 ∨ c.toNat = 55 := by omega
  rcases h2 with h | h | h | h | h | h | h | h <;> rw [h] <;> decide

theorem escAt_unknown (cfg : LexCfg) {c : Char} (t : List Char) (h : c ∉ escapeStarters) :
    escAt cfg (c :: t) = none := by
  have ho : isOct c = false := by
    cases hc : isOct c with
    | false => rfl
    | true =>
        exfalso; apply h
        have := isOct_mem hc
        simp only [List.mem_cons, List.not_mem_nil, or_false] at this
        simp only [escapeStarters, List.mem_cons, List.not_mem_nil, or_false]
        rcases this with e | e | e | e | e | e | e | e <;> simp [e]
  simp only [escapeStarters, List.mem_cons, List.not_mem_nil, or_false, not_or] at h
  obtain ⟨hU, hu, hx, _, _, _, _, _, _, _, _, hN, h1, h2, h3, h4, h5, h6, h7, h8, h9, h10⟩ := h
  rw [escAt_simple cfg t hU hu hx ho hN]
  simp [singleEscape, h1, h2, h3, h4, h5, h6, h7, h8, h9, h10]

/-- **C16.unknown_escape_kept**: a backslash followed by a character that starts no escape shape (`\q`)
stays as the two characters it is; so does a backslash at the very end of the content. -/
theorem unknown_escape_kept (cfg : LexCfg) (b off : Nat) :
    (∀ (c : Char) (rest : List Char), c ∉ escapeStarters →
      decodeGo cfg b 0 off ('\\' :: c :: rest) = consOk '\\' (consOk c (decodeGo cfg b 0 (off + 2) rest))) ∧
    decodeGo cfg b 0 off ['\\'] = .ok ['\\'] := by
  constructor
  · intro c rest h
    have hb : c ≠ '\\' := by intro e; subst e; exact h (by decide)
    have h1 : decodeGo cfg b 0 off ('\\' :: c :: rest) = consOk '\\' (decodeGo cfg b 0 (off + 1) (c :: rest)) := by
      simp only [decodeGo, escAt_unknown cfg rest h, if_true]
    rw [h1, decodeGo_plain cfg b (off + 1) rest hb]
  · simp [decodeGo, escAt, consOk]

example : ('q' : Char) ∉ escapeStarters := by decide

/-! ## C16.verbatim_identity -/

theorem ruleAt_backquote (cfg : LexCfg) (pw : Bool) (r : List Char) (pos : Nat) :
    ruleAt cfg pw ('`' :: r) pos =
      match scanStr '`' r with
      | some content => .tok ⟨.quoted, .text (unescapeBackquote content), pos⟩ (content.length + 2)
      | none => symbolAt cfg '`' ('`' :: r) pos := by
  rw [ruleAt_quote cfg (Or.inr (Or.inr rfl))]
  have h1 : ('`' = '\'' || '`' = '"') = false := by decide
  simp only [h1, Bool.false_eq_true, if_false, if_true]

/-- the three equations that define the value of a back-quoted token: a backslash right before a back
quote disappears, every other character - every other backslash included - stays -/
theorem unescapeBackquote_eqns :
    unescapeBackquote [] = [] ∧
    (∀ r, unescapeBackquote ('\\' :: '`' :: r) = '`' :: unescapeBackquote r) ∧
    (∀ c r, ¬ (c = '\\' ∧ r.head? = some '`') → unescapeBackquote (c :: r) = c :: unescapeBackquote r) := by
  refine ⟨rfl, fun r => by simp [unescapeBackquote], fun c r h => ?_⟩
  by_cases hc : c = '\\'
  · have : r.head? ≠ some '`' := fun e => h ⟨hc, e⟩
    simp [unescapeBackquote, this]
  · simp [unescapeBackquote, hc]

/-- no `` \` `` in the text -/
def noEscapedBackquote : List Char → Bool
  | [] => true
  | c :: r => !(c == '\\' && r.head? == some '`') && noEscapedBackquote r

theorem unescapeBackquote_noop : ∀ {c : List Char}, noEscapedBackquote c = true → unescapeBackquote c = c
  | [], _ => rfl
  | c :: r, h => by
      simp only [noEscapedBackquote, Bool.and_eq_true, Bool.not_eq_true', Bool.and_eq_false_iff] at h
      have h1 : ¬ (c = '\\' ∧ r.head? = some '`') := by
        rintro ⟨rfl, e⟩
        rcases h.1 with h' | h'
        · simp at h'
        · simp [e] at h'
      rw [unescapeBackquote_eqns.2.2 c r h1, unescapeBackquote_noop h.2]

/-- **C16.verbatim_identity**: a back-quoted token (content: anything but bare back quotes, a backslash
always paired with a following character other than a newline) has as its value the content with
`` \` `` replaced by `` ` `` and nothing else (`unescapeBackquote_eqns`; in particular the content itself when
it has no `` \` ``). -/
theorem verbatim_identity (cfg : LexCfg) (c : List Char) (hw : wfQ '`' c = true) :
    lexAll cfg ('`' :: (c ++ ['`'])) = .ok [strTok (unescapeBackquote c)] ∧
    (noEscapedBackquote c = true → lexAll cfg ('`' :: (c ++ ['`'])) = .ok [strTok c]) := by
  have h1 : lexAll cfg ('`' :: (c ++ ['`'])) = .ok [strTok (unescapeBackquote c)] := by
    apply lexAll_single cfg (by decide)
    rw [ruleAt_backquote, scanStr_wf '`' [] c hw]
    simp [strTok]
  exact ⟨h1, fun hn => by rw [h1, unescapeBackquote_noop hn]⟩

/-! ## C16.verbatim_spellable_iff -/

/-- does the string have a maximal run of backslashes of ODD length that is followed by a back quote,
by a newline, or by the end of the string?  (`odd`: an odd number of backslashes immediately precedes) -/
def badRun : Bool → List Char → Bool
  | odd, [] => odd
  | odd, c :: r => if c = '\\' then badRun (!odd) r else (odd && (c == '`' || c == '\n')) || badRun false r

/-- `c`, put between back quotes, is a spelling of `s` -/
def SpellsV (cfg : LexCfg) (c s : List Char) : Prop := lexAll cfg ('`' :: (c ++ ['`'])) = .ok [strTok s]

/-- no string rule of the table produces QUOTED_STRING tokens (true of every `LexCfg.ofTable`) -/
def NoQuotedRule (cfg : LexCfg) : Prop := ∀ r ∈ cfg.rules, r.kind ≠ .quoted

theorem spellV_head : ∀ (s : List Char), (spellV s).head? ≠ some '`'
  | [] => by simp [spellV]
  | c :: s => by
      by_cases hc : c = '`'
      · simp [spellV, hc]
      · simp [spellV, hc]

theorem unescape_spellV : ∀ (s : List Char), unescapeBackquote (spellV s) = s
  | [] => rfl
  | c :: s => by
      by_cases hc : c = '`'
      · subst hc
        simp only [spellV, if_true]
        rw [unescapeBackquote_eqns.2.1, unescape_spellV s]
      · simp only [spellV, hc, if_false]
        rw [unescapeBackquote_eqns.2.2 c _ (fun h => spellV_head s h.2), unescape_spellV s]

/-- scanning when the previous character was an unpaired backslash (`odd`) -/
def wfFrom (odd : Bool) (l : List Char) : Bool :=
  if odd then (match l with | [] => false | e :: r => e != '\n' && wfQ '`' r) else wfQ '`' l

theorem wfQ_bs (l : List Char) : wfQ '`' ('\\' :: l) = wfFrom true l := by
  rw [wfQ_cons]; simp only [wfFrom, if_true]; cases l <;> simp

theorem wf_spellV : ∀ (s : List Char) (odd : Bool), badRun odd s = false → wfFrom odd (spellV s) = true
  | [], odd, h => by
      simp only [badRun] at h
      subst h
      simp [wfFrom, spellV, wfQ]
  | c :: s, odd, h => by
      simp only [badRun] at h
      by_cases hc : c = '\\'
      · subst hc
        simp only [if_true] at h
        have ih := wf_spellV s (!odd) h
        have hs : spellV ('\\' :: s) = '\\' :: spellV s := by simp [spellV]
        rw [hs]
        cases odd with
        | false => simp only [wfFrom, Bool.false_eq_true, if_false]; rw [wfQ_bs]; simpa using ih
        | true =>
            simp only [wfFrom, if_true]
            simp only [wfFrom, Bool.not_true, Bool.false_eq_true, if_false] at ih
            simp [ih]
      · simp only [hc, if_false, Bool.or_eq_false_iff, Bool.and_eq_false_iff] at h
        have ih := wf_spellV s false h.2
        simp only [wfFrom, Bool.false_eq_true, if_false] at ih
        by_cases hq : c = '`'
        · subst hq
          have ho : odd = false := by
            rcases h.1 with h' | h'
            · exact h'
            · simp at h'
          subst ho
          simp only [spellV, if_true, wfFrom, Bool.false_eq_true, if_false]
          rw [wfQ_bs]
          simp [wfFrom, ih]
        · simp only [spellV, hq, if_false]
          cases odd with
          | false =>
              simp only [wfFrom, Bool.false_eq_true, if_false]
              rw [wfQ_cons]; simp [hq, hc, ih]
          | true =>
              have hn : c ≠ '\n' := by
                rcases h.1 with h' | h'
                · simp at h'
                · intro e; subst e; simp at h'
              simp [wfFrom, hn, ih]

theorem wfQ_head {l : List Char} (h : wfQ '`' l = true) : l.head? ≠ some '`' := by
  cases l with
  | nil => simp
  | cons c r =>
      intro e
      simp only [List.head?_cons, Option.some.injEq] at e
      subst e
      rw [wfQ_cons] at h
      simp at h

/-- the value of a well-formed content has no odd backslash run before a back quote / newline / its end -/
theorem badRun_unescape : ∀ (c : List Char), wfQ '`' c = true → badRun false (unescapeBackquote c) = false
  | [], _ => rfl
  | [x], h => by
      rw [wfQ_cons] at h
      by_cases hx : x = '`'
      · simp [hx] at h
      · by_cases hb : x = '\\'
        · subst hb; simp at h
        · simp [unescapeBackquote, badRun, hb]
  | x :: e :: r', h => by
      rw [wfQ_cons] at h
      by_cases hx : x = '`'
      · simp [hx] at h
      · by_cases hb : x = '\\'
        · subst hb
          simp only [hx, if_false, if_true, Bool.and_eq_true, bne_iff_ne, ne_eq] at h
          have ih := badRun_unescape r' h.2
          by_cases he : e = '`'
          · subst he
            rw [unescapeBackquote_eqns.2.1]
            simp [badRun, ih]
          · rw [unescapeBackquote_eqns.2.2 '\\' (e :: r') (by simp [he])]
            by_cases he2 : e = '\\'
            · subst he2
              rw [unescapeBackquote_eqns.2.2 '\\' r' (fun hh => wfQ_head h.2 hh.2)]
              simp [badRun, ih]
            · rw [unescapeBackquote_eqns.2.2 e r' (fun hh => he2 hh.1)]
              simp [badRun, he2, he, h.1, ih]
        · simp only [hx, hb, if_false] at h
          have ih := badRun_unescape (e :: r') h
          rw [unescapeBackquote_eqns.2.2 x (e :: r') (fun hh => hb hh.1)]
          simp [badRun, hb, ih]

/-! `badRun` says what the property's wording says: some MAXIMAL run of backslashes of odd length is followed
by a back quote, a newline, or the end of the string -/

def postOK (post : List Char) : Prop := post = [] ∨ post.head? = some '`' ∨ post.head? = some '\n'

/-- `s = pre ++ \^k ++ post`, the run maximal on the left (`pre` does not end with a backslash) and - by
what follows it - on the right, `k` odd -/
def HasBadRun (s : List Char) : Prop :=
  ∃ pre k post, s = pre ++ (List.replicate k '\\' ++ post) ∧ pre.getLast? ≠ some '\\' ∧ k % 2 = 1 ∧ postOK post

/-- the same with `odd` = "an odd number of backslashes immediately precedes `s`" -/
def HasBadRunFrom (odd : Bool) (s : List Char) : Prop :=
  ∃ pre k post, s = pre ++ (List.replicate k '\\' ++ post) ∧ pre.getLast? ≠ some '\\' ∧ postOK post ∧
    (if pre = [] then (k + (if odd then 1 else 0)) % 2 = 1 else k % 2 = 1)

theorem getLast?_cons_ne_nil {c : Char} {l : List Char} (h : l ≠ []) : (c :: l).getLast? = l.getLast? := by
  cases l with
  | nil => exact absurd rfl h
  | cons x xs => simp [List.getLast?_cons_cons]

theorem badRun_iff_from : ∀ (s : List Char) (odd : Bool), badRun odd s = true ↔ HasBadRunFrom odd s
  | [], odd => by
      simp only [badRun]
      constructor
      · intro h
        exact ⟨[], 0, [], rfl, by simp, Or.inl rfl, by simp [h]⟩
      · rintro ⟨pre, k, post, hs, _, _, hp⟩
        have h1 : pre = [] := by
          cases pre with
          | nil => rfl
          | cons _ _ => simp at hs
        subst h1
        have h2 : k = 0 := by
          cases k with
          | zero => rfl
          | succ _ => simp [List.replicate_succ] at hs
        subst h2
        cases odd <;> simp at hp ⊢
  | c :: r, odd => by
      by_cases hc : c = '\\'
      · subst hc
        simp only [badRun, if_true]
        rw [badRun_iff_from r (!odd)]
        constructor
        · rintro ⟨pre, k, post, hs, hl, ho, hp⟩
          by_cases hpre : pre = []
          · subst hpre
            refine ⟨[], k + 1, post, by simp [hs, List.replicate_succ], by simp, ho, ?_⟩
            simp only [if_true] at hp ⊢
            cases odd <;> simp at hp ⊢ <;> omega
          · refine ⟨'\\' :: pre, k, post, by simp [hs], ?_, ho, ?_⟩
            · rw [getLast?_cons_ne_nil hpre]; exact hl
            · simp only [hpre, if_false] at hp; simp [hp]
        · rintro ⟨pre, k, post, hs, hl, ho, hp⟩
          cases pre with
          | nil =>
              simp only [List.nil_append, if_true] at hs hp
              cases k with
              | zero =>
                  simp only [List.replicate_zero, List.nil_append] at hs
                  subst hs
                  rcases ho with h | h | h <;> simp at h
              | succ j =>
                  simp only [List.replicate_succ, List.cons_append, List.cons.injEq, true_and] at hs
                  refine ⟨[], j, post, by simp [hs], by simp, ho, ?_⟩
                  simp only [if_true]
                  cases odd <;> simp at hp ⊢ <;> omega
          | cons x pre' =>
              simp only [List.cons_append, List.cons.injEq] at hs
              obtain ⟨hx, hs⟩ := hs
              subst hx
              have hpre' : pre' ≠ [] := by
                intro e; subst e; simp at hl
              refine ⟨pre', k, post, hs, ?_, ho, ?_⟩
              · rw [getLast?_cons_ne_nil hpre'] at hl; exact hl
              · simp only [List.cons_ne_nil, if_false] at hp; simp [hpre', hp]
      · simp only [badRun, hc, if_false, Bool.or_eq_true, Bool.and_eq_true, beq_iff_eq]
        rw [badRun_iff_from r false]
        constructor
        · rintro (⟨ho, hq⟩ | ⟨pre, k, post, hs, hl, ho, hp⟩)
          · refine ⟨[], 0, c :: r, by simp, by simp, ?_, by simp [ho]⟩
            rcases hq with h | h <;> subst h
            · exact Or.inr (Or.inl rfl)
            · exact Or.inr (Or.inr rfl)
          · refine ⟨c :: pre, k, post, by simp [hs], ?_, ho, ?_⟩
            · by_cases hpre : pre = []
              · subst hpre; simp [hc]
              · rw [getLast?_cons_ne_nil hpre]; exact hl
            · by_cases hpre : pre = []
              · subst hpre; simpa using hp
              · simp only [hpre, if_false] at hp; simp [hp]
        · rintro ⟨pre, k, post, hs, hl, ho, hp⟩
          cases pre with
          | nil =>
              simp only [List.nil_append, if_true] at hs hp
              cases k with
              | zero =>
                  simp only [List.replicate_zero, List.nil_append] at hs
                  subst hs
                  left
                  refine ⟨by cases odd <;> simp at hp ⊢, ?_⟩
                  rcases ho with h | h | h
                  · simp at h
                  · left; simpa using h
                  · right; simpa using h
              | succ j =>
                  simp only [List.replicate_succ, List.cons_append, List.cons.injEq] at hs
                  exact absurd hs.1 hc
          | cons x pre' =>
              simp only [List.cons_append, List.cons.injEq] at hs
              obtain ⟨hx, hs⟩ := hs
              subst hx
              simp only [List.cons_ne_nil, if_false] at hp
              right
              by_cases hpre' : pre' = []
              · subst hpre'
                exact ⟨[], k, post, hs, by simp, ho, by simp [hp]⟩
              · refine ⟨pre', k, post, hs, ?_, ho, by simp [hpre', hp]⟩
                rw [getLast?_cons_ne_nil hpre'] at hl; exact hl

/-- `badRun false s` holds exactly when `s` has a maximal odd backslash run before a back quote, a newline or
its end -/
theorem badRun_iff (s : List Char) : badRun false s = true ↔ HasBadRun s := by
  rw [badRun_iff_from s false]
  constructor
  · rintro ⟨pre, k, post, hs, hl, ho, hp⟩
    refine ⟨pre, k, post, hs, hl, ?_, ho⟩
    by_cases hpre : pre = []
    · simpa [hpre] using hp
    · simpa [hpre] using hp
  · rintro ⟨pre, k, post, hs, hl, hk, ho⟩
    refine ⟨pre, k, post, hs, hl, ho, ?_⟩
    by_cases hpre : pre = [] <;> simp [hpre, hk]

/-- a back-quoted text that lexes as ONE string token is a well-formed content between the quotes -/
theorem spellsV_inv (cfg : LexCfg) (hr : NoQuotedRule cfg) {c s : List Char} (h : SpellsV cfg c s) :
    wfQ '`' c = true ∧ s = unescapeBackquote c := by
  have hi : isIgnored '`' = false := by decide
  rw [SpellsV, lexAll_cons cfg hi, ruleAt_backquote] at h
  cases hs : scanStr '`' (c ++ ['`']) with
  | some content =>
      simp only [hs] at h
      obtain ⟨hw, tail, ht⟩ := scanStr_spec '`' _ _ hs
      generalize hg : lexGo cfg (content.length + 2 - 1) _ (c ++ ['`']) _ = g at h
      cases g with
      | error e => simp [consTok] at h
      | ok ts =>
          simp only [consTok, Except.ok.injEq, List.cons.injEq] at h
          obtain ⟨ht1, ht2⟩ := h
          subst ht2
          have hign := lexGo_ok_nil cfg _ _ _ _ hg
          have hd : (c ++ ['`']).drop (content.length + 2 - 1) = tail := by
            rw [ht]; simp
          rw [hd] at hign
          have htail : tail = [] := by
            cases htl : tail with
            | nil => rfl
            | cons y ys =>
                exfalso
                have hlast : (c ++ ['`']).getLast? = some '`' := by simp
                rw [ht, htl] at hlast
                have : (y :: ys).getLast? = some '`' := by
                  simpa [List.getLast?_append, List.getLast?_cons_cons] using hlast
                have hm : '`' ∈ tail := by
                  rw [htl]; exact List.mem_of_getLast? this
                have := hign _ hm
                simp [isIgnored] at this
          subst htail
          have hc : c = content := by
            have := congrArg List.dropLast ht
            simpa using this
          subst hc
          refine ⟨hw, ?_⟩
          simp only [strTok, Token.mk.injEq, TokVal.text.injEq] at ht1
          exact ht1.2.1.symm
  | none =>
      simp only [hs, symbolAt] at h
      cases hf : firstStrRule cfg.rules ('`' :: (c ++ ['`'])) with
      | some sr =>
          simp only [hf] at h
          have hmem : sr ∈ cfg.rules := List.mem_of_find?_eq_some hf
          generalize lexGo cfg (sr.pat.length - 1) _ (c ++ ['`']) _ = g at h
          cases g with
          | error e => simp [consTok] at h
          | ok ts =>
              simp only [consTok, Except.ok.injEq, List.cons.injEq, strTok, Token.mk.injEq] at h
              exact absurd h.1.1 (hr sr hmem)
      | none =>
          have hl : isLiteral '`' = false := by decide
          simp [hf, hl] at h

/-- **C16.verbatim_spellable_iff**: a string has a back-quoted spelling iff no maximal run of backslashes of
odd length in it is followed by a back quote, a newline or the end of the string; and then
``spellV s`` (every `` ` `` written `` \` ``) is such a spelling. -/
theorem verbatim_spellable_iff (cfg : LexCfg) (hr : NoQuotedRule cfg) (s : List Char) :
    ((∃ c, SpellsV cfg c s) ↔ badRun false s = false) ∧
    (badRun false s = false → SpellsV cfg (spellV s) s) := by
  have hcons : badRun false s = false → SpellsV cfg (spellV s) s := by
    intro hb
    have hw : wfQ '`' (spellV s) = true := by simpa [wfFrom] using wf_spellV s false hb
    have := (verbatim_identity cfg (spellV s) hw).1
    rwa [unescape_spellV] at this
  refine ⟨⟨?_, fun hb => ⟨_, hcons hb⟩⟩, hcons⟩
  rintro ⟨c, hc⟩
  obtain ⟨hw, rfl⟩ := spellsV_inv cfg hr hc
  exact badRun_unescape c hw

/-- the same in the wording of the property: spellable iff there is NO maximal odd run of backslashes before a
back quote, a newline or the end -/
theorem verbatim_spellable_iff_runs (cfg : LexCfg) (hr : NoQuotedRule cfg) (s : List Char) :
    (∃ c, SpellsV cfg c s) ↔ ¬ HasBadRun s := by
  rw [(verbatim_spellable_iff cfg hr s).1, ← badRun_iff]
  cases badRun false s <;> simp

/-- **C16.verbatim_unspellable** (known finding K2): the one-character string `\` has no back-quoted
spelling - so "every string has a spelling in each of the three styles" is false by design. -/
theorem verbatim_unspellable (cfg : LexCfg) (hr : NoQuotedRule cfg) : ¬ ∃ c, SpellsV cfg c ['\\'] := by
  intro h
  have := ((verbatim_spellable_iff cfg hr ['\\']).1).1 h
  exact absurd this (by decide)

example : badRun false ['a', '\\', '\\', '`'] = false ∧ badRun false ['\\', '`'] = true ∧
    badRun false ['\\', '\n'] = true ∧ badRun false ['\\', 'n'] = false ∧ badRun false ['\\', '\\', '\\'] = true := by decide

/-! every configuration built from an operator table satisfies `NoQuotedRule` -/

theorem mem_insertBy {α} (le : α → α → Bool) (x y : α) : ∀ (l : List α), y ∈ insertBy le x l → y = x ∨ y ∈ l
  | [], h => by simpa [insertBy] using h
  | z :: zs, h => by
      simp only [insertBy] at h
      split at h
      · simpa using h
      · rcases List.mem_cons.mp h with rfl | h'
        · simp
        · rcases mem_insertBy le x y zs h' with e | e
          · exact Or.inl e
          · exact Or.inr (List.mem_cons_of_mem _ e)

theorem mem_sortBy {α} (le : α → α → Bool) (y : α) : ∀ (l : List α), y ∈ sortBy le l → y ∈ l
  | [], h => by simpa [sortBy] using h
  | x :: xs, h => by
      have h' : y ∈ insertBy le x (sortBy le xs) := by simpa [sortBy] using h
      rcases mem_insertBy le x y _ h' with e | e
      · simp [e]
      · exact List.mem_cons_of_mem _ (mem_sortBy le y xs e)

theorem opRulesFrom_kind : ∀ (ops : List (List Char)) (i : Nat) (r : StrRule), r ∈ opRulesFrom i ops → r.kind ≠ .quoted
  | [], _, _, h => by simp [opRulesFrom] at h
  | s :: ops, i, r, h => by
      simp only [opRulesFrom, List.mem_cons] at h
      rcases h with rfl | h
      · simp
      · exact opRulesFrom_kind ops (i + 1) r h

theorem noQuotedRule_ofTable (chars : CharCfg) (ops : List (List Char)) (hasIndexer hasMap : Bool)
    (nvo : Option (List Char)) (names : List Char → Option Char) (maxDigits : Nat) :
    NoQuotedRule (LexCfg.ofTable chars ops hasIndexer hasMap nvo names maxDigits) := by
  intro r hr
  simp only [LexCfg.ofTable, mkRules] at hr
  have := mem_sortBy _ r _ (mem_sortBy _ r _ hr)
  simp only [List.mem_append] at this
  rcases this with ((h | h) | h) | h
  · cases hasIndexer <;> simp at h; subst h; simp
  · cases hasMap <;> simp at h; subst h; simp
  · cases nvo <;> simp at h; subst h; simp
  · exact opRulesFrom_kind ops 1 r h

/-! ## C16.int_literal, C16.dot_means_float -/

def AllDigits (cc : CharCfg) (ds : List Char) : Prop := ∀ d ∈ ds, cc.isDigit d = true

theorem digit_ne_nonword (cc : CharCfg) {d x : Char} (hd : cc.isDigit d = true) (hx : x ∈ nonWordChars) : d ≠ x :=
  word_ne_of_nonword cc (cc.digit_word d hd) hx

theorem dot_not_digit (cc : CharCfg) : cc.isDigit '.' = false :=
  nonword_not_digit cc (cc.nonword '.' (by decide))

theorem matchNumber_int (cc : CharCfg) {ds : List Char} (hne : ds ≠ []) (hd : AllDigits cc ds) :
    matchNumber cc false ds = some ⟨ds, none⟩ := by
  have h1 : ds.takeWhile cc.isDigit = ds := takeWhile_all hd
  have h2 : ds.dropWhile cc.isDigit = [] := dropWhile_all hd
  have h3 : ds.isEmpty = false := by cases ds with
    | nil => exact absurd rfl hne
    | cons _ _ => rfl
  simp [matchNumber, fracPart, h1, h2, h3, boundaryAfter]

theorem matchNumber_dec (cc : CharCfg) {a b : List Char} (hne : a ≠ []) (ha : AllDigits cc a)
    (hnb : b ≠ []) (hb : AllDigits cc b) :
    matchNumber cc false (a ++ '.' :: b) = some ⟨a, some b⟩ := by
  have h1 : (a ++ '.' :: b).takeWhile cc.isDigit = a := takeWhile_append_stop ha (dot_not_digit cc)
  have h2 : (a ++ '.' :: b).dropWhile cc.isDigit = '.' :: b := dropWhile_append_stop ha (dot_not_digit cc)
  have h3 : a.isEmpty = false := by cases a with
    | nil => exact absurd rfl hne
    | cons _ _ => rfl
  have h4 : b.takeWhile cc.isDigit = b := takeWhile_all hb
  have h5 : b.dropWhile cc.isDigit = [] := dropWhile_all hb
  have h6 : b.isEmpty = false := by cases b with
    | nil => exact absurd rfl hnb
    | cons _ _ => rfl
  simp [matchNumber, fracPart, h1, h2, h3, h4, h5, h6, boundaryAfter]

theorem ruleAt_digit (cfg : LexCfg) {d : Char} {r : List Char} (hd : cfg.chars.isDigit d = true) (pos : Nat)
    {m : NumMatch} (hm : matchNumber cfg.chars false (d :: r) = some m) :
    ruleAt cfg false (d :: r) pos = convNumber cfg m pos := by
  have h1 : d ≠ '$' := digit_ne_nonword cfg.chars hd (by decide)
  simp only [ruleAt, h1, if_false, hm]

/-- the decimal value of a digit string: `digitsVal` reads it most significant digit first -/
theorem digitsVal_snoc (cc : CharCfg) (ds : List Char) (d : Char) :
    digitsVal cc (ds ++ [d]) = 10 * digitsVal cc ds + cc.digitVal d := by
  simp [digitsVal, List.foldl_append]

/-- **C16.int_literal**: a non-empty string of `\d` characters (any script), alone in a text, is one NUMBER
token whose value is the integer the digits spell in base ten (`digitsVal`: `digitsVal_snoc`, value 0 for
no digit) - unless it has more digits than the interpreter's `int()` accepts, then it is the lexical error
`(text, 0)`. -/
theorem int_literal (cfg : LexCfg) {ds : List Char} (hne : ds ≠ []) (hd : AllDigits cfg.chars ds) :
    (cfg.maxDigits = 0 ∨ ds.length ≤ cfg.maxDigits →
      lexAll cfg ds = .ok [⟨.number, .int (digitsVal cfg.chars ds), 0⟩]) ∧
    (cfg.maxDigits ≠ 0 ∧ cfg.maxDigits < ds.length → lexAll cfg ds = .error (.lexical ds 0)) := by
  cases ds with
  | nil => exact absurd rfl hne
  | cons d r =>
      have hd0 : cfg.chars.isDigit d = true := hd d (by simp)
      have hi : isIgnored d = false := word_not_ignored cfg.chars (cfg.chars.digit_word d hd0)
      have hr := ruleAt_digit cfg hd0 0 (matchNumber_int cfg.chars hne hd)
      simp only [List.length_cons]
      constructor
      · intro hlim
        apply lexAll_single cfg hi
        rw [hr]
        have : (cfg.maxDigits != 0 && decide (cfg.maxDigits < r.length + 1)) = false := by
          rcases hlim with h | h
          · simp [h]
          · simp only [Bool.and_eq_false_iff, decide_eq_false_iff_not]; right; omega
        simp only [convNumber, this, Bool.false_eq_true, if_false, NumMatch.len, List.length_cons]
      · intro hlim
        apply lexAll_error cfg hi
        rw [hr]
        have : (cfg.maxDigits != 0 && decide (cfg.maxDigits < r.length + 1)) = true := by
          simp [hlim.1, hlim.2]
        simp only [convNumber, this, if_true, List.length_cons]

/-- value of an ASCII decimal text `ddd.ddd`: `(n, k)` stands for the rational `n / 10^k` -/
def decimalOf (text : List Char) : Nat × Nat :=
  let ip := text.takeWhile (fun c => c != '.')
  let fp := (text.dropWhile (fun c => c != '.')).drop 1
  ((ip ++ fp).foldl (fun a d => 10 * a + (d.toNat - 48)) 0, fp.length)

theorem asciiDigit_spec {v : Nat} (h : v < 10) :
    (Char.ofNat (48 + v)).toNat - 48 = v ∧ (Char.ofNat (48 + v) != '.') = true := by
  have : v = 0 ∨ v = 1 ∨ v = 2 ∨ v = 3 ∨ v = 4 ∨ v = 5 ∨ v = 6 ∨ v = 7 ∨ v = 8 ∨ v = 9 := by omega
  rcases this with h | h | h | h | h | h | h | h | h | h <;> subst h <;> decide

theorem foldl_asciiDigits (cc : CharCfg) : ∀ (ds : List Char) (acc : Nat), AllDigits cc ds →
    (asciiDigits cc ds).foldl (fun a d => 10 * a + (d.toNat - 48)) acc = ds.foldl (fun a d => 10 * a + cc.digitVal d) acc
  | [], _, _ => rfl
  | d :: ds, acc, h => by
      have hd := (asciiDigit_spec (cc.digit_lt d (h d (by simp)))).1
      simp only [asciiDigits, List.map_cons, List.foldl_cons, hd]
      exact foldl_asciiDigits cc ds _ (fun x hx => h x (by simp [hx]))

theorem decimalOf_ascii (cc : CharCfg) {a b : List Char} (ha : AllDigits cc a) (hb : AllDigits cc b) :
    decimalOf (asciiDigits cc a ++ '.' :: asciiDigits cc b) = (digitsVal cc (a ++ b), b.length) := by
  have hp : ∀ c ∈ asciiDigits cc a, (fun c => c != '.') c = true := by
    intro c hc
    simp only [asciiDigits, List.mem_map] at hc
    obtain ⟨d, hd, rfl⟩ := hc
    exact (asciiDigit_spec (cc.digit_lt d (ha d hd))).2
  have hx : (fun c : Char => c != '.') '.' = false := by decide
  have h1 : (asciiDigits cc a ++ '.' :: asciiDigits cc b).takeWhile (fun c => c != '.') = asciiDigits cc a :=
    takeWhile_append_stop hp hx
  have h2 : (asciiDigits cc a ++ '.' :: asciiDigits cc b).dropWhile (fun c => c != '.') = '.' :: asciiDigits cc b :=
    dropWhile_append_stop hp hx
  simp only [decimalOf, h1, h2, List.drop_succ_cons, List.drop_zero, List.foldl_append, digitsVal]
  rw [foldl_asciiDigits cc a 0 ha, foldl_asciiDigits cc b _ hb]
  simp [asciiDigits]

/-- the text a NUMBER match covers -/
def numText (m : NumMatch) : List Char :=
  match m.frac with
  | some d2 => m.int ++ '.' :: d2
  | none => m.int

/-- **C16.dot_means_float**: (1) digits `.` digits, alone in a text, is one NUMBER token holding a float: its
decimal text with ASCII digits and the double `literalFloat a b`; (2) that text denotes the rational
`digitsVal (a ++ b) / 10 ^ b.length`, and the double is this rational correctly rounded (`Props/C16Float.literalFloat_spec`:
nearest, ties to even, `inf` from `2^1024 - 2^970` on - inside the model, no longer delegated to the platform);
(3) for every NUMBER match the token holds a float iff the matched text contains a dot, and an integer otherwise. -/
theorem dot_means_float (cfg : LexCfg) :
    (∀ a b, a ≠ [] → b ≠ [] → AllDigits cfg.chars a → AllDigits cfg.chars b →
      lexAll cfg (a ++ '.' :: b) =
        .ok [⟨.number, .flt (asciiDigits cfg.chars a ++ '.' :: asciiDigits cfg.chars b) (literalFloat cfg.chars a b), 0⟩] ∧
      decimalOf (asciiDigits cfg.chars a ++ '.' :: asciiDigits cfg.chars b) =
        (digitsVal cfg.chars (a ++ b), b.length)) ∧
    (∀ pw rest m pos t len, matchNumber cfg.chars pw rest = some m → convNumber cfg m pos = .tok t len →
      ('.' ∈ numText m ↔ ∃ l w, t.val = .flt l w) ∧ ('.' ∉ numText m ↔ t.val = .int (digitsVal cfg.chars m.int))) := by
  constructor
  · intro a b hna hnb ha hb
    refine ⟨?_, decimalOf_ascii cfg.chars ha hb⟩
    cases a with
    | nil => exact absurd rfl hna
    | cons d r =>
        have hd0 : cfg.chars.isDigit d = true := ha d (by simp)
        have hi : isIgnored d = false := word_not_ignored cfg.chars (cfg.chars.digit_word d hd0)
        have hm : matchNumber cfg.chars false (d :: (r ++ '.' :: b)) = some ⟨d :: r, some b⟩ :=
          matchNumber_dec cfg.chars hna ha hnb hb
        have hr := ruleAt_digit cfg hd0 0 hm
        show lexAll cfg (d :: (r ++ '.' :: b)) = _
        apply lexAll_single cfg hi
        rw [hr]
        simp only [convNumber, NumMatch.len, List.length_cons, List.length_append, Matched.tok.injEq, true_and]
        omega
  · intro pw rest m pos t len hm hc
    have hint : '.' ∉ m.int := by
      intro hmem
      have : m.int = rest.takeWhile cfg.chars.isDigit := by
        simp only [matchNumber] at hm
        split at hm
        · cases hm
        · split at hm
          · cases hm
          · split at hm
            · cases hm; rfl
            · split at hm
              · cases hm; rfl
              · cases hm
      rw [this] at hmem
      have := mem_takeWhile_true hmem
      rw [dot_not_digit] at this
      cases this
    cases hf : m.frac with
    | some d2 =>
        simp only [convNumber, hf, Matched.tok.injEq] at hc
        obtain ⟨rfl, _⟩ := hc
        simp [numText, hf]
    | none =>
        simp only [convNumber, hf] at hc
        split at hc
        · cases hc
        · simp only [Matched.tok.injEq] at hc
          obtain ⟨rfl, _⟩ := hc
          simp [numText, hf, hint]

/-! ## C16.keywords, C16.func_before_keyword -/

/-- identifier-shaped: `c :: r` with `c` a `\w` character that is not a `\d`, `r` all `\w` characters -/
def IdentShaped (cc : CharCfg) (c : Char) (r : List Char) : Prop :=
  cc.isWord c = true ∧ cc.isDigit c = false ∧ ∀ x ∈ r, cc.isWord x = true

theorem ident_prelude (cfg : LexCfg) {c : Char} {r : List Char} (h : IdentShaped cfg.chars c r) (tail : List Char) :
    c ≠ '$' ∧ isIgnored c = false ∧ matchNumber cfg.chars false (c :: (r ++ tail)) = none ∧
    identStart cfg.chars c = true := by
  obtain ⟨hw, hd, _⟩ := h
  refine ⟨word_ne_of_nonword cfg.chars hw (by decide), word_not_ignored cfg.chars hw, ?_, ?_⟩
  · simp [matchNumber, fracPart, List.takeWhile_cons, hd]
  · simp [identStart, hw, hd]

theorem ruleAt_word (cfg : LexCfg) {c : Char} {r : List Char} (h : IdentShaped cfg.chars c r)
    (hdu : startsDunder (c :: r) = false) :
    ruleAt cfg false (c :: r) 0 = .tok (classifyKeyword cfg (c :: r) 0) (r.length + 1) := by
  obtain ⟨h1, _, h3, h4⟩ := ident_prelude cfg h []
  simp only [List.append_nil] at h3
  have hall : ∀ x ∈ c :: r, cfg.chars.isWord x = true := by
    intro x hx
    rcases List.mem_cons.mp hx with rfl | hx
    · exact h.1
    · exact h.2.2 x hx
  have hf : matchFunc cfg.chars false (c :: r) = none := by
    simp [matchFunc, h4, dropWhile_all hall]
  have hk : matchKeyword cfg.chars false (c :: r) = some (c :: r) := by
    simp [matchKeyword, hdu, h4, takeWhile_all hall]
  simp only [ruleAt, h1, if_false, h3, hf, hk, List.length_cons]

/-- **C16.keywords**: an identifier-shaped word alone in a text. Not starting with `__`: an operator word of the
table is that operator's token; otherwise `true` / `false` / `null` are the three constants and any other
word denotes its own text. Starting with `__` (and no operator symbol of the table being a prefix of it):
the lexical error `('_', 0)`. -/
theorem keywords (cfg : LexCfg) {c : Char} {r : List Char} (h : IdentShaped cfg.chars c r) :
    (startsDunder (c :: r) = false →
      (c :: r ∈ cfg.opWords → lexAll cfg (c :: r) = .ok [⟨.op (c :: r), .text (c :: r), 0⟩]) ∧
      (c :: r ∉ cfg.opWords →
        (c :: r = kwTrue → lexAll cfg (c :: r) = .ok [⟨.true_, .none, 0⟩]) ∧
        (c :: r = kwFalse → lexAll cfg (c :: r) = .ok [⟨.false_, .none, 0⟩]) ∧
        (c :: r = kwNull → lexAll cfg (c :: r) = .ok [⟨.null_, .none, 0⟩]) ∧
        (c :: r ≠ kwTrue → c :: r ≠ kwFalse → c :: r ≠ kwNull →
          lexAll cfg (c :: r) = .ok [⟨.keyword, .text (c :: r), 0⟩]))) ∧
    (startsDunder (c :: r) = true → firstStrRule cfg.rules (c :: r) = none →
      lexAll cfg (c :: r) = .error (.lexical ['_'] 0)) := by
  obtain ⟨h1, hi, h3, h4⟩ := ident_prelude cfg h []
  simp only [List.append_nil] at h3
  constructor
  · intro hdu
    have hl := lexAll_single cfg hi (ruleAt_word cfg h hdu)
    refine ⟨fun ho => ?_, fun ho => ⟨fun e => ?_, fun e => ?_, fun e => ?_, fun e1 e2 e3 => ?_⟩⟩
    · rw [hl]; simp [classifyKeyword, ho]
    · rw [hl, e]; rw [e] at ho; simp [classifyKeyword, ho]
    · rw [hl, e]; rw [e] at ho; have hne : kwFalse ≠ kwTrue := by decide
      simp [classifyKeyword, ho, hne]
    · rw [hl, e]; rw [e] at ho; have hne : kwNull ≠ kwTrue := by decide
      have hne2 : kwNull ≠ kwFalse := by decide
      simp [classifyKeyword, ho, hne, hne2]
    · rw [hl]; simp [classifyKeyword, ho, e1, e2, e3]
  · intro hdu hno
    apply lexAll_error cfg hi
    have hc : c = '_' := by
      cases r with
      | nil => simp [startsDunder] at hdu
      | cons b r' => simp only [startsDunder, Bool.and_eq_true, beq_iff_eq] at hdu; exact hdu.1
    subst hc
    have hall : ∀ x ∈ '_' :: r, cfg.chars.isWord x = true := by
      intro x hx
      rcases List.mem_cons.mp hx with rfl | hx
      · exact h.1
      · exact h.2.2 x hx
    have hf : matchFunc cfg.chars false ('_' :: r) = none := by
      simp [matchFunc, h4, dropWhile_all hall]
    have hk : matchKeyword cfg.chars false ('_' :: r) = none := by
      simp [matchKeyword, hdu]
    have hq1 : (('_' : Char) = '\'' || ('_' : Char) = '"') = false := by decide
    have hq2 : ('_' : Char) ≠ '`' := by decide
    have hlit : isLiteral '_' = false := by decide
    simp only [ruleAt, h1, if_false, h3, hf, hk, hq1, hq2, Bool.false_eq_true, symbolAt, hno, hlit]

/-- **C16.func_before_keyword**: an identifier-shaped word directly followed by `(` is a call token with the
word as its value - whatever the word: an operator word (`and(`), `true(`, or one starting with `__`. -/
theorem func_before_keyword (cfg : LexCfg) {c : Char} {r : List Char} (h : IdentShaped cfg.chars c r)
    (rest : List Char) :
    nextTok cfg (c :: (r ++ '(' :: rest)) 0 = .tok ⟨.func, .text (c :: r), 0⟩ (r.length + 2) := by
  obtain ⟨h1, hi, h3, h4⟩ := ident_prelude cfg h ('(' :: rest)
  have hall : ∀ x ∈ c :: r, cfg.chars.isWord x = true := by
    intro x hx
    rcases List.mem_cons.mp hx with rfl | hx
    · exact h.1
    · exact h.2.2 x hx
  have hp : cfg.chars.isWord '(' = false := cfg.chars.nonword '(' (by decide)
  have ht : (c :: (r ++ '(' :: rest)).takeWhile cfg.chars.isWord = c :: r :=
    takeWhile_append_stop (l := c :: r) hall hp
  have hd : (c :: (r ++ '(' :: rest)).dropWhile cfg.chars.isWord = '(' :: rest :=
    dropWhile_append_stop (l := c :: r) hall hp
  have hf : matchFunc cfg.chars false (c :: (r ++ '(' :: rest)) = some (c :: r) := by
    simp only [matchFunc, h4, Bool.not_false, Bool.and_self, if_true, hd, ht]
  simp only [nextTok, prevWord, List.drop_zero, scanTok, hi, Bool.false_eq_true, if_false, ruleAt, h1, h3, hf,
    List.length_cons]
  simp

example (cfg : LexCfg) : IdentShaped cfg.chars '_' ['_'] :=
  ⟨cfg.chars.underscore_word, cfg.chars.underscore_nondigit, by
    intro x hx; simp at hx; subst hx; exact cfg.chars.underscore_word⟩

/-! ## a concrete configuration (ASCII classes, the default operator table): the hypotheses above are
satisfiable, and the model computes what the real lexer does on a few texts (checked by the kernel) -/

example : NoQuotedRule asciiCfg := noQuotedRule_ofTable _ _ _ _ _ _ _

-- `'a\'b'` spells a'b ; `"\\"` spells one backslash; `` `\`` `` is not a token
example : lexAll asciiCfg ['\'', 'a', '\\', '\'', 'b', '\''] = .ok [strTok ['a', '\'', 'b']] := by decide +kernel
example : lexAll asciiCfg ['`', '\\', '`'] = .error (.lexical ['`'] 0) := by decide +kernel
-- `1.50 mod x` ; `a->b` (the longer operator first) ; `and(`
example : lexAll asciiCfg ['1', '.', '5', '0', ' ', 'm', 'o', 'd', ' ', 'x'] =
    .ok [⟨.number, .flt ['1', '.', '5', '0'] 0x3FF8000000000000, 0⟩, ⟨.op ['m', 'o', 'd'], .text ['m', 'o', 'd'], 5⟩,
         ⟨.keyword, .text ['x'], 9⟩] := by decide +kernel
example : lexAll asciiCfg ['a', '-', '>', 'b'] =
    .ok [⟨.keyword, .text ['a'], 0⟩, ⟨.op ['-', '>'], .text ['-', '>'], 1⟩, ⟨.keyword, .text ['b'], 3⟩] := by
  decide +kernel
example : IdentShaped asciiCfg.chars 'a' ['n', 'd'] := by
  refine ⟨by decide, by decide, ?_⟩
  intro x hx; simp at hx; rcases hx with rfl | rfl <;> decide
example : nextTok asciiCfg ['a', 'n', 'd', '(', ')'] 0 = .tok ⟨.func, .text ['a', 'n', 'd'], 0⟩ 4 := by decide +kernel
-- `__x` ; `'\xzz'` (an ill-formed escape is reported with its text at its position)
example : lexAll asciiCfg ['_', '_', 'x'] = .error (.lexical ['_'] 0) := by decide +kernel
example : lexAll asciiCfg [' ', '\'', 'a', '\\', 'x', 'z', 'z', '\''] = .error (.lexical ['\\', 'x', 'z', 'z'] 3) := by
  decide +kernel
example : AllDigits asciiCfg.chars ['0', '4', '2'] := by
  intro d hd; simp at hd; rcases hd with rfl | rfl | rfl <;> decide

end Yaql.Props.C16
