import Yaql.Lemmas.Lexer
/-!
C16 - literals denote exactly the values they spell.

All theorems are about the lexer model `Yaql.Lexer` (`Model/Lexer.lean`) and hold for EVERY
configuration `cfg : LexCfg` (character classes satisfying the `CharCfg` hypotheses, any operator
table, any `\N{}` oracle, any digit limit) and every string.
-/
namespace Yaql.Props.C16
open Yaql.Lexer Yaql.Syntax

/-! ## the spelling functions -/

/-- `s.replace('\\', '\\\\').replace(q, '\\' + q)`: backslashes doubled, the quote escaped -/
def escQ (q : Char) : List Char → List Char
  | [] => []
  | c :: s => if c = '\\' ∨ c = q then '\\' :: c :: escQ q s else c :: escQ q s

/-- ``s.replace('`', '\\`')`` -/
def spellV : List Char → List Char
  | [] => []
  | c :: s => if c = '`' then '\\' :: '`' :: spellV s else c :: spellV s

/-- the token a quoted literal alone in a text must produce -/
def strTok (s : List Char) : Token := ⟨.quoted, .text s, 0⟩

/-! ## reaching the string rules: the rules before them do not match at a quote -/

theorem quote_mem {q : Char} (hq : q = '\'' ∨ q = '"' ∨ q = '`') : q ∈ nonWordChars := by
  rcases hq with h | h | h <;> subst h <;> decide

theorem ruleAt_quote (cfg : LexCfg) {q : Char} (hq : q = '\'' ∨ q = '"' ∨ q = '`') (pw : Bool) (r : List Char)
    (pos : Nat) :
    ruleAt cfg pw (q :: r) pos =
      match (if q = '\'' || q = '"' then scanStr q r else none) with
      | some content => quotedTok cfg content pos
      | none =>
        match (if q = '`' then scanStr q r else none) with
        | some content => .tok ⟨.quoted, .text (unescapeBackquote content), pos⟩ (content.length + 2)
        | none => symbolAt cfg q (q :: r) pos := by
  have hw : cfg.chars.isWord q = false := cfg.chars.nonword q (quote_mem hq)
  have hd : cfg.chars.isDigit q = false := nonword_not_digit _ hw
  have h1 : q ≠ '$' := by rcases hq with h | h | h <;> subst h <;> decide
  have h2 : matchNumber cfg.chars pw (q :: r) = none := by
    simp [matchNumber, List.takeWhile_cons, hd]
  have h3 : matchFunc cfg.chars pw (q :: r) = none := by
    simp [matchFunc, identStart, hw]
  have h4 : matchKeyword cfg.chars pw (q :: r) = none := by
    simp [matchKeyword, identStart, hw]
  simp only [ruleAt, h1, if_false, h2, h3, h4]
  rfl

/-! ## scanning the escaped spelling -/

theorem scanStr_escQ {q : Char} (hq : q = '\'' ∨ q = '"') (s tail : List Char) :
    scanStr q (escQ q s ++ q :: tail) = some (escQ q s) := by
  have hb : q ≠ '\\' := by rcases hq with h | h <;> subst h <;> decide
  have hn : q ≠ '\n' := by rcases hq with h | h <;> subst h <;> decide
  induction s with
  | nil => simp [escQ, scanStr_cons]
  | cons c s ih =>
      by_cases hc : c = '\\' ∨ c = q
      · have hcn : c ≠ '\n' := by
          rcases hc with h | h
          · subst h; decide
          · subst h; exact hn
        simp [escQ, hc, scanStr_cons, hb.symm, hcn, ih]
      · have h1 : c ≠ '\\' := fun h => hc (Or.inl h)
        have h2 : c ≠ q := fun h => hc (Or.inr h)
        simp [escQ, hc, scanStr_cons, h1, h2, ih]

/-! ## `decode_escapes` -/

theorem decodeGo_plain (cfg : LexCfg) (b off : Nat) {c : Char} (t : List Char) (hc : c ≠ '\\') :
    decodeGo cfg b 0 off (c :: t) = consOk c (decodeGo cfg b 0 (off + 1) t) := by
  simp [decodeGo, hc]

/-- after a match of length `k + 1` the next `k` characters are not looked at -/
theorem decodeGo_skip (cfg : LexCfg) (b : Nat) : ∀ (pre : List Char) (off : Nat) (rest : List Char),
    decodeGo cfg b pre.length off (pre ++ rest) = decodeGo cfg b 0 (off + pre.length) rest
  | [], off, rest => by simp
  | c :: pre, off, rest => by
      simp only [List.length_cons, List.cons_append, decodeGo]
      rw [decodeGo_skip cfg b pre (off + 1) rest]
      congr 1
      omega

/-- the ordered alternation at a character that starts none of the earlier alternatives -/
theorem escAt_simple (cfg : LexCfg) {c : Char} (t : List Char)
    (hU : c ≠ 'U') (hu : c ≠ 'u') (hx : c ≠ 'x') (ho : isOct c = false) (hN : c ≠ 'N') :
    escAt cfg (c :: t) = singleEscape c := by
  have h1 : octEscape (c :: t) = none := by
    simp [octEscape, List.take_succ_cons, List.takeWhile_cons, ho]
  have h2 : nameEscape cfg (c :: t) = none := by
    cases t with
    | nil => simp [nameEscape]
    | cons b r => simp [nameEscape, hN]
  simp [escAt, hU, hu, hx, h1, h2]

theorem decodeGo_escQ (cfg : LexCfg) {q : Char} (hq : q = '\'' ∨ q = '"') (b : Nat) :
    ∀ (s : List Char) (off : Nat), decodeGo cfg b 0 off (escQ q s) = .ok s
  | [], off => by simp [escQ, decodeGo]
  | c :: s, off => by
      have hb : q ≠ '\\' := by rcases hq with h | h <;> subst h <;> decide
      by_cases hc : c = '\\' ∨ c = q
      · have hs : singleEscape c = some ⟨2, .ok c⟩ := by
          rcases hc with h | h
          · subst h; rfl
          · rcases hq with h' | h' <;> subst h <;> subst h' <;> rfl
        have he : escAt cfg (c :: escQ q s) = some ⟨2, .ok c⟩ := by
          rw [escAt_simple cfg _ _ _ _ _ _, hs] <;>
            (rcases hc with h | h
             · subst h; decide
             · rcases hq with h' | h' <;> subst h <;> subst h' <;> decide)
        simp only [escQ, hc, if_true]
        simp only [decodeGo, he, if_true]
        rw [decodeGo_escQ cfg hq b s (off + 1 + 1)]
        rfl
      · have h1 : c ≠ '\\' := fun h => hc (Or.inl h)
        simp only [escQ, hc, if_false]
        rw [decodeGo_plain cfg b off _ h1, decodeGo_escQ cfg hq b s (off + 1)]
        rfl

/-! ## C16.roundtrip_single / roundtrip_double -/

theorem roundtrip (cfg : LexCfg) {q : Char} (hq : q = '\'' ∨ q = '"') (s : List Char) :
    lexAll cfg (q :: (escQ q s ++ [q])) = .ok [strTok s] := by
  have hq3 : q = '\'' ∨ q = '"' ∨ q = '`' := by rcases hq with h | h <;> simp [h]
  have hi : isIgnored q = false := by rcases hq with h | h <;> subst h <;> decide
  apply lexAll_single cfg hi
  rw [ruleAt_quote cfg hq3]
  have hc : (q = '\'' || q = '"') = true := by rcases hq with h | h <;> subst h <;> decide
  simp only [hc, if_true, scanStr_escQ hq s [], quotedTok, decodeEscapes, decodeGo_escQ cfg hq (0 + 1) s 0]
  simp [strTok]

/-- **C16.roundtrip_single**: for EVERY string `s`, the single-quoted literal built by doubling the
backslashes and escaping the quote lexes as exactly one QUOTED_STRING token whose value is `s`. -/
theorem roundtrip_single (cfg : LexCfg) (s : List Char) :
    lexAll cfg ('\'' :: (escQ '\'' s ++ ['\''])) = .ok [strTok s] :=
  roundtrip cfg (Or.inl rfl) s

/-- **C16.roundtrip_double**: the same for the double-quoted style. -/
theorem roundtrip_double (cfg : LexCfg) (s : List Char) :
    lexAll cfg ('"' :: (escQ '"' s ++ ['"'])) = .ok [strTok s] :=
  roundtrip cfg (Or.inr rfl) s

end Yaql.Props.C16
