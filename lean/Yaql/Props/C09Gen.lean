import Yaql.Gen.MutFacts
/-!
C09 over the table regenerated from the live repo on every run: `Gen.MutFacts` has one row per
(registered function, payload parameter) - 284 functions today - with the in-place-update facts the AST
scan of `harness/gens/mutfacts.py` found for the object bound to the parameter and for every object
reachable inside it (aliases through assignment, iteration, indexing, yaql helpers and yaql class
methods followed; `list(x) dict(x) set(x) tuple(x) sorted(x) x[:] x.copy()` and comprehensions are new
containers), plus one `<globals>` row per function for writes to module-level state.
-/
namespace Yaql.Props.C09Gen
open Yaql.Gen.MutFacts

/-- rows that are flagged by the scan and are *not* side effects on host data, context or statement -
    each with its justification; each is also exercised dynamically (harness/props/c09.py) -/
def allowed : List (String × String) := [
  -- thenBy / thenByDescending append the secondary key to the OrderingIterable they receive and return it
  -- (`collection.append_field(..)`, `collection.context = context`).  The only way to obtain an
  -- OrderingIterable is orderBy / orderByDescending, which builds a new one per call: the object was
  -- created in the same evaluation, it is never host data and never part of the parsed statement.
  -- Dynamic check: `pool` cases `$.orderBy(..).thenBy(..)` re-evaluated in random order, and the `alias`
  -- sweep of thenBy over every collection position.
  ("thenBy|queries.then_by", "collection"),
  ("thenByDescending|queries.then_by_descending", "collection"),
  -- Yaqlized host objects (outside the property's quantifier of lists, dicts and sets): with the host's
  -- own opt-in `autoYaqlizeResult` setting, the *result* of an attribute / index / method access is
  -- marked yaqlized (`setattr(result, '__yaqlization__', ..)`) - the documented purpose of that setting.
  -- `attr` / `expr` / `engine` / `context` are flagged only because the result is computed from them.  Dynamic check:
  -- `yaqlized` cases - without the opt-in no attribute of any reachable host object changes.
  ("#indexer|yaqlized.indexation", "obj"),
  ("#operator_.|yaqlized.attribution", "obj"),
  ("#operator_.|yaqlized.attribution", "attr"),
  ("#operator_.|yaqlized.op_dot", "receiver"),
  ("#operator_.|yaqlized.op_dot", "engine"),
  ("#operator_.|yaqlized.op_dot", "context"),
  -- op_dot: `kwargs[arg_mappings.get(key, key)] = ..` updates the NEW dict `runner.translate_args` built
  -- for this call (`kw_args = {}`), not the expression; flagged because tuple unpacking of the helper's
  -- result loses the "new container" fact.  Dynamic check: statement pools with yaqlized method calls.
  ("#operator_.|yaqlized.op_dot", "expr")
]

def rowOk (r : Row) : Bool :=
  (!r.mutates && !r.storesAttr && !r.writesGlobal && !r.unreadable
    -- a method the scan cannot classify, called on a value parameter (lazy parameters are expression
    -- objects: calling them is evaluation)
    && (r.kind != .value || !r.unknownCall)
    -- context writes go through the hidden `Context` parameter only: the call's own child context
    -- (`specs.py:308 new_context = context.create_child_context()`)
    && (!r.writesCtx || r.kind == .context))
  || allowed.contains (r.fn, r.param)

/-- **C09Gen.no_param_mutation** (every row of the live registry): no registered function updates in
    place a parameter, anything aliased to it or anything reachable inside it, stores an attribute on
    an object it did not create, writes module-level state, or writes to a context other than through
    its hidden `Context` parameter - except the justified rows of `allowed`. -/
theorem no_param_mutation : ∀ r ∈ rows, rowOk r = true := by
  decide +kernel

/-- every allowed row is still needed (a stale entry would hide nothing, but the list stays honest) -/
theorem allowed_all_flagged :
    ∀ a ∈ allowed, (rows.any fun r => r.fn == a.1 && r.param == a.2 && (r.mutates || r.storesAttr)) = true := by
  decide +kernel

/-- non-vacuity: the table is the real registry - hundreds of rows whose parameter admits a raw host
    container, the context writers, the copy-before-change functions with clean rows, thenBy flagged -/
theorem table_nonvacuous :
    250 ≤ (rows.filter fun r => r.kind == .globals).length ∧
    150 ≤ (rows.filter fun r => r.kind == .value && r.admitsContainer).length ∧
    (rows.any fun r => r.fn == "let|system.let" && r.kind == .context && r.writesCtx) = true ∧
    (rows.any fun r => r.fn == "unpack|system.unpack" && r.kind == .context && r.writesCtx) = true ∧
    (rows.any fun r => r.fn == "def|system.def_" && r.kind == .context && r.writesCtx) = true ∧
    (rows.any fun r => r.fn == "insert|collections.list_insert" && r.param == "collection"
        && r.admitsContainer && !r.mutates) = true ∧
    (rows.any fun r => r.fn == "thenBy|queries.then_by" && r.param == "collection" && r.mutates) = true := by
  decide +kernel

end Yaql.Props.C09Gen
