import Yaql.Model.OpTable
import Yaql.Props.C02Table
/-!
C02, table layer: `levels_contiguous` - in an operator list whose every group holds at least one
real operator (true of the standard lists, kept by `insert_operator`), every group number owns a
key of `precedence_dict`, so the loop `for i in range(1, len(precedence_dict) + 1)` of
`_generate_operator_funcs` reaches every key: no row of the ply tuple is dropped.
-/
namespace Yaql.Props.C02Levels
open Yaql.OpTable Yaql.Props.C02Table

/-! ### dictionaries -/

theorem get?_set_eq {α} : ∀ (d : Dict α) (k : Str) (v : α), (d.set k v).get? k = some v
  | [], k, v => by simp [Dict.set, Dict.get?]
  | (k', v') :: rest, k, v => by
    by_cases h : k' = k
    · simp [Dict.set, Dict.get?, h]
    · simp [Dict.set, Dict.get?, h, get?_set_eq rest k v]

theorem get?_set_ne {α} : ∀ (d : Dict α) (k k2 : Str) (v : α), k2 ≠ k → (d.set k v).get? k2 = d.get? k2
  | [], k, k2, v, h => by simp [Dict.set, Dict.get?, Ne.symm h]
  | (k', v') :: rest, k, k2, v, h => by
    by_cases hk : k' = k
    · subst hk; simp [Dict.set, Dict.get?, Ne.symm h]
    · by_cases hk2 : k' = k2
      · subst hk2; simp [Dict.set, Dict.get?, hk]
      · simp [Dict.set, Dict.get?, hk, hk2, get?_set_ne rest k k2 v h]

theorem mem_of_get? {α} : ∀ (d : Dict α) (k : Str) (v : α), d.get? k = some v → (k, v) ∈ d
  | [], k, v, h => by simp [Dict.get?] at h
  | (k', v') :: rest, k, v, h => by
    by_cases hk : k' = k
    · simp [Dict.get?, hk] at h; subst h; simp [hk]
    · simp [Dict.get?, hk] at h; exact List.mem_cons_of_mem _ (mem_of_get? rest k v h)

/-- the keys of a dictionary are pairwise different -/
def KeysNodup {α} (d : Dict α) : Prop := (d.map (·.1)).Nodup

theorem mem_keys_set {α} : ∀ (d : Dict α) (k : Str) (v : α) (k2 : Str),
    k2 ∈ (d.set k v).map (·.1) ↔ k2 ∈ d.map (·.1) ∨ k2 = k
  | [], k, v, k2 => by simp [Dict.set]
  | (k', v') :: rest, k, v, k2 => by
    by_cases hk : k' = k
    · subst hk; simp [Dict.set]
      exact fun h => .inl h
    · have ih := mem_keys_set rest k v k2
      simp only [List.mem_map] at ih
      simp [Dict.set, hk, ih, or_assoc]

theorem keysNodup_set {α} : ∀ (d : Dict α) (k : Str) (v : α), KeysNodup d → KeysNodup (d.set k v)
  | [], k, v, _ => by simp [Dict.set, KeysNodup]
  | (k', v') :: rest, k, v, h => by
    simp only [KeysNodup, List.map_cons, List.nodup_cons] at h
    by_cases hk : k' = k
    · subst hk; simpa [Dict.set, KeysNodup] using h
    · have ih := keysNodup_set rest k v h.2
      simp only [Dict.set, hk, beq_iff_eq, ↓reduceIte, KeysNodup, List.map_cons, List.nodup_cons]
      refine ⟨?_, ih⟩
      intro hm
      rcases (mem_keys_set rest k v k').mp hm with h1 | h1
      · exact h.1 h1
      · exact hk h1

theorem get?_of_mem {α} : ∀ (d : Dict α), KeysNodup d → ∀ (k : Str) (v : α), (k, v) ∈ d → d.get? k = some v
  | [], _, k, v, h => by simp at h
  | (k', v') :: rest, hn, k, v, h => by
    simp only [KeysNodup, List.map_cons, List.nodup_cons] at hn
    rcases List.mem_cons.mp h with h | h
    · injection h with h1 h2; subst h1 h2; simp [Dict.get?]
    · have hne : k' ≠ k := by
        intro he; subst he
        exact hn.1 (List.mem_map.mpr ⟨(k', v), h, rfl⟩)
      simp [Dict.get?, hne, get?_of_mem rest hn.2 k v h]

/-! ### `_build_operator_table` -/

/-- some symbol of the table is unary or binary at group `g` -/
def HasLevel (d : Dict OpRec) (g : Nat) : Prop :=
  ∃ sym o, d.get? sym = some o ∧ (o.up.natAbs = g ∨ o.bp.natAbs = g)

def Bounded (d : Dict OpRec) (n : Nat) : Prop :=
  ∀ sym o, d.get? sym = some o → o.up.natAbs ≤ n ∧ o.bp.natAbs ≤ n

def realOp : Rec → Bool
  | .op _ ty _ => ty != .nameValue
  | .sep => false

/-- the record stored by `storeRec` -/
theorem storeRec_get (st : BuildSt) (sym : Str) (up bp : Int) (nm : Str) (al : Option Str) :
    ∃ nm', (storeRec st sym up bp nm al).ops.get? sym = some ⟨up, bp, nm', al⟩ ∧
      (∀ s2, s2 ≠ sym → (storeRec st sym up bp nm al).ops.get? s2 = st.ops.get? s2) ∧
      (storeRec st sym up bp nm al).precedence = st.precedence ∧
      (storeRec st sym up bp nm al).nameValue = st.nameValue := by
  unfold storeRec
  split
  · exact ⟨_, get?_set_eq .., fun s2 h => get?_set_ne _ _ _ _ h, rfl, rfl⟩
  · split
    · exact ⟨_, get?_set_eq .., fun s2 h => get?_set_ne _ _ _ _ h, rfl, rfl⟩
    · split
      · exact ⟨_, get?_set_eq .., fun s2 h => get?_set_ne _ _ _ _ h, rfl, rfl⟩
      · exact ⟨_, get?_set_eq .., fun s2 h => get?_set_ne _ _ _ _ h, rfl, rfl⟩

theorem storeRec_nodup (st : BuildSt) (sym : Str) (up bp : Int) (nm : Str) (al : Option Str)
    (h : KeysNodup st.ops) : KeysNodup (storeRec st sym up bp nm al).ops := by
  unfold storeRec
  repeat' split
  all_goals exact keysNodup_set _ _ _ h

theorem buildStep_nodup (st st1 : BuildSt) (r : Rec) (hn : KeysNodup st.ops) (h : buildStep st r = .ok st1) :
    KeysNodup st1.ops := by
  cases r with
  | sep => simp [buildStep] at h; subst h; exact hn
  | op sym ty al =>
    cases ty <;> simp only [buildStep] at h <;> split at h <;>
      first | (simp at h; done) | (injection h with h; subst h; first | exact hn | exact storeRec_nodup _ _ _ _ _ _ hn)

theorem buildFrom_nodup : ∀ (ops : OpList) (st st' : BuildSt), KeysNodup st.ops → buildFrom st ops = .ok st' →
    KeysNodup st'.ops
  | [], st, st', hn, h => by simp [buildFrom] at h; subst h; exact hn
  | r :: rs, st, st', hn, h => by
    simp only [buildFrom] at h
    split at h
    · rename_i st1 hs
      exact buildFrom_nodup rs st1 st' (buildStep_nodup st st1 r hn hs) h
    · simp at h

theorem build_keysNodup (ops : OpList) (tab : Table) (h : buildOperatorTable ops = .ok tab) : KeysNodup tab.ops := by
  simp only [buildOperatorTable] at h
  split at h
  · rename_i st hs
    injection h with h; subst h
    exact buildFrom_nodup ops {} st (by simp [KeysNodup]) hs
  · simp at h

/-- what one record does to the table -/
theorem buildStep_spec (st st1 : BuildSt) (r : Rec)
    (hb : Bounded st.ops st.precedence) (h : buildStep st r = .ok st1) :
    (st1.precedence = st.precedence + (if r.isSep then 1 else 0)) ∧
    Bounded st1.ops st1.precedence ∧
    (∀ g, g ≠ 0 → HasLevel st.ops g → HasLevel st1.ops g) ∧
    (realOp r = true → HasLevel st1.ops st.precedence) := by
  cases r with
  | sep =>
    simp [buildStep] at h; subst h
    refine ⟨by simp [Rec.isSep, Rec.isOp], ?_, fun _ _ h => h, by simp [realOp]⟩
    intro sym o ho
    have := hb sym o ho
    exact ⟨by simp; omega, by simp; omega⟩
  | op sym ty al =>
    have hcur : ∀ (cur : OpRec), cur = (st.ops.get? sym).getD ⟨0, 0, [], none⟩ →
        cur.up.natAbs ≤ st.precedence ∧ cur.bp.natAbs ≤ st.precedence := by
      intro cur hc
      cases hg : st.ops.get? sym with
      | none => rw [hg] at hc; subst hc; simp
      | some o => rw [hg] at hc; have hco : cur = o := hc; rw [hco]; exact hb sym o hg
    -- generic treatment of the four operator kinds
    have key : ∀ (up bp : Int) (nm : Str),
        (up.natAbs ≤ st.precedence ∧ bp.natAbs ≤ st.precedence) →
        (up.natAbs = st.precedence ∨ bp.natAbs = st.precedence) →
        (∀ o, st.ops.get? sym = some o → (o.up ≠ 0 → up = o.up) ∧ (o.bp ≠ 0 → bp = o.bp)) →
        st1 = storeRec st sym up bp nm al →
        (st1.precedence = st.precedence + (if (Rec.op sym ty al).isSep then 1 else 0)) ∧
        Bounded st1.ops st1.precedence ∧
        (∀ g, g ≠ 0 → HasLevel st.ops g → HasLevel st1.ops g) ∧
        (realOp (.op sym ty al) = true → HasLevel st1.ops st.precedence) := by
      intro up bp nm hbd hlev hkeep hst
      obtain ⟨nm', g1, g2, g3, _⟩ := storeRec_get st sym up bp nm al
      subst hst
      refine ⟨by simp [g3, Rec.isSep, Rec.isOp], ?_, ?_, fun _ => ⟨sym, _, g1, hlev⟩⟩
      · intro s2 o ho
        rw [g3]
        by_cases hs : s2 = sym
        · subst hs; rw [g1] at ho; injection ho with ho; subst ho; exact hbd
        · rw [g2 s2 hs] at ho; exact hb s2 o ho
      · intro g hg ⟨s2, o, ho, hl⟩
        by_cases hs : s2 = sym
        · subst hs
          obtain ⟨k1, k2⟩ := hkeep o ho
          refine ⟨s2, _, g1, ?_⟩
          rcases hl with hl | hl
          · left
            have : o.up ≠ 0 := by intro h0; rw [h0] at hl; simp at hl; exact hg hl.symm
            rw [k1 this]; exact hl
          · right
            have : o.bp ≠ 0 := by intro h0; rw [h0] at hl; simp at hl; exact hg hl.symm
            rw [k2 this]; exact hl
        · exact ⟨s2, o, by rw [g2 s2 hs]; exact ho, hl⟩
    have hcur' := hcur _ rfl
    have hkeepcur : ∀ o, st.ops.get? sym = some o → (st.ops.get? sym).getD ⟨0, 0, [], none⟩ = o := by
      intro o ho; rw [ho]; rfl
    cases ty with
    | nameValue =>
      simp only [buildStep] at h
      split at h
      · simp at h
      · injection h with h; subst h
        exact ⟨by simp [Rec.isSep, Rec.isOp], hb, fun _ _ h => h, by simp [realOp]⟩
    | prefixUnary =>
      simp only [buildStep] at h
      split at h
      · simp at h
      · rename_i hz
        injection h with h
        have hz : ((st.ops.get? sym).getD ⟨0, 0, [], none⟩).up = 0 := by simpa using hz
        refine key _ _ _ ⟨by simp, hcur'.2⟩ (.inl (by simp)) ?_ h.symm
        intro o ho
        rw [hkeepcur o ho] at hz ⊢
        exact ⟨fun h0 => absurd hz h0, fun _ => rfl⟩
    | suffixUnary =>
      simp only [buildStep] at h
      split at h
      · simp at h
      · rename_i hz
        injection h with h
        have hz : ((st.ops.get? sym).getD ⟨0, 0, [], none⟩).up = 0 := by simpa using hz
        refine key _ _ _ ⟨by simp, hcur'.2⟩ (.inl (by simp)) ?_ h.symm
        intro o ho
        rw [hkeepcur o ho] at hz ⊢
        exact ⟨fun h0 => absurd hz h0, fun _ => rfl⟩
    | binaryLeft =>
      simp only [buildStep] at h
      split at h
      · simp at h
      · rename_i hz
        injection h with h
        have hz : ((st.ops.get? sym).getD ⟨0, 0, [], none⟩).bp = 0 := by simpa using hz
        refine key _ _ _ ⟨hcur'.1, by simp⟩ (.inr (by simp)) ?_ h.symm
        intro o ho
        rw [hkeepcur o ho] at hz ⊢
        exact ⟨fun _ => rfl, fun h0 => absurd hz h0⟩
    | binaryRight =>
      simp only [buildStep] at h
      split at h
      · simp at h
      · rename_i hz
        injection h with h
        have hz : ((st.ops.get? sym).getD ⟨0, 0, [], none⟩).bp = 0 := by simpa using hz
        refine key _ _ _ ⟨hcur'.1, by simp⟩ (.inr (by simp)) ?_ h.symm
        intro o ho
        rw [hkeepcur o ho] at hz ⊢
        exact ⟨fun _ => rfl, fun h0 => absurd hz h0⟩


def groupHasReal (g : List Rec) : Prop := ∃ r ∈ g, realOp r = true

/-- every group of the list holds at least one operator that is not the name/value pseudo-operator -/
def Populated (ops : OpList) : Prop := ∀ g ∈ splitGroups ops, groupHasReal g

theorem buildFrom_spec : ∀ (ops : OpList) (st st' : BuildSt), 1 ≤ st.precedence →
    Bounded st.ops st.precedence → buildFrom st ops = .ok st' →
    st'.precedence = st.precedence + countSeps ops ∧ Bounded st'.ops st'.precedence ∧
    (∀ g, g ≠ 0 → HasLevel st.ops g → HasLevel st'.ops g) ∧
    (∀ j (hj : j < (splitGroups ops).length), groupHasReal ((splitGroups ops)[j]) →
      HasLevel st'.ops (st.precedence + j))
  | [], st, st', hp, hb, h => by
    simp [buildFrom] at h; subst h
    refine ⟨by simp [countSeps], hb, fun _ _ h => h, ?_⟩
    intro j hj hr
    simp [splitGroups] at hj; subst hj
    obtain ⟨r, hr, _⟩ := hr
    simp [splitGroups] at hr
  | r :: rs, st, st', hp, hb, h => by
    simp only [buildFrom] at h
    split at h
    · rename_i st1 hs
      obtain ⟨a1, a2, a3, a4⟩ := buildStep_spec st st1 r hb hs
      have hp1 : 1 ≤ st1.precedence := by rw [a1]; omega
      obtain ⟨b1, b2, b3, b4⟩ := buildFrom_spec rs st1 st' hp1 a2 h
      cases r with
      | sep =>
        simp only [Rec.isSep, Rec.isOp, Bool.not_false, ↓reduceIte] at a1
        refine ⟨by rw [b1, a1]; simp [countSeps]; omega, b2, fun g hg hl => b3 g hg (a3 g hg hl), ?_⟩
        intro j hj hr
        cases j with
        | zero => obtain ⟨r, hr, _⟩ := hr; simp [splitGroups] at hr
        | succ j' =>
          simp only [splitGroups, List.getElem_cons_succ] at hr
          have := b4 j' (by simpa [splitGroups] using hj) hr
          rw [a1] at this
          have e : st.precedence + (j' + 1) = st.precedence + 1 + j' := by omega
          rw [e]; exact this
      | op s t al =>
        simp only [Rec.isSep, Rec.isOp, Bool.not_true, Bool.false_eq_true, ↓reduceIte, Nat.add_zero] at a1
        obtain ⟨g, gs, h1, h2⟩ := splitGroups_op s t al rs
        refine ⟨by rw [b1, a1]; simp [countSeps], b2, fun g hg hl => b3 g hg (a3 g hg hl), ?_⟩
        intro j hj hr
        have hgs : ∀ (j' : Nat) (hj' : j' < (splitGroups rs).length), groupHasReal ((splitGroups rs)[j']) →
            HasLevel st'.ops (st.precedence + j') := by
          intro j' hj' hr'; have := b4 j' hj' hr'; rwa [a1] at this
        cases j with
        | zero =>
          simp only [h2, List.getElem_cons_zero] at hr
          obtain ⟨r, hrm, hreal⟩ := hr
          rcases List.mem_cons.mp hrm with rfl | hrm
          · exact b3 _ (by omega) (a4 hreal)
          · have : groupHasReal ((splitGroups rs)[0]'(by rw [h1]; simp)) := by
              simp only [h1, List.getElem_cons_zero]; exact ⟨r, hrm, hreal⟩
            exact hgs 0 _ this
        | succ j' =>
          simp only [h2, List.getElem_cons_succ] at hr
          have hj'' : j' + 1 < (splitGroups rs).length := by
            rw [h2] at hj; rw [h1]; simpa using hj
          have : groupHasReal ((splitGroups rs)[j' + 1]) := by
            simp only [h1, List.getElem_cons_succ]; exact hr
          exact hgs (j' + 1) hj'' this
    · simp at h

/-- **every group number owns an operator of the built table, and no operator lies beyond the last group** -/
theorem build_levels (ops : OpList) (tab : Table) (hpop : Populated ops) (h : buildOperatorTable ops = .ok tab) :
    (∀ g, 1 ≤ g → g ≤ (splitGroups ops).length → HasLevel tab.ops g) ∧
    Bounded tab.ops (splitGroups ops).length := by
  simp only [buildOperatorTable] at h
  split at h
  · rename_i st hs
    injection h with h; subst h
    obtain ⟨b1, b2, _, b4⟩ := buildFrom_spec ops {} st (by simp) (by intro s o h; simp [Dict.get?] at h) hs
    refine ⟨?_, ?_⟩
    · intro g hg1 hg2
      have hj : g - 1 < (splitGroups ops).length := by omega
      have := b4 (g - 1) hj (hpop _ (List.getElem_mem hj))
      have e : ({} : BuildSt).precedence + (g - 1) = g := by simp; omega
      rwa [e] at this
    · rw [length_splitGroups, ← show st.precedence = countSeps ops + 1 by rw [b1]; simp; omega]
      exact b2
  · simp at h


/-! ### `precedence_dict` -/

def HasKey (d : PDict) (k : PKey) : Prop := ∃ names, (k, names) ∈ d

theorem hasKey_extend : ∀ (d : PDict) (k : PKey) (ns : List Str) (k2 : PKey),
    HasKey (d.extend k ns) k2 ↔ HasKey d k2 ∨ k2 = k
  | [], k, ns, k2 => by
    simp only [PDict.extend, HasKey]
    constructor
    · rintro ⟨n, hn⟩; simp at hn; exact .inr hn.1
    · rintro (⟨n, hn⟩ | h)
      · simp at hn
      · exact ⟨ns, by simp [h]⟩
  | (k', v) :: rest, k, ns, k2 => by
    have ih := hasKey_extend rest k ns k2
    simp only [PDict.extend]
    by_cases hk : k' = k
    · subst hk
      simp only [BEq.rfl, ↓reduceIte, HasKey]
      constructor
      · rintro ⟨n, hn⟩
        rcases List.mem_cons.mp hn with h | h
        · injection h with h1 _; exact .inr h1
        · exact .inl ⟨n, List.mem_cons_of_mem _ h⟩
      · rintro (⟨n, hn⟩ | h)
        · rcases List.mem_cons.mp hn with h | h
          · injection h with h1 _; exact ⟨_, by rw [h1]; exact List.mem_cons_self ..⟩
          · exact ⟨n, List.mem_cons_of_mem _ h⟩
        · exact ⟨_, by rw [h]; exact List.mem_cons_self ..⟩
    · have hbeq : (k' == k) = false := by simpa using hk
      simp only [hbeq, Bool.false_eq_true, ↓reduceIte, HasKey] at ih ⊢
      constructor
      · rintro ⟨n, hn⟩
        rcases List.mem_cons.mp hn with h | h
        · exact .inl ⟨n, by rw [h]; exact List.mem_cons_self ..⟩
        · rcases ih.mp ⟨n, h⟩ with ⟨m, hm⟩ | h
          · exact .inl ⟨m, List.mem_cons_of_mem _ hm⟩
          · exact .inr h
      · rintro (⟨n, hn⟩ | h)
        · rcases List.mem_cons.mp hn with h | h
          · exact ⟨n, by rw [h]; exact List.mem_cons_self ..⟩
          · obtain ⟨m, hm⟩ := ih.mpr (.inl ⟨n, h⟩)
            exact ⟨m, List.mem_cons_of_mem _ hm⟩
        · obtain ⟨m, hm⟩ := ih.mpr (.inr h)
          exact ⟨m, List.mem_cons_of_mem _ hm⟩

/-- keys contributed by one table record -/
def keysOf (o : OpRec) (k : PKey) : Prop := (o.up ≠ 0 ∧ k = unaryKey o) ∨ (o.bp ≠ 0 ∧ k = binaryKey o)

theorem funcsStep_pdict (f : Funcs) (o : OpRec) : (funcsStep f o).pdict = pdictStep f.pdict o := rfl

theorem hasKey_funcsStep (f : Funcs) (o : OpRec) (k : PKey) :
    HasKey (funcsStep f o).pdict k ↔ HasKey f.pdict k ∨ keysOf o k := by
  rw [funcsStep_pdict]
  unfold pdictStep keysOf
  by_cases hu : o.up ≠ 0 <;> by_cases hb : o.bp ≠ 0 <;> simp [hu, hb, hasKey_extend, or_assoc]

theorem hasKey_foldl : ∀ (l : List OpRec) (f : Funcs) (k : PKey),
    HasKey (l.foldl funcsStep f).pdict k ↔ HasKey f.pdict k ∨ ∃ o ∈ l, keysOf o k
  | [], f, k => by simp
  | o :: l, f, k => by
    simp only [List.foldl_cons, hasKey_foldl l (funcsStep f o) k, hasKey_funcsStep]
    constructor
    · rintro ((h | h) | ⟨o', ho', h⟩)
      · exact .inl h
      · exact .inr ⟨o, List.mem_cons_self .., h⟩
      · exact .inr ⟨o', List.mem_cons_of_mem _ ho', h⟩
    · rintro (h | ⟨o', ho', h⟩)
      · exact .inl (.inl h)
      · rcases List.mem_cons.mp ho' with rfl | ho'
        · exact .inl (.inr h)
        · exact .inr ⟨o', ho', h⟩

theorem hasKey_funcsOf (t : Table) (k : PKey) :
    HasKey (funcsOf t).pdict k ↔ ∃ sym o, (sym, o) ∈ t.ops ∧ keysOf o k := by
  simp only [funcsOf, hasKey_foldl]
  constructor
  · rintro (⟨n, hn⟩ | ⟨o, ho, h⟩)
    · simp at hn
    · obtain ⟨⟨sym, o'⟩, hm, rfl⟩ := List.mem_map.mp ho
      exact ⟨sym, o', hm, h⟩
  · rintro ⟨sym, o, hm, h⟩
    exact .inr ⟨o, List.mem_map.mpr ⟨(sym, o), hm, rfl⟩, h⟩

/-- a list of numbers that contains every one of `1..n` has at least `n` entries -/
theorem length_ge_of_covers : ∀ (n : Nat) (l : List Nat), (∀ g, 1 ≤ g → g ≤ n → g ∈ l) → n ≤ l.length
  | 0, _, _ => Nat.zero_le _
  | n + 1, l, h => by
    have hm : n + 1 ∈ l := h (n + 1) (by omega) (Nat.le_refl _)
    have := length_ge_of_covers n (l.erase (n + 1)) (fun g h1 h2 =>
      (List.mem_erase_of_ne (by omega)).mpr (h g h1 (by omega)))
    rw [List.length_erase_of_mem hm] at this
    have : 0 < l.length := List.length_pos_of_mem hm
    omega

/-- **C02.levels_contiguous.**  For an operator list whose every group holds a real operator, and
the table `_build_operator_table` makes of it: every group number `1..max` owns a key of the
precedence dictionary, and every key's level lies in `1..len(dict)` - the hypothesis under which
`for i in range(1, len(precedence_dict) + 1)` visits every key. -/
theorem levels_contiguous (ops : OpList) (tab : Table) (hpop : Populated ops)
    (h : buildOperatorTable ops = .ok tab) :
    (∀ g, 1 ≤ g → g ≤ (splitGroups ops).length → ∃ side, HasKey (funcsOf tab).pdict (g, side)) ∧
    (∀ k, HasKey (funcsOf tab).pdict k → 1 ≤ k.1 ∧ k.1 ≤ (funcsOf tab).pdict.length) := by
  obtain ⟨hl, hb⟩ := build_levels ops tab hpop h
  have hcover : ∀ g, 1 ≤ g → g ≤ (splitGroups ops).length → ∃ side, HasKey (funcsOf tab).pdict (g, side) := by
    intro g h1 h2
    obtain ⟨sym, o, ho, hlev⟩ := hl g h1 h2
    have hm := mem_of_get? _ _ _ ho
    rcases hlev with hlev | hlev
    · refine ⟨decide (o.up > 0), (hasKey_funcsOf tab _).mpr ⟨sym, o, hm, .inl ⟨?_, ?_⟩⟩⟩
      · intro h0; rw [h0] at hlev; simp at hlev; omega
      · simp [unaryKey, hlev]
    · refine ⟨decide (o.bp > 0), (hasKey_funcsOf tab _).mpr ⟨sym, o, hm, .inr ⟨?_, ?_⟩⟩⟩
      · intro h0; rw [h0] at hlev; simp at hlev; omega
      · simp [binaryKey, hlev]
  refine ⟨hcover, ?_⟩
  have hlen : (splitGroups ops).length ≤ (funcsOf tab).pdict.length := by
    have := length_ge_of_covers (splitGroups ops).length ((funcsOf tab).pdict.map (·.1.1)) (by
      intro g h1 h2
      obtain ⟨side, names, hm⟩ := hcover g h1 h2
      exact List.mem_map.mpr ⟨((g, side), names), hm, rfl⟩)
    simpa using this
  intro k hk
  obtain ⟨sym, o, hm, hko⟩ := (hasKey_funcsOf tab k).mp hk
  -- the record is in the table, so its levels are bounded by the number of groups
  have hget := get?_of_mem _ (build_keysNodup ops tab h) _ _ hm
  obtain ⟨b1, b2⟩ := hb sym o hget
  rcases hko with ⟨h0, rfl⟩ | ⟨h0, rfl⟩
  · simp only [unaryKey]
    exact ⟨by omega, by omega⟩
  · simp only [binaryKey]
    exact ⟨by omega, by omega⟩


/-! ### `Populated` is kept by `insert_operator` -/

theorem mem_modify {α} (f : α → α) : ∀ (l : List α) (i : Nat) (x : α), x ∈ l.modify i f → x ∈ l ∨ ∃ y ∈ l, x = f y
  | [], i, x, h => by simp at h
  | a :: l, 0, x, h => by
    simp at h
    rcases h with rfl | h
    · exact .inr ⟨a, by simp, rfl⟩
    · exact .inl (List.mem_cons_of_mem _ h)
  | a :: l, i + 1, x, h => by
    simp at h
    rcases h with rfl | h
    · exact .inl (List.mem_cons_self ..)
    · rcases mem_modify f l i x h with h | ⟨y, hy, rfl⟩
      · exact .inl (List.mem_cons_of_mem _ h)
      · exact .inr ⟨y, List.mem_cons_of_mem _ hy, rfl⟩

theorem mem_insertIdx' {α} (a : α) : ∀ (l : List α) (i : Nat) (x : α), x ∈ l.insertIdx i a → x = a ∨ x ∈ l
  | l, 0, x, h => by simpa using h
  | [], i + 1, x, h => by simp at h
  | b :: l, i + 1, x, h => by
    simp at h
    rcases h with rfl | h
    · exact .inr (List.mem_cons_self ..)
    · rcases mem_insertIdx' a l i x h with h | h
      · exact .inl h
      · exact .inr (List.mem_cons_of_mem _ h)

theorem populated_tidy {ops : OpList} (h : Populated ops) : Tidy ops := by
  intro g hg he
  obtain ⟨r, hr, _⟩ := h g hg
  rw [he] at hr; simp at hr

/-- **reachability**: `insert_operator` (of anything but a new group made of the name/value
pseudo-operator alone) keeps every group populated, so `levels_contiguous` holds for every table
reachable from the standard ones by inserts -/
theorem populated_insert (ops : OpList) (hp : Populated ops) (ex : Option Str) (bin : Bool) (sym : Str)
    (ty : OpType) (cg : Bool) (al : Option Str) (r : OpList) (hty : cg = true → ty ≠ .nameValue)
    (h : insertOperator ops ex bin sym ty cg al = .ok r) : Populated r := by
  have hreal : cg = true → realOp (.op sym ty al) = true := by
    intro hc; have := hty hc; cases ty <;> simp_all [realOp]
  cases ex with
  | none =>
    obtain ⟨h1, h2⟩ := insert_front ops bin sym ty al
    cases cg with
    | false =>
      rw [h1] at h; injection h with h; subst h
      obtain ⟨g, gs, e1, e2⟩ := splitGroups_op sym ty al ops
      intro g' hg'
      rw [e2] at hg'
      rcases List.mem_cons.mp hg' with rfl | hg'
      · obtain ⟨x, hx, hxr⟩ := hp g (by rw [e1]; simp)
        exact ⟨x, List.mem_cons_of_mem _ hx, hxr⟩
      · exact hp g' (by rw [e1]; exact List.mem_cons_of_mem _ hg')
    | true =>
      obtain ⟨r', hr', hs⟩ := h2 (populated_tidy hp)
      rw [hr'] at h; injection h with h; subst h
      intro g' hg'
      rw [hs] at hg'
      rcases List.mem_cons.mp hg' with rfl | hg'
      · exact ⟨_, by simp, hreal rfl⟩
      · exact hp g' hg'
  | some e =>
    cases hf : findExisting e bin ops 0 with
    | none => simp [insertOperator, hf] at h
    | some i =>
      cases cg with
      | false =>
        have hs := insert_same_group ops e bin sym ty al i r hf h
        intro g' hg'
        rw [hs] at hg'
        rcases mem_modify _ _ _ _ hg' with hm | ⟨y, hy, rfl⟩
        · exact hp g' hm
        · obtain ⟨x, hx, hxr⟩ := hp y hy
          exact ⟨x, List.mem_append_left _ hx, hxr⟩
      | true =>
        have hs := insert_new_group ops (populated_tidy hp) e bin sym ty al i r hf h
        intro g' hg'
        rw [hs] at hg'
        rcases mem_insertIdx' _ _ _ _ hg' with rfl | hm
        · exact ⟨_, by simp, hreal rfl⟩
        · exact hp g' hm

/-- the operator lists reachable from `base` by successful `insert_operator` calls that do not put the
name/value pseudo-operator into a group of its own -/
inductive Reachable (base : OpList) : OpList → Prop
  | base : Reachable base base
  | insert {ops r : OpList} (ex : Option Str) (bin : Bool) (sym : Str) (ty : OpType) (cg : Bool) (al : Option Str) :
      Reachable base ops → (cg = true → ty ≠ .nameValue) →
      insertOperator ops ex bin sym ty cg al = .ok r → Reachable base r

theorem reachable_populated {base ops : OpList} (hb : Populated base) (h : Reachable base ops) : Populated ops := by
  induction h with
  | base => exact hb
  | insert ex bin sym ty cg al _ hty hi ih => exact populated_insert _ ih ex bin sym ty cg al _ hty hi

instance (g : List Rec) : Decidable (groupHasReal g) := by unfold groupHasReal; exact inferInstance
instance (ops : OpList) : Decidable (Populated ops) := by unfold Populated; exact inferInstance

/-- the standard operator lists (default factory with `=>`, no keyword operator, legacy) are populated -/
theorem standard_populated :
    Populated (factoryOperators (some ['=', '>'])) ∧ Populated (factoryOperators none) ∧
    (∀ l, legacyOperators = .ok l → Populated l) := by
  refine ⟨by decide, by decide, ?_⟩
  intro l h
  exact populated_insert _ (by decide) _ _ _ _ _ _ _ (by simp) h

end Yaql.Props.C02Levels
