import Yaql.Model.SharedObjs
import Yaql.Props.C18
/-!
C18 for yaql's stateful objects: the machine `SharedObjs.machine` (FrozenDict hash cache, the
`yaql.eval` module caches, function dispatch, and the three lazy objects OrderingIterable /
GroupAggregator / memorize) as an instance of the generic theorems of `Props/C18.lean`.
-/
namespace Yaql.Props.C18
open Yaql.Sched Yaql.SharedObjs

/-! ## invariants, denotation, measure -/

/-- the shared component is the initial base plus a table all of whose entries are THE value of
    their key -/
def SInv (b0 : Base) (s : Shared) : Prop := s.1 = b0 ∧ Memo.Sound (entry b0) s.2

/-- the locals of an operation in progress are consistent with what the operation computes
    (`hashing`: the accumulator xor the hashes still to come is the dict's hash) and name only
    objects of the evaluation itself -/
def pendOK (b0 : Base) : Option Pend → Prop
  | none => True
  | some (.hashing d acc rest) => (b0.pairs[d]?).isSome ∧ xorFold acc rest = entry b0 (.hash d)
  | some (.pulling r _) => r.isOwn = true
  | some (.evalMkCtx t e) => e = entry b0 (.expr t)
  | some (.evalMkEngine _) => True
  | some (.evalParse _) => True
  | some (.calling _ _) => True
  | some (.hashingShared _ _ _) => False
  | some (.callingParked _) => False

/-- **the condition under which the lazy objects are private**: every operation of the program
    dereferences only objects the evaluation created itself (`Ref.own`), i.e. no OrderingIterable,
    GroupAggregator or memorized iterator is reached through the shared context -/
def PInv (b0 : Base) (p : PState) : Prop :=
  (∀ op ∈ p.prog, op.ownOnly = true) ∧ pendOK b0 p.pend

def opCost (b0 : Base) : Op → Nat
  | .hash d => ((b0.pairs[d]?).getD []).length + 2
  | .evalCached _ => 4
  | .call _ _ => 2
  | .memoNext _ _ => 2
  | _ => 1

def progCost (b0 : Base) : List Op → Nat
  | [] => 0
  | op :: rest => opCost b0 op + progCost b0 rest

def pendCost : Option Pend → Nat
  | none => 0
  | some (.hashing _ _ rest) => rest.length + 1
  | some (.evalMkEngine _) => 3
  | some (.evalParse _) => 2
  | some _ => 1

def μ (b0 : Base) (p : PState) : Nat := progCost b0 p.prog + pendCost p.pend + 1

theorem cacheGet_sound (b0 : Base) (c : Cache) (k : CKey) (v : Int)
    (hc : Memo.Sound (entry b0) c) (h : cacheGet c k = some v) : v = entry b0 k := by
  induction c with
  | nil => simp [cacheGet] at h
  | cons kv rest ih =>
      obtain ⟨k', v'⟩ := kv
      simp only [cacheGet] at h
      by_cases hk : k' = k
      · simp only [hk, if_true, Option.some.injEq] at h
        have := hc (k', v') (by simp)
        simp only at this
        rw [← h, this, hk]
      · simp only [hk, if_false] at h
        exact ih (fun kv hkv => hc kv (by simp [hkv])) h

theorem cacheGet_publish (s : Shared) (k : CKey) (v : Int) :
    cacheGet (publish s k v).2 k = some v := by
  simp [publish, cacheGet]

/-- what one step must establish -/
structure Good (b0 : Base) (s : Shared) (p : PState) (s' : Shared) (p' : PState) : Prop where
  base : s'.1 = b0
  cache : s'.2 = s.2 ∨ ∃ k, s'.2 = (k, entry b0 k) :: s.2
  pinv : PInv b0 p'
  den : den b0 p' = den b0 p
  mu : μ b0 p' < μ b0 p

/-! ### `yaql.eval` -/

/-- the states `yaql.eval(text)` can be in after a step that started at or after its beginning:
    finished with the value of the text, or waiting at one of its three miss paths -/
def EvalOutcome (b0 : Base) (n : Nat) (p0 : PState) (t : Nat) (p' : PState) : Prop :=
  p' = emit p0 (.evald (entry b0 (.expr t)) (entry b0 .defctx)) ∨
  ∃ pd, p' = { p0 with pend := some pd } ∧ pendCost (some pd) < n ∧
    (pd = .evalMkEngine t ∨ pd = .evalParse t ∨ pd = .evalMkCtx t (entry b0 (.expr t)))

theorem evalFinish_spec (b0 : Base) (s : Shared) (p0 : PState) (t : Nat) (c : Int)
    (hs : SInv b0 s) (hc : cacheGet s.2 .defctx = some c) :
    evalFinish s p0 (entry b0 (.expr t)) = (s, emit p0 (.evald (entry b0 (.expr t)) (entry b0 .defctx))) := by
  have := cacheGet_sound b0 s.2 .defctx c hs.2 hc
  subst this
  simp [evalFinish, hc]

theorem evalCtx_spec (b0 : Base) (s : Shared) (p0 : PState) (t : Nat) (hs : SInv b0 s) :
    (evalCtx s p0 t (entry b0 (.expr t))).1 = s ∧
    EvalOutcome b0 2 p0 t (evalCtx s p0 t (entry b0 (.expr t))).2 := by
  unfold evalCtx
  cases hc : cacheGet s.2 .defctx with
  | none => exact ⟨rfl, Or.inr ⟨_, rfl, by simp [pendCost], Or.inr (Or.inr rfl)⟩⟩
  | some c =>
      simp only
      rw [evalFinish_spec b0 s p0 t c hs hc]
      exact ⟨rfl, Or.inl rfl⟩

theorem EvalOutcome.mono {b0 : Base} {n n' : Nat} {p0 : PState} {t : Nat} {p' : PState}
    (h : EvalOutcome b0 n p0 t p') (hn : n ≤ n') : EvalOutcome b0 n' p0 t p' := by
  rcases h with h | ⟨pd, h1, h2, h3⟩
  · exact Or.inl h
  · exact Or.inr ⟨pd, h1, by omega, h3⟩

theorem evalLookup_spec (b0 : Base) (s : Shared) (p0 : PState) (t : Nat) (hs : SInv b0 s) :
    (evalLookup s p0 t).1 = s ∧ EvalOutcome b0 3 p0 t (evalLookup s p0 t).2 := by
  unfold evalLookup
  cases hc : cacheGet s.2 (.expr t) with
  | none => exact ⟨rfl, Or.inr ⟨_, rfl, by simp [pendCost], Or.inr (Or.inl rfl)⟩⟩
  | some e =>
      have := cacheGet_sound b0 s.2 _ e hs.2 hc
      subst this
      simp only
      have := evalCtx_spec b0 s p0 t hs
      exact ⟨this.1, this.2.mono (by omega)⟩

theorem evalStart_spec (b0 : Base) (s : Shared) (p0 : PState) (t : Nat) (hs : SInv b0 s) :
    (evalStart s p0 t).1 = s ∧ EvalOutcome b0 4 p0 t (evalStart s p0 t).2 := by
  unfold evalStart
  cases hc : cacheGet s.2 .engine with
  | none => exact ⟨rfl, Or.inr ⟨_, rfl, by simp [pendCost], Or.inl rfl⟩⟩
  | some e =>
      simp only
      have := evalLookup_spec b0 s p0 t hs
      exact ⟨this.1, this.2.mono (by omega)⟩

theorem SInv_publish (b0 : Base) (s : Shared) (k : CKey) (hs : SInv b0 s) :
    SInv b0 (publish s k (entry b0 k)) := by
  refine ⟨hs.1, ?_⟩
  intro kv hkv
  simp only [publish, List.mem_cons] at hkv
  rcases hkv with h | h
  · rw [h]
  · exact hs.2 kv h

/-- every outcome of `yaql.eval(text)` denotes the value of the text, and is cheaper than `n` -/
theorem EvalOutcome.good {b0 : Base} {n : Nat} {p0 : PState} {t : Nat} {p' : PState}
    (h : EvalOutcome b0 n p0 t p') (hn : 0 < n) (hprog : ∀ op ∈ p0.prog, op.ownOnly = true) :
    PInv b0 p' ∧
    den b0 p' = p0.outs ++ ([.evald (entry b0 (.expr t)) (entry b0 .defctx)] ++
      evalProg b0 p0.ctxId p0.heap p0.prog) ∧
    μ b0 p' < progCost b0 p0.prog + n + 1 := by
  rcases h with h | ⟨pd, h1, h2, h3⟩
  · subst h
    refine ⟨⟨hprog, trivial⟩, ?_, ?_⟩
    · simp [den, emit]
    · simp [μ, emit, pendCost] <;> omega
  · subst h1
    refine ⟨⟨hprog, ?_⟩, ?_, ?_⟩
    · rcases h3 with h | h | h <;> subst h <;> simp [pendOK]
    · rcases h3 with h | h | h <;> subst h <;> simp [den, finishPend]
    · simp only [μ] <;> omega

/-! ### `FrozenDict.__hash__` (the fixed code: accumulate in a local, publish once) -/

theorem emitCached_publish (s : Shared) (p0 : PState) (d : Nat) (v : Int) :
    emitCached (publish s (.hash d) v) p0 d = emit p0 (.val v) := by
  simp [emitCached, cacheGet_publish]

theorem hashStart_good (b0 : Base) (s : Shared) (p0 : PState) (d : Nat) (hs : SInv b0 s)
    (hprog : ∀ op ∈ p0.prog, op.ownOnly = true) :
    (hashStart current s p0 d).1.1 = b0 ∧
    ((hashStart current s p0 d).1.2 = s.2 ∨ ∃ k, (hashStart current s p0 d).1.2 = (k, entry b0 k) :: s.2) ∧
    PInv b0 (hashStart current s p0 d).2 ∧
    den b0 (hashStart current s p0 d).2 = p0.outs ++ ((fullOp b0 p0.ctxId p0.heap (.hash d)).2 ++
      evalProg b0 p0.ctxId (fullOp b0 p0.ctxId p0.heap (.hash d)).1 p0.prog) ∧
    μ b0 (hashStart current s p0 d).2 < progCost b0 p0.prog + opCost b0 (.hash d) + 1 := by
  obtain ⟨hb, hsound⟩ := hs
  unfold hashStart
  rw [hb]
  cases hps : b0.pairs[d]? with
  | none =>
      refine ⟨hb, Or.inl rfl, ⟨hprog, trivial⟩, ?_, ?_⟩
      · simp [den, emit, fullOp, hps]
      · simp [μ, emit, pendCost, opCost] <;> omega
  | some ps =>
      simp only
      cases hc : cacheGet s.2 (.hash d) with
      | some h =>
          have := cacheGet_sound b0 s.2 _ h hsound hc
          subst this
          refine ⟨hb, Or.inl rfl, ⟨hprog, trivial⟩, ?_, ?_⟩
          · simp [den, emit, fullOp, hps]
          · simp [μ, emit, pendCost, opCost] <;> omega
      | none =>
          simp only [current]
          cases ps with
          | nil =>
              simp only [emitCached_publish]
              have he : entry b0 (.hash d) = 0 := by simp [entry, hps, xorFold]
              refine ⟨hb, Or.inr ⟨.hash d, by simp [publish, he]⟩, ⟨hprog, trivial⟩, ?_, ?_⟩
              · simp [den, emit, fullOp, hps, he]
              · simp [μ, emit, pendCost, opCost] <;> omega
          | cons x xs =>
              simp only
              refine ⟨hb, by simp, ⟨hprog, ?_⟩, ?_, ?_⟩
              · simp [pendOK, hps, entry]
              · simp [den, finishPend, fullOp, hps]
              · simp [μ, pendCost, opCost, hps]

theorem hashing_good (b0 : Base) (s : Shared) (p0 : PState) (d : Nat) (acc : Int) (rest : List Int)
    (hs : SInv b0 s) (_hp0 : p0.pend = none) (hprog : ∀ op ∈ p0.prog, op.ownOnly = true)
    (hok : pendOK b0 (some (.hashing d acc rest))) :
    (stepPend s p0 (.hashing d acc rest)).1.1 = b0 ∧
    ((stepPend s p0 (.hashing d acc rest)).1.2 = s.2 ∨
      ∃ k, (stepPend s p0 (.hashing d acc rest)).1.2 = (k, entry b0 k) :: s.2) ∧
    PInv b0 (stepPend s p0 (.hashing d acc rest)).2 ∧
    den b0 (stepPend s p0 (.hashing d acc rest)).2 = p0.outs ++ ([.val (entry b0 (.hash d))] ++
      evalProg b0 p0.ctxId p0.heap p0.prog) ∧
    μ b0 (stepPend s p0 (.hashing d acc rest)).2 < progCost b0 p0.prog + (rest.length + 1) + 1 := by
  obtain ⟨hb, hsound⟩ := hs
  obtain ⟨hsome, hx⟩ := hok
  match rest, hx with
  | [], hx =>
      have he : acc = entry b0 (.hash d) := by simpa [xorFold] using hx
      simp only [stepPend, emitCached_publish]
      refine ⟨hb, Or.inr ⟨.hash d, by simp [publish, he]⟩, ⟨hprog, trivial⟩, ?_, ?_⟩
      · simp [den, emit, he]
      · simp [μ, emit, pendCost]
  | [x], hx =>
      have he : ixor acc x = entry b0 (.hash d) := by simpa [xorFold] using hx
      simp only [stepPend, emitCached_publish]
      refine ⟨hb, Or.inr ⟨.hash d, by simp [publish, he]⟩, ⟨hprog, trivial⟩, ?_, ?_⟩
      · simp [den, emit, he]
      · simp [μ, emit, pendCost]
  | x :: y :: more, hx =>
      simp only [stepPend]
      refine ⟨hb, by simp, ⟨hprog, ?_⟩, ?_, ?_⟩
      · refine ⟨hsome, ?_⟩
        simpa [xorFold] using hx
      · simp [den, finishPend]
      · simp [μ, pendCost]

/-! ### the lazy objects: operations on objects of the evaluation itself touch nothing shared -/

theorem setObj_own (sh own : List Obj) (i : Nat) (o : Obj) (outs : List Out) :
    (setObj sh own (.own i) o outs).sh = sh ∧ (setObj sh own (.own i) o outs).pend = none := by
  simp [setObj]

/-- **an operation on an object the evaluation created itself leaves every object stored in the
    shared context as it is** -/
theorem lazyOp_own (ctxId : Nat) (sh own : List Obj) (op : Op) (hown : op.ownOnly = true) :
    (lazyOp ctxId sh own op).sh = sh ∧
    ((lazyOp ctxId sh own op).pend = none ∨
      ∃ r k, op = .memoNext r k ∧ r.isOwn = true ∧ (lazyOp ctxId sh own op).pend = some (.pulling r k)) := by
  cases op with
  | orderBy coll sel asc => simp [lazyOp]
  | memorize src => simp [lazyOp]
  | aggNew agg fb => simp [lazyOp]
  | hash d => simp [lazyOp]
  | evalCached t => simp [lazyOp]
  | call f x => simp [lazyOp]
  | thenBy r sel asc =>
      cases r with
      | shared i => simp [Op.ownOnly, Ref.isOwn] at hown
      | own i =>
          simp only [lazyOp]
          split <;> simp [setObj]
  | iterate r =>
      cases r with
      | shared i => simp [Op.ownOnly, Ref.isOwn] at hown
      | own i =>
          simp only [lazyOp]
          split
          · split <;> simp [setObj]
          · simp
  | memoIter r =>
      cases r with
      | shared i => simp [Op.ownOnly, Ref.isOwn] at hown
      | own i =>
          simp only [lazyOp]
          split <;> simp [setObj]
  | aggCall r key values =>
      cases r with
      | shared i => simp [Op.ownOnly, Ref.isOwn] at hown
      | own i =>
          simp only [lazyOp]
          split <;> simp [setObj]
  | memoNext r k =>
      cases r with
      | shared i => simp [Op.ownOnly, Ref.isOwn] at hown
      | own i =>
          simp only [lazyOp]
          split
          · split
            · simp
            · split
              · split <;> simp [setObj]
              · exact ⟨rfl, Or.inr ⟨Ref.own i, k, rfl, rfl, rfl⟩⟩
          · simp

theorem pullSeg_own (sh own : List Obj) (i k : Nat) :
    (pullSeg sh own (.own i) k).sh = sh ∧ (pullSeg sh own (.own i) k).pend = none := by
  simp only [pullSeg]
  split
  · split <;> simp [setObj]
  · simp

theorem fullOp_lazy (b0 : Base) (ctxId : Nat) (own : List Obj) (op : Op) (hl : op.isLazy = true) :
    fullOp b0 ctxId own op = finishL b0 (lazyOp ctxId b0.heap own op) := by
  cases op <;> first | rfl | simp [Op.isLazy] at hl

theorem stepOp_lazy (s : Shared) (p0 : PState) (op : Op) (hl : op.isLazy = true) :
    stepOp current s p0 op = applyL s p0 (lazyOp p0.ctxId s.1.heap p0.heap op) := by
  cases op <;> first | rfl | simp [Op.isLazy] at hl

theorem opCost_lazy (b0 : Base) (op : Op) (hl : op.isLazy = true) :
    (∃ r k, op = .memoNext r k) ∨ opCost b0 op = 1 := by
  cases op <;> first | exact Or.inr rfl | exact Or.inl ⟨_, _, rfl⟩ | simp [Op.isLazy] at hl

theorem lazy_good (b0 : Base) (s : Shared) (p0 : PState) (op : Op) (hs : SInv b0 s)
    (hl : op.isLazy = true) (hown : op.ownOnly = true)
    (hprog : ∀ op ∈ p0.prog, op.ownOnly = true) :
    (stepOp current s p0 op).1 = s ∧
    PInv b0 (stepOp current s p0 op).2 ∧
    den b0 (stepOp current s p0 op).2 = p0.outs ++ ((fullOp b0 p0.ctxId p0.heap op).2 ++
      evalProg b0 p0.ctxId (fullOp b0 p0.ctxId p0.heap op).1 p0.prog) ∧
    μ b0 (stepOp current s p0 op).2 < progCost b0 p0.prog + opCost b0 op + 1 := by
  obtain ⟨hb, _⟩ := hs
  rw [stepOp_lazy s p0 op hl, fullOp_lazy b0 _ _ op hl, hb]
  obtain ⟨hsh, hpend⟩ := lazyOp_own p0.ctxId b0.heap p0.heap op hown
  generalize hres : lazyOp p0.ctxId b0.heap p0.heap op = res at hsh hpend
  have hshared : (applyL s p0 res).1 = s := by
    obtain ⟨b, c⟩ := s
    simp only at hb
    subst hb
    simp [applyL, hsh]
  refine ⟨hshared, ?_⟩
  rcases hpend with hnone | ⟨r, k, hop, hr, hpull⟩
  · refine ⟨⟨hprog, by simp [applyL, hnone, pendOK]⟩, ?_, ?_⟩
    · simp [den, applyL, finishL, hnone]
    · have : opCost b0 op ≥ 1 := by
        rcases opCost_lazy b0 op hl with ⟨r, k, h⟩ | h
        · subst h; simp [opCost]
        · omega
      simp only [μ, applyL, hnone, pendCost] <;> omega
  · refine ⟨⟨hprog, by simp [applyL, hpull, pendOK, hr]⟩, ?_, ?_⟩
    · simp [den, applyL, finishL, hpull]
    · subst hop
      simp only [μ, applyL, hpull, pendCost, opCost] <;> omega

/-! ### one step of the machine -/

theorem progCost_cons (b0 : Base) (op : Op) (rest : List Op) :
    progCost b0 (op :: rest) = opCost b0 op + progCost b0 rest := rfl

theorem applyL_fst (s : Shared) (p0 : PState) (res : LRes) (h : res.sh = s.1.heap) :
    (applyL s p0 res).1 = s := by
  obtain ⟨b, c⟩ := s
  simp only [applyL] at h ⊢
  rw [h]

/-- **every step of the current code is good**: it leaves the base alone, publishes at most one
    entry `(k, entry k)`, keeps the private invariant, preserves the thread's denotation and
    decreases the measure -/
theorem step_good (b0 : Base) (s : Shared) (p : PState) (s' : Shared) (p' : PState)
    (hs : SInv b0 s) (hp : PInv b0 p) (hst : SharedObjs.step current s p = .inl (s', p')) :
    Good b0 s p s' p' := by
  obtain ⟨ctxId, heap, prog, pend, outs⟩ := p
  obtain ⟨hprog, hpend⟩ := hp
  simp only at hprog hpend
  have hb : s.1 = b0 := hs.1
  cases pend with
  | some pd =>
      simp only [SharedObjs.step, Sum.inl.injEq] at hst
      cases pd with
      | hashing d acc rest =>
          have h := hashing_good b0 s ⟨ctxId, heap, prog, none, outs⟩ d acc rest hs rfl hprog hpend
          rw [hst] at h
          obtain ⟨h1, h2, h3, h4, h5⟩ := h
          exact ⟨h1, h2, h3, by rw [h4]; simp [den, finishPend], by simp only [μ, pendCost] at h5 ⊢; omega⟩
      | hashingShared d tmp rest => exact absurd hpend (by simp [pendOK])
      | callingParked f => exact absurd hpend (by simp [pendOK])
      | pulling r k =>
          cases r with
          | shared i => simp [pendOK, Ref.isOwn] at hpend
          | own i =>
              obtain ⟨hsh, hnone⟩ := pullSeg_own s.1.heap heap i k
              simp only [stepPend] at hst
              have e1 : s' = s := by
                have := applyL_fst s ⟨ctxId, heap, prog, none, outs⟩ _ hsh
                rw [hst] at this
                exact this
              have e2 : p' = ⟨ctxId, (pullSeg s.1.heap heap (.own i) k).own, prog, none,
                  outs ++ (pullSeg s.1.heap heap (.own i) k).outs⟩ := by
                have : (applyL s ⟨ctxId, heap, prog, none, outs⟩ (pullSeg s.1.heap heap (.own i) k)).2 = p' := by
                  rw [hst]
                rw [← this]
                simp [applyL, hnone]
              subst e1 e2
              refine ⟨hb, Or.inl rfl, ⟨hprog, trivial⟩, ?_, ?_⟩
              · simp [den, finishPend, hb]
              · simp [μ, pendCost]
      | evalMkEngine t =>
          simp only [stepPend] at hst
          rw [hb] at hst
          have hs1 := SInv_publish b0 s .engine hs
          have h := evalLookup_spec b0 _ ⟨ctxId, heap, prog, none, outs⟩ t hs1
          rw [hst] at h
          simp only at h
          obtain ⟨g1, g2, g3⟩ := h.2.good (by omega) hprog
          refine ⟨by rw [h.1]; exact hb, Or.inr ⟨.engine, by rw [h.1]; rfl⟩, g1, ?_, ?_⟩
          · rw [g2]; simp [den, finishPend]
          · simp only [μ, pendCost] at g3 ⊢; omega
      | evalParse t =>
          simp only [stepPend] at hst
          rw [hb] at hst
          have hs1 := SInv_publish b0 s (.expr t) hs
          have h := evalCtx_spec b0 _ ⟨ctxId, heap, prog, none, outs⟩ t hs1
          rw [hst] at h
          simp only at h
          obtain ⟨g1, g2, g3⟩ := h.2.good (by omega) hprog
          refine ⟨by rw [h.1]; exact hb, Or.inr ⟨.expr t, by rw [h.1]; rfl⟩, g1, ?_, ?_⟩
          · rw [g2]; simp [den, finishPend]
          · simp only [μ, pendCost] at g3 ⊢; omega
      | evalMkCtx t e =>
          simp only [pendOK] at hpend
          subst hpend
          simp only [stepPend] at hst
          rw [hb] at hst
          have hs1 := SInv_publish b0 s .defctx hs
          rw [evalFinish_spec b0 _ _ t _ hs1 (cacheGet_publish s .defctx _)] at hst
          simp only [Prod.mk.injEq] at hst
          obtain ⟨e1, e2⟩ := hst
          subst e1 e2
          refine ⟨hb, Or.inr ⟨.defctx, rfl⟩, ⟨hprog, trivial⟩, ?_, ?_⟩
          · simp [den, finishPend, emit]
          · simp [μ, pendCost, emit]
      | calling f x =>
          simp only [stepPend, Prod.mk.injEq] at hst
          obtain ⟨e1, e2⟩ := hst
          subst e1 e2
          refine ⟨hb, Or.inl rfl, ⟨hprog, trivial⟩, ?_, ?_⟩
          · simp [den, finishPend, emit, hb]
          · simp [μ, pendCost, emit]
  | none =>
      cases prog with
      | nil => simp [SharedObjs.step] at hst
      | cons op rest =>
          simp only [SharedObjs.step, Sum.inl.injEq] at hst
          have hrest : ∀ o ∈ rest, o.ownOnly = true := fun o ho => hprog o (by simp [ho])
          have hop : op.ownOnly = true := hprog op (by simp)
          by_cases hl : op.isLazy = true
          · have h := lazy_good b0 s ⟨ctxId, heap, rest, none, outs⟩ op hs hl hop hrest
            rw [hst] at h
            simp only at h
            obtain ⟨h1, h2, h3, h4⟩ := h
            subst h1
            exact ⟨hb, Or.inl rfl, h2, by rw [h3]; simp [den, evalProg],
              by simp only [μ, pendCost, progCost_cons] at h4 ⊢; omega⟩
          · cases op with
            | hash d =>
                have h := hashStart_good b0 s ⟨ctxId, heap, rest, none, outs⟩ d hs hrest
                simp only [stepOp] at hst
                rw [hst] at h
                simp only at h
                obtain ⟨h1, h2, h3, h4, h5⟩ := h
                exact ⟨h1, h2, h3, by rw [h4]; simp [den, evalProg],
                  by simp only [μ, pendCost, progCost_cons] at h5 ⊢; omega⟩
            | evalCached t =>
                simp only [stepOp] at hst
                have h := evalStart_spec b0 s ⟨ctxId, heap, rest, none, outs⟩ t hs
                rw [hst] at h
                simp only at h
                obtain ⟨g1, g2, g3⟩ := h.2.good (by omega) hrest
                refine ⟨by rw [h.1]; exact hb, Or.inl (by rw [h.1]), g1, ?_, ?_⟩
                · rw [g2]; simp [den, evalProg, fullOp]
                · simp only [μ, pendCost, progCost_cons, opCost] at g3 ⊢; omega
            | call f x =>
                simp only [stepOp, current, Prod.mk.injEq] at hst
                obtain ⟨e1, e2⟩ := hst
                subst e1 e2
                refine ⟨hb, Or.inl rfl, ⟨hrest, trivial⟩, ?_, ?_⟩
                · simp [den, finishPend, evalProg, fullOp]
                · simp [μ, pendCost, progCost_cons, opCost] <;> omega
            | _ => simp [Op.isLazy] at hl

theorem step_done (b0 : Base) (s : Shared) (p : PState) (r : List Out)
    (hst : step current s p = .inr r) : r = den b0 p := by
  obtain ⟨ctxId, heap, prog, pend, outs⟩ := p
  cases pend with
  | some pd => simp [SharedObjs.step] at hst
  | none =>
      cases prog with
      | nil =>
          simp only [SharedObjs.step, Sum.inr.injEq] at hst
          simp [den, evalProg, hst]
      | cons op rest => simp [SharedObjs.step] at hst

/-! ## the theorems about yaql's stateful objects -/

/-- the only shared writes of the current code are publications of `(k, entry k)` -/
theorem objs_benign (b0 : Base) : BenignWrites (machine current) (entry b0) b0 (PInv b0) := by
  intro c p s' p' hc hp hst
  have g := step_good b0 (b0, c) p s' p' ⟨rfl, hc⟩ hp hst
  exact ⟨g.base, g.pinv, g.cache⟩

/-- sequentially, a thread's result does not depend on which sound tables it starts from: it is
    `den b0 p`, a function of the private state and the immutable base -/
theorem objs_oblivious (b0 : Base) :
    Oblivious (machine current) (fun s => s.1 = b0 ∧ Memo.Sound (entry b0) s.2) (PInv b0) := by
  apply oblivious_of_denotation (machine current) _ (PInv b0) (den b0) (μ b0)
  · intro s p s' p' hs hp hst
    have g := step_good b0 s p s' p' hs hp hst
    refine ⟨⟨g.base, ?_⟩, g.pinv, g.den, g.mu⟩
    rcases g.cache with h | ⟨k, h⟩
    · rw [h]; exact hs.2
    · rw [h]
      intro kv hkv
      rcases List.mem_cons.mp hkv with e | e
      · rw [e]
      · exact hs.2 kv e
  · intro s p r _ _ hst
    exact step_done b0 s p r hst

/-- **C18 for the stateful objects of yaql (current code).**  Any number of threads, each running
    any program of dispatches, `FrozenDict` hashes, `yaql.eval` calls and operations on lazy objects
    it created itself, over one shared base and any sound initial cache contents, under EVERY
    schedule: the base (frozen documents, definitions, objects stored in the shared context) is
    unchanged, the caches have only grown by entries that are the value of their key, and every
    finished thread returned exactly what it returns alone. -/
theorem objs_isolated (b0 : Base) (c0 : Cache) (hc0 : Memo.Sound (entry b0) c0)
    (threads : List (Thread PState (List Out))) (hinv : ∀ t ∈ threads, TInv (PInv b0) t)
    (sched : List Nat) :
    (run (machine current) ⟨(b0, c0), threads⟩ sched).shared.1 = b0 ∧
    Memo.GrownFrom (entry b0) c0 (run (machine current) ⟨(b0, c0), threads⟩ sched).shared.2 ∧
    ∀ (i : Nat) (r : List Out),
      (run (machine current) ⟨(b0, c0), threads⟩ sched).threads[i]? = some (Thread.done r) →
      ∃ t, threads[i]? = some t ∧ SoloResult (machine current) (b0, c0) t r ∧
        ∀ r', SoloResult (machine current) (b0, c0) t r' → r' = r :=
  isolation_benign_cache (machine current) (entry b0) b0 c0 (PInv b0) hc0 (objs_benign b0)
    (objs_oblivious b0) threads hinv sched

/-- the solo result is the big-step reference `den`: what the driver predicts without a schedule -/
theorem solo_is_den (b0 : Base) (c0 : Cache) (hc0 : Memo.Sound (entry b0) c0) (p : PState)
    (hp : PInv b0 p) : SoloResult (machine current) (b0, c0) (.running p) (den b0 p) := by
  -- termination with the denotation, as in `oblivious_of_denotation`
  have term : ∀ (k : Nat) (s : Shared) (p : PState), μ b0 p < k → SInv b0 s → PInv b0 p →
      ∃ n, (soloIter (machine current) n (s, .running p)).2 = .done (den b0 p) := by
    intro k
    induction k with
    | zero => intro s p h; omega
    | succ k ih =>
        intro s p hk hs hpi
        cases hst : SharedObjs.step current s p with
        | inl sp =>
            obtain ⟨s', p'⟩ := sp
            have g := step_good b0 s p s' p' hs hpi hst
            have hs' : SInv b0 s' := by
              refine ⟨g.base, ?_⟩
              rcases g.cache with h | ⟨k, h⟩
              · rw [h]; exact hs.2
              · rw [h]
                intro kv hkv
                rcases List.mem_cons.mp hkv with e | e
                · rw [e]
                · exact hs.2 kv e
            obtain ⟨n, hn⟩ := ih s' p' (by have := g.mu; omega) hs' g.pinv
            refine ⟨n + 1, ?_⟩
            rw [soloIter_succ]
            have : stepThread (machine current) s (.running p) = (s', .running p') :=
              stepThread_inl (machine current) s s' p p' hst
            simp only [this, hn, g.den]
        | inr q =>
            refine ⟨1, ?_⟩
            rw [soloIter_succ]
            have : stepThread (machine current) s (.running p) = (s, .done q) :=
              stepThread_inr (machine current) s p q hst
            simp only [this, soloIter]
            rw [step_done b0 s p q hst]
  exact term (μ b0 p + 1) (b0, c0) p (by omega) ⟨rfl, hc0⟩ hp

/-- **the results are schedule-independent and explicit**: every finished thread returned `den` of
    its initial private state -/
theorem objs_results (b0 : Base) (c0 : Cache) (hc0 : Memo.Sound (entry b0) c0)
    (ps : List PState) (hinv : ∀ p ∈ ps, PInv b0 p) (sched : List Nat) (i : Nat) (r : List Out)
    (h : (run (machine current) ⟨(b0, c0), ps.map .running⟩ sched).threads[i]? = some (Thread.done r)) :
    ∃ p, ps[i]? = some p ∧ r = den b0 p := by
  have hinv' : ∀ t ∈ ps.map (Thread.running (R := List Out)), TInv (PInv b0) t := by
    intro t ht
    obtain ⟨p, hp, rfl⟩ := List.mem_map.mp ht
    exact hinv p hp
  obtain ⟨_, _, h3⟩ := objs_isolated b0 c0 hc0 _ hinv' sched
  obtain ⟨t, ht, _, huniq⟩ := h3 i r h
  simp only [List.getElem?_map] at ht
  cases hp : ps[i]? with
  | none => simp [hp] at ht
  | some p =>
      simp only [hp, Option.map_some, Option.some.injEq] at ht
      subst ht
      exact ⟨p, rfl, (huniq _ (solo_is_den b0 c0 hc0 p (hinv p (List.mem_of_getElem? hp)))).symm⟩

/-! ### the lazy objects are private to the evaluation that created them -/

/-- programs that only operate on lazy objects (OrderingIterable, GroupAggregator, memorized
    iterators) they created themselves -/
def LazyOwn (p : PState) : Prop :=
  (∀ op ∈ p.prog, op.isLazy = true ∧ op.ownOnly = true) ∧
  (p.pend = none ∨ ∃ i k, p.pend = some (.pulling (.own i) k))

theorem lazy_readOnly : ReadOnly (machine current) LazyOwn := by
  intro s p s' p' hp hst
  obtain ⟨ctxId, heap, prog, pend, outs⟩ := p
  obtain ⟨hprog, hpend⟩ := hp
  simp only at hprog hpend
  simp only [machine] at hst
  rcases hpend with hnone | ⟨i, k, hpull⟩
  · subst hnone
    cases prog with
    | nil => simp [SharedObjs.step] at hst
    | cons op rest =>
        simp only [SharedObjs.step, Sum.inl.injEq] at hst
        obtain ⟨hl, hown⟩ := hprog op (by simp)
        rw [stepOp_lazy _ _ op hl] at hst
        obtain ⟨hsh, hpend⟩ := lazyOp_own ctxId s.1.heap heap op hown
        have e1 := applyL_fst s ⟨ctxId, heap, rest, none, outs⟩ _ hsh
        rw [hst] at e1
        simp only at e1
        refine ⟨e1, ?_⟩
        have e2 : p' = (applyL s ⟨ctxId, heap, rest, none, outs⟩
            (lazyOp ctxId s.1.heap heap op)).2 := by rw [hst]
        rw [e2]
        refine ⟨fun o ho => hprog o (by simp [applyL] at ho; simp [ho]), ?_⟩
        rcases hpend with h | ⟨r, k, _, hr, h⟩
        · exact Or.inl (by simp [applyL, h])
        · cases r with
          | shared j => simp [Ref.isOwn] at hr
          | own j => exact Or.inr ⟨j, k, by simp [applyL, h]⟩
  · subst hpull
    simp only [SharedObjs.step, Sum.inl.injEq, stepPend] at hst
    obtain ⟨hsh, hnone⟩ := pullSeg_own s.1.heap heap i k
    have e1 := applyL_fst s ⟨ctxId, heap, prog, none, outs⟩ _ hsh
    rw [hst] at e1
    simp only at e1
    refine ⟨e1, ?_⟩
    have e2 : p' = (applyL s ⟨ctxId, heap, prog, none, outs⟩
        (pullSeg s.1.heap heap (.own i) k)).2 := by rw [hst]
    rw [e2]
    exact ⟨fun o ho => hprog o (by simpa [applyL] using ho), Or.inl (by simp [applyL, hnone])⟩

/-- **C18.lazy_objects_private.**  An OrderingIterable, GroupAggregator or memorized iterator is
    private to the evaluation that created it: as long as the programs reach such objects only
    through references of their own (`Ref.own` - none was stored in the shared context), then for
    every number of threads and EVERY schedule the shared component - including every object that
    IS stored in the shared context - is untouched, and every thread is exactly where it is after
    the same number of its own steps alone. -/
theorem lazy_objects_private (sys : Sys Shared PState (List Out))
    (hinv : ∀ t ∈ sys.threads, TInv LazyOwn t) (sched : List Nat) :
    (run (machine current) sys sched).shared = sys.shared ∧
    ∀ i, (run (machine current) sys sched).threads[i]? =
      (sys.threads[i]?).map fun t => (soloIter (machine current) (sched.count i) (sys.shared, t)).2 := by
  obtain ⟨h1, _, h3⟩ := isolation_exact (machine current) LazyOwn lazy_readOnly sched sys hinv
  exact ⟨h1, h3⟩

/-! ## negative witnesses: where the state is NOT private, some schedule interferes -/

def soloAll (cfg : Cfg) (s : Shared) (ps : List PState) : List (Option (List Out)) :=
  ps.map fun p => soloResult? (machine cfg) 64 s (.running p)

def runAll (cfg : Cfg) (s : Shared) (ps : List PState) (sched : List Nat) : List (Option (List Out)) :=
  results (run (machine cfg) ⟨s, ps.map .running⟩ sched)

/-- a frozen dict with two pairs (hashes 5 and 9), hashed by two threads -/
def hashBase : Base := { pairs := [[5, 9]] }
def hashThreads : List PState := [{ ctxId := 0, prog := [.hash 0] }, { ctxId := 1, prog := [.hash 0] }]

/-- **partial publication interferes** (the pre-fix `FrozenDict.__hash__`, F11): thread 0 stores the
    partial hash `0` into the shared field, thread 1 takes it for the completed hash.  Alone both
    return `5 ^ 9 = 12`. -/
theorem partial_publication_interferes :
    runAll { hashMode := .accumulateShared } (hashBase, []) hashThreads [0, 1, 1, 0, 0, 0] =
      [some [.val 12], some [.val 0]] ∧
    soloAll { hashMode := .accumulateShared } (hashBase, []) hashThreads =
      [some [.val 12], some [.val 12]] := by decide

/-- the same schedule on the fixed code (publish once, complete) -/
example : runAll current (hashBase, []) hashThreads [0, 1, 1, 0, 0, 0, 1, 1] =
    [some [.val 12], some [.val 12]] := by decide

/-- lost update: with the accumulator in the shared field even the dict's final cached hash is wrong -/
example : (run (machine { hashMode := .accumulateShared }) ⟨(hashBase, []), hashThreads.map .running⟩
      [0, 0, 0, 0]).shared.2.head? = some (.hash 0, 12) := by decide

def callBase : Base := { funcs := [(1, 0)], scratch := [none] }
def callThreads : List PState :=
  [{ ctxId := 0, prog := [.call 0 10] }, { ctxId := 1, prog := [.call 0 20] }]

/-- **parked state interferes**: if the dispatch parks its argument on the shared definition
    (expression node, `FunctionDefinition`, module variable ...) between the dispatch and the
    payload, thread 0 returns thread 1's value.  With the state in locals (the real code) the same
    schedule returns each thread its own. -/
theorem parked_state_interferes :
    runAll { park := .onDefinition } (callBase, []) callThreads [0, 1, 0, 1, 0, 1] =
      [some [.val 20], some [.val 20]] ∧
    soloAll { park := .onDefinition } (callBase, []) callThreads = [some [.val 10], some [.val 20]] ∧
    runAll current (callBase, []) callThreads [0, 1, 0, 1, 0, 1] = [some [.val 10], some [.val 20]] := by
  decide

/-- an OrderingIterable stored in the shared context (`$o`), both threads call `$o.thenBy...` -/
def sharedOrderBase : Base :=
  { heap := [.ordering [(2, 1), (1, 2), (1, 1)] [(.fst, true)] none none] }
def sharedOrderThreads : List PState :=
  [{ ctxId := 0, prog := [.thenBy (.shared 0) .snd true, .iterate (.shared 0)] },
   { ctxId := 1, prog := [.thenBy (.shared 0) .snd false, .iterate (.shared 0)] }]

/-- a memorized iterator stored in the shared context, each thread has its own
    RememberingIterator instance over it -/
def sharedMemoBase : Base := { heap := [.memo [1, 2, 3] 0 [] [0, 0]] }
def sharedMemoThreads : List PState :=
  [{ ctxId := 0, prog := [.memoNext (.shared 0) 0, .memoNext (.shared 0) 0] },
   { ctxId := 1, prog := [.memoNext (.shared 0) 1, .memoNext (.shared 0) 1] }]

/-- **the condition of `lazy_objects_private` is necessary**: a lazy object that IS reachable through
    the shared context is mutated by the evaluations that use it - thread 1 gets rows ordered by
    thread 0's key, resp. the second element of the memorized sequence as its first -/
theorem shared_lazy_object_interferes :
    (runAll current (sharedOrderBase, []) sharedOrderThreads [0, 1, 0, 1, 0, 1] =
      [some [.rows [(1, 1), (1, 2), (2, 1)]], some [.rows [(1, 1), (1, 2), (2, 1)]]] ∧
     soloAll current (sharedOrderBase, []) sharedOrderThreads =
      [some [.rows [(1, 1), (1, 2), (2, 1)]], some [.rows [(1, 2), (1, 1), (2, 1)]]]) ∧
    (runAll current (sharedMemoBase, []) sharedMemoThreads [0, 1, 0, 1, 0, 1, 0, 1, 0, 1] =
      [some [.val 1, .val 2], some [.val 2, .val 2]] ∧
     soloAll current (sharedMemoBase, []) sharedMemoThreads =
      [some [.val 1, .val 2], some [.val 1, .val 2]]) := by decide

/-! ### non-vacuity of `objs_isolated` / `lazy_objects_private` -/

def demoBase : Base := { pairs := [[5, 9], []], funcs := [(2, 1)] }
def demoThreads : List PState :=
  [{ ctxId := 0, prog := [.hash 0, .evalCached 7, .orderBy [(2, 1), (1, 2)] .fst true, .iterate (.own 0)] },
   { ctxId := 1, prog := [.evalCached 7, .hash 0, .call 0 5, .memorize [4, 5], .memoNext (.own 0) 0] },
   { ctxId := 2, prog := [.aggNew .sum true, .aggCall (.own 0) 1 [2, 3], .hash 1] }]

example : ∀ p ∈ demoThreads, PInv demoBase p := by
  intro p hp
  simp only [demoThreads, List.mem_cons, List.not_mem_nil, or_false] at hp
  rcases hp with h | h | h <;> subst h <;> exact ⟨by decide, trivial⟩

example : runAll current (demoBase, []) demoThreads
      (List.replicate 14 [0, 1, 2]).flatten =
    demoThreads.map (fun p => some (den demoBase p)) ∧
    demoThreads.map (den demoBase) =
      [[.val 12, .evald 7 1, .made 0, .rows [(1, 2), (2, 1)]],
       [.evald 7 1, .val 12, .val 11, .made 0, .val 4],
       [.made 0, .group 1 (.scalar 5), .val 0]] := by decide

end Yaql.Props.C18
