import Yaql.Model.Parser
/-!
C03, parser level: the parser model is total on every token list and classifies its outcome.

`Yaql.Syntax.parse` is a structurally recursive function (one `step` per token), so termination is
by construction; what is proved here is the classification of the outcome and where a reported
position comes from:

* `parse_total_classified`: for every engine configuration and token list the result is a tree,
  `Grammar none`, or `Grammar (some p)` with `p` the `pos` of a token of the input;
* `error_at_first_rejected_token`: a reported position is the position of the first token the
  machine cannot take, everything before it was taken, and what follows it is irrelevant;
* `error_none_only_at_end`: `Grammar none` is reported only after every token has been taken.
-/
namespace Yaql.Props.C03Parse
open Yaql.Syntax

theorem stepOperand_err {c : Cfg} {S : List Frame} {t : Token} {e : PErr}
    (h : stepOperand c S t = .error e) : e = .grammar (some t.pos) := by
  unfold stepOperand at h
  repeat' split at h
  all_goals first | (simp [errAt] at h; exact h.symm) | (simp at h)

theorem close_err {S : List Frame} {v : Ast} {t : Token} {e : PErr}
    (h : close S v t = .error e) : e = .grammar (some t.pos) := by
  unfold close at h
  repeat' split at h
  all_goals first | (simp [errAt] at h; exact h.symm) | (simp at h)

theorem stepAfter_err {c : Cfg} {S : List Frame} {v : Ast} {t : Token} {e : PErr}
    (h : stepAfter c S v t = .error e) : e = .grammar (some t.pos) := by
  unfold stepAfter at h
  repeat' split at h
  all_goals first | exact close_err h | (simp at h)

theorem step_err {c : Cfg} {st : St} {t : Token} {e : PErr}
    (h : step c st t = .error e) : e = .grammar (some t.pos) := by
  simp only [step] at h
  split at h
  · exact stepOperand_err h
  · exact stepAfter_err h

theorem finish_err {c : Cfg} {st : St} {e : PErr} (h : finish c st = .error e) : e = .grammar none := by
  simp only [finish] at h
  repeat' split at h
  all_goals first | (simp at h; exact h.symm) | (simp at h)

/-- a failing run fails at a definite token: the prefix before it is accepted, the token is
rejected, and its position is what is reported -/
theorem run_err {c : Cfg} : ∀ (toks : List Token) (st : St) (e : PErr), run c st toks = .error e →
    ∃ pre t post st', toks = pre ++ t :: post ∧ run c st pre = .ok st' ∧
      step c st' t = .error e ∧ e = .grammar (some t.pos)
  | [], st, e, h => by simp [run] at h
  | t :: ts, st, e, h => by
    unfold run at h
    split at h
    · rename_i st' hs
      obtain ⟨pre, t', post, st'', h1, h2, h3, h4⟩ := run_err ts st' e h
      refine ⟨t :: pre, t', post, st'', by simp [h1], ?_, h3, h4⟩
      simp [run, hs, h2]
    · rename_i e' hs
      have : e' = e := by simpa using h
      subst this
      exact ⟨[], t, ts, st, rfl, rfl, hs, step_err hs⟩

theorem run_append {c : Cfg} : ∀ (a b : List Token) (st : St),
    run c st (a ++ b) = (match run c st a with | .ok st' => run c st' b | .error e => .error e)
  | [], b, st => by simp [run]
  | t :: a, b, st => by
    simp only [List.cons_append, run]
    cases step c st t with
    | ok st' => simpa using run_append a b st'
    | error e => simp

/-- **C03 (parser level), classification.** -/
theorem parse_total_classified (c : Cfg) (toks : List Token) :
    (∃ t, parse c toks = .ok t) ∨ parse c toks = .error (.grammar none) ∨
    (∃ p, parse c toks = .error (.grammar (some p)) ∧ p ∈ toks.map (·.pos)) := by
  cases h : run c {} toks with
  | ok st =>
    cases hf : finish c st with
    | ok t => exact .inl ⟨t, by simp [parse, h, hf]⟩
    | error e => exact .inr (.inl (by simp [parse, h, hf, finish_err hf]))
  | error e =>
    obtain ⟨pre, t, post, st', h1, _, _, h4⟩ := run_err toks {} e h
    refine .inr (.inr ⟨t.pos, by simp [parse, h, h4], ?_⟩)
    simp [h1]

/-- **C03 (parser level), where the position comes from**: the first token that cannot be taken;
the tokens after it do not matter. -/
theorem error_at_first_rejected_token (c : Cfg) (toks : List Token) (p : Nat)
    (h : parse c toks = .error (.grammar (some p))) :
    ∃ pre t post st, toks = pre ++ t :: post ∧ t.pos = p ∧ run c {} pre = .ok st ∧
      (∃ e, step c st t = .error e) ∧
      ∀ post', parse c (pre ++ t :: post') = .error (.grammar (some p)) := by
  cases hr : run c {} toks with
  | ok st =>
    cases hf : finish c st with
    | ok t => simp [parse, hr, hf] at h
    | error e => simp [parse, hr, hf, finish_err hf] at h
  | error e =>
    simp only [parse, hr] at h
    obtain ⟨pre, t, post, st', h1, h2, h3, h4⟩ := run_err toks {} e hr
    have he : e = .grammar (some p) := by simpa using h
    have hp : t.pos = p := by rw [h4] at he; simpa using he
    refine ⟨pre, t, post, st', h1, hp, h2, ⟨e, h3⟩, ?_⟩
    intro post'
    simp [parse, run_append, h2, run, h3, he]

/-- **C03 (parser level)**: `Grammar none` (end of statement) only after the whole input was taken. -/
theorem error_none_only_at_end (c : Cfg) (toks : List Token) (h : parse c toks = .error (.grammar none)) :
    ∃ st, run c {} toks = .ok st ∧ finish c st = .error (.grammar none) := by
  cases hr : run c {} toks with
  | ok st => simp only [parse, hr] at h; exact ⟨st, rfl, h⟩
  | error e =>
    simp only [parse, hr] at h
    obtain ⟨_, t, _, _, _, _, _, h4⟩ := run_err toks {} e hr
    rw [h4] at h; simp at h

/-- non-vacuity: all three outcomes occur (default-like table with one binary operator `+`) -/
def demoCfg : Cfg :=
  ⟨[(['+'], ⟨0, 1, ['O', 'P', '_', 'B'], none⟩)], [(true, [['O', 'P', '_', 'B']]), (true, [[',']])], false⟩

example : parse demoCfg [⟨.number, .int 1, 0⟩, ⟨.op ['+'], .none, 2⟩, ⟨.number, .int 2, 4⟩] =
    .ok (.binary ['+'] none (.const .number (.int 1)) (.const .number (.int 2))) := by rfl
example : parse demoCfg [⟨.number, .int 1, 0⟩, ⟨.op ['+'], .none, 2⟩] = .error (.grammar none) := by rfl
example : parse demoCfg [⟨.number, .int 1, 0⟩, ⟨.number, .int 2, 2⟩] = .error (.grammar (some 2)) := by rfl

end Yaql.Props.C03Parse
