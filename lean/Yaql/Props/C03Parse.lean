import Yaql.Model.Parser
namespace Yaql.Props.C03Parse
end Yaql.Props.C03Parse
