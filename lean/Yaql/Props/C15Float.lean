import Yaql.Model.Scalar
import Yaql.Props.FloatRound
/-!
C15, `float(int)`: the conversion the mixed int/float operators apply to an integer operand (`Scalar.toFloat`,
CPython `PyLong_AsDouble`) is `FloatRound.roundRat i 1`, so the characteristic properties proved in
`Props/FloatRound.lean` hold for it - inside the model, no longer trusted to the platform:
exact up to 2^53, otherwise the nearest double (ties to even), `OverflowError` exactly from `2^1024 - 2^970` on, monotone.
What stays a parameter of the model (`FloatOps`): `+ - * /` on two doubles.
-/
namespace Yaql.Props.C15
open Yaql.Scalar Yaql.FloatRound Yaql.Props.FloatRound

theorem toFloat_eq_roundRat (i : Int) :
    toFloat i = match roundRat i 1 with | .ok w => .ok w | _ => .error .overflow := by
  unfold toFloat
  rw [floatOfInt_eq]
  cases roundRat i 1 <;> rfl

theorem toFloat_ok {i : Int} {w : UInt64} : toFloat i = .ok w ↔ roundRat i 1 = .ok w := by
  rw [toFloat_eq_roundRat]
  cases roundRat i 1 <;> simp

/-- **`float(int)` is the correctly rounded conversion.**
(1) exact: an integer up to `2^53` in magnitude is converted without error (`decode w` is the integer);
(2) nearest: the value of the result is at least as near to `i` as the value of any finite double;
(3) a tie between two doubles goes to the one with the even significand (lowest bit 0);
(4) `OverflowError` exactly when `|i| ≥ 2^1024 - 2^970`, no other error;
(5) monotone: `i ≤ j` implies `float(i) ≤ float(j)`. -/
theorem float_of_int (i : Int) :
    (i.natAbs ≤ 2 ^ 53 → ∃ w, toFloat i = .ok w ∧ decode w = extOfInt i) ∧
    (∀ w, toFloat i = .ok w → ∃ z, decode w = .fin z ∧ ∀ w' z', decode w' = .fin z' →
      |(i : ℚ) - valQ z| ≤ |(i : ℚ) - valQ z'|) ∧
    (∀ w, toFloat i = .ok w → ∀ z : Int, RepU z.natAbs → z ≠ sval i 1 →
      ((scale : Int) * i - sval i 1 * (1 : Nat)).natAbs = ((scale : Int) * i - z * (1 : Nat)).natAbs → w.toNat % 2 = 0) ∧
    ((toFloat i = .error .overflow ↔ (2 ^ 1024 - 2 ^ 970 : ℚ) ≤ |(i : ℚ)|) ∧ ∀ e, toFloat i = .error e → e = .overflow) ∧
    (∀ j a b, i ≤ j → toFloat i = .ok a → toFloat j = .ok b → Ext.le (decode a) (decode b) = true) := by
  refine ⟨?_, ?_, ?_, ⟨?_, ?_⟩, ?_⟩
  · intro h
    obtain ⟨w, h1, h2⟩ := roundRat_int_small i h
    exact ⟨w, toFloat_ok.mpr h1, h2⟩
  · intro w h
    obtain ⟨z, hz, hn⟩ := roundRat_nearest i 1 w (toFloat_ok.mp h)
    refine ⟨z, hz, fun w' z' hw' => ?_⟩
    have := hn w' z' hw'
    simpa using this
  · intro w h z hz hne htie
    exact roundRat_tie_even i 1 w (toFloat_ok.mp h) z hz hne htie
  · have hov := roundRat_overflow_iff_rat i 1 (by decide)
    simp only [Nat.cast_one, div_one] at hov
    rw [← hov, toFloat_eq_roundRat]
    cases hr : roundRat i 1 with
    | ok w => simp
    | overflow neg => have := roundRat_overflow_sign hr; subst this; simp
    | zeroDen => exact absurd hr (roundRat_total _ _ (by decide))
  · intro e h
    rw [toFloat_eq_roundRat] at h
    cases hr : roundRat i 1 <;> rw [hr] at h <;> cases h <;> rfl
  · intro j a b hij ha hb
    have := roundRat_mono i j 1 1 (by decide) (by decide) (by omega)
    rw [toFloat_ok.mp ha, toFloat_ok.mp hb] at this
    exact this

-- non-vacuity / examples (tests): 2^53 + 1 is a tie and rounds to the even neighbour 2^53; 2^53 + 3 rounds up to 2^53 + 4
example : toFloat (2 ^ 53 + 1) = .ok 0x4340000000000000 ∧ toFloat (2 ^ 53 + 3) = .ok 0x4340000000000002 ∧
    toFloat (-(2 ^ 53 + 1)) = .ok 0xC340000000000000 ∧ toFloat (2 ^ 1024 - 2 ^ 970) = .error .overflow ∧
    toFloat (2 ^ 1024 - 2 ^ 970 - 1) = .ok 0x7FEFFFFFFFFFFFFF := by decide +kernel

end Yaql.Props.C15
