import Yaql.Model.Strings
/-!
C19 (string half) - the functions of strings.py agree with their documented meaning.

Every theorem is about the code-shaped model `Yaql.Strings` (same index arithmetic as
strings.py, Python `str` methods modelled on `List Char`) and characterises its result by
a specification that does not mention the implementation: occurrences, windows, pieces.
-/
namespace Yaql.Props.C19
open Yaql.Strings

/-- case split on every `if`, then linear arithmetic -/
macro "ifs_omega" : tactic => `(tactic| ((repeat' split) <;> omega))

/-! ### occurrences -/

/-- `sub` occurs in `s` at offset `i` -/
def Occurs (s sub : Str) (i : Nat) : Prop := sub <+: s.drop i

theorem occursAt_iff {s sub : Str} {i : Nat} : occursAt s sub i = true ↔ Occurs s sub i := by
  simp [occursAt, Occurs]

theorem occursAt_false_iff {s sub : Str} {i : Nat} : occursAt s sub i = false ↔ ¬ Occurs s sub i := by
  rw [← occursAt_iff]; cases occursAt s sub i <;> simp

/-- an occurrence is a decomposition of the string -/
theorem occurs_iff_append {s sub : Str} {i : Nat} :
    Occurs s sub i ↔ ∃ t, s = s.take i ++ sub ++ t := by
  unfold Occurs
  constructor
  · rintro ⟨t, ht⟩
    refine ⟨t, ?_⟩
    rw [List.append_assoc, ht, List.take_append_drop]
  · rintro ⟨t, ht⟩
    refine ⟨t, ?_⟩
    have h2 : s.take i ++ s.drop i = s.take i ++ (sub ++ t) := by
      rw [List.take_append_drop, ← List.append_assoc]; exact ht
    exact (List.append_cancel_left h2).symm

theorem findUp_some {p : Nat → Bool} {lo n r : Nat} :
    findUp p lo n = some r ↔ lo ≤ r ∧ r < lo + n ∧ p r = true ∧ ∀ j, lo ≤ j → j < r → p j = false := by
  induction n generalizing lo with
  | zero => simp [findUp]; omega
  | succ n ih =>
    unfold findUp
    by_cases h : p lo = true
    · simp only [h, if_true, Option.some.injEq]
      constructor
      · rintro rfl; exact ⟨Nat.le_refl _, by omega, h, fun j h1 h2 => by omega⟩
      · rintro ⟨h1, _, _, h4⟩
        rcases Nat.lt_or_ge lo r with hlt | hge
        · have := h4 lo (Nat.le_refl _) hlt; simp [h] at this
        · omega
    · have h' : p lo = false := by simpa using h
      simp only [h', Bool.false_eq_true, if_false, ih]
      constructor
      · rintro ⟨h1, h2, h3, h4⟩
        refine ⟨by omega, by omega, h3, fun j hj1 hj2 => ?_⟩
        rcases Nat.eq_or_lt_of_le hj1 with rfl | hlt
        · exact h'
        · exact h4 j hlt hj2
      · rintro ⟨h1, h2, h3, h4⟩
        have hne : lo ≠ r := by rintro rfl; simp [h'] at h3
        exact ⟨by omega, by omega, h3, fun j hj1 hj2 => h4 j (by omega) hj2⟩

theorem findUp_none {p : Nat → Bool} {lo n : Nat} :
    findUp p lo n = none ↔ ∀ j, lo ≤ j → j < lo + n → p j = false := by
  induction n generalizing lo with
  | zero => simp [findUp]; omega
  | succ n ih =>
    unfold findUp
    by_cases h : p lo = true
    · simp only [h, if_true]
      constructor
      · intro hh; cases hh
      · intro hh; have := hh lo (Nat.le_refl _) (by omega); simp [h] at this
    · have h' : p lo = false := by simpa using h
      simp only [h', Bool.false_eq_true, if_false, ih]
      constructor
      · intro hh j hj1 hj2
        rcases Nat.eq_or_lt_of_le hj1 with rfl | hlt
        · exact h'
        · exact hh j hlt (by omega)
      · intro hh j hj1 hj2; exact hh j (by omega) (by omega)

theorem findDown_some {p : Nat → Bool} {lo n r : Nat} :
    findDown p lo n = some r ↔ lo ≤ r ∧ r < lo + n ∧ p r = true ∧ ∀ j, r < j → j < lo + n → p j = false := by
  induction n with
  | zero => simp [findDown]; omega
  | succ n ih =>
    unfold findDown
    by_cases h : p (lo + n) = true
    · simp only [h, if_true, Option.some.injEq]
      constructor
      · rintro rfl; exact ⟨by omega, by omega, h, fun j h1 h2 => by omega⟩
      · rintro ⟨h1, h2, _, h4⟩
        rcases Nat.lt_or_ge r (lo + n) with hlt | hge
        · have := h4 (lo + n) hlt (by omega); simp [h] at this
        · omega
    · have h' : p (lo + n) = false := by simpa using h
      simp only [h', Bool.false_eq_true, if_false, ih]
      constructor
      · rintro ⟨h1, h2, h3, h4⟩
        refine ⟨h1, by omega, h3, fun j hj1 hj2 => ?_⟩
        rcases Nat.lt_or_ge j (lo + n) with hlt | hge
        · exact h4 j hj1 hlt
        · have : j = lo + n := by omega
          rw [this]; exact h'
      · rintro ⟨h1, h2, h3, h4⟩
        have hne : r ≠ lo + n := by rintro rfl; simp [h'] at h3
        exact ⟨h1, by omega, h3, fun j hj1 hj2 => h4 j hj1 (by omega)⟩

theorem findDown_none {p : Nat → Bool} {lo n : Nat} :
    findDown p lo n = none ↔ ∀ j, lo ≤ j → j < lo + n → p j = false := by
  induction n with
  | zero => simp [findDown]; omega
  | succ n ih =>
    unfold findDown
    by_cases h : p (lo + n) = true
    · simp only [h, if_true]
      constructor
      · intro hh; cases hh
      · intro hh; have := hh (lo + n) (by omega) (by omega); simp [h] at this
    · have h' : p (lo + n) = false := by simpa using h
      simp only [h', Bool.false_eq_true, if_false, ih]
      constructor
      · intro hh j hj1 hj2
        rcases Nat.lt_or_ge j (lo + n) with hlt | hge
        · exact hh j hj1 hlt
        · have : j = lo + n := by omega
          rw [this]; exact h'
      · intro hh j hj1 hj2; exact hh j hj1 (by omega)


/-! ### indexOf / lastIndexOf -/

/-- `r` is the first occurrence of `sub` lying wholly inside the window `[a, b)` -/
def FirstIn (s sub : Str) (a b r : Nat) : Prop :=
  a ≤ r ∧ r + sub.length ≤ b ∧ Occurs s sub r ∧ ∀ j, a ≤ j → j < r → ¬ Occurs s sub j
/-- `r` is the last occurrence of `sub` lying wholly inside the window `[a, b)` -/
def LastIn (s sub : Str) (a b r : Nat) : Prop :=
  a ≤ r ∧ r + sub.length ≤ b ∧ Occurs s sub r ∧ ∀ j, r < j → j + sub.length ≤ b → ¬ Occurs s sub j
/-- no occurrence of `sub` lies wholly inside the window `[a, b)` -/
def NoneIn (s sub : Str) (a b : Nat) : Prop :=
  ∀ j, a ≤ j → j + sub.length ≤ b → ¬ Occurs s sub j

theorem optInt_eq_nat {o : Option Nat} {r : Nat} : optInt o = (r : Int) ↔ o = some r := by
  cases o <;> simp [optInt] <;> omega
theorem optInt_eq_neg {o : Option Nat} : optInt o = -1 ↔ o = none := by
  cases o <;> simp [optInt] <;> omega
theorem optInt_range (o : Option Nat) : optInt o = -1 ∨ 0 ≤ optInt o := by
  cases o <;> simp [optInt] <;> omega

theorem adjStart_nonneg (len : Nat) (b : Int) : 0 ≤ adjStart len b := by
  unfold adjStart; ifs_omega
theorem adjStop_nonneg (len : Nat) (e : Int) : 0 ≤ adjStop len e := by
  unfold adjStop; ifs_omega
theorem adjStop_le (len : Nat) (e : Int) : adjStop len e ≤ len := by
  unfold adjStop; ifs_omega

/-- Python `find` in terms of the clamped window -/
theorem pyFind_spec (s sub : Str) (start stop : Int) :
    let a := (adjStart s.length start).toNat
    let b := (adjStop s.length stop).toNat
    (∀ r : Nat, pyFind s sub start stop = (r : Int) ↔ FirstIn s sub a b r) ∧
    (pyFind s sub start stop = -1 ↔ NoneIn s sub a b) ∧
    (pyFind s sub start stop = -1 ∨ 0 ≤ pyFind s sub start stop) := by
  intro a b
  have ha := adjStart_nonneg s.length start
  have hb := adjStop_nonneg s.length stop
  have hc : candidates (adjStart s.length start) (adjStop s.length stop) sub.length = b + 1 - (a + sub.length) := by
    simp only [candidates, a, b]; omega
  refine ⟨fun r => ?_, ?_, optInt_range _⟩
  · simp only [pyFind, optInt_eq_nat, hc, findUp_some, FirstIn, occursAt_iff, occursAt_false_iff]
    constructor
    · rintro ⟨h1, h2, h3, h4⟩; exact ⟨h1, by omega, h3, h4⟩
    · rintro ⟨h1, h2, h3, h4⟩; exact ⟨h1, by omega, h3, h4⟩
  · simp only [pyFind, optInt_eq_neg, hc, findUp_none, NoneIn, occursAt_false_iff]
    constructor
    · intro h j h1 h2; exact h j h1 (by omega)
    · intro h j h1 h2; exact h j h1 (by omega)

/-- Python `rfind` in terms of the clamped window -/
theorem pyRfind_spec (s sub : Str) (start stop : Int) :
    let a := (adjStart s.length start).toNat
    let b := (adjStop s.length stop).toNat
    (∀ r : Nat, pyRfind s sub start stop = (r : Int) ↔ LastIn s sub a b r) ∧
    (pyRfind s sub start stop = -1 ↔ NoneIn s sub a b) ∧
    (pyRfind s sub start stop = -1 ∨ 0 ≤ pyRfind s sub start stop) := by
  intro a b
  have ha := adjStart_nonneg s.length start
  have hb := adjStop_nonneg s.length stop
  have hc : candidates (adjStart s.length start) (adjStop s.length stop) sub.length = b + 1 - (a + sub.length) := by
    simp only [candidates, a, b]; omega
  refine ⟨fun r => ?_, ?_, optInt_range _⟩
  · simp only [pyRfind, optInt_eq_nat, hc, findDown_some, LastIn, occursAt_iff, occursAt_false_iff]
    constructor
    · rintro ⟨h1, h2, h3, h4⟩; exact ⟨h1, by omega, h3, fun j hj1 hj2 => h4 j hj1 (by omega)⟩
    · rintro ⟨h1, h2, h3, h4⟩; exact ⟨h1, by omega, h3, fun j hj1 hj2 => h4 j hj1 (by omega)⟩
  · simp only [pyRfind, optInt_eq_neg, hc, findDown_none, NoneIn, occursAt_false_iff]
    constructor
    · intro h j h1 h2; exact h j h1 (by omega)
    · intro h j h1 h2; exact h j h1 (by omega)

/-- start of the search window: a negative `start` counts from the end -/
def winLo (len : Nat) (start : Int) : Nat := (if start < 0 then start + len else start).toNat
/-- end of the search window of the 4-argument forms: `length` characters from the start,
    a negative `length` meaning "to the end of the string" -/
def winHi (len : Nat) (start length : Int) : Nat :=
  if length < 0 then len else min len (winLo len start + length.toNat)

theorem win_adj (len : Nat) (start length : Int) (h : -(len : Int) ≤ start) :
    let st := if start < 0 then start + len else start
    let ln := if length < 0 then (len : Int) - st else length
    (adjStart len st).toNat = winLo len start ∧ (adjStop len (st + ln)).toNat = winHi len start length := by
  intro st ln
  have hst : 0 ≤ st := by simp only [st]; split <;> omega
  constructor
  · simp only [adjStart, winLo, st]
    ifs_omega
  · simp only [adjStop, winHi, winLo, ln]
    by_cases hl : length < 0
    · simp only [hl, if_true]
      have : st + ((len : Int) - st) = len := by omega
      rw [this]; ifs_omega
    · simp only [hl, if_false]
      have e1 : (if start < 0 then start + (len : Int) else start) = st := rfl
      rw [e1]
      ifs_omega

/-- **indexOf_spec** (4-argument form).  For `start >= -len(s)` the result is the first
    occurrence of `sub` lying wholly inside the window that begins at the normalised start and
    is `length` characters long (negative `length`: up to the end), and -1 iff there is none. -/
theorem indexOf_spec (s sub : Str) (start length : Int) (h : -(s.length : Int) ≤ start) :
    let a := winLo s.length start
    let b := winHi s.length start length
    (∀ r : Nat, indexOf4 s sub start length = (r : Int) ↔ FirstIn s sub a b r) ∧
    (indexOf4 s sub start length = -1 ↔ NoneIn s sub a b) ∧
    (indexOf4 s sub start length = -1 ∨ 0 ≤ indexOf4 s sub start length) := by
  intro a b
  have hw := win_adj s.length start length h
  have hs := pyFind_spec s sub (if start < 0 then start + s.length else start)
    ((if start < 0 then start + s.length else start) +
      (if length < 0 then (s.length : Int) - (if start < 0 then start + s.length else start) else length))
  simp only [hw.1, hw.2] at hs
  exact hs

/-- **lastIndexOf_spec** (4-argument form): dual of `indexOf_spec`, the last occurrence -/
theorem lastIndexOf_spec (s sub : Str) (start length : Int) (h : -(s.length : Int) ≤ start) :
    let a := winLo s.length start
    let b := winHi s.length start length
    (∀ r : Nat, lastIndexOf4 s sub start length = (r : Int) ↔ LastIn s sub a b r) ∧
    (lastIndexOf4 s sub start length = -1 ↔ NoneIn s sub a b) ∧
    (lastIndexOf4 s sub start length = -1 ∨ 0 ≤ lastIndexOf4 s sub start length) := by
  intro a b
  have hw := win_adj s.length start length h
  have hs := pyRfind_spec s sub (if start < 0 then start + s.length else start)
    ((if start < 0 then start + s.length else start) +
      (if length < 0 then (s.length : Int) - (if start < 0 then start + s.length else start) else length))
  simp only [hw.1, hw.2] at hs
  exact hs

/-- 2-argument forms: the window runs from the (clamped) start to the end of the string -/
theorem indexOf_spec2 (s sub : Str) (start : Int) :
    let a := (adjStart s.length start).toNat
    (∀ r : Nat, indexOf s sub start = (r : Int) ↔ FirstIn s sub a s.length r) ∧
    (indexOf s sub start = -1 ↔ NoneIn s sub a s.length) ∧
    (indexOf s sub start = -1 ∨ 0 ≤ indexOf s sub start) := by
  have hs := pyFind_spec s sub start s.length
  have : (adjStop s.length (s.length : Int)).toNat = s.length := by unfold adjStop; ifs_omega
  simp only [this] at hs
  exact hs

theorem lastIndexOf_spec2 (s sub : Str) (start : Int) :
    let a := (adjStart s.length start).toNat
    (∀ r : Nat, lastIndexOf s sub start = (r : Int) ↔ LastIn s sub a s.length r) ∧
    (lastIndexOf s sub start = -1 ↔ NoneIn s sub a s.length) ∧
    (lastIndexOf s sub start = -1 ∨ 0 ≤ lastIndexOf s sub start) := by
  have hs := pyRfind_spec s sub start s.length
  have : (adjStop s.length (s.length : Int)).toNat = s.length := by unfold adjStop; ifs_omega
  simp only [this] at hs
  exact hs


/-! ### substring -/

theorem slice_nat (s : Str) (a L : Nat) :
    (s.take (min (a + L) s.length)).drop (min a s.length) = (s.drop a).take L := by
  rw [List.drop_take]
  by_cases h : a < s.length
  · have e1 : min a s.length = a := by omega
    rw [e1, List.take_eq_take_min (i := L), List.length_drop]
    congr 1; omega
  · have e1 : min a s.length = s.length := by omega
    rw [e1, List.drop_of_length_le (Nat.le_refl _), List.drop_of_length_le (by omega)]; simp

theorem clampIdx_nonneg (len : Nat) (i : Int) (h : 0 ≤ i) : clampIdx len i = min i.toNat len := by
  unfold clampIdx; ifs_omega

/-- **substring_spec**.  For `start >= -len(s)` and any `length`, `substring` drops the
    characters before the normalised start and keeps `length` of the rest - all of the
    rest when `length` is negative. -/
theorem substring_spec (s : Str) (start length : Int) (h : -(s.length : Int) ≤ start) :
    substring s start length =
      (s.drop (winLo s.length start)).take (if length < 0 then s.length else length.toNat) := by
  have hst : 0 ≤ (if start < 0 then start + (s.length : Int) else start) := by ifs_omega
  have hln : 0 ≤ (if length < 0 then (s.length : Int) else length) := by ifs_omega
  simp only [substring, pySlice]
  rw [clampIdx_nonneg _ _ hst, clampIdx_nonneg _ _ (by omega)]
  have e : ((if start < 0 then start + (s.length : Int) else start) +
        (if length < 0 then (s.length : Int) else length)).toNat =
      winLo s.length start + (if length < 0 then s.length else length.toNat) := by
    unfold winLo; ifs_omega
  rw [e]
  exact slice_nat s _ _

/-- the result never reaches outside the string: it is a contiguous part of it -/
theorem substring_infix (s : Str) (start length : Int) : substring s start length <:+: s := by
  simp only [substring, pySlice]
  exact List.IsInfix.trans (List.drop_suffix _ _).isInfix (List.take_prefix _ _).isInfix

/-! ### split / join -/

theorem splitGo_skip (sep : Str) (s : Str) (skip : Nat) (k : Option Nat) (cur : Str) :
    splitGo sep s skip k cur = splitGo sep (s.drop skip) 0 k cur := by
  induction s generalizing skip with
  | nil => cases skip <;> simp [splitGo]
  | cons c cs ih =>
    cases skip with
    | zero => rfl
    | succ n => simp only [splitGo, List.drop_succ_cons]; exact ih n

/-- the loop of `split`, one step, without the skip counter -/
theorem splitGo_cons (sep : Str) (hsep : sep ≠ []) (c : Char) (cs : Str) (k : Option Nat) (cur : Str) :
    splitGo sep (c :: cs) 0 k cur =
      if more k && sep.isPrefixOf (c :: cs) then
        cur.reverse :: splitGo sep ((c :: cs).drop sep.length) 0 (decr k) []
      else splitGo sep cs 0 k (c :: cur) := by
  rw [splitGo, splitGo_skip sep cs (sep.length - 1)]
  have : (c :: cs).drop sep.length = cs.drop (sep.length - 1) := by
    cases sep with
    | nil => exact absurd rfl hsep
    | cons d ds => simp
  rw [this]

theorem splitGo_ne_nil (sep : Str) (s : Str) (skip : Nat) (k : Option Nat) (cur : Str) :
    splitGo sep s skip k cur ≠ [] := by
  induction s generalizing skip k cur with
  | nil => simp [splitGo]
  | cons c cs ih =>
    cases skip with
    | succ n => simp only [splitGo]; exact ih _ _ _
    | zero =>
      simp only [splitGo]
      split
      · simp
      · exact ih _ _ _

theorem join_cons (sep p : Str) (l : List Str) (h : l ≠ []) : join sep (p :: l) = p ++ sep ++ join sep l := by
  cases l with
  | nil => exact absurd rfl h
  | cons q r => rfl

theorem prefix_append_drop {sep s : Str} (h : sep.isPrefixOf s = true) : sep ++ s.drop sep.length = s := by
  rw [List.isPrefixOf_iff_prefix] at h
  exact List.prefix_iff_eq_append.mp h

theorem join_splitGo (sep : Str) (hsep : sep ≠ []) (n : Nat) :
    ∀ (s : Str), s.length ≤ n → ∀ (k : Option Nat) (cur : Str),
      join sep (splitGo sep s 0 k cur) = cur.reverse ++ s := by
  induction n with
  | zero =>
    intro s hs k cur
    have : s = [] := List.eq_nil_of_length_eq_zero (by omega)
    subst this; simp [splitGo, join]
  | succ n ih =>
    intro s hs k cur
    cases s with
    | nil => simp [splitGo, join]
    | cons c cs =>
      rw [splitGo_cons sep hsep]
      split
      · next hc =>
        simp only [Bool.and_eq_true] at hc
        rw [join_cons _ _ _ (splitGo_ne_nil _ _ _ _ _)]
        have hlen : ((c :: cs).drop sep.length).length ≤ n := by
          have : 0 < sep.length := List.length_pos_iff.mpr hsep
          simp only [List.length_drop, List.length_cons] at *; omega
        rw [ih _ hlen, List.reverse_nil, List.nil_append, List.append_assoc, prefix_append_drop hc.2]
      · rw [ih cs (by simpa using hs)]
        simp

/-- **split_join**: for a non-empty separator, joining what `split` returns (with any
    limit on the number of splits) with the separator gives the string back. -/
theorem split_join (s sep : Str) (k : Option Nat) (hsep : sep ≠ []) :
    join sep (splitSep s sep k) = s := by
  have := join_splitGo sep hsep s.length s (Nat.le_refl _) k []
  simpa [splitSep] using this

/-- the same through yaql's `split` with an explicit separator -/
theorem split_join_yaql (cfg : Cfg) (s sep : Str) (m : Int) (hsep : sep ≠ []) :
    ∃ l, split cfg s (some sep) m = .ok l ∧ join sep l = s := by
  cases sep with
  | nil => exact absurd rfl hsep
  | cons d ds => exact ⟨_, rfl, split_join s (d :: ds) _ (by simp)⟩

/-- `sep` does not occur in `p ++ sep` before its final position: `p` is separator-free
    and no occurrence straddles the border between `p` and a following separator -/
def NoEarly (sep p : Str) : Prop := ∀ j, j < p.length → ¬ Occurs (p ++ sep) sep j

theorem isPrefixOf_append_of_le {sep x rest : Str} (h : sep.length ≤ x.length) :
    sep.isPrefixOf (x ++ rest) = sep.isPrefixOf x := by
  rw [Bool.eq_iff_iff, List.isPrefixOf_iff_prefix, List.isPrefixOf_iff_prefix]
  constructor
  · intro h1; exact List.prefix_of_prefix_length_le h1 (List.prefix_append x rest) h
  · intro h1; exact h1.trans (List.prefix_append x rest)

theorem isPrefixOf_false {a b : Str} (h : ¬ a <+: b) : a.isPrefixOf b = false := by
  rw [Bool.eq_false_iff]; intro h'; exact h (List.isPrefixOf_iff_prefix.mp h')

theorem noEarly_tail {sep : Str} {c : Char} {p : Str} (h : NoEarly sep (c :: p)) : NoEarly sep p := by
  intro j hj hocc
  apply h (j + 1) (by simp; omega)
  simpa [Occurs] using hocc

theorem splitGo_piece (sep : Str) (hsep : sep ≠ []) (p rest : Str) (hp : NoEarly sep p) (cur : Str) :
    splitGo sep (p ++ sep ++ rest) 0 none cur = (cur.reverse ++ p) :: splitGo sep rest 0 none [] := by
  induction p generalizing cur with
  | nil =>
    cases hs : sep with
    | nil => exact absurd hs hsep
    | cons d ds =>
      have h1 : ([] : Str) ++ (d :: ds) ++ rest = d :: (ds ++ rest) := rfl
      rw [h1, ← hs, splitGo_cons sep hsep]
      have h2 : sep.isPrefixOf (d :: (ds ++ rest)) = true := by
        rw [List.isPrefixOf_iff_prefix, hs]; exact List.prefix_append (d :: ds) rest
      have h3 : (d :: (ds ++ rest)).drop sep.length = rest := by
        rw [hs]; simp
      simp [more, h2, h3, decr]
  | cons c p ih =>
    have h1 : (c :: p) ++ sep ++ rest = c :: (p ++ sep ++ rest) := rfl
    rw [h1, splitGo_cons sep hsep]
    have h2 : sep.isPrefixOf (c :: (p ++ sep ++ rest)) = false := by
      have h0 := hp 0 (by simp)
      have e : c :: (p ++ sep ++ rest) = ((c :: p) ++ sep) ++ rest := by simp
      rw [e, isPrefixOf_append_of_le (by simp; omega)]
      have : ¬ sep <+: (c :: p) ++ sep := by simpa [Occurs] using h0
      exact isPrefixOf_false this
    simp only [h2, Bool.and_false, Bool.false_eq_true, if_false]
    rw [ih (noEarly_tail hp)]
    simp

theorem splitGo_last (sep : Str) (hsep : sep ≠ []) (p : Str) (hp : NoEarly sep p) (cur : Str) :
    splitGo sep p 0 none cur = [cur.reverse ++ p] := by
  induction p generalizing cur with
  | nil => simp [splitGo]
  | cons c p ih =>
    rw [splitGo_cons sep hsep]
    have h2 : sep.isPrefixOf (c :: p) = false := by
      have h0 := hp 0 (by simp)
      have : ¬ sep <+: (c :: p) ++ sep := by simpa [Occurs] using h0
      have h3 : ¬ sep <+: (c :: p) := fun h => this (h.trans (List.prefix_append _ _))
      exact isPrefixOf_false h3
    simp only [h2, Bool.and_false, Bool.false_eq_true, if_false]
    rw [ih (noEarly_tail hp)]
    simp

/-- **join_split**: splitting (without limit) the join of a non-empty list of pieces gives the
    pieces back, provided no piece lets the separator start before the piece's end. -/
theorem join_split (sep : Str) (hsep : sep ≠ []) (pieces : List Str) (hne : pieces ≠ [])
    (hp : ∀ p ∈ pieces, NoEarly sep p) :
    splitSep (join sep pieces) sep none = pieces := by
  induction pieces with
  | nil => exact absurd rfl hne
  | cons p l ih =>
    cases l with
    | nil =>
      simp only [join, splitSep]
      rw [splitGo_last sep hsep p (hp p (by simp))]; simp
    | cons q r =>
      have hj : join sep (p :: q :: r) = p ++ sep ++ join sep (q :: r) := rfl
      rw [hj, splitSep, splitGo_piece sep hsep p _ (hp p (by simp))]
      have := ih (by simp) (fun x hx => hp x (by simp [hx]))
      simp only [splitSep] at this
      rw [this]; simp

/-- for a one-character separator "separator-free" is all that is needed -/
theorem noEarly_single (c : Char) (p : Str) (h : c ∉ p) : NoEarly [c] p := by
  intro j hj hocc
  unfold Occurs at hocc
  rw [List.drop_append_of_le_length (by omega)] at hocc
  have hd : p.drop j = p[j] :: p.drop (j + 1) := (List.getElem_cons_drop hj).symm
  obtain ⟨t, ht⟩ := hocc
  rw [hd] at ht
  have : c = p[j] := by
    simp only [List.cons_append, List.nil_append, List.cons.injEq] at ht; exact ht.1
  exact h (this ▸ List.getElem_mem hj)

theorem join_split_char (c : Char) (pieces : List Str) (hne : pieces ≠ []) (hp : ∀ p ∈ pieces, c ∉ p) :
    splitSep (join [c] pieces) [c] none = pieces :=
  join_split [c] (by simp) pieces hne (fun p h => noEarly_single c p (hp p h))


/-- `rsplit` is `split` read from the right, so the same law holds -/
theorem rsplit_join (s sep : Str) (k : Option Nat) (hsep : sep ≠ []) :
    join sep (rsplitSep s sep k) = s := by
  have hrev : ∀ (l : List Str), join sep ((l.map List.reverse).reverse) = (join sep.reverse l).reverse := by
    intro l
    induction l with
    | nil => rfl
    | cons p l ih =>
      cases l with
      | nil => simp [join]
      | cons q r =>
        have e1 : join sep.reverse (p :: q :: r) = p ++ sep.reverse ++ join sep.reverse (q :: r) := rfl
        rw [e1, List.reverse_append, List.reverse_append, List.reverse_reverse, ← ih]
        generalize hL : (List.map List.reverse (q :: r)).reverse = L
        have hLne : L ≠ [] := by rw [← hL]; simp
        have e2 : (List.map List.reverse (p :: q :: r)).reverse = L ++ [p.reverse] := by
          rw [← hL]; simp
        rw [e2]
        clear hL e2 ih e1
        induction L with
        | nil => exact absurd rfl hLne
        | cons a L ihL =>
          cases L with
          | nil => simp [join]
          | cons b L' =>
            have e3 : (a :: b :: L') ++ [p.reverse] = a :: ((b :: L') ++ [p.reverse]) := rfl
            have e4 : join sep (a :: b :: L') = a ++ sep ++ join sep (b :: L') := rfl
            rw [e3, join_cons _ _ _ (by simp), ihL (by simp), e4]
            simp
  rw [rsplitSep, hrev, split_join _ _ _ (by simpa using hsep)]
  simp

/-! ### trim / norm / isEmpty -/

theorem dropWhile_eq_nil {p : Char → Bool} {l : Str} : l.dropWhile p = [] ↔ ∀ x ∈ l, p x = true := by
  induction l with
  | nil => simp
  | cons c cs ih =>
    by_cases h : p c = true
    · rw [List.dropWhile_cons_of_pos h, ih]; simp [h]
    · rw [List.dropWhile_cons_of_neg h]; simp [h]

theorem mem_takeWhile {p : Char → Bool} {l : Str} {c : Char} (h : c ∈ l.takeWhile p) : p c = true := by
  induction l with
  | nil => simp at h
  | cons d ds ih =>
    by_cases hd : p d = true
    · rw [List.takeWhile_cons_of_pos hd] at h
      rcases List.mem_cons.mp h with rfl | h'
      · exact hd
      · exact ih h'
    · rw [List.takeWhile_cons_of_neg hd] at h; simp at h

theorem dropWhile_idem (p : Char → Bool) (l : Str) : (l.dropWhile p).dropWhile p = l.dropWhile p := by
  induction l with
  | nil => rfl
  | cons c cs ih =>
    by_cases h : p c = true
    · rw [List.dropWhile_cons_of_pos h, ih]
    · rw [List.dropWhile_cons_of_neg h, List.dropWhile_cons_of_neg h]

theorem dropWhile_append_singleton (p : Char → Bool) (l : Str) (c : Char) (h : ¬ p c = true) :
    (l ++ [c]).dropWhile p = l.dropWhile p ++ [c] := by
  induction l with
  | nil => simp [List.dropWhile_cons_of_neg h]
  | cons d ds ih =>
    by_cases hd : p d = true
    · rw [List.cons_append, List.dropWhile_cons_of_pos hd, List.dropWhile_cons_of_pos hd, ih]
    · rw [List.cons_append, List.dropWhile_cons_of_neg hd, List.dropWhile_cons_of_neg hd]; rfl

theorem lstrip_idem (p : Char → Bool) (s : Str) : lstripBy p (lstripBy p s) = lstripBy p s :=
  dropWhile_idem p s

theorem rstrip_idem (p : Char → Bool) (s : Str) : rstripBy p (rstripBy p s) = rstripBy p s := by
  simp [rstripBy, dropWhile_idem]

/-- stripping on the right does not uncover anything to strip on the left -/
theorem lstrip_rstrip (p : Char → Bool) (s : Str) :
    lstripBy p (rstripBy p (lstripBy p s)) = rstripBy p (lstripBy p s) := by
  unfold lstripBy rstripBy
  generalize ht : s.dropWhile p = t
  have hh : ∀ c cs, t = c :: cs → ¬ p c = true := by
    intro c cs hc
    have := List.head?_dropWhile_not p s
    rw [ht, hc] at this
    simpa using this
  cases t with
  | nil => rfl
  | cons c cs =>
    have hc := hh c cs rfl
    rw [List.reverse_cons, dropWhile_append_singleton p _ c hc, List.reverse_append]
    simp [List.dropWhile_cons_of_neg hc]

/-- **trim_idem**: trimming twice is trimming once (all three variants, any `chars`) -/
theorem trim_idem (cfg : Cfg) (s : Str) (chars : Option Str) :
    trim cfg (trim cfg s chars) chars = trim cfg s chars ∧
    trimLeft cfg (trimLeft cfg s chars) chars = trimLeft cfg s chars ∧
    trimRight cfg (trimRight cfg s chars) chars = trimRight cfg s chars := by
  refine ⟨?_, lstrip_idem _ _, rstrip_idem _ _⟩
  simp only [trim, stripBy]
  rw [lstrip_rstrip, rstrip_idem]

theorem stripBy_eq_nil (p : Char → Bool) (s : Str) : stripBy p s = [] ↔ ∀ c ∈ s, p c = true := by
  unfold stripBy rstripBy lstripBy
  rw [List.reverse_eq_nil_iff, dropWhile_eq_nil]
  constructor
  · intro h c hc
    have hs : s = s.takeWhile p ++ s.dropWhile p := List.takeWhile_append_dropWhile.symm
    rw [hs] at hc
    rcases List.mem_append.mp hc with h1 | h1
    · exact (mem_takeWhile h1)
    · exact h c (by simpa using h1)
  · intro h
    have : s.dropWhile p = [] := dropWhile_eq_nil.mpr h
    rw [this]; simp

/-- what `trim` removes and what it leaves: the string is `pre ++ trim s ++ suf` with
    `pre`, `suf` made of trimmed characters only, and the result neither begins nor ends
    with such a character -/
theorem trim_spec (cfg : Cfg) (s : Str) (chars : Option Str) :
    let p := stripClass cfg chars
    let t := trim cfg s chars
    ∃ pre suf, s = pre ++ t ++ suf ∧ (∀ c ∈ pre, p c = true) ∧ (∀ c ∈ suf, p c = true) ∧
      (∀ c ∈ t.head?, p c = false) ∧ (∀ c ∈ t.getLast?, p c = false) := by
  intro p t
  let l := s.dropWhile p
  refine ⟨s.takeWhile p, (l.reverse.takeWhile p).reverse, ?_, ?_, ?_, ?_, ?_⟩
  · have h1 : s = s.takeWhile p ++ l := List.takeWhile_append_dropWhile.symm
    have h2 : l.reverse = l.reverse.takeWhile p ++ l.reverse.dropWhile p := List.takeWhile_append_dropWhile.symm
    have h3 : l = (l.reverse.dropWhile p).reverse ++ (l.reverse.takeWhile p).reverse := by
      rw [← List.reverse_append, ← h2, List.reverse_reverse]
    have ht : t = (l.reverse.dropWhile p).reverse := rfl
    rw [ht, List.append_assoc, ← h3]; exact h1
  · intro c hc; exact mem_takeWhile hc
  · intro c hc; exact mem_takeWhile (List.mem_reverse.mp hc)
  · intro c hc
    have ht : t = rstripBy p (lstripBy p s) := rfl
    rw [ht, ← lstrip_rstrip] at hc
    have := List.head?_dropWhile_not p (rstripBy p (lstripBy p s))
    unfold lstripBy at hc this
    rw [Option.mem_def] at hc
    rw [hc] at this
    simpa using this
  · intro c hc
    have ht : t = (l.reverse.dropWhile p).reverse := rfl
    rw [ht, List.getLast?_reverse, Option.mem_def] at hc
    have := List.head?_dropWhile_not p l.reverse
    rw [hc] at this
    simpa using this

/-- **norm_none_iff_empty**: `norm` answers `null` exactly for `null` and for strings made
    of trimmed characters only, i.e. exactly when `isEmpty` (with trimming) answers true;
    otherwise it answers the trimmed string. -/
theorem norm_none_iff_empty (cfg : Cfg) (s : Option Str) (chars : Option Str) :
    (norm cfg s chars = none ↔ isEmpty cfg s true chars = true) ∧
    (norm cfg s chars = none ↔ ∀ t, s = some t → ∀ c ∈ t, stripClass cfg chars c = true) ∧
    (∀ v, norm cfg s chars = some v → ∃ t, s = some t ∧ v = trim cfg t chars ∧ v ≠ []) := by
  cases s with
  | none => simp [norm, isEmpty]
  | some t =>
    have key := stripBy_eq_nil (stripClass cfg chars) t
    refine ⟨?_, ?_, ?_⟩
    · simp only [norm, isEmpty, if_true]
      split <;> simp_all
    · simp only [norm]
      split
      · next h => simp only [List.isEmpty_iff] at h; simpa using key.mp h
      · next h =>
        simp only [List.isEmpty_iff] at h
        simp only [reduceCtorEq, false_iff]
        intro hall; exact h (key.mpr (hall t rfl))
    · intro v hv
      simp only [norm] at hv
      split at hv
      · cases hv
      · next h =>
        simp only [List.isEmpty_iff] at h
        cases hv
        exact ⟨t, rfl, rfl, h⟩

/-- **isEmpty_iff** -/
theorem isEmpty_iff (cfg : Cfg) (chars : Option Str) :
    isEmpty cfg none true chars = true ∧ isEmpty cfg none false chars = true ∧
    (∀ t, isEmpty cfg (some t) true chars = true ↔ ∀ c ∈ t, stripClass cfg chars c = true) ∧
    (∀ t, isEmpty cfg (some t) false chars = true ↔ t = []) := by
  refine ⟨rfl, rfl, ?_, ?_⟩
  · intro t
    simp only [isEmpty, if_true, List.isEmpty_iff]
    exact stripBy_eq_nil _ _
  · intro t
    simp [isEmpty]

/-! ### replace -/

theorem replaceGo_skip (old new : Str) (s : Str) (skip : Nat) (k : Option Nat) :
    replaceGo old new s skip k = replaceGo old new (s.drop skip) 0 k := by
  induction s generalizing skip with
  | nil => cases skip <;> simp [replaceGo]
  | cons c cs ih =>
    cases skip with
    | zero => rfl
    | succ n => simp only [replaceGo, List.drop_succ_cons]; exact ih n

theorem replaceGo_cons (old new : Str) (hold : old ≠ []) (c : Char) (cs : Str) (k : Option Nat) :
    replaceGo old new (c :: cs) 0 k =
      if more k && old.isPrefixOf (c :: cs) then
        new ++ replaceGo old new ((c :: cs).drop old.length) 0 (decr k)
      else c :: replaceGo old new cs 0 k := by
  rw [replaceGo, replaceGo_skip old new cs (old.length - 1)]
  have : (c :: cs).drop old.length = cs.drop (old.length - 1) := by
    cases old with
    | nil => exact absurd rfl hold
    | cons d ds => simp
  rw [this]

theorem replaceGo_zero (old new : Str) (hold : old ≠ []) (s : Str) : replaceGo old new s 0 (some 0) = s := by
  induction s with
  | nil => rfl
  | cons c cs ih => rw [replaceGo_cons old new hold, ih]; simp [more]

theorem pyReplace_cons (old new : Str) (hold : old ≠ []) (s : Str) (k : Option Nat) :
    pyReplace s old new k = replaceGo old new s 0 k := by
  cases old with
  | nil => exact absurd rfl hold
  | cons d ds => rfl

theorem replace_no_occ (s old new : Str) (k : Option Nat) (hold : old ≠ []) (h : ∀ j, ¬ Occurs s old j) :
    pyReplace s old new k = s := by
  rw [pyReplace_cons old new hold]
  induction s with
  | nil => rfl
  | cons c cs ih =>
    rw [replaceGo_cons old new hold]
    have h0 : old.isPrefixOf (c :: cs) = false := isPrefixOf_false (by simpa [Occurs] using h 0)
    simp only [h0, Bool.and_false, Bool.false_eq_true, if_false]
    rw [ih (fun j hj => h (j + 1) (by simpa [Occurs] using hj))]

theorem replace_first_occ (s old new : Str) (k : Option Nat) (i : Nat) (hold : old ≠ [])
    (hk : more k = true) (hocc : Occurs s old i) (hfirst : ∀ j, j < i → ¬ Occurs s old j) :
    pyReplace s old new k = s.take i ++ new ++ pyReplace (s.drop (i + old.length)) old new (decr k) := by
  rw [pyReplace_cons old new hold, pyReplace_cons old new hold]
  induction i generalizing s with
  | zero =>
    cases s with
    | nil =>
      exfalso
      have : old <+: [] := by simpa [Occurs] using hocc
      exact hold (List.prefix_nil.mp this)
    | cons c cs =>
      rw [replaceGo_cons old new hold]
      have h0 : old.isPrefixOf (c :: cs) = true := by
        rw [List.isPrefixOf_iff_prefix]; simpa [Occurs] using hocc
      simp [hk, h0]
  | succ i ih =>
    cases s with
    | nil =>
      exfalso
      have : old <+: [] := by simpa [Occurs] using hocc
      exact hold (List.prefix_nil.mp this)
    | cons c cs =>
      rw [replaceGo_cons old new hold]
      have h0 : old.isPrefixOf (c :: cs) = false :=
        isPrefixOf_false (by simpa [Occurs] using hfirst 0 (by omega))
      simp only [h0, Bool.and_false, Bool.false_eq_true, if_false]
      rw [ih cs (by simpa [Occurs] using hocc)
        (fun j hj hj2 => hfirst (j + 1) (by omega) (by simpa [Occurs] using hj2))]
      have e : i + 1 + old.length = (i + old.length) + 1 := by omega
      simp [e]

/-- `replace` with a non-empty `old` is `new.join(s.split(old, k))` -/
theorem replace_eq_join_split (s old new : Str) (k : Option Nat) (hold : old ≠ []) :
    pyReplace s old new k = join new (splitSep s old k) := by
  rw [pyReplace_cons old new hold, splitSep]
  have key : ∀ n, ∀ (s : Str), s.length ≤ n → ∀ (k : Option Nat) (cur : Str),
      cur.reverse ++ replaceGo old new s 0 k = join new (splitGo old s 0 k cur) := by
    intro n
    induction n with
    | zero =>
      intro s hs k cur
      have : s = [] := List.eq_nil_of_length_eq_zero (by omega)
      subst this; simp [splitGo, join, replaceGo]
    | succ n ih =>
      intro s hs k cur
      cases s with
      | nil => simp [splitGo, join, replaceGo]
      | cons c cs =>
        rw [splitGo_cons old hold, replaceGo_cons old new hold]
        split
        · rw [join_cons _ _ _ (splitGo_ne_nil _ _ _ _ _)]
          have hlen : ((c :: cs).drop old.length).length ≤ n := by
            have : 0 < old.length := List.length_pos_iff.mpr hold
            simp only [List.length_drop, List.length_cons] at *; omega
          rw [← ih _ hlen]; simp
        · rw [← ih cs (by simpa using hs)]; simp
  simpa using key s.length s (Nat.le_refl _) k []

/-- **replace_count**.  For a non-empty `old`: `count = 0` changes nothing; a string without
    an occurrence is unchanged; otherwise the FIRST occurrence (at `i`) is replaced and the
    same is done to the rest of the string AFTER that occurrence (non-overlapping, left to
    right) with one replacement less when `count` is positive and without limit when it is
    negative. -/
theorem replace_count (s old new : Str) (hold : old ≠ []) :
    replace s old new 0 = s ∧
    (∀ count, (∀ j, ¬ Occurs s old j) → replace s old new count = s) ∧
    (∀ count i, count ≠ 0 → Occurs s old i → (∀ j, j < i → ¬ Occurs s old j) →
      replace s old new count =
        s.take i ++ new ++ replace (s.drop (i + old.length)) old new (if count < 0 then count else count - 1)) := by
  refine ⟨?_, ?_, ?_⟩
  · simp only [replace, limitOf]
    rw [pyReplace_cons old new hold]
    exact replaceGo_zero old new hold s
  · intro count h; exact replace_no_occ s old new _ hold h
  · intro count i hc hocc hfirst
    simp only [replace]
    have hk : more (limitOf count) = true := by
      unfold limitOf; split
      · rfl
      · have : count.toNat ≠ 0 := by omega
        cases h : count.toNat with
        | zero => exact absurd h this
        | succ n => rfl
    rw [replace_first_occ s old new _ i hold hk hocc hfirst]
    have hd : decr (limitOf count) = limitOf (if count < 0 then count else count - 1) := by
      unfold limitOf
      by_cases hneg : count < 0
      · simp [hneg, decr]
      · have h2 : ¬ (count - 1 < 0) := by omega
        simp only [hneg, if_false, h2, decr]
        congr 1; omega
    rw [hd]

/-- the empty `old`: `new` goes in front of every character and at the end -/
theorem replace_empty_all (s new : Str) : pyReplace s [] new none = new ++ s.flatMap (fun c => c :: new) := by
  simp only [pyReplace]
  induction s with
  | nil => simp [interleave, more]
  | cons c cs ih => simp [interleave, more, decr, ih]

/-- **replace_dict_sequential**: the dict form applies the pairs one after the other, in
    insertion order, each to the result of the previous replacement -/
theorem replace_dict_sequential (s : Str) (count : Int) :
    replaceDict s [] count = s ∧
    (∀ k v rest, replaceDict s ((k, v) :: rest) count =
      replaceDict (replace s (strOf k) (strOf v) count) rest count) ∧
    (∀ l1 l2, replaceDict s (l1 ++ l2) count = replaceDict (replaceDict s l1 count) l2 count) := by
  refine ⟨rfl, fun _ _ _ => rfl, fun l1 l2 => ?_⟩
  simp [replaceDict, List.foldl_append]

/-- the order of the pairs matters (docstring example of `replace_with_dict`) -/
theorem replace_dict_order_matters :
    replaceDict "abc ab abc".toList [(.str "abc".toList, .str "xx".toList), (.str "ab".toList, .str "yy".toList)] (-1)
      = "xx yy xx".toList ∧
    replaceDict "abc ab abc".toList [(.str "ab".toList, .str "yy".toList), (.str "abc".toList, .str "xx".toList)] (-1)
      = "yyc yy yyc".toList ∧
    replaceDict "abc ab abc".toList [(.str "ab".toList, .str "yy".toList), (.str "abc".toList, .str "xx".toList)] 1
      = "yyc ab xx".toList := by
  decide

/-! ### startsWith / endsWith -/

/-- **starts_ends** -/
theorem starts_ends (s : Str) (ps : List Str) :
    (startsWith s ps = true ↔ ∃ p ∈ ps, ∃ t, s = p ++ t) ∧
    (endsWith s ps = true ↔ ∃ p ∈ ps, ∃ t, s = t ++ p) := by
  constructor
  · simp only [startsWith, List.any_eq_true, List.isPrefixOf_iff_prefix]
    constructor
    · rintro ⟨p, hp, t, ht⟩; exact ⟨p, hp, t, ht.symm⟩
    · rintro ⟨p, hp, t, ht⟩; exact ⟨p, hp, t, ht.symm⟩
  · simp only [endsWith, List.any_eq_true, List.isSuffixOf_iff_suffix]
    constructor
    · rintro ⟨p, hp, t, ht⟩; exact ⟨p, hp, t, ht.symm⟩
    · rintro ⟨p, hp, t, ht⟩; exact ⟨p, hp, t, ht.symm⟩

/-- `in`: some occurrence anywhere in the string -/
theorem isIn_iff (l r : Str) : isIn l r = true ↔ ∃ i, i ≤ r.length ∧ Occurs r l i := by
  unfold isIn
  rw [Option.isSome_iff_exists]
  constructor
  · rintro ⟨i, hi⟩
    rw [findUp_some] at hi
    exact ⟨i, by omega, occursAt_iff.mp hi.2.2.1⟩
  · rintro ⟨i, hi, hocc⟩
    cases h : findUp (occursAt r l) 0 (r.length + 1) with
    | some x => exact ⟨x, rfl⟩
    | none =>
      rw [findUp_none] at h
      have := h i (by omega) (by omega)
      rw [occursAt_false_iff] at this
      exact absurd hocc this

/-! ### the hypotheses are satisfiable, the functions compute: concrete instances -/

section examples
def S (s : String) : Str := s.toList

example : splitSep (S "a,b,,c") (S ",") none = [S "a", S "b", S "", S "c"] := by decide
example : splitSep (S "aaa") (S "aa") none = [S "", S "a"] ∧ rsplitSep (S "aaa") (S "aa") none = [S "a", S ""] := by decide
example : splitSep (S "a,b,,c") (S ",") (some 2) = [S "a", S "b", S ",c"] := by decide
/-- `join_split` needs more than "no piece contains the separator": with separator `aa` the pieces
    `a`, `` are separator-free, yet splitting their join gives other pieces -/
example : splitSep (join (S "aa") [S "a", S ""]) (S "aa") none = [S "", S "a"] := by decide
example : NoEarly (S ", ") (S "ab") := by
  intro j hj; have : j = 0 ∨ j = 1 := by simp [S] at hj; omega
  rcases this with rfl | rfl <;> simp [Occurs, S]
example : substring (S "abcd") (-3) 2 = S "bc" ∧ substring (S "abcd") 1 (-1) = S "bcd" ∧
    substring (S "abcd") 6 1 = S "" := by decide
example : indexOf4 (S "cabcdab") (S "ab") (-6) 2 = 1 ∧ indexOf4 (S "cabcdab") (S "ab") 2 (-1) = 5 ∧
    indexOf4 (S "cabcdab") (S "ab") 2 3 = -1 ∧ lastIndexOf4 (S "cabcdbc") (S "bc") 2 5 = 5 := by decide
example : FirstIn (S "cabcdab") (S "ab") 1 3 1 := by
  refine ⟨by omega, by simp [S], by simp [Occurs, S], fun j h1 h2 => by omega⟩
example : replace (S "aaaa") (S "aa") (S "b") 1 = S "baa" ∧ replace (S "aaaa") (S "aa") (S "b") (-1) = S "bb" ∧
    replace (S "abc") [] (S "-") 2 = S "-a-bc" := by decide
example : startsWith (S "abcd") [S "xx", S "ab"] = true ∧ endsWith (S "abcd") [] = false := by decide
end examples

end Yaql.Props.C19
