import Yaql.Gen.ScalarOps
/-!
C15 over the generated operator table: the overloads the live registry holds under the function
names of the scalar operators are, as far as scalar operands can reach them, exactly the rows of
`Yaql.Scalar.overloads` (same function name, same payload, same accepted kinds per parameter), and
the engine's operator list is the one the model covers.  Re-proved by the kernel on every run
against the regenerated table: an overload that is re-typed, added, removed or registered twice
breaks `operator_overloads`.
-/
namespace Yaql.Props.C15Gen
open Yaql.Scalar Yaql.Gen.ScalarOps

/-- the generated rows under the names the model covers that scalar operands can match -/
def liveRows : List GRow := rows.filter fun r => modelNames.contains r.name && r.reachable

/-- the registered overload set of every scalar operator is the one the model dispatches over -/
theorem operator_overloads : liveRows.map GRow.sig = overloads.map Overload.sig := by
  decide +kernel

/-- none of them has defaults, keyword-only parameters or a parameter type that treats values of
    one kind differently; all live in one context layer (so no layer shadows another) -/
theorem overloads_plain : liveRows.all (fun r => r.plain && r.layer == 1) = true := by
  decide +kernel

/-- every operator of the engine's table either calls a function the model covers or is one of the
    listed non-scalar operators; and every covered name is called by some operator -/
theorem operators_covered :
    operators.all (fun o => modelNames.contains o.fname != excludedSymbols.contains o.symbol) = true ∧
    modelNames.all (fun n => operators.any fun o => o.fname == n) = true ∧
    operators.all (fun o => !modelNames.contains o.fname ||
      (o.unary == ([UnOp.pos, .neg, .not].map UnOp.fname).contains o.fname)) = true := by
  decide +kernel

/-- the table is not trivial -/
theorem table_nontrivial :
    liveRows.length = 36 ∧ rows.length > 60 ∧
    rows.any (fun r => r.star.isSome) = true ∧
    rows.any (fun r => !r.reachable) = true := by
  decide +kernel

end Yaql.Props.C15Gen
