import Yaql.Props.C20
import Yaql.Props.FloatRound
/-!
C20, the float-valued results as the doubles the code returns.

`Props/C20.lean` states the laws of the unit properties and of `.timestamp` on exact rationals.  This file ties the
doubles the model returns (`tsHoursF`, `dtTimestampF`, `tsDivTsF` - what the harness compares bit for bit with the real
results) to those rationals through `Yaql.FloatRound.roundRat`, the correctly rounded conversion proved nearest /
ties-to-even / exact / monotone in `Props/FloatRound.lean`:

* `units_float` - `x.hours` is `float(x.microseconds) / 3600000000.0`: two correctly rounded steps, the first exact up
  to 2^53 microseconds; then (`tsUnitF_single`) the result IS `roundRat x 3600000000`, one rounding of the exact
  quotient; `tsUnitF_exact`: a whole number of units (`timespan(hours => k).hours`) is exactly `k`;
  `tsUnitF_mono`: monotone in `x`, for all `x` (both steps are monotone); `tsUnitF_value`: the general two-step value.
* `timestamp_float` - `.timestamp` is `roundRat microseconds 10^6` (one rounding: `timedelta.total_seconds()` divides two
  ints); `timestamp_float_roundtrip`: `datetime(s, o).timestamp` is the double `s` itself, bit for bit, whenever `s` is a
  whole number of microseconds.
* `tsDivTs_float` - `ts1 / ts2` is `float(us1) / float(us2)`, one rounding of `us1 / us2` below 2^53.
* `ts_scale_float` - `ts * n`, `ts / n` through the float steps the code performs (`tsMulNumF`, `tsDivNumF`: `int / int` or
  `float(int)` and one IEEE division / multiplication, then `timedelta(microseconds=<float>)`): exact for an int factor and for a
  division that comes out even, ZeroDivisionError for a zero divisor.
-/
namespace Yaql.Props.C20
open Yaql.DateTime Yaql.FloatRound Yaql.Props.FloatRound

/-- the five unit constants -/
def IsUnit (u : Int) : Prop := u = 1000 ∨ u = 1000000 ∨ u = 60000000 ∨ u = 3600000000 ∨ u = 86400000000

theorem IsUnit.bounds {u : Int} (h : IsUnit u) : 1 ≤ u ∧ u.natAbs ≤ 2 ^ 53 := by
  rcases h with h | h | h | h | h <;> subst h <;> decide

theorem pyFloat_ok {i : Int} {w : UInt64} : pyFloat i = .ok w ↔ roundRat i 1 = .ok w := by
  unfold pyFloat
  rw [← floatOfInt_some]
  cases floatOfInt i <;> simp

/-- a double whose magnitude bits are zero is a zero -/
theorem decode_zero_bits (g : UInt64) (h : g.toNat % 2 ^ 63 = 0) : decode g = .fin 0 := by
  obtain ⟨sgn, e, m, hw, hs, he, hm, _, _, _⟩ := toNat_fields g
  have e0 : e = 0 := by omega
  have m0 : m = 0 := by omega
  subst e0 m0
  rw [decode_fields g sgn 0 0 hw hs (by decide) (by decide)]
  split <;> simp

/-- one IEEE division of `+0.0` by a positive double is `+0.0` -/
theorem divBits_zero (g : UInt64) (b : Int) (hg : decode g = .fin b) (hb : 0 < b) : divBits 0 g = 0 := by
  have hsg : signBit g = false := by
    rw [signBit_decode g b hg (by omega)]; simp; omega
  have h0 : decode 0 = .fin 0 := by decide
  have hs0 : signBit 0 = false := by decide
  unfold divBits
  simp only [h0, hg, hsg, hs0]
  rw [if_neg (by omega)]
  simp

/-- a rational of magnitude at most `B ≤ 2^53` does not overflow -/
theorem roundRat_bounded (num : Int) (den B : Nat) (hd : 0 < den) (hB : B ≤ 2 ^ 53) (h : num.natAbs ≤ B * den) :
    ∃ w, roundRat num den = .ok w := by
  have hBd : ((B * den : Nat) : Int) = (B : Int) * den := by push_cast; rfl
  obtain ⟨wp, hp1, hp2⟩ := roundRat_int_small (B : Int) (by simpa using hB)
  obtain ⟨wn, hn1, hn2⟩ := roundRat_int_small (-(B : Int)) (by simpa using hB)
  have up := roundRat_mono num B den 1 hd (by decide) (by omega)
  have lo := roundRat_mono (-(B : Int)) num 1 den (by decide) hd (by rw [Int.neg_mul]; omega)
  rw [hp1] at up
  rw [hn1] at lo
  simp only [Rounded.ext, hp2] at up
  simp only [Rounded.ext, hn2] at lo
  cases hr : roundRat num den with
  | ok w => exact ⟨w, rfl⟩
  | overflow neg =>
    rw [hr] at up lo
    cases neg
    · simp [Ext.le] at up
    · simp [Ext.le] at lo
  | zeroDen => exact absurd hr (roundRat_total _ _ hd)

/-! ## the unit properties -/

/-- the two steps of `microseconds(x) / <unit>.0`: both operands as doubles, then one division -/
theorem tsUnitF_steps (x u : Int) :
    tsUnitF x u = (do let f ← pyFloat x; let g ← pyFloat u; pyFloatDiv f g) := by
  unfold tsUnitF; rw [(units x).1]

theorem unit_float (u : Int) (hu : IsUnit u) :
    ∃ g, pyFloat u = .ok g ∧ decode g = .fin (u * scale) ∧ ∀ f, pyFloatDiv f g = .ok (divBits f g) := by
  obtain ⟨g, h1, h2⟩ := roundRat_int_small u hu.bounds.2
  refine ⟨g, pyFloat_ok.mpr h1, h2, ?_⟩
  intro f
  unfold pyFloatDiv
  rw [if_neg]
  intro hz
  have := decode_zero_bits g hz
  rw [h2] at this
  injection this with this
  have hS : (0 : Int) < scale := by exact_mod_cast scale_pos
  have := Int.mul_eq_zero.mp this
  have := hu.bounds.1
  omega

/-- **the value in general** (two roundings): the exact quotient of the double `float(x)` by the unit, rounded once -/
theorem tsUnitF_value (x u : Int) (hu : IsUnit u) (w : UInt64) (h : tsUnitF x u = .ok w) :
    ∃ f, pyFloat x = .ok f ∧ decode f = .fin (sval x 1) ∧
      decode w = (roundRat (sval x 1) (u * scale).toNat).ext := by
  rw [tsUnitF_steps] at h
  obtain ⟨g, hg1, hg2, hg3⟩ := unit_float u hu
  cases hf : pyFloat x with
  | error e => rw [hf] at h; cases h
  | ok f =>
    rw [hf, hg1] at h
    simp only [bind, Except.bind] at h
    rw [hg3 f] at h
    injection h with h
    have hdf : decode f = .fin (sval x 1) := roundRat_decode (pyFloat_ok.mp hf)
    have hS : (0 : Int) < scale := by exact_mod_cast scale_pos
    have hpos : 0 < u * scale := Int.mul_pos (by have := hu.bounds.1; omega) hS
    refine ⟨f, rfl, hdf, ?_⟩
    rw [← h]
    exact divBits_pos f g _ _ hdf hg2 hpos

/-- **one rounding below 2^53 microseconds** (285 years): `float(x)` is exact there, so the result is the exact
    quotient `x / unit` correctly rounded - `roundRat x unit`, bit for bit -/
theorem tsUnitF_single (x u : Int) (hu : IsUnit u) (hx : x.natAbs ≤ 2 ^ 53) :
    ∃ w, tsUnitF x u = .ok w ∧ roundRat x u.toNat = .ok w := by
  have hub := hu.bounds
  have hupos : 0 < u.toNat := by omega
  obtain ⟨w, hw⟩ := roundRat_bounded x u.toNat (2 ^ 53) hupos (Nat.le_refl _)
    (Nat.le_trans hx (Nat.le_mul_of_pos_right _ hupos))
  refine ⟨w, ?_, hw⟩
  rw [tsUnitF_steps]
  obtain ⟨g, hg1, hg2, hg3⟩ := unit_float u hu
  obtain ⟨f, hf1, hf2⟩ := roundRat_int_small x hx
  rw [pyFloat_ok.mpr hf1, hg1]
  simp only [bind, Except.bind]
  rw [hg3 f]
  congr 1
  have hS : (0 : Int) < scale := by exact_mod_cast scale_pos
  have hpos : 0 < u * scale := Int.mul_pos (by omega) hS
  by_cases hx0 : x = 0
  · subst hx0
    rw [roundRat_zero _ (by decide)] at hf1
    injection hf1 with hf1
    rw [roundRat_zero _ hupos] at hw
    injection hw with hw
    rw [← hf1, ← hw]
    exact divBits_zero g _ hg2 hpos
  · apply divBits_pos_bits f g _ _ hf2 hg2 hpos
    · intro h0
      rcases Int.mul_eq_zero.mp h0 with h | h <;> omega
    · rw [← hw]
      apply roundRat_congr _ _ _ _ (by omega) hupos
      have e1 : ((u * (scale : Int)).toNat : Int) = u * scale := by omega
      have e2 : ((u.toNat : Nat) : Int) = u := by omega
      rw [e1, e2]; ring

/-- **exact on whole units**: `timespan(hours => k).hours` is the double `k`, exactly -/
theorem tsUnitF_exact (k u : Int) (hu : IsUnit u) (hk : (k * u).natAbs ≤ 2 ^ 53) :
    ∃ w, tsUnitF (k * u) u = .ok w ∧ decode w = .fin (k * scale) := by
  obtain ⟨w, h1, h2⟩ := tsUnitF_single (k * u) u hu hk
  have hub := hu.bounds
  have hkk : k.natAbs ≤ 2 ^ 53 := by
    refine Nat.le_trans ?_ hk
    rw [Int.natAbs_mul]
    exact Nat.le_mul_of_pos_right _ (by omega)
  obtain ⟨w', h3, h4⟩ := roundRat_int_small k hkk
  have : roundRat (k * u) u.toNat = roundRat k 1 := by
    apply roundRat_congr _ _ _ _ (by omega) (by decide)
    have e2 : ((u.toNat : Nat) : Int) = u := by omega
    rw [e2]; simp
  rw [this, h3] at h2
  injection h2 with h2
  exact ⟨w, h1, h2 ▸ h4⟩

/-- **monotone in the timespan**, for all timespans (each of the two steps is monotone) -/
theorem tsUnitF_mono (x y u : Int) (hu : IsUnit u) (hxy : x ≤ y) (w1 w2 : UInt64)
    (h1 : tsUnitF x u = .ok w1) (h2 : tsUnitF y u = .ok w2) : Ext.le (decode w1) (decode w2) = true := by
  obtain ⟨_, _, _, e1⟩ := tsUnitF_value x u hu w1 h1
  obtain ⟨_, _, _, e2⟩ := tsUnitF_value y u hu w2 h2
  rw [e1, e2]
  have hS : (0 : Int) < scale := by exact_mod_cast scale_pos
  have hpos : 0 < u * scale := Int.mul_pos (by have := hu.bounds.1; omega) hS
  have hm := sval_mono x y 1 1 (by decide) (by decide) (by omega)
  apply roundRat_mono _ _ _ _ (by omega) (by omega)
  exact Int.mul_le_mul_of_nonneg_right hm (by omega)

/-- **C20.units, float-valued form.**  Each unit property is `float(x.microseconds)` divided by its constant (two
    correctly rounded steps, named in `tsUnitF_steps`); with `x` up to 2^53 microseconds it is the exact quotient rounded
    once (`roundRat x unit`, hence nearest / ties to even / exact whenever the quotient is a double:
    `FloatRound.roundRat_nearest`, `roundRat_tie_even`, `roundRat_exact`). -/
theorem units_float (x : Int) :
    tsMillisecondsF x = tsUnitF x 1000 ∧ tsSecondsF x = tsUnitF x 1000000 ∧ tsMinutesF x = tsUnitF x 60000000 ∧
    tsHoursF x = tsUnitF x 3600000000 ∧ tsDaysF x = tsUnitF x 86400000000 ∧
    (x.natAbs ≤ 2 ^ 53 →
      (∃ w, tsMillisecondsF x = .ok w ∧ roundRat x 1000 = .ok w) ∧
      (∃ w, tsSecondsF x = .ok w ∧ roundRat x 1000000 = .ok w) ∧
      (∃ w, tsMinutesF x = .ok w ∧ roundRat x 60000000 = .ok w) ∧
      (∃ w, tsHoursF x = .ok w ∧ roundRat x 3600000000 = .ok w) ∧
      (∃ w, tsDaysF x = .ok w ∧ roundRat x 86400000000 = .ok w)) := by
  refine ⟨rfl, rfl, rfl, rfl, rfl, fun hx => ⟨?_, ?_, ?_, ?_, ?_⟩⟩
  · exact tsUnitF_single x 1000 (Or.inl rfl) hx
  · exact tsUnitF_single x 1000000 (Or.inr (Or.inl rfl)) hx
  · exact tsUnitF_single x 60000000 (Or.inr (Or.inr (Or.inl rfl))) hx
  · exact tsUnitF_single x 3600000000 (Or.inr (Or.inr (Or.inr (Or.inl rfl)))) hx
  · exact tsUnitF_single x 86400000000 (Or.inr (Or.inr (Or.inr (Or.inr rfl)))) hx

/-! ## `.timestamp` -/

/-- `a / b` on ints with a positive divisor is `roundRat a b`, OverflowError on overflow -/
theorem pyTrueDiv_pos (a : Int) (b : Nat) (hb : 0 < b) :
    pyTrueDiv a b = match roundRat a b with | .ok w => .ok w | _ => .error .overflowError := by
  unfold pyTrueDiv
  rw [if_neg (by omega)]
  by_cases ha : a = 0
  · subst ha
    rw [if_pos rfl, roundRat_zero _ hb, if_neg (by omega)]
  · rw [if_neg ha, if_neg (by omega), Int.natAbs_natCast]
    cases roundRat a b <;> rfl

/-- **C20.timestamp, float-valued form**: the double returned is the microsecond count over `10^6`, ONE correctly
    rounded division (so: nearest, ties to even, exact when representable, monotone in the instant) -/
theorem timestamp_float (c : PClass) (host : Int) (d : DT) (us : Int) (h : dtTimestamp c host d = .ok (us, 1000000)) :
    dtTimestampF c host d = match roundRat us 1000000 with | .ok w => .ok w | _ => .error .overflowError := by
  unfold dtTimestampF
  rw [h]
  exact pyTrueDiv_pos us 1000000 (by decide)

/-- **round trip on the doubles**: `datetime(s, o).timestamp` is the float `s` itself, bit for bit, whenever `s` (the
    double `w`, value `z / 2^1074`, not `-0.0`) is a whole number of microseconds -/
theorem timestamp_float_roundtrip (host : Int) (w : UInt64) (z o : Int) (e : DT)
    (hw : decode w = .fin z) (hnz : w ≠ 0x8000000000000000) (ho : validOff o = true)
    (hexact : (scale : Int) * secondsToUs (.flt z scale) = z * 1000000)
    (h : datetimeFromTimestamp (.flt z scale) o = .ok e) :
    dtTimestampF .conv host e = .ok w := by
  have h1 := (timestamp_of_datetime host (.flt z scale) o ho e h).1
  rw [timestamp_float .conv host e _ h1]
  have := roundRat_exact_int (secondsToUs (.flt z scale)) 1000000 (by decide) w z hw (by exact_mod_cast hexact) hnz
  rw [this]

/-! ## `ts1 / ts2` -/

/-- `ts1 / ts2` below 2^53 microseconds with a positive divisor: the exact quotient rounded once -/
theorem tsDivTs_float (a b : Int) (ha : a.natAbs ≤ 2 ^ 53) (hb : 0 < b) (hb2 : b.natAbs ≤ 2 ^ 53) :
    ∃ w, tsDivTsF a b = .ok w ∧ roundRat a b.toNat = .ok w := by
  have hbpos : 0 < b.toNat := by omega
  obtain ⟨w, hw⟩ := roundRat_bounded a b.toNat (2 ^ 53) hbpos (Nat.le_refl _)
    (Nat.le_trans ha (Nat.le_mul_of_pos_right _ hbpos))
  refine ⟨w, ?_, hw⟩
  unfold tsDivTsF
  rw [(units a).1, (units b).1]
  obtain ⟨f, hf1, hf2⟩ := roundRat_int_small a ha
  obtain ⟨g, hg1, hg2⟩ := roundRat_int_small b hb2
  rw [pyFloat_ok.mpr hf1, pyFloat_ok.mpr hg1]
  simp only [bind, Except.bind]
  have hS : (0 : Int) < scale := by exact_mod_cast scale_pos
  have hpos : 0 < b * scale := Int.mul_pos hb hS
  have hgz : ¬ g.toNat % 2 ^ 63 = 0 := by
    intro hz
    have := decode_zero_bits g hz
    rw [hg2] at this
    injection this with this
    omega
  unfold pyFloatDiv
  rw [if_neg hgz]
  congr 1
  by_cases ha0 : a = 0
  · subst ha0
    rw [roundRat_zero _ (by decide)] at hf1
    injection hf1 with hf1
    rw [roundRat_zero _ hbpos] at hw
    injection hw with hw
    rw [← hf1, ← hw]
    exact divBits_zero g _ hg2 hpos
  · apply divBits_pos_bits f g _ _ hf2 hg2 hpos
    · intro h0
      rcases Int.mul_eq_zero.mp h0 with h | h <;> omega
    · rw [← hw]
      apply roundRat_congr _ _ _ _ (by omega) hbpos
      have e1 : ((b * (scale : Int)).toNat : Int) = b * scale := by omega
      have e2 : ((b.toNat : Nat) : Int) = b := by omega
      rw [e1, e2]; ring

/-! ## `ts * n`, `ts / n` with their float steps -/

theorem roundHalfEven_scale (k : Int) : roundHalfEven (k * scale) (scale : Nat) = k := by
  have hS : (0 : Int) < scale := by exact_mod_cast scale_pos
  unfold roundHalfEven
  have h1 : k * (scale : Int) / (scale : Int) = k := Int.mul_ediv_cancel k (by omega)
  have h2 : k * (scale : Int) % (scale : Int) = 0 := Int.mul_emod_left k _
  simp only [h1, h2]
  rw [if_pos (by omega)]

/-- the timespan a double that is a whole number `k` of microseconds makes -/
theorem tsOfFloat_int (w : UInt64) (k : Int) (h : decode w = .fin (k * scale)) : tsOfFloat w = mkTs k := by
  unfold tsOfFloat
  rw [h]
  simp only [roundHalfEven_scale]

/-- **`ts * n`, `ts / n` through the float steps the code performs**: an int factor multiplies exactly (OverflowError outside
    the timedelta range); `ts / 0` and `ts / 0.0` are ZeroDivisionError; a division that comes out even (`t = k * n`, `k` up
    to 2^53 microseconds) is exact although it goes through `int / int -> float -> timedelta(microseconds=<float>)` -/
theorem ts_scale_float (t n k : Int) :
    tsMulNumF t (.int n) = mkTs (t * n) ∧
    tsDivNumF t (.int 0) = .error .zeroDivisionError ∧
    (t.natAbs ≤ 2 ^ 53 → tsDivNumF t (.flt 0 1) = .error .zeroDivisionError) ∧
    (n ≠ 0 → k.natAbs ≤ 2 ^ 53 → tsDivNumF (k * n) (.int n) = mkTs k) := by
  refine ⟨?_, ?_, ?_, ?_⟩
  · simp [tsMulNumF, tsOfMicros, (units t).1]
  · simp [tsDivNumF, pyTrueDiv, bind, Except.bind]
  · intro ht
    obtain ⟨f, hf1, _⟩ := roundRat_int_small t ht
    have hz : roundRat 0 (1 : Int).toNat = .ok 0 := roundRat_zero _ (by decide)
    simp only [tsDivNumF, (units t).1, pyFloat_ok.mpr hf1, bitsOfNum, hz, bind, Except.bind, pyFloatDiv]
    rfl
  · intro hn hk
    simp only [tsDivNumF, (units (k * n)).1, bind, Except.bind]
    obtain ⟨w, hw1, hw2⟩ := roundRat_int_small k hk
    by_cases hk0 : k = 0
    · subst hk0
      simp only [Int.zero_mul, pyTrueDiv, if_neg hn, if_pos]
      have : tsOfFloat (if n < 0 then 0x8000000000000000 else 0) = mkTs 0 := by
        apply tsOfFloat_int
        rw [Int.zero_mul]
        split <;> decide
      simpa using this
    · have hkn : k * n ≠ 0 := Int.mul_ne_zero hk0 hn
      have hcongr : roundRat (if n < 0 then -(k * n) else k * n) n.natAbs = roundRat k 1 := by
        apply roundRat_congr _ _ _ _ (by omega) (by decide)
        split
        · have : (n.natAbs : Int) = -n := by omega
          rw [this]; simp
        · have : (n.natAbs : Int) = n := by omega
          rw [this]; simp
      simp only [pyTrueDiv, if_neg hn, if_neg hkn, hcongr, hw1]
      exact tsOfFloat_int w k hw2

example : tsDivNumF 3000000 (.int 2) = .ok 1500000 ∧ tsDivNumF 1 (.int 2) = .ok 0 ∧ tsDivNumF 3 (.int 2) = .ok 2 ∧
    tsMulNumF 3 (.flt 1 2) = .ok 2 ∧ tsDivNumF 7 (.flt 0 1) = .error .zeroDivisionError := by decide +kernel

/-! ## examples (kernel evaluation; tests, nothing depends on them) -/

-- 90 minutes are 1.5 hours; one microsecond is 1e-6 seconds (0x3EB0C6F7A0B5ED8D); 1 us beyond 2^53 us: two roundings
example : tsHoursF 5400000000 = .ok 0x3FF8000000000000 := by decide +kernel
example : tsSecondsF 1 = .ok 0x3EB0C6F7A0B5ED8D := by decide +kernel
example : tsSecondsF (-1) = .ok 0xBEB0C6F7A0B5ED8D ∧ tsDaysF 0 = .ok 0 := by decide +kernel
example : tsMillisecondsF (2 ^ 53 + 1) = tsMillisecondsF (2 ^ 53) := by decide +kernel
example : dtTimestampF .conv 0 ⟨epochLocal + 1500000, some 0⟩ = .ok 0x3FF8000000000000 := by decide +kernel
example : tsDivTsF 86400000000 43200000000 = .ok 0x4000000000000000 ∧
    tsDivTsF 1 0 = .error .zeroDivisionError := by decide +kernel
-- the hypotheses of `timestamp_float_roundtrip` are satisfiable: s = 1.5
example : decode 0x3FF8000000000000 = .fin (3 * 2 ^ 1073) ∧
    (scale : Int) * secondsToUs (.flt (3 * 2 ^ 1073) scale) = 3 * 2 ^ 1073 * 1000000 := by decide +kernel
example : IsUnit 3600000000 ∧ (5400000000 : Int).natAbs ≤ 2 ^ 53 := ⟨Or.inr (Or.inr (Or.inr (Or.inl rfl))), by decide⟩

end Yaql.Props.C20
