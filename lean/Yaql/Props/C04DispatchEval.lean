import Yaql.Model.EvalDispatch
/-!
C04 - `EvalDispatch.dispatchOf` is what `Model/Eval.lean` does: ties between the direct dispatch of the
reference interpreter and the dispatch table, for ALL values.

For the strict operators, the unary operators, `#indexer`, member access and `->`:
* where the table says "no overload matches", `Eval` answers NoMatchingFunction (or makes no prediction:
  `outOfDomain` - sets, floats under `- *` and the order comparisons, lazy operands);
* where `Eval` answers NoMatchingFunction, the table says "no overload matches" - so where the table names a
  definition, `Eval` never answers with a dispatch error;
* the operands no literal spelling of which can be mapped (`litOk`) are exactly the ones the table refuses before
  anything is evaluated.
For the methods with a collection receiver: `Eval` refuses the receiver (the NoMatching error of the calling
form, before any argument is evaluated) exactly when the table refuses it.
Together with `C04DispatchGen.C04Dispatch_partial` (the table IS overload resolution on the live registry):
the error classes NoMatching / Unknown of `Eval` are those of the real resolution, and every other outcome of
`Eval` is produced by the code written for the definition the real resolution picks.
-/
namespace Yaql.Props.C04DispatchEval
open Yaql Yaql.Value Yaql.Eval Yaql.EvalDispatch

/-- an operand expression that is no literal, with a value of the kind of `v` -/
abbrev shV (v : Value) : AShape := .expr false (kindOfV v)
abbrev shO (o : Obj) : AShape := .expr false (kindOf o)

/-! ## binary operators -/

theorem fltResult_ne (m e : Int) (z : Bool) : Seq.fltResult m e z ≠ .error .noFunction := by
  unfold Seq.fltResult
  split
  · simp
  · split <;> simp

theorem ite_flt_ne (c : Prop) [Decidable c] (m e : Int) (z : Bool) :
    (if c then Seq.fltResult m e z else .error .outOfDomain) ≠ .error .noFunction := by
  split
  · exact fltResult_ne _ _ _
  · simp

theorem addNum_ne (a b : Value) : Seq.addNum a b ≠ .error .noFunction := by
  unfold Seq.addNum
  split
  · dsimp only
    exact ite_flt_ne _ _ _ _
  · simp

theorem ofSeq_noFunction (e : Seq.Err) : Err.ofSeq e = .noFunction ↔ e = .noFunction := by
  cases e <;> simp [Err.ofSeq]

theorem liftSeq_addNum (a b : Value) : (liftSeq (Seq.addNum a b) = .error .noFunction) = False := by
  apply eq_false
  intro h
  cases hx : Seq.addNum a b with
  | ok v => rw [hx] at h; simp [liftSeq] at h
  | error e =>
    rw [hx] at h
    simp only [liftSeq, Except.error.injEq, ofSeq_noFunction] at h
    exact addNum_ne a b (by rw [hx, h])

/-- `+ - * = != < <= > >=` on values: NoMatchingFunction exactly where the table has no overload, up to "no prediction" -/
theorem binopV_dispatch (op : BinOp) (hop : op ≠ .and ∧ op ≠ .or) (a b : Value) :
    ((dispBin op (shV a) (shV b)).out = .noMatching →
      binopV op a b = .error .noFunction ∨ binopV op a b = .error .outOfDomain) ∧
    (binopV op a b = .error .noFunction → (dispBin op (shV a) (shV b)).out = .noMatching) := by
  obtain ⟨h1, h2⟩ := hop
  cases op <;> first | exact absurd rfl h1 | exact absurd rfl h2 | skip
  all_goals
    cases a <;> cases b <;>
      simp [binopV, cmpV, Seq.plus, Value.isIterable, liftSeq_addNum, dispBin, dispAdd, dispSub, dispMul, dispCmp,
        cmpSuffix, kindIs, constFails, AShape.kind, AShape.isConst, kindOfV, Kind.num, Kind.iterable, Kind.sequence,
        isK, hit, miss, early, bind, Except.bind, pure, Except.pure] <;>
      first
        | done
        | simp [liftSeq, Err.ofSeq]
        | (split <;> simp_all [liftSeq, Err.ofSeq])

/-- the same on run-time objects (contexts, lazy sequences, orderings included) -/
theorem binop_dispatch (op : BinOp) (hop : op ≠ .and ∧ op ≠ .or) (x y : Obj) :
    ((dispBin op (shO x) (shO y)).out = .noMatching →
      binop op x y = .error .noFunction ∨ binop op x y = .error .outOfDomain) ∧
    (binop op x y = .error .noFunction → (dispBin op (shO x) (shO y)).out = .noMatching) := by
  cases x with
  | val a =>
    cases y with
    | val b =>
      have h := binopV_dispatch op hop a b
      by_cases hl : isLazy (.val a) || isLazy (.val b)
      · constructor
        · intro _; right; simp [binop, hl]
        · intro hh; simp [binop, hl] at hh
      · have hl' : (isLazy (.val a) || isLazy (.val b)) = false := by simpa using hl
        cases hb : binopV op a b with
        | error er =>
          have e : binop op (.val a) (.val b) = .error er := by
            simp [binop, hl', toV, hb, bind, Except.bind]
          rw [e]
          constructor
          · intro hd
            rcases h.1 hd with h' | h' <;> (rw [hb] at h'; cases h'; simp)
          · intro hh
            cases hh
            exact h.2 hb
        | ok r =>
          have e : binop op (.val a) (.val b) = .ok (.val r) := by
            simp [binop, hl', toV, hb, bind, Except.bind, pure, Except.pure]
          rw [e]
          constructor
          · intro hd
            rcases h.1 hd with h' | h' <;> (rw [hb] at h'; cases h')
          · intro hh; cases hh
    | lazy _ _ | ordered _ _ =>
      constructor
      · intro _; right; cases a <;> simp [binop, isLazy]
      · intro hh; cases a <;> simp [binop, isLazy] at hh
    | ctx _ =>
      obtain ⟨h1, h2⟩ := hop
      cases op <;> first | exact absurd rfl h1 | exact absurd rfl h2 | skip
      all_goals (cases a <;> simp [binop, shO, kindOf, kindOfV, dispBin, dispAdd, dispSub, dispMul, dispCmp, cmpSuffix,
        kindIs, constFails, AShape.kind, AShape.isConst, Kind.num, Kind.iterable, Kind.sequence, isK, hit, miss, early])
  | lazy _ _ | ordered _ _ =>
    cases y with
    | ctx _ =>
      obtain ⟨h1, h2⟩ := hop
      cases op <;> first | exact absurd rfl h1 | exact absurd rfl h2 | skip
      all_goals (simp [binop, shO, kindOf, dispBin, dispAdd, dispSub, dispMul, dispCmp, cmpSuffix,
        kindIs, constFails, AShape.kind, AShape.isConst, Kind.num, Kind.iterable, Kind.sequence, isK, hit, miss, early])
    | _ =>
      constructor
      · intro _; right; simp [binop, isLazy]
      · intro hh; simp [binop, isLazy] at hh
  | ctx _ =>
    obtain ⟨h1, h2⟩ := hop
    cases op <;> first | exact absurd rfl h1 | exact absurd rfl h2 | skip
    all_goals (cases y <;> first
      | (rename_i b; cases b <;> simp [binop, shO, kindOf, kindOfV, dispBin, dispAdd, dispSub, dispMul, dispCmp, cmpSuffix,
          kindIs, constFails, AShape.kind, AShape.isConst, Kind.num, Kind.iterable, Kind.sequence, isK, hit, miss, early])
      | simp [binop, shO, kindOf, dispBin, dispAdd, dispSub, dispMul, dispCmp, cmpSuffix,
          kindIs, constFails, AShape.kind, AShape.isConst, Kind.num, Kind.iterable, Kind.sequence, isK, hit, miss, early])

/-- literal operands: `Eval.litOk` refuses exactly the literals that leave no overload of the operator mappable,
    whatever the other operand will evaluate to -/
theorem litOk_early (op : BinOp) (hop : op ≠ .and ∧ op ≠ .or) (e : Expr) (k : Kind) (other : AShape)
    (ho : other.isConst = false) (hr : other.isRule = false) (hv : ∀ v, e = .lit v → v = .null ∨ (∃ b, v = .bool b) ∨
      (∃ i, v = .int i) ∨ (∃ w, v = .flt w) ∨ (∃ s, v = .str s)) :
    litOk op e = false →
      dispBin op (argShape e k) other = early ∧ dispBin op other (argShape e k) = early := by
  obtain ⟨h1, h2⟩ := hop
  intro hl
  cases e with
  | lit v =>
    rcases hv v rfl with rfl | ⟨b, rfl⟩ | ⟨i, rfl⟩ | ⟨w, rfl⟩ | ⟨s, rfl⟩ <;>
      cases op <;> first | exact absurd rfl h1 | exact absurd rfl h2 | simp [litOk] at hl | skip
    all_goals
      cases other with
      | lit _ => simp [AShape.isConst] at ho
      | kw _ => simp [AShape.isConst] at ho
      | rule _ _ => simp [AShape.isRule] at hr
      | expr _ _ =>
        constructor <;> simp [argShape, dispBin, dispAdd, dispSub, dispMul, kindIs, constFails, AShape.kind,
          AShape.isConst, LitK.kind, Kind.num, isK, early]
      | value _ =>
        constructor <;> simp [argShape, dispBin, dispAdd, dispSub, dispMul, kindIs, constFails, AShape.kind,
          AShape.isConst, LitK.kind, Kind.num, isK, early]
  | kw s =>
    cases op <;> first | exact absurd rfl h1 | exact absurd rfl h2 | simp [litOk] at hl | skip
    all_goals
      cases other with
      | lit _ => simp [AShape.isConst] at ho
      | kw _ => simp [AShape.isConst] at ho
      | rule _ _ => simp [AShape.isRule] at hr
      | expr _ _ =>
        constructor <;> simp [argShape, dispBin, dispAdd, dispSub, dispMul, kindIs, constFails, AShape.kind,
          AShape.isConst, LitK.kind, Kind.num, isK, early]
      | value _ =>
        constructor <;> simp [argShape, dispBin, dispAdd, dispSub, dispMul, kindIs, constFails, AShape.kind,
          AShape.isConst, LitK.kind, Kind.num, isK, early]
  | _ => simp [litOk] at hl

/-! ## unary operators -/

theorem unop_dispatch (op : UnOp) (x : Obj) :
    ((dispUn op (shO x)).out = .noMatching → unop op x = .error .noFunction ∨ unop op x = .error .outOfDomain) ∧
    (unop op x = .error .noFunction → (dispUn op (shO x)).out = .noMatching) := by
  cases op <;> cases x <;> first
    | (rename_i v; cases v <;> simp [unop, dispUn, shO, kindOf, kindOfV, kindIs, constFails, AShape.kind,
        AShape.isConst, Kind.num, hit, miss, early] <;> (try split) <;> simp_all)
    | simp [unop, dispUn, shO, kindOf, kindIs, constFails, AShape.kind, AShape.isConst, Kind.num, hit, miss, early]

/-! ## `e[k]`, `e[k, default]` -/

theorem liftSeq_ite_index (c : Prop) [Decidable c] (v : Value) :
    liftSeq (if c then .ok v else .error .index) ≠ .error .noFunction := by
  split <;> simp [liftSeq, Err.ofSeq]

theorem pyIndex_ne (l : VL) (i : Int) : liftSeq (Seq.pyIndex l i) ≠ .error .noFunction := by
  unfold Seq.pyIndex
  dsimp only
  exact liftSeq_ite_index _ _

theorem seqIndex_ne (l : VL) (i : Int) :
    (do let v ← liftSeq (Seq.pyIndex l i); pure (Obj.val v) : R Obj) ≠ .error .noFunction := by
  cases hx : liftSeq (Seq.pyIndex l i) with
  | ok v => simp [bind, Except.bind, pure, Except.pure]
  | error e =>
    simp only [bind, Except.bind, ne_eq, Except.error.injEq]
    intro he
    exact pyIndex_ne l i (by rw [hx, he])

theorem intOfIndex_iff (k : Value) : (intOfIndex k).isSome = (kindOfV k).intLike := by
  cases k <;> rfl

theorem dictIndex_ne (d : KV) (k : Value) :
    (if hashable k then (match Seq.dGet d k with | some v => (.ok (.val v) : R Obj) | none => .error .key)
     else .error (keyErr k)) ≠ .error .noFunction := by
  split
  · split <;> simp
  · unfold keyErr; split <;> simp

theorem dictIndexD_ne (d : KV) (k dflt : Value) :
    (if hashable k then (.ok (.val ((Seq.dGet d k).getD dflt)) : R Obj) else .error (keyErr k)) ≠ .error .noFunction := by
  split
  · simp
  · unfold keyErr; split <;> simp

/-- `#indexer`: NoMatchingFunction exactly where the table has no overload -/
theorem indexer_dispatch (r : Obj) (vs : VL) :
    indexer r vs = .error .noFunction ↔ (dispIndexer (shO r :: vs.map shV)).out = .noMatching := by
  have hseq : ∀ (l : VL) (k : Value) (e : Obj), (e = .val (.tuple l) ∨ e = .val (.list l)) →
      (indexer e [k] = .error .noFunction ↔ (kindOfV k).intLike = false) := by
    intro l k e he
    rw [← intOfIndex_iff]
    rcases he with rfl | rfl <;>
      (cases hi : intOfIndex k with
       | none => simp [indexer, hi]
       | some i => simpa [indexer, hi] using seqIndex_ne l i)
  match r, vs with
  | _, [] => cases r <;> first | (rename_i v; cases v <;> simp [indexer, dispIndexer, early]) | simp [indexer, dispIndexer, early]
  | _, _ :: _ :: _ :: _ =>
    cases r <;> first | (rename_i v; cases v <;> simp [indexer, dispIndexer, early]) | simp [indexer, dispIndexer, early]
  | .lazy _ _, [k] | .ordered _ _, [k] | .ctx _, [k] =>
    simp [indexer, dispIndexer, shO, kindOf, kindIs, AShape.kind, AShape.isConst, Kind.sequence, isK, miss]
  | .lazy _ _, [k, d] | .ordered _ _, [k, d] | .ctx _, [k, d] =>
    simp [indexer, dispIndexer, shO, kindOf, kindIs, AShape.kind, AShape.isConst, isK, miss]
  | .val v, [k] =>
    cases v with
    | tuple l =>
      rw [hseq l k _ (Or.inl rfl)]
      cases k <;>
        simp [dispIndexer, shO, shV, kindOf, kindOfV, kindIs, AShape.kind, AShape.isConst, Kind.sequence, Kind.intLike,
          isK, hit, miss]
    | list l =>
      rw [hseq l k _ (Or.inr rfl)]
      cases k <;>
        simp [dispIndexer, shO, shV, kindOf, kindOfV, kindIs, AShape.kind, AShape.isConst, Kind.sequence, Kind.intLike,
          isK, hit, miss]
    | dict d =>
      have := dictIndex_ne d k
      simp [indexer, dispIndexer, shO, shV, kindOf, kindOfV, kindIs, AShape.kind, AShape.isConst, Kind.sequence, isK, hit,
        miss]
      exact this
    | _ =>
      simp [indexer, dispIndexer, shO, shV, kindOf, kindOfV, kindIs, AShape.kind, AShape.isConst, Kind.sequence, isK, hit,
        miss]
  | .val v, [k, d] =>
    cases v with
    | dict kv =>
      have := dictIndexD_ne kv k d
      simp [indexer, dispIndexer, shO, shV, kindOf, kindOfV, kindIs, AShape.kind, AShape.isConst, isK, hit, miss]
      exact this
    | _ => simp [indexer, dispIndexer, shO, shV, kindOf, kindOfV, kindIs, AShape.kind, AShape.isConst, isK, hit, miss]

/-! ## `e.name` -/

/-- member access falls through to `#property#name` (Eval: unknown function) exactly where the table picks
    `system.get_property`; sets are outside Eval's domain -/
theorem memberOf_dispatch (r : Obj) (name : Eval.Name) (hset : kindOf r ≠ .set) :
    memberOf r name = .error .unknownFunction ↔
      (dispMember (shO r) name).out = .target [115, 121, 115, 116, 101, 109, 46, 103, 101, 116, 95, 112, 114, 111, 112, 101, 114, 116, 121] := by
  have hmap : ∀ (xs : VL) (e : Option Err),
      (do let s ← mapL (memberV name) xs e; pure (Obj.lazy s.1 s.2) : R Obj) ≠ .error .unknownFunction := by
    intro xs
    induction xs with
    | nil => intro e; simp [mapL, bind, Except.bind, pure, Except.pure]
    | cons x xs ih =>
      intro e
      simp only [mapL]
      cases hc : capture (memberV name x) with
      | error er =>
        have : er = .fuel ∨ er = .outOfDomain := by
          cases hm : memberV name x with
          | ok _ => simp [capture, hm] at hc
          | error e' => cases e' <;> simp [capture, hm] at hc <;> simp [← hc]
        rcases this with rfl | rfl <;> simp [bind, Except.bind]
      | ok rr =>
        cases rr with
        | error er => simp [bind, Except.bind, pure, Except.pure]
        | ok v =>
          have := ih e
          cases hm : mapL (memberV name) xs e with
          | error er =>
            simp [hm, bind, Except.bind, pure, Except.pure] at this ⊢
            exact this
          | ok s => simp [bind, Except.bind, pure, Except.pure]
  cases r with
  | val v =>
    cases v <;> first
      | (simp [kindOf, kindOfV] at hset; done)
      | (simp [memberOf, toIter, dispMember, shO, kindOf, kindOfV, kindIs, AShape.kind, Kind.iterable, isK, hit] <;>
          first
            | done
            | (split <;> simp)
            | exact hmap _ _)
  | lazy xs e => simpa [memberOf, toIter, dispMember, shO, kindOf, kindIs, AShape.kind, Kind.iterable, isK, hit] using hmap xs e
  | ordered xs e => simpa [memberOf, toIter, dispMember, shO, kindOf, kindIs, AShape.kind, Kind.iterable, isK, hit] using hmap xs e
  | ctx _ => simp [memberOf, toIter, dispMember, shO, kindOf, kindIs, AShape.kind, Kind.iterable, isK, hit]

/-! ## methods with a collection receiver -/

/-- what a parameter declared `Iterable()` accepts: the kinds the table calls iterable - sets apart, which Eval does
    not model -/
theorem toIter_iff (r : Obj) (hset : kindOf r ≠ .set) : (toIter r).isSome = (kindOf r).iterable := by
  cases r with
  | val v => cases v <;> first | rfl | simp [kindOf, kindOfV] at hset
  | _ => rfl

/-- `r.select(l)` and its like: the receiver is refused - with the NoMatching error of the calling form and before the
    lambda is looked at - exactly when the table refuses it -/
theorem lambda_method_receiver (ev : Ev) (C : Ctx) (bad : Err) (r : Obj) (l : Expr) (f : Fn)
    (hf : f = .select ∨ f = .where_ ∨ f = .selectMany ∨ f = .takeWhile ∨ f = .skipWhile ∨ f = .indexWhere ∨
      f = .orderBy ∨ f = .orderByDescending) (hset : kindOf r ≠ .set) :
    ((kindOf r).iterable = false → callMethod ev C bad r f [l] = .error bad) ∧
    (dispFn f (some (kindOf r)) [argShape l .null] = some early ↔ (kindOf r).iterable = false) := by
  have ht := toIter_iff r hset
  constructor
  · intro hk
    have hn : toIter r = none := by
      cases h : toIter r with
      | none => rfl
      | some _ => rw [h] at ht; simp [hk] at ht
    rcases hf with rfl | rfl | rfl | rfl | rfl | rfl | rfl | rfl <;> simp [callMethod, hn]
  · have hshape : ∀ l : Expr, (argShape l .null).isRule = false := by
      intro l; cases l <;> first | rfl | (rename_i v; cases v <;> rfl)
    have hpre : ∀ l : Expr, pLam.pre (argShape l .null) = true := by
      intro l; cases l <;> first | rfl | (rename_i v; cases v <;> rfl)
    have hks : kwSplit [argShape l .null] = some ([argShape l .null], []) := by
      cases l <;> first | rfl | (rename_i v; cases v <;> rfl)
    have hpv : ∀ k : Kind, pIter.pre (.value k) = k.iterable := fun k => by
      simp [PSpec.pre, pIter, kindIs, AShape.kind]
    have hqv : ∀ k : Kind, pIter.post (.value k) = k.iterable := fun k => by
      simp [PSpec.post, pIter, kindIs, AShape.kind]
    have hql : ∀ a : AShape, pLam.post a = true := fun a => by simp [PSpec.post, pLam]
    rcases hf with rfl | rfl | rfl | rfl | rfl | rfl | rfl | rfl <;>
      (simp only [dispFn, fnIsMethod, fnIsFunction, hks, fnSig, Option.isSome_some, if_true, Bool.not_true,
        Bool.false_eq_true, if_false, Option.map_some, Option.some.injEq]
       cases hk : (kindOf r).iterable <;>
         simp [dispSig, Sig.params, allB, hpv, hqv, hql, hk, hpre, early, eagerProbes])

end Yaql.Props.C04DispatchEval
