import Yaql.Gen.Registry
import Yaql.Gen.LazySpell
/-!
C11 over the generated registry: the functions whose operands the evaluation-order model
(`Yaql.EvalOrder`) treats as lazy have exactly those lazy parameters in the live library, and no
other registered function has a lazy parameter besides the listed ones (all others are `eager` nodes).
Re-proved by the kernel on every run against the regenerated table.
-/
namespace Yaql.Props.C11Gen
open Yaql.Registry Yaql.Gen.Registry Yaql.Types Yaql.Naming Yaql.Gen.LazySpell

def lazyNames (d : RDef) : List Name := (d.params.filter fun p => p.lazy && !p.hidden).map (·.name)
def eagerNames (d : RDef) : List Name := (d.params.filter fun p => !p.lazy && !p.hidden).map (·.name)
def sameSet (a b : List Name) : Bool := a.all b.contains && b.all a.contains

/-- every definition registered under `n` has lazy parameters `lz` and eager parameters `eg` -/
def hasSig (n : Name) (lz eg : List Name) : Bool :=
  let ds := registry.filter fun d => d.name == n
  !ds.isEmpty && ds.all fun d => sameSet (lazyNames d) lz && sameSet (eagerNames d) eg

/-- the lazy positions of the short-circuit functions are what `Yaql.EvalOrder` assumes -/
theorem lazy_params :
    hasSig ['#', 'o', 'p', 'e', 'r', 'a', 't', 'o', 'r', '_', 'a', 'n', 'd'] [['l', 'e', 'f', 't'], ['r', 'i', 'g', 'h', 't']] [] = true ∧
    hasSig ['#', 'o', 'p', 'e', 'r', 'a', 't', 'o', 'r', '_', 'o', 'r'] [['l', 'e', 'f', 't'], ['r', 'i', 'g', 'h', 't']] [] = true ∧
    hasSig ['#', 'o', 'p', 'e', 'r', 'a', 't', 'o', 'r', '_', '?', '.'] [['e', 'x', 'p', 'r']] [['r', 'e', 'c', 'e', 'i', 'v', 'e', 'r']] = true ∧
    hasSig ['s', 'w', 'i', 't', 'c', 'h'] [['a', 'r', 'g', 's']] [] = true ∧
    hasSig ['s', 'e', 'l', 'e', 'c', 't', 'C', 'a', 's', 'e'] [['a', 'r', 'g', 's']] [] = true ∧
    hasSig ['s', 'e', 'l', 'e', 'c', 't', 'A', 'l', 'l', 'C', 'a', 's', 'e', 's'] [['a', 'r', 'g', 's']] [] = true ∧
    hasSig ['e', 'x', 'a', 'm', 'i', 'n', 'e'] [['a', 'r', 'g', 's']] [] = true ∧
    hasSig ['c', 'o', 'a', 'l', 'e', 's', 'c', 'e'] [['a', 'r', 'g', 's']] [] = true ∧
    hasSig ['s', 'w', 'i', 't', 'c', 'h', 'C', 'a', 's', 'e'] [['a', 'r', 'g', 's']] [['c', 'a', 's', 'e']] = true := by
  decide +kernel

/-- the complete list of registered functions that have a lazy parameter -/
def lazyFunctions : List Name :=
  [['#', 'o', 'p', 'e', 'r', 'a', 't', 'o', 'r', '_', '-', '>'],
   ['#', 'o', 'p', 'e', 'r', 'a', 't', 'o', 'r', '_', '.'],
   ['#', 'o', 'p', 'e', 'r', 'a', 't', 'o', 'r', '_', '?', '.'],
   ['#', 'o', 'p', 'e', 'r', 'a', 't', 'o', 'r', '_', 'a', 'n', 'd'],
   ['#', 'o', 'p', 'e', 'r', 'a', 't', 'o', 'r', '_', 'o', 'r'],
   ['a', 'c', 'c', 'u', 'm', 'u', 'l', 'a', 't', 'e'],
   ['a', 'g', 'g', 'r', 'e', 'g', 'a', 't', 'e'],
   ['a', 'l', 'l'],
   ['a', 'n', 'y'],
   ['a', 's', 's', 'e', 'r', 't'],
   ['c', 'o', 'a', 'l', 'e', 's', 'c', 'e'],
   ['d', 'e', 'f'],
   ['d', 'i', 's', 't', 'i', 'n', 'c', 't'],
   ['e', 'x', 'a', 'm', 'i', 'n', 'e'],
   ['f', 'i', 'l', 't', 'e', 'r'],
   ['g', 'e', 'n', 'e', 'r', 'a', 't', 'e'],
   ['g', 'e', 'n', 'e', 'r', 'a', 't', 'e', 'M', 'a', 'n', 'y'],
   ['g', 'r', 'o', 'u', 'p', 'B', 'y'],
   ['i', 'n', 'd', 'e', 'x', 'W', 'h', 'e', 'r', 'e'],
   ['j', 'o', 'i', 'n'],
   ['l', 'a', 's', 't', 'I', 'n', 'd', 'e', 'x', 'W', 'h', 'e', 'r', 'e'],
   ['m', 'a', 'p'],
   ['m', 'e', 'r', 'g', 'e', 'W', 'i', 't', 'h'],
   ['o', 'r', 'd', 'e', 'r', 'B', 'y'],
   ['o', 'r', 'd', 'e', 'r', 'B', 'y', 'D', 'e', 's', 'c', 'e', 'n', 'd', 'i', 'n', 'g'],
   ['r', 'e', 'd', 'u', 'c', 'e'],
   ['r', 'e', 'p', 'l', 'a', 'c', 'e', 'B', 'y'],
   ['s', 'e', 'a', 'r', 'c', 'h'],
   ['s', 'e', 'a', 'r', 'c', 'h', 'A', 'l', 'l'],
   ['s', 'e', 'l', 'e', 'c', 't'],
   ['s', 'e', 'l', 'e', 'c', 't', 'A', 'l', 'l', 'C', 'a', 's', 'e', 's'],
   ['s', 'e', 'l', 'e', 'c', 't', 'C', 'a', 's', 'e'],
   ['s', 'e', 'l', 'e', 'c', 't', 'M', 'a', 'n', 'y'],
   ['s', 'k', 'i', 'p', 'W', 'h', 'i', 'l', 'e'],
   ['s', 'l', 'i', 'c', 'e', 'W', 'h', 'e', 'r', 'e'],
   ['s', 'p', 'l', 'i', 't', 'W', 'h', 'e', 'r', 'e'],
   ['s', 'w', 'i', 't', 'c', 'h'],
   ['s', 'w', 'i', 't', 'c', 'h', 'C', 'a', 's', 'e'],
   ['t', 'a', 'k', 'e', 'W', 'h', 'i', 'l', 'e'],
   ['t', 'h', 'e', 'n', 'B', 'y'],
   ['t', 'h', 'e', 'n', 'B', 'y', 'D', 'e', 's', 'c', 'e', 'n', 'd', 'i', 'n', 'g'],
   ['t', 'o', 'D', 'i', 'c', 't'],
   ['w', 'h', 'e', 'r', 'e']]

theorem lazy_functions :
    sameSet ((registry.filter fun d => d.params.any fun p => p.lazy && !p.hidden).map (·.name)) lazyFunctions = true := by
  decide +kernel

/-! ### the keyword spelling of the lazily evaluated parameters (`Yaql/Gen/LazySpell.lean`: contexts of every
naming convention, created in two orders in fresh interpreters) -/

/-- the keyword spelling of a lazy parameter exists and is unambiguous -/
def spellingOk (r : LazyRow) : Bool :=
  r.star ||
    (isKeyword r.keyword &&                                     -- `name => value` parses / `call()` lets it pass
     !r.others.contains r.keyword &&                            -- no other parameter of the definition answers to it
     r.keyword == keywordName r.conv r.declAlias r.param)       -- it is the documented alias: explicit, or the convention's

/-- **every lazily evaluated parameter of the library can be passed by keyword, under every naming
    convention**: its keyword name is a keyword, is the alias the convention promises for the declared
    parameter (the explicit alias, else the translated python name), and differs from the keyword name of
    every other parameter of the same definition (`*args` parameters - coalesce, switch, selectCase.. - are
    reached positionally only) -/
theorem lazy_keyword_spelling : lazyRows.all spellingOk = true := by
  decide +kernel

def samePairs (a b : List (Name × Name)) : Bool := a.all b.contains && b.all a.contains

/-- the rows of the default convention are exactly the lazy parameters of the registry
    (`Yaql/Gen/Registry.lean`, on which `lazy_params` / `lazy_functions` and the resolver ties are stated) -/
theorem lazy_rows_cover :
    samePairs ((lazyRows.filter fun r => r.conv == some .camel).map fun r => (r.regName, r.param))
      (registry.flatMap fun d => (d.params.filter fun p => p.lazy && !p.hidden).map fun p => (d.name, p.name)) = true := by
  decide +kernel

/-- every lazy parameter is seen as such in contexts of EVERY convention (with the same declaration), and
    the conventions really differ on the table: some lazy parameter has a keyword name that is not its
    python name under camelCase, and is its python name under the PythonConvention and without one -/
theorem lazy_rows_every_convention :
    (lazyRows.all fun r => [some Conv.camel, some Conv.python, none].all fun c => lazyRows.any fun r' =>
      r'.conv == c && r'.param == r.param && r'.declAlias == r.declAlias && r'.star == r.star &&
        r'.others.length == r.others.length) = true ∧
    lazyRows.any (fun r => r.conv == some .camel && !r.star && r.keyword != r.param) = true ∧
    lazyRows.any (fun r => r.conv == some .python && !r.star && r.keyword == r.param && toCamel r.param != r.param) = true ∧
    lazyRows.any (fun r => r.conv == none && !r.star && r.keyword == r.param && toCamel r.param != r.param) = true ∧
    (lazyRows.filter fun r => !r.star).length ≥ 100 := by
  decide +kernel

end Yaql.Props.C11Gen
