import Yaql.Gen.DateTimeDefs
/-!
C20 over the generated table of the definitions registered by `yaql/standard_library/date_time.py`
(`Yaql/Gen/DateTimeDefs.lean`, regenerated from the live repo by `harness/gens/datetimedefs.py`):
every datetime-typed parameter is declared `yaqltypes.DateTime()` - a naive host value becomes UTC before
the function sees it - or belongs to a definition that only reads wall-clock fields.  These are the
hypotheses `c = .conv` of the theorems in `Props/C20.lean`, discharged against what the code says now.
-/
namespace Yaql.Props.C20Gen
open Yaql.DateTime Yaql.Gen.DateTimeDefs

/-- every datetime parameter of every registered definition converts naive values to UTC, unless the
    definition is one of the field readers (`naive_is_utc_fields`) -/
theorem datetime_params_convert : defs.all (fun d => d.params.all (paramOk d)) = true := by
  decide +kernel

/-- every instant-sensitive overload the model covers is registered under its yaql name with the
    expected parameter shapes, and all its datetime parameters convert -/
theorem modelled_signatures : instantSensitive.all (sensitiveOk defs) = true := by
  decide +kernel

/-- non-vacuity: the table has definitions, many with a converting datetime parameter, and the lookups of
    the model find them -/
theorem table_kinds :
    defs.length ≥ 40 ∧
    (defs.filter (fun d => d.params.any (·.kind == .dtConv))).length ≥ 15 ∧
    (findDef defs (prop ['u', 't', 'c']) [.dt]).isSome = true ∧
    (findDef defs (oper ['-']) [.dt, .dt]).map dtClasses = some [.conv, .conv] := by
  decide +kernel

end Yaql.Props.C20Gen
