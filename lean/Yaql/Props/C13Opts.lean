import Yaql.Model.SeqRun
/-!
C13, option-dependent behaviour: what the collection functions and the finaliser do under the options of the engine a
statement belongs to (`Opts` of Model/SeqRun.lean: yaql.iterableDicts, convertTuplesToLists, convertSetsToLists,
convertInputData, limitIterators).  The check sends one text through several members of an engine family (base engine,
`engine.copy(options)`, `engine(text, options)`) and compares each result, type-strictly, with the model under THAT
member's options.
-/
namespace Yaql.Props.C13Opts
open Yaql Yaql.Value Yaql.Seq

/-! ### yaql.iterableDicts -/

/-- a dictionary is accepted by a parameter declared `Iterable()` exactly under `yaql.iterableDicts` -/
theorem dict_iterable_iff (opts : Opts) (ord : Bool) (d : KV) :
    ((Obj.val (dict d)).iterable? opts ord).isSome = opts.iterableDicts := by
  cases h : opts.iterableDicts <;> simp [Obj.iterable?, h]

/-- ... and then it is the collection of its keys, in the dictionary's order -/
theorem dict_iterates_keys (opts : Opts) (ord : Bool) (d : KV) (h : opts.iterableDicts = true) (hl : opts.limit = none) :
    (Obj.val (dict d)).iterable? opts ord = some (.ok ⟨dictKeys d, none⟩) := by
  simp [Obj.iterable?, h, limitSized, hl]

/-- without the option every collection method rejects it: `where` / `select` / `first` ... raise NoMatchingMethod -/
theorem dict_not_iterable (opts : Opts) (d : KV) (h : opts.iterableDicts = false) :
    (Obj.val (dict d)).it opts = .error .noMethod := by
  simp [Obj.it, Obj.iterable?, h, badReceiver]

/-- the option matters for dictionaries only -/
theorem iterableDicts_only_dicts (opts : Opts) (b ord : Bool) (o : Obj)
    (ho : ∀ d, o ≠ .val (dict d) ∧ o ≠ .mdict d) :
    o.iterable? { opts with iterableDicts := b } ord = o.iterable? opts ord := by
  cases o with
  | val v =>
    cases v with
    | dict d => exact absurd rfl (ho d).1
    | _ => simp [Obj.iterable?, limitSized, limitLazy]
  | mdict d => exact absurd rfl (ho d).2
  | view k d => cases k <;> simp [Obj.iterable?, limitSized, limitLazy]
  | _ => simp [Obj.iterable?, limitSized, limitLazy]

/-! ### yaql.limitIterators -/

theorem limitTo_length (n : Nat) (s : LSeq) : (s.limitTo n).items.length ≤ n := by
  unfold LSeq.limitTo
  split
  · simp; omega
  · omega

theorem limitTo_prefix (n : Nat) (s : LSeq) : (s.limitTo n).items = s.items.take n := by
  unfold LSeq.limitTo
  split
  · rfl
  · rw [List.take_of_length_le (by omega)]

theorem limitTo_small (n : Nat) (s : LSeq) (h : s.items.length ≤ n) : s.limitTo n = s := by
  simp [LSeq.limitTo]; omega

/-- the limiter raises only when the collection really is longer than the limit, and then after exactly `n` elements -/
theorem limitTo_raises_iff (n : Nat) (s : LSeq) :
    (s.limitTo n).err = some .tooLarge ∧ (s.limitTo n).items.length = n ↔
      s.items.length > n ∨ (s.err = some .tooLarge ∧ s.items.length = n) := by
  unfold LSeq.limitTo
  split
  · rename_i h; simp; constructor
    · intro _; left; exact h
    · intro _; omega
  · rename_i h; constructor
    · rintro ⟨h1, h2⟩; right; exact ⟨h1, h2⟩
    · rintro (h1 | ⟨h1, h2⟩)
      · omega
      · exact ⟨h1, h2⟩

theorem limitSized_ok_iff (opts : Opts) (l : VL) :
    (∃ s, limitSized opts l = .ok s) ↔ overLimit opts l.length = false := by
  unfold limitSized overLimit
  cases opts.limit with
  | none => simp
  | some n => by_cases h : l.length > n <;> simp [h]


/-! ### the finaliser under the options -/

mutual
/-- no generator and - when `strict` - no tuple anywhere in the value -/
def plain (strict : Bool) : Value → Bool
  | iter _ => false
  | tuple l => !strict && plainL strict l
  | list l | Value.set l => plainL strict l
  | dict d => plainP strict d
  | _ => true
def plainL (strict : Bool) : List Value → Bool
  | [] => true
  | x :: xs => plain strict x && plainL strict xs
def plainP (strict : Bool) : List (Value × Value) → Bool
  | [] => true
  | (k, v) :: r => plain strict k && plain strict v && plainP strict r
end

theorem finL_length (opts : Opts) : ∀ (l r : List Value), finL opts l = .ok r → r.length = l.length
  | [], r, h => by simp [finL, pure, Except.pure] at h; simp [← h]
  | x :: xs, r, h => by
    simp only [finL, bind, Except.bind, pure, Except.pure] at h
    cases hx : finV opts x with
    | error e => simp [hx] at h
    | ok x' =>
      cases hr : finL opts xs with
      | error e => simp [hx, hr] at h
      | ok r' =>
        simp [hx, hr] at h
        subst h
        simp [finL_length opts xs r' hr]

/-- a tuple is finalised to a list of the same length - or, with `convertTuplesToLists` off, to a tuple -/
theorem finV_tuple (opts : Opts) (l : List Value) (v : Value) (h : finV opts (tuple l) = .ok v) :
    ∃ r, r.length = l.length ∧ v = (if opts.tuplesToLists then list r else tuple r) := by
  simp only [finV, bind, Except.bind, pure, Except.pure] at h
  split at h
  · simp at h
  · cases hr : finL opts l with
    | error e => simp [hr] at h
    | ok r => simp [hr] at h; exact ⟨r, finL_length opts l r hr, h.symm⟩

/-- a (mutable) list is finalised to a list whatever the options say -/
theorem finV_list (opts : Opts) (l : List Value) (v : Value) (h : finV opts (list l) = .ok v) :
    ∃ r, r.length = l.length ∧ v = list r := by
  simp only [finV, bind, Except.bind, pure, Except.pure] at h
  split at h
  · simp at h
  · cases hr : finL opts l with
    | error e => simp [hr] at h
    | ok r => simp [hr] at h; exact ⟨r, finL_length opts l r hr, h.symm⟩

/-- scalars pass the finaliser unchanged -/
theorem finV_scalar (opts : Opts) (v : Value) (h : ∀ l, v ≠ tuple l ∧ v ≠ list l ∧ v ≠ iter l ∧ v ≠ Value.set l)
    (hd : ∀ d, v ≠ dict d) : finV opts v = .ok v := by
  cases v with
  | tuple l => exact absurd rfl (h l).1
  | list l => exact absurd rfl (h l).2.1
  | iter l => exact absurd rfl (h l).2.2.1
  | set l => exact absurd rfl (h l).2.2.2
  | dict d => exact absurd rfl (hd d)
  | _ => simp [finV, pure, Except.pure]

mutual
/-- what the finaliser hands out holds no generator, and with `convertTuplesToLists` no tuple -/
theorem finV_plain (opts : Opts) : ∀ (v w : Value), finV opts v = .ok w → plain opts.tuplesToLists w = true
  | .null, w, h | .bool _, w, h | .int _, w, h | .flt _, w, h | .str _, w, h | .host _, w, h => by
    simp [finV, pure, Except.pure] at h; subst h; simp [plain]
  | .tuple l, w, h => by
    simp only [finV, bind, Except.bind, pure, Except.pure] at h
    split at h
    · simp at h
    · cases hr : finL opts l with
      | error e => simp [hr] at h
      | ok r =>
        simp [hr] at h
        have := finL_plain opts l r hr
        by_cases ht : opts.tuplesToLists = true
        · simp [ht] at h; subst h; simpa [plain, ht] using this
        · simp [ht] at h; subst h; simp at ht; simpa [plain, ht] using this
  | .list l, w, h => by
    simp only [finV, bind, Except.bind, pure, Except.pure] at h
    split at h
    · simp at h
    · cases hr : finL opts l with
      | error e => simp [hr] at h
      | ok r => simp [hr] at h; subst h; simpa [plain] using finL_plain opts l r hr
  | .iter l, w, h => by
    simp only [finV, bind, Except.bind, pure, Except.pure] at h
    split at h
    · simp at h
    · rename_i r hr
      simp at h; subst h; simpa [plain] using finLim_plain opts _ l r hr
  | .set l, w, h => by
    simp only [finV, bind, Except.bind, pure, Except.pure] at h
    split at h
    · simp at h
    · split at h
      · split at h <;> simp at h
      · cases hr : finL opts l with
        | error e => simp [hr] at h
        | ok r => simp [hr] at h; subst h; simpa [plain] using finL_plain opts l r hr
  | .dict d, w, h => by
    simp only [finV, bind, Except.bind, pure, Except.pure] at h
    split at h
    · simp at h
    · cases hr : finP opts d with
      | error e => simp [hr] at h
      | ok r => simp [hr] at h; subst h; simpa [plain] using finP_plain opts d r hr
theorem finL_plain (opts : Opts) : ∀ (l r : List Value), finL opts l = .ok r → plainL opts.tuplesToLists r = true
  | [], r, h => by simp [finL, pure, Except.pure] at h; subst h; simp [plainL]
  | x :: xs, r, h => by
    simp only [finL, bind, Except.bind, pure, Except.pure] at h
    cases hx : finV opts x with
    | error e => simp [hx] at h
    | ok x' =>
      cases hr : finL opts xs with
      | error e => simp [hx, hr] at h
      | ok r' =>
        simp [hx, hr] at h; subst h
        simp [plainL, finV_plain opts x x' hx, finL_plain opts xs r' hr]
theorem finLim_plain (opts : Opts) : ∀ (k : Nat) (l r : List Value), finLim opts k l = .ok r → plainL opts.tuplesToLists r = true
  | _, [], r, h => by simp [finLim, pure, Except.pure] at h; subst h; simp [plainL]
  | 0, _ :: _, r, h => by simp [finLim] at h
  | k + 1, x :: xs, r, h => by
    simp only [finLim, bind, Except.bind, pure, Except.pure] at h
    cases hx : finV opts x with
    | error e => simp [hx] at h
    | ok x' =>
      cases hr : finLim opts k xs with
      | error e => simp [hx, hr] at h
      | ok r' =>
        simp [hx, hr] at h; subst h
        simp [plainL, finV_plain opts x x' hx, finLim_plain opts k xs r' hr]
theorem finP_plain (opts : Opts) : ∀ (d r : List (Value × Value)), finP opts d = .ok r → plainP opts.tuplesToLists r = true
  | [], r, h => by simp [finP, pure, Except.pure] at h; subst h; simp [plainP]
  | (k, v) :: d, r, h => by
    simp only [finP, bind, Except.bind, pure, Except.pure] at h
    cases hv : finV opts v with
    | error e => simp [hv] at h
    | ok v' =>
      cases hk : finV opts k with
      | error e => simp [hv, hk] at h
      | ok k' =>
        simp only [hv, hk] at h
        split at h
        · simp at h
        · cases hr : finP opts d with
          | error e => simp [hr] at h
          | ok r' =>
            simp [hr] at h; subst h
            simp [plainP, finV_plain opts k k' hk, finV_plain opts v v' hv, finP_plain opts d r' hr]
end


/-- with `convertSetsToLists` off a set is handed out as a Python set: its finalised members must be hashable (a member
    that was a tuple has become a list under `convertTuplesToLists`: TypeError) -/
theorem finSetErrs_nil (opts : Opts) (hs : opts.setsToLists = false) :
    ∀ (l r : List Value), finSetErrs opts l = [] → finL opts l = .ok r → outHashableL r = true
  | [], r, _, h => by simp [finL, pure, Except.pure] at h; subst h; simp [outHashableL]
  | x :: xs, r, he, h => by
    simp only [finL, bind, Except.bind, pure, Except.pure] at h
    simp only [finSetErrs, List.append_eq_nil_iff] at he
    cases hx : finV opts x with
    | error e => simp [hx] at h
    | ok x' =>
      cases hr : finL opts xs with
      | error e => simp [hx, hr] at h
      | ok r' =>
        simp [hx, hr] at h; subst h
        have h1 := he.1
        simp only [hx, hs] at h1
        have hx' : outHashable x' = true := by
          by_cases hh : outHashable x' = true
          · exact hh
          · simp [hh] at h1
        simp [outHashableL, hx', finSetErrs_nil opts hs xs r' he.2 hr]

theorem finV_set_strict (opts : Opts) (hs : opts.setsToLists = false) (l : List Value) (v : Value)
    (h : finV opts (Value.set l) = .ok v) : ∃ r, v = Value.set r ∧ outHashableL r = true ∧ finL opts l = .ok r := by
  simp only [finV, bind, Except.bind, pure, Except.pure] at h
  split at h
  · simp at h
  · split at h
    · split at h <;> simp at h
    · rename_i he
      cases hr : finL opts l with
      | error e => simp [hr] at h
      | ok r => simp [hr] at h; exact ⟨r, h.symm, finSetErrs_nil opts hs l r he hr, rfl⟩

/-! ### input conversion -/

mutual
/-- every sequence in the value is immutable (no `list`), no generator inside -/
def frozen : Value → Bool
  | list _ | iter _ => false
  | tuple l | Value.set l => frozenL l
  | dict d => frozenP d
  | _ => true
def frozenL : List Value → Bool
  | [] => true
  | x :: xs => frozen x && frozenL xs
def frozenP : List (Value × Value) → Bool
  | [] => true
  | (k, v) :: r => frozen k && frozen v && frozenP r
end

mutual
def noIter : Value → Bool
  | iter _ => false
  | tuple l | list l | Value.set l => noIterL l
  | dict d => noIterP d
  | _ => true
def noIterL : List Value → Bool
  | [] => true
  | x :: xs => noIter x && noIterL xs
def noIterP : List (Value × Value) → Bool
  | [] => true
  | (k, v) :: r => noIter k && noIter v && noIterP r
end

mutual
/-- converted input holds no mutable list: the functions never see the host's own lists -/
theorem convertInput_frozen : ∀ v : Value, noIter v = true → frozen (convertInput v) = true
  | .null, _ | .bool _, _ | .int _, _ | .flt _, _ | .str _, _ | .host _, _ => by simp [convertInput, frozen]
  | .tuple l, h => by simp only [noIter] at h; simpa [convertInput, frozen] using convertInputL_frozen l h
  | .list l, h => by simp only [noIter] at h; simpa [convertInput, frozen] using convertInputL_frozen l h
  | .set l, h => by simp only [noIter] at h; simpa [convertInput, frozen] using convertInputL_frozen l h
  | .iter _, h => by simp [noIter] at h
  | .dict d, h => by simp only [noIter] at h; simpa [convertInput, frozen] using convertInputP_frozen d h
theorem convertInputL_frozen : ∀ l : List Value, noIterL l = true → frozenL (convertInputL l) = true
  | [], _ => by simp [convertInputL, frozenL]
  | x :: xs, h => by
    simp only [noIterL, Bool.and_eq_true] at h
    simp [convertInputL, frozenL, convertInput_frozen x h.1, convertInputL_frozen xs h.2]
theorem convertInputP_frozen : ∀ d : List (Value × Value), noIterP d = true → frozenP (convertInputP d) = true
  | [], _ => by simp [convertInputP, frozenP]
  | (k, v) :: r, h => by
    simp only [noIterP, Bool.and_eq_true] at h
    simp [convertInputP, frozenP, convertInput_frozen k h.1.1, convertInput_frozen v h.1.2, convertInputP_frozen r h.2]
end

mutual
/-- ... and what holds no mutable list and no generator is hashable: converted input can be a set member / dict key / group key -/
theorem hashable_of_frozen : ∀ v : Value, frozen v = true → hashable v = true
  | .null, _ | .bool _, _ | .int _, _ | .flt _, _ | .str _, _ | .host _, _ | .set _, _ => by simp [hashable]
  | .list _, h | .iter _, h => by simp [frozen] at h
  | .tuple l, h => by simp only [frozen] at h; simpa [hashable] using hashableL_of_frozen l h
  | .dict d, h => by simp only [frozen] at h; simpa [hashable] using hashableP_of_frozen d h
theorem hashableL_of_frozen : ∀ l : List Value, frozenL l = true → hashableL l = true
  | [], _ => by simp [hashableL]
  | x :: xs, h => by
    simp only [frozenL, Bool.and_eq_true] at h
    simp [hashableL, hashable_of_frozen x h.1, hashableL_of_frozen xs h.2]
theorem hashableP_of_frozen : ∀ d : List (Value × Value), frozenP d = true → hashableP d = true
  | [], _ => by simp [hashableP]
  | (_, v) :: r, h => by
    simp only [frozenP, Bool.and_eq_true] at h
    simp [hashableP, hashable_of_frozen v h.1.2, hashableP_of_frozen r h.2]
end

mutual
theorem convertInput_idem : ∀ v : Value, convertInput (convertInput v) = convertInput v
  | .null | .bool _ | .int _ | .flt _ | .str _ | .host _ => by simp [convertInput]
  | .tuple l | .list l => by simp [convertInput, convertInputL_idem l]
  | .set l => by simp [convertInput, convertInputL_idem l]
  | .iter l => by simp [convertInput, convertInputL_idem l]
  | .dict d => by simp [convertInput, convertInputP_idem d]
theorem convertInputL_idem : ∀ l : List Value, convertInputL (convertInputL l) = convertInputL l
  | [] => by simp [convertInputL]
  | x :: xs => by simp [convertInputL, convertInput_idem x, convertInputL_idem xs]
theorem convertInputP_idem : ∀ d : List (Value × Value), convertInputP (convertInputP d) = convertInputP d
  | [] => by simp [convertInputP]
  | (k, v) :: r => by simp [convertInputP, convertInput_idem k, convertInput_idem v, convertInputP_idem r]
end

/-- with `yaql.convertInputData` off the host's own (mutable) list is what the functions get -/
theorem ofInput_raw_list (opts : Opts) (h : opts.convertInput = false) (l : List Value) (hn : noDictL l = true) :
    Obj.ofInput opts (list l) = .ok (.val (list l)) := by
  simp [Obj.ofInput, h, noDict, hn, Obj.ofValue]

/-- ... and a host dictionary arrives as the plain dict it is -/
theorem ofInput_raw_dict (opts : Opts) (h : opts.convertInput = false) (d : KV) (hn : noDictL (dictValues d) = true) :
    Obj.ofInput opts (dict d) = .ok (.mdict d) := by
  simp [Obj.ofInput, h, hn]

/-- converted, a host list is a tuple -/
theorem ofInput_converted_list (opts : Opts) (h : opts.convertInput = true) (l : List Value) :
    Obj.ofInput opts (list l) = .ok (.val (tuple (convertInputL l))) := by
  simp [Obj.ofInput, h, convertInput, Obj.ofValue]


/-! ### the options at work (evaluated on the model) -/

/-- `{a => 1, b => 2}.where($ != b)`: NoMatchingMethod by default ... -/
example : runPipeLet {} none [.where_ (.not (.eq .arg (str ['b'])))] (dict [(str ['a'], int 1), (str ['b'], int 2)])
    = .error .noMethod := by rfl
/-- ... the keys that are not `b` under `yaql.iterableDicts` -/
example : runPipeLet { iterableDicts := true } none [.where_ (.not (.eq .arg (str ['b'])))]
    (dict [(str ['a'], int 1), (str ['b'], int 2)]) = .ok (list [str ['a']]) := by rfl
/-- `$.count()` of a dictionary under `yaql.iterableDicts` -/
example : runPipeLet { iterableDicts := true } none [.count] (dict [(str ['a'], int 1), (str ['b'], int 2)])
    = .ok (int 2) := by rfl
/-- under `yaql.iterableDicts` `{1 => 0}.delete(1)` fits two overloads -/
example : runPipeLet { iterableDicts := true } none [.delete [int 1]] (dict [(int 1, int 0)]) = .error .ambiguous := by rfl
/-- `[3, 1, 3].slice(2)`: lists of lists by default, a list of tuples with `convertTuplesToLists` off -/
example : runPipeLet {} none [.slice 2] (list [int 3, int 1, int 3]) = .ok (list [list [int 3, int 1], list [int 3]]) := by rfl
example : runPipeLet { tuplesToLists := false } none [.slice 2] (list [int 3, int 1, int 3])
    = .ok (list [tuple [int 3, int 1], tuple [int 3]]) := by rfl
/-- the document itself: a list by default, the tuple it was converted to with `convertTuplesToLists` off, the host's
    own list when the input is not converted -/
example : runPipeLet { tuplesToLists := false } none [] (list [int 1]) = .ok (tuple [int 1]) := by rfl
example : runPipeLet { tuplesToLists := false, convertInput := false } none [] (list [int 1]) = .ok (list [int 1]) := by rfl
/-- `insert` returns a (mutable) list: a list under every option record -/
example : runPipeLet { tuplesToLists := false } none [.insert 0 (int 9)] (list [int 1]) = .ok (list [int 9, int 1]) := by rfl
/-- a set of lists can only be handed out as a list of lists: with `convertSetsToLists` off the members (tuples turned into
    lists) are unhashable ... -/
example : runPipeLet { setsToLists := false } none [.toSet] (list [list [int 1]]) = .error .type := by rfl
/-- ... unless tuples stay tuples -/
example : runPipeLet { setsToLists := false, tuplesToLists := false } none [.toSet] (list [list [int 1]])
    = .ok (Value.set [tuple [int 1]]) := by rfl
/-- unconverted input: the inner lists are unhashable, `distinct` raises -/
example : runPipeLet { convertInput := false } none [.distinct none] (list [list [int 1], list [int 1]]) = .error .type := by rfl
example : runPipeLet {} none [.distinct none] (list [list [int 1], list [int 1]]) = .ok (list [list [int 1]]) := by rfl
/-- `yaql.limitIterators = 2`: a longer sequence is rejected when the argument is converted, a lazy result when its third
    element is pulled - `take(2)` in front of it keeps it legal -/
example : runPipeLet { limit := some 2 } none [.select .arg] (list [int 1, int 2, int 3]) = .error .tooLarge := by rfl
example : runPipeLet { limit := some 2 } none [.select .arg] (iter [int 1, int 2, int 3]) = .error .tooLarge := by rfl
example : runPipeLet { limit := some 2 } none [.take 2] (iter [int 1, int 2, int 3]) = .ok (list [int 1, int 2]) := by rfl
/-- non-vacuity of `limitTo_raises_iff` -/
example : (LSeq.limitTo 2 ⟨[int 1, int 2, int 3], none⟩) = ⟨[int 1, int 2], some .tooLarge⟩ := by rfl
/-- non-vacuity of `convertInput_frozen` / `hashable_of_frozen` -/
example : hashable (convertInput (list [list [int 1], dict [(str ['a'], list [])]])) = true := by rfl
example : hashable (list [list [int 1]]) = false := by rfl


/-! ### yaql.convertOutputData off: the run-time object is handed out -/

theorem finalise_raw (opts : Opts) (h : opts.convertOutput = false) (o : Obj) : finalise opts o = rawOut opts o := by
  simp [finalise, h]

/-- finished data is handed out untouched: a tuple stays a tuple whatever `convertTuplesToLists` says -/
theorem rawOut_val (opts : Opts) (v : Value) : rawOut opts (.val v) = .ok v := by
  simp [rawOut]

/-- a lazy result is what the host gets when it consumes it; a StopIteration met on the way reaches the host wrapped
    (only `evaluate()` unwraps it), every other exception as it is -/
theorem rawOut_lazy (opts : Opts) (s : LSeq) :
    rawOut opts (.lazy s) = (match s.err with
      | none => .ok (iter s.items)
      | some .stopIteration => .error .wrappedStop
      | some e => .error e) := by
  simp only [rawOut, hostConsumes]
  cases s.err with
  | none => rfl
  | some e => cases e <;> rfl

/-- no limiter is put around a raw result -/
theorem rawOut_lazy_unlimited (opts : Opts) (n : Nat) (s : LSeq) :
    rawOut { opts with limit := some n } (.lazy s) = rawOut opts (.lazy s) := by
  simp [rawOut]

/-! ### the flags of create_context -/

/-- `group_by_agg_fallback` off: an aggregator that fails on the list of values of the first group is not retried in the
    pre-1.1.1 style - its exception is the result -/
theorem groupBy_no_fallback (agg : Lam) (k : Value) (vs : VL) (rest : List (Value × VL)) (e : Err)
    (hv : hasLazyL vs = false) (he : agg.eval (list vs) = .error e) :
    groupAggM agg none false ((k, vs) :: rest) = ⟨[], some e⟩ := by
  simp only [groupAggM, hv, he]
  by_cases h : (e == .noMethod || e == .noFunction || e == .index) = true
  · simp [h]
  · simp [h]

/-- ... on, the aggregator gets the pair `[key, values]` and its two-element result is the row -/
theorem groupBy_fallback (agg : Lam) (k r : Value) (vs : VL) (rest : List (Value × VL)) (e : Err)
    (hv : hasLazyL vs = false) (he : agg.eval (list vs) = .error e)
    (hcls : (e == .noMethod || e == .noFunction || e == .index) = true)
    (hr : agg.eval (tuple [k, list vs]) = .ok r) (h2 : pyLen? r = some 2) :
    (groupAggM agg none true ((k, vs) :: rest)).items = r :: (groupAggM agg (some e) true rest).items := by
  simp [groupAggM, hv, he, hcls, hr, h2]

/-- `no_sets`: the set methods do not exist, whatever the receiver -/
theorem noSets_methods (opts : Opts) (h : opts.noSets = true) (o : Obj) (vs : VL) :
    runOp opts .toSet o = .error .unknownMethod ∧ runOp opts (.union vs) o = .error .unknownMethod ∧
    runOp opts (.add vs) o = .error .unknownMethod ∧ runOp opts (.remove vs) o = .error .unknownMethod ∧
    runOp opts .setFn o = .error .unknownFunction := by
  simp [runOp, h, noSetsErr, Op.needsSets]

/-- ... and an unknown function written in front of the stages is met before any of them runs (after the binder of
    `let(..) -> ..`, which is evaluated first) -/
theorem noSets_function_first (opts : Opts) (h : opts.noSets = true) (binder : Option Op) (ops : List Op) (data : Value)
    (root : Obj) (hr : rootObj opts binder data = .ok root)
    (hf : ops.any Op.functionStyleSet = true) : runStages opts binder ops data = .error .unknownFunction := by
  simp [runStages, h, hf, hr, bind, Except.bind]

/-- with the set functions registered nothing changes: the flag is only looked at when it is on -/
theorem noSets_off (opts : Opts) (h : opts.noSets = false) (op : Op) (o : Obj) : runOp opts op o = runOpCore opts op o := by
  simp [runOp, h]

/-- the seeded demo of C13-12: `[[a, 1], [b, 2], [c, 1]].groupBy($[1], $[0], [$[0], $[1].sum()])` (legacy-style aggregator) -/
example : runPipeLet {} none [.groupBy (.index .arg 1) (some (.index .arg 0)) (some (.pair (.index .arg 0) (.sum (.index .arg 1))))]
    (list [list [str ['a'], int 1], list [str ['b'], int 2], list [str ['c'], int 1]])
    = .ok (list [list [int 1, str ['a', 'c']], list [int 2, str ['b']]]) := by rfl
/-- ... in a context made with `group_by_agg_fallback=False` the first failure is the outcome -/
example : (runPipeLet { aggFallback := false } none
    [.groupBy (.index .arg 1) (some (.index .arg 0)) (some (.pair (.index .arg 0) (.sum (.index .arg 1))))]
    (list [list [str ['a'], int 1], list [str ['b'], int 2], list [str ['c'], int 1]])).toOption = none := by rfl
/-- raw output: `[3, 1].select($ * 2)` is lazy, `[3, 1].toList()` a tuple, `[3, 1].insert(0, 0)` a list -/
example : runPipeLet { convertOutput := false } none [.select (.mul .arg 2)] (list [int 3, int 1]) = .ok (iter [int 6, int 2]) := by rfl
example : runPipeLet { convertOutput := false } none [.toList] (list [int 3, int 1]) = .ok (tuple [int 3, int 1]) := by rfl
example : runPipeLet { convertOutput := false } none [.insert 0 (int 0)] (list [int 3]) = .ok (list [int 0, int 3]) := by rfl
/-- `[[]].select($.first())`: StopIteration from `evaluate()`, the wrapper when the host consumes the raw result -/
example : runPipeLet {} none [.select (.first .arg none)] (list [list []]) = .error .stopIteration := by rfl
example : runPipeLet { convertOutput := false } none [.select (.first .arg none)] (list [list []]) = .error .wrappedStop := by rfl
/-- `no_sets`: `$.toSet()` / `isSet($.where(..))` -/
example : runPipeLet { noSets := true } none [.toSet] (list [int 1]) = .error .unknownMethod := by rfl
example : runPipeLet { noSets := true } none [.where_ (.first .arg none), .isSet] (list [list []]) = .error .unknownFunction := by rfl

end Yaql.Props.C13Opts
