import Yaql.Model.Resolve
/-!
Rows of the generated function registry (`Yaql/Gen/Registry.lean`, dumped from
`yaql.create_context()` by harness/gens/registry.py), the well-formedness predicate
of a definition's parameter table, and the naming convention
(`specs.convert_parameter_name` with `CamelCaseConvention`).
-/
namespace Yaql.Registry
open Yaql.Types Yaql.Resolve

structure RParam where
  key : Key
  name : Name
  alias : Option Name
  explicitAlias : Bool           -- an alias was given to @parameter / set_parameter
  position : Option Nat
  hasDefault : Bool
  tyClass : Name                 -- class name of the smart type (String, PythonType, AnyOf, ...)
  hidden : Bool
  lazy : Bool
deriving Repr, DecidableEq, Inhabited

structure RDef where
  name : Name
  isFunction : Bool
  isMethod : Bool
  noKwargs : Bool
  params : List RParam
deriving Repr, DecidableEq, Inhabited

/-- the row as a `Resolve.Param`; only the flags of the type matter for well-formedness -/
def RParam.toParam (p : RParam) : Param :=
  { key := p.key, name := p.name, alias := p.alias, position := p.position,
    default := if p.hasDefault then some (.value .none) else none,
    ty := if p.hidden then .hidden .context else if p.lazy then .lambda false else .py (.one 0) true [] }

/-! ### well-formed parameter tables -/

def positionals (ps : List Param) : List Param := ps.filter fun p => p.position.isSome && !p.isStar

def countPos (ps : List Param) (i : Nat) : Nat :=
  ((positionals ps).filter fun p => p.position == some i).length

def distinct : List Name → Bool
  | [] => true
  | a :: r => !r.contains a && distinct r

/-- names under which arguments can be passed: visible parameters other than `*` / `**` -/
def argNames (ps : List Param) : List Name :=
  (ps.filter fun p => !p.hidden && !p.isStar && !p.isStarStar).map (·.argName)

/-- `WFDef`: visible and hidden positional parameters occupy the positions 0..n-1 once each, the
    names arguments are passed by are pairwise distinct, there is at most one `*` (at position n)
    and at most one `**` (without a position), keyword-only parameters have no position -/
def wfDef (ps : List Param) : Bool :=
  let n := (positionals ps).length
  (List.range n).all (fun i => countPos ps i == 1) &&
  (positionals ps).all (fun p => match p.position with | some q => decide (q < n) | none => false) &&
  distinct (argNames ps) &&
  (ps.filter (·.isStar)).length ≤ 1 &&
  (ps.filter (·.isStarStar)).length ≤ 1 &&
  (ps.filter (·.isStar)).all (fun p => p.position == some n) &&
  (ps.filter (·.isStarStar)).all (fun p => p.position == none)

/-! ### argument slots -/

/-- the argument slot of a visible positional parameter -/
def slotOf (ps : List Param) (p : Param) : Option Nat :=
  match p.position with
  | some q => if p.isStar || p.hidden then none else some (q - fixAt ps q)
  | none => none

def hiddenPositional (p : Param) : Bool := p.position.isSome && !p.isStar && p.hidden

/-- number of argument slots owned by visible positional parameters -/
def visCount (ps : List Param) : Nat := positionalCount ps - (ps.filter hiddenPositional).length

/-- every visible positional parameter owns a slot below `visCount`, no other parameter owns the same
    slot or is passed under the same name: the side conditions of `C12.spelling_kw_move` /
    `spelling_default_move` hold for every parameter of the table -/
def movesOk (ps : List Param) : Bool :=
  (List.range ps.length).all fun i =>
    match ps[i]? with
    | some p =>
        match slotOf ps p with
        | some s =>
            decide (s < visCount ps) &&
            (ps.take i ++ ps.drop (i + 1)).all fun p' =>
              (slotOf ps p' != some s) && (p'.hidden || p'.argName != p.argName)
        | none => true
    | none => true

/-! ### the naming convention -/

def isWordChar (c : Char) : Bool := c.isAlphanum || c == '_'

/-- `re.sub(r'(?!^)_(\w)', lambda m: m.group(1).upper(), name)` on the rest of a name;
    `pending` = an underscore (not the first character) waits for its successor -/
def camelGo : Bool → List Char → List Char
  | false, [] => []
  | true, [] => ['_']
  | false, c :: r => if c == '_' then camelGo true r else c :: camelGo false r
  | true, c :: r => if isWordChar c then c.toUpper :: camelGo false r else '_' :: c :: camelGo false r

def toCamel : List Char → List Char
  | [] => []
  | c :: r => c :: camelGo false r

def rstripUnderscore (n : Name) : Name := (n.reverse.dropWhile (· == '_')).reverse

/-- `specs.convert_parameter_name(name, CamelCaseConvention())` -/
def conventionName (n : Name) : Name := toCamel (rstripUnderscore n)

def aliasOk (p : RParam) : Bool :=
  p.explicitAlias || p.alias == some (conventionName p.name)

end Yaql.Registry
