import Yaql.Model.PyPrelude
import Yaql.Model.Strings
/-!
The CPython `str` methods as primitives of the source translator: thin, argument-shaped wrappers
(optional arguments, defaults) around Part 1 of `Yaql.Model.Strings` (the hand-written model of
`find`/`rfind`/`strip`/`replace`/`split`/`join`, differentially tested against CPython by C19).
-/
namespace Yaql.PyStr
open Yaql.Strings

/-- `s.find(sub[, start[, stop]])` -/
def find (s sub : Str) (start stop : Option Int) : Int :=
  pyFind s sub (start.getD 0) (stop.getD s.length)

/-- `s.rfind(sub[, start[, stop]])` -/
def rfind (s sub : Str) (start stop : Option Int) : Int :=
  pyRfind s sub (start.getD 0) (stop.getD s.length)

/-- `s.strip(chars)` (`chars = None`: whitespace) -/
def strip (cfg : Cfg) (s : Str) (chars : Option Str) : Str := stripBy (stripClass cfg chars) s
def lstrip (cfg : Cfg) (s : Str) (chars : Option Str) : Str := lstripBy (stripClass cfg chars) s
def rstrip (cfg : Cfg) (s : Str) (chars : Option Str) : Str := rstripBy (stripClass cfg chars) s

/-- `s.replace(old, new, count)`: `count` is converted to a C `Py_ssize_t` first -/
def replace (s old new : Str) (count : Int) : Except Py.Err Str :=
  if Py.ssizeOk count then .ok (pyReplace s old new (limitOf count)) else .error .overflowError

/-- `s.split(sep, maxsplit)` -/
def split (cfg : Cfg) (s : Str) (sep : Option Str) (maxsplit : Int) : Except Py.Err (List Str) :=
  if !Py.ssizeOk maxsplit then .error .overflowError else
  match sep with
  | none => .ok (splitWs cfg.isSpace s (limitOf maxsplit))
  | some [] => .error .valueError
  | some sep => .ok (splitSep s sep (limitOf maxsplit))

/-- `s.rsplit(sep, maxsplit)` -/
def rsplit (cfg : Cfg) (s : Str) (sep : Option Str) (maxsplit : Int) : Except Py.Err (List Str) :=
  if !Py.ssizeOk maxsplit then .error .overflowError else
  match sep with
  | none => .ok (rsplitWs cfg.isSpace s (limitOf maxsplit))
  | some [] => .error .valueError
  | some sep => .ok (rsplitSep s sep (limitOf maxsplit))

/-- `sep.join(pieces)` -/
def join (sep : Str) (pieces : List Str) : Str := Yaql.Strings.join sep pieces

/-- `s.startswith(tuple_of_prefixes)` -/
def startswith (s : Str) (prefixes : List Str) : Bool := prefixes.any fun p => p.isPrefixOf s
/-- `s.endswith(tuple_of_suffixes)` -/
def endswith (s : Str) (suffixes : List Str) : Bool := suffixes.any fun p => p.isSuffixOf s

/-- `sub in s` -/
def contains (s sub : Str) : Bool := (findUp (occursAt s sub) 0 (s.length + 1)).isSome

/-- `a < b` on strings: lexicographic by code point -/
def lt (a b : Str) : Bool := ltStr a b
def gt (a b : Str) : Bool := ltStr b a
def le (a b : Str) : Bool := !ltStr b a
def ge (a b : Str) : Bool := !ltStr a b

def upper (cfg : Cfg) (s : Str) : Str := s.flatMap cfg.upper
def lower (cfg : Cfg) (s : Str) : Str := s.flatMap cfg.lower

/-- `value is None` / `is True` / `is False` on the values `str()` is applied to -/
def atomIsNone : Atom → Bool
  | .null => true
  | _ => false
def atomIsTrue : Atom → Bool
  | .bool true => true
  | _ => false
def atomIsFalse : Atom → Bool
  | .bool false => true
  | _ => false

/-- python `str(value)` -/
def pyStr : Atom → Str
  | .null => ['N', 'o', 'n', 'e']
  | .bool true => ['T', 'r', 'u', 'e']
  | .bool false => ['F', 'a', 'l', 's', 'e']
  | .int i => intDec i
  | .str s => s

/-- the error classes of the hand-written string model inside the translator's error enum -/
def liftErrClass : Yaql.Strings.Err → Py.Err
  | .valueError => .valueError
  | .typeError => .typeError
  | .noMatch => .other 1
  | .reError => .other 2
  | .unsupported => .other 3

def liftErr {α : Type} : Except Yaql.Strings.Err α → Except Py.Err α
  | .ok v => .ok v
  | .error e => .error (liftErrClass e)

end Yaql.PyStr
