import Yaql.Model.PyPrelude
import Yaql.Model.DateTime
/-!
Python's operators on `datetime.datetime` / `datetime.timedelta` values as primitives of the source translator:
`dt + td` is `Yaql.DateTime.pyAddTd`, `dt1 - dt2` is `pySubDt`, comparisons are `pyCmp` ... (the part of
`Yaql.Model.DateTime` that models CPython's `datetime` module).  A timespan is its number of microseconds.
-/
namespace Yaql.PyDt
open Yaql.DateTime

/-- a `datetime.timedelta`, as microseconds -/
abbrev TS := Int

def liftErrClass : Yaql.DateTime.Err → Py.Err
  | .overflowError => .overflowError
  | .valueError => .valueError
  | .typeError => .typeError
  | .zeroDivisionError => .zeroDivision
  | .osError => .other 31

def liftErr {α : Type} : Except Yaql.DateTime.Err α → Except Py.Err α
  | .ok v => .ok v
  | .error e => .error (liftErrClass e)

/-- `dt + td` -/
def addTd (d : DT) (t : TS) : Except Py.Err DT := liftErr (pyAddTd d t)
/-- `dt - td` (`datetime.__sub__` with a timedelta adds the negated delta) -/
def subTd (d : DT) (t : TS) : Except Py.Err DT := liftErr (pyAddTd d (-t))
/-- `dt1 - dt2` -/
def subDt (a b : DT) : Except Py.Err TS := liftErr (pySubDt a b)
/-- `dt1 OP dt2` -/
def cmp (op : CmpOp) (a b : DT) : Except Py.Err Bool := liftErr (pyCmp op a b)
/-- `td1 + td2`, `td1 - td2`, `-td`, `+td` -/
def tsAdd (a b : TS) : Except Py.Err TS := liftErr (Yaql.DateTime.tsAdd a b)
def tsSub (a b : TS) : Except Py.Err TS := liftErr (Yaql.DateTime.tsSub a b)
def tsNeg (a : TS) : Except Py.Err TS := liftErr (Yaql.DateTime.tsNeg a)
def tsPos (a : TS) : Except Py.Err TS := liftErr (Yaql.DateTime.tsPos a)
/-- `td1 OP td2` -/
def tsCmp (op : CmpOp) (a b : TS) : Bool := Yaql.DateTime.tsCmp op a b

end Yaql.PyDt
