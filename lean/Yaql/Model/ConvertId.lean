import Yaql.Model.Convert
/-!
`convert_input_data` / `convert_output_data` with **allocation identities** (C09).

`Convert.Py` describes a Python object by content only.  Aliasing ("the result *is* the host's list")
is a question about object identity, so here every container node carries the identity (`id`) of the
Python object it stands for: a heap-free approximation - a value is a tree of (identity, kind, content),
two occurrences of one identity are the same Python object.  A converter run is given the next free
identity `n` and returns the next free identity together with its result: every object the real code
*constructs* (`tuple(...)`, `FrozenDict(...)`, `frozenset(...)`, `map(...)`, `{}`, `set(...)`,
`list(...)`) takes a new identity; every object it *passes on* keeps the one it had.

`lazyMap id src l` is the `map(lambda v: rec(v, rec), obj)` object `convert_input_data` returns for an
iterable that is neither a `Sequence`, a `Mapping` nor a `MutableSet` (generators, `frozenset`, dict
views): a new object (`id`) that **holds the host object** `src` and converts its items on demand (`l` =
what pulling it yields).

`erase` forgets identities; `convInI` / `convOutI` erase to `Convert.convIn` / `Convert.convOut`
(`Props.C09.convInI_erase`, `convOutI_erase`), the model C10 ties to the real code.
-/
namespace Yaql.Convert

inductive Obj where
  | sc (s : Scalar)
  | seq (id : Nat) (k : SeqKind) (l : List Obj)
  | map (id : Nat) (k : MapKind) (kvs : List (Obj × Obj))
  | lazyMap (id : Nat) (src : Nat) (l : List Obj)
deriving Repr, Inhabited

mutual
def erase : Obj → Py
  | .sc s => .sc s
  | .seq _ k l => .seq k (eraseL l)
  | .map _ k kvs => .map k (eraseP kvs)
  | .lazyMap _ _ l => .seq .iter (eraseL l)
def eraseL : List Obj → List Py
  | [] => []
  | x :: xs => erase x :: eraseL xs
def eraseP : List (Obj × Obj) → List (Py × Py)
  | [] => []
  | (k, v) :: r => (erase k, erase v) :: eraseP r
end

mutual
/-- identities of all container objects of a value (the objects one could mutate / consume) -/
def nodeIds : Obj → List Nat
  | .sc _ => []
  | .seq id _ l => id :: nodeIdsL l
  | .map id _ kvs => id :: nodeIdsP kvs
  | .lazyMap id _ l => id :: nodeIdsL l
def nodeIdsL : List Obj → List Nat
  | [] => []
  | x :: xs => nodeIds x ++ nodeIdsL xs
def nodeIdsP : List (Obj × Obj) → List Nat
  | [] => []
  | (k, v) :: r => nodeIds k ++ nodeIds v ++ nodeIdsP r
end

mutual
/-- identities of objects a value holds a reference to without containing them as a node: the sources
    of its `lazyMap` objects -/
def srcRefs : Obj → List Nat
  | .sc _ => []
  | .seq _ _ l => srcRefsL l
  | .map _ _ kvs => srcRefsP kvs
  | .lazyMap _ src l => src :: srcRefsL l
def srcRefsL : List Obj → List Nat
  | [] => []
  | x :: xs => srcRefs x ++ srcRefsL xs
def srcRefsP : List (Obj × Obj) → List Nat
  | [] => []
  | (k, v) :: r => srcRefs k ++ srcRefs v ++ srcRefsP r
end

mutual
/-- opaque host objects (`Scalar.host`) occurring in a value: both converters pass them on as they are -/
def hostLeaves : Obj → List Nat
  | .sc (.host h) => [h]
  | .sc _ => []
  | .seq _ _ l => hostLeavesL l
  | .map _ _ kvs => hostLeavesP kvs
  | .lazyMap _ _ l => hostLeavesL l
def hostLeavesL : List Obj → List Nat
  | [] => []
  | x :: xs => hostLeaves x ++ hostLeavesL xs
def hostLeavesP : List (Obj × Obj) → List Nat
  | [] => []
  | (k, v) :: r => hostLeaves k ++ hostLeaves v ++ hostLeavesP r
end

/-- kinds that cannot be changed after construction -/
def SeqKind.isFrozen : SeqKind → Bool
  | .tuple | .fset => true
  | _ => false

mutual
/-- only tuples, frozensets, FrozenDicts and scalars, at every depth: nothing that could be updated in
    place, consumed, or that reflects a mutable host object -/
def frozen : Obj → Bool
  | .sc _ => true
  | .seq _ k l => k.isFrozen && frozenL l
  | .map _ k kvs => (match k with | .fdict => true | .dict => false) && frozenP kvs
  | .lazyMap _ _ _ => false
def frozenL : List Obj → Bool
  | [] => true
  | x :: xs => frozen x && frozenL xs
def frozenP : List (Obj × Obj) → Bool
  | [] => true
  | (k, v) :: r => frozen k && frozen v && frozenP r
end

/-- the container kinds `convert_input_data` copies eagerly: `Sequence` (tuple, list), `MutableSet` (set) -/
def SeqKind.isEager : SeqKind → Bool
  | .tuple | .list | .set => true
  | _ => false

mutual
/-- a host document in the sense of the property's quantifier: lists, tuples, dicts (FrozenDicts), sets
    and scalars at every depth - no generator, frozenset or dict view (those are wrapped lazily) -/
def eagerDoc : Obj → Bool
  | .sc _ => true
  | .seq _ k l => k.isEager && eagerDocL l
  | .map _ _ kvs => eagerDocP kvs
  | .lazyMap _ _ _ => false
def eagerDocL : List Obj → Bool
  | [] => true
  | x :: xs => eagerDoc x && eagerDocL xs
def eagerDocP : List (Obj × Obj) → Bool
  | [] => true
  | (k, v) :: r => eagerDoc k && eagerDoc v && eagerDocP r
end

/-! ## `convert_input_data` -/

mutual
/-- `convert_input_data(obj)`; `n` = next free identity.  Returns (result, next free identity). -/
def convInI (n : Nat) : Obj → Obj × Nat
  | .sc s => (.sc s, n)                                   -- str / non-iterable: `return obj`
  | .seq id k l =>
      let p := convInIL (n + 1) l
      (if inKind k == .iter then .lazyMap n id p.1        -- `map(lambda v: rec(v, rec), obj)` holds `obj`
       else .seq n (inKind k) p.1,                        -- `tuple(...)` / `frozenset(...)`
       p.2)
  | .map _ _ kvs =>
      let p := convInIP (n + 1) kvs
      (.map n .fdict p.1, p.2)                            -- `FrozenDict(...)`
  | .lazyMap id _ l =>
      let p := convInIL (n + 1) l
      (.lazyMap n id p.1, p.2)                            -- a `map` object is just another iterable
def convInIL (n : Nat) : List Obj → List Obj × Nat
  | [] => ([], n)
  | x :: xs =>
      let a := convInI n x
      let b := convInIL a.2 xs
      (a.1 :: b.1, b.2)
def convInIP (n : Nat) : List (Obj × Obj) → List (Obj × Obj) × Nat
  | [] => ([], n)
  | (k, v) :: r =>
      let a := convInI n k
      let b := convInI a.2 v
      let c := convInIP b.2 r
      ((a.1, b.1) :: c.1, c.2)
end

/-! ## `convert_output_data` -/

def hashableO (x : Obj) : Bool := hashable (erase x)

mutual
/-- `convert_output_data(obj, limit_func, engine)`; `n` = next free identity -/
def convOutI (o : Opts) (lim : Limit) (n : Nat) : Obj → Except Err (Obj × Nat)
  | .sc s => .ok (.sc s, n)                               -- `else: return obj`
  | .map _ _ kvs =>
      if lim.admits kvs.length then
        match convPairsI o lim (n + 1) kvs with
        | .ok p => .ok (.map n .dict p.1, p.2)            -- `result = {}`
        | .error e => .error e
      else .error .tooLarge
  | .seq _ k l =>
      if k.isView then
        if lim.admits l.length then
          match convElemsI o lim false none (n + 1) l with
          | .ok p => .ok (.seq n .list p.1, p.2)                                 -- keys() / items(): `list(...)`
          | .error e => .error e
        else .error .tooLarge
      else if k.isSetLike then
        if lim.admits l.length then
          match convElemsI o lim (!o.s2l) none (n + 1) l with
          | .ok p => .ok (.seq n (if o.s2l then .list else .set) p.1, p.2)      -- `set_type(...)`
          | .error e => .error e
        else .error .tooLarge
      else if k.isSeq then
        if lim.admits l.length then
          match convElemsI o lim false none (n + 1) l with
          | .ok p => .ok (.seq n (if o.t2l then .list else k) p.1, p.2)         -- `seq_type(...)`
          | .error e => .error e
        else .error .tooLarge
      else
        match convElemsI o lim false lim (n + 1) l with
        | .ok p => .ok (.seq n .list p.1, p.2)                                   -- `list(...)`
        | .error e => .error e
  | .lazyMap _ _ l =>
      match convElemsI o lim false lim (n + 1) l with
      | .ok p => .ok (.seq n .list p.1, p.2)
      | .error e => .error e
def convElemsI (o : Opts) (lim : Limit) (needHash : Bool) :
    Option Nat → Nat → List Obj → Except Err (List Obj × Nat)
  | _, n, [] => .ok ([], n)
  | b, n, x :: xs =>
      if b == some 0 then .error .tooLarge else
      match convOutI o lim n x with
      | .error e => .error e
      | .ok a =>
          if needHash && !hashableO a.1 then .error .unhashable else
          match convElemsI o lim needHash (b.map (· - 1)) a.2 xs with
          | .error e => .error e
          | .ok r => .ok (a.1 :: r.1, r.2)
def convPairsI (o : Opts) (lim : Limit) : Nat → List (Obj × Obj) → Except Err (List (Obj × Obj) × Nat)
  | n, [] => .ok ([], n)
  | n, (k, v) :: r =>
      match convOutI o lim n v with
      | .error e => .error e
      | .ok a =>
          match convOutI o lim a.2 k with
          | .error e => .error e
          | .ok b =>
              if !hashableO b.1 then .error .unhashable else
              match convPairsI o lim b.2 r with
              | .error e => .error e
              | .ok c => .ok ((b.1, a.1) :: c.1, c.2)
end

/-! ## the two ends of `Statement.evaluate` -/

/-- `context['$'] = utils.convert_input_data(data)` if `yaql.convertInputData` else `context['$'] = data`:
    with conversion off the host's own object is what the expression sees -/
def bindDollar (convertInput : Bool) (n : Nat) (data : Obj) : Obj × Nat :=
  if convertInput then convInI n data else (data, n)

/-- the default `#finalize` (`yaql/__init__.py:_setup_context`): `convert_output_data` unless
    `yaql.convertOutputData` is switched off, in which case the value is handed out **as it is** -/
def finalize (convertOutput : Bool) (o : Opts) (lim : Limit) (n : Nat) (v : Obj) : Except Err (Obj × Nat) :=
  if convertOutput then convOutI o lim n v else .ok (v, n)

/-- one evaluation seen from the host: bind `$`, run the expression (`f`: any function of the value bound
    to `$` that allocates upwards - it may return that value, parts of it, or new containers around
    them), finalise -/
def hostEval (convertInput convertOutput : Bool) (o : Opts) (lim : Limit)
    (f : Obj → Nat → Obj × Nat) (n : Nat) (data : Obj) : Except Err (Obj × Nat) :=
  let b := bindDollar convertInput n data
  let r := f b.1 b.2
  finalize convertOutput o lim r.2 r.1

end Yaql.Convert
