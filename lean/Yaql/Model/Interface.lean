import Yaql.Model.ResolveCtx
/-!
`yaql/yaql_interface.py`: the HOST entry point for calling functions by name.

    class YaqlInterface:
        def __init__(self, context, engine, receiver=utils.NO_VALUE): ...
        def on(self, receiver): return YaqlInterface(self.context, self.engine, receiver)
        def __getattr__(self, item):
            def stub(*args, **kwargs):
                ... self.context(item, self.engine, self.sender)(*args, **kwargs) ...
            return stub

An interface is a VALUE: a context and a receiver (`sender`; `none` = NO_VALUE).  `on` makes a new value
and leaves the old one alone; `yi.name(..)` is `runner.call(name, context, args, kwargs, engine, sender)` -
a function call when the interface has no receiver, a method call on its receiver otherwise.  A function
with a hidden `yaql_interface` parameter is handed `YaqlInterface(child of the calling context, engine,
receiver of that call)` (`yaqltypes.YaqlInterface.convert`, `FunctionDefinition.get_delegate`).

`IOp` / `istep` / `itranscript`: histories that mix changes of the forest, creation of interfaces
(`YaqlInterface(..)`, injection, `on`) and calls through any interface made so far.  `Stub` at the end is
the contrasting design: an interface family that shares one table of per-name stubs, each stub bound
to the interface that first asked for the name.
-/
namespace Yaql.Interface
open Yaql.Types Yaql.Resolve Yaql.ResolveCtx

structure Yi where
  ctx : Yaql.Context.Shape  -- the context OBJECT (a reference: contexts made later do not renumber it)
  sender : Option Val       -- `none` = NO_VALUE
deriving Repr, Inhabited

/-- `yi.on(receiver)` -/
def Yi.on (y : Yi) (r : Val) : Yi := { y with sender := some r }

/-- `yi.name(*args, **kwargs)` up to the point where the delegate is invoked -/
def Yi.call (L : Lattice) (defs : Defs) (st : St) (y : Yi) (name : CName) (args : List Arg) (kw : KwArgs) :
    Outcome :=
  resolveAt L defs st.cells y.ctx name { receiver := y.sender, args := args, kwargs := kw }

inductive IOp where
  /-- a change of the forest (`register_function`, `delete_function`, new contexts) -/
  | ctx (op : Op)
  /-- `YaqlInterface(ctxs[i], engine, receiver)` made by the host -/
  | mk (i : Nat) (receiver : Option Val)
  /-- the hidden `yaql_interface` parameter of a function called from `ctxs[i]` with `receiver`:
      `YaqlInterface(ctxs[i].create_child_context(), engine, receiver)` -/
  | inject (i : Nat) (receiver : Option Val)
  /-- `yis[k].on(r)` -/
  | on (k : Nat) (r : Val)
  /-- `yis[k].name(*args, **kw)` -/
  | call (k : Nat) (name : CName) (args : List Arg) (kw : KwArgs)

structure ISt where
  st : St := {}
  yis : List Yi := []
deriving Inhabited

def istep (L : Lattice) (defs : Defs) (s : ISt) : IOp → ISt × Option Outcome
  | .ctx op => ({ s with st := step s.st op }, none)
  | .mk i r =>
      match s.st.ctx i with
      | some sh => ({ s with yis := s.yis ++ [⟨sh, r⟩] }, none)
      | none => (s, none)
  | .inject i r =>
      -- the child context is private to the invocation: it is no handle of the forest; when
      -- `create_child_context` raises there is no call at all
      match s.st.ctx i with
      | none => (s, none)
      | some sh =>
          match Yaql.Context.createChild s.st.cells.length sh with
          | .ok c true => ({ st := { s.st with cells := s.st.cells ++ [{}] }, yis := s.yis ++ [⟨c, r⟩] }, none)
          | .ok c false => ({ s with yis := s.yis ++ [⟨c, r⟩] }, none)
          | .typeError => (s, none)
  | .on k r =>
      match s.yis[k]? with
      | some y => ({ s with yis := s.yis ++ [y.on r] }, none)
      | none => (s, none)
  | .call k name args kw =>
      match s.yis[k]? with
      | some y => (s, some (y.call L defs s.st name args kw))
      | none => (s, none)

def irun (L : Lattice) (defs : Defs) (s : ISt) (ops : List IOp) : ISt :=
  ops.foldl (fun s op => (istep L defs s op).1) s

/-- the outcomes of the calls of a history, in order -/
def itranscript (L : Lattice) (defs : Defs) : ISt → List IOp → List Outcome
  | _, [] => []
  | s, op :: r =>
      match (istep L defs s op).2 with
      | some o => o :: itranscript L defs (istep L defs s op).1 r
      | none => itranscript L defs (istep L defs s op).1 r

/-! ### the contrasting design: stubs cached by name, shared by an interface family

`stubs` maps a function name to the interface that FIRST asked for it; `on` hands the table on, so all
interfaces derived from one base share it.  (One family suffices for the contrast.) -/

structure Stub where
  st : St
  stubs : List (CName × Yi) := []

def Stub.find (m : Stub) (n : CName) : Option Yi := (m.stubs.find? (·.1 == n)).map (·.2)

/-- `yi.name(..)` in the caching design: the stub of the name is made by the first interface that asks -/
def Stub.call (L : Lattice) (defs : Defs) (m : Stub) (y : Yi) (name : CName) (args : List Arg) (kw : KwArgs) :
    Stub × Outcome :=
  match m.find name with
  | some y0 => (m, y0.call L defs m.st name args kw)
  | none => ({ m with stubs := m.stubs ++ [(name, y)] }, y.call L defs m.st name args kw)

/-- a sequence of calls `(interface, name, args)` through one family -/
def Stub.transcript (L : Lattice) (defs : Defs) : Stub → List (Yi × CName × List Arg) → List Outcome
  | _, [] => []
  | m, (y, n, a) :: r => (m.call L defs y n a []).2 :: Stub.transcript L defs (m.call L defs y n a []).1 r

end Yaql.Interface
