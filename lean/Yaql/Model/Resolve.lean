import Yaql.Model.Types
/-!
Model of overload resolution: `specs.py:FunctionDefinition.map_args/get_delegate`,
`runner.py:call/choose_overload/translate_args/_is_specialization_of`, and the layer
walk of `contexts.py:ContextBase.collect_functions`, as the code is now (after the
repair of the winner selection and of `PythonType.is_specialization_of`).

Dicts are insertion-ordered association lists.  The one place where the model
normalises a dict is the keyword part of a mapping (`map_args` result): it is
listed in the order of the call's keyword arguments.  After a successful
`map_args` its key set IS the set of the call's keyword names (every keyword is
consumed by a named parameter or by `**`), and its order is not observable.
-/
namespace Yaql.Resolve
open Yaql.Types

inductive Key where
  | name (n : Name)
  | star
  | starstar
deriving Repr, DecidableEq, Inhabited

/-- `specs.ParameterDefinition` plus its key in `FunctionDefinition.parameters` -/
structure Param where
  key : Key
  name : Name
  alias : Option Name          -- `none` also for the empty alias (`p.alias or p.name`)
  position : Option Nat
  default : Option Arg         -- `none` = NO_DEFAULT
  ty : PTy
deriving Repr, DecidableEq, Inhabited

def Param.argName (p : Param) : Name := p.alias.getD p.name
def Param.hidden (p : Param) : Bool := p.ty.isHidden
def Param.isStar (p : Param) : Bool := p.key == .star
def Param.isStarStar (p : Param) : Bool := p.key == .starstar

structure FDef where
  id : Nat
  isFunction : Bool
  isMethod : Bool
  noKwargs : Bool
  params : List Param          -- `parameters.values()` in dict order
deriving Repr, DecidableEq, Inhabited

abbrev KwArgs := List (Name × Arg)

/-! ### association lists -/

def alookup (k : Name) : List (Name × α) → Option α
  | [] => none
  | (k', v) :: r => if k' == k then some v else alookup k r

def aset (k : Name) (v : α) : List (Name × α) → List (Name × α)
  | [] => [(k, v)]
  | (k', v') :: r => if k' == k then (k', v) :: r else (k', v') :: aset k v r

def ahas (k : Name) (l : List (Name × α)) : Bool := l.any (·.1 == k)
def adel (k : Name) (l : List (Name × α)) : List (Name × α) := l.filter (fun p => !(p.1 == k))

/-! ### shared by map_args and get_delegate -/

/-- `positional_fix_table[i]`: hidden positional parameters left of position `i` -/
def fixAt (ps : List Param) (i : Nat) : Nat :=
  (ps.filter fun p => p.hidden && (match p.position with | some q => decide (q < i) | none => false)).length

def starParam (ps : List Param) : Option Param := ps.find? (·.isStar)
def starStarParam (ps : List Param) : Option Param := ps.find? (·.isStarStar)

/-- `i < len(args) and args[i] is not NO_VALUE` -/
def given (args : List Arg) (i : Nat) : Bool :=
  match args[i]? with
  | some a => !a.isNoValue
  | none => false

/-! ### map_args -/

structure MapSt where
  pos : List (Option Param)        -- `positional_args` (`none` = NO_VALUE placeholder)
  kwd : List (Name × Param)        -- `keyword_args`
  rest : KwArgs                    -- the local copy of `kwargs` that is consumed
deriving Repr

/-- one iteration of `for key, p in self.parameters.items()`; `none` = `return None` -/
def mapStep (ps : List Param) (args : List Arg) (st : MapSt) (p : Param) : Option MapSt :=
  let an := p.argName
  match p.position with
  | some q =>
      if p.isStar then some st
      else if p.hidden then some st
      else
        let ap := q - fixAt ps q
        if given args ap then
          if ahas an st.rest then none
          else some { st with pos := st.pos.set ap (some p) }
        else if ahas an st.rest then
          some { st with kwd := aset an p st.kwd, rest := adel an st.rest }
        else if p.default.isNone then none
        else if ap < args.length then some { st with pos := st.pos.set ap (some p) }
        else some st
  | none =>
      if p.isStarStar then some st
      else if p.hidden then some st
      else if ahas an st.rest then
        some { st with kwd := aset an p st.kwd, rest := adel an st.rest }
      else if p.default.isNone then none
      else some st

def mapLoop (ps : List Param) (args : List Arg) : MapSt → List Param → Option MapSt
  | st, [] => some st
  | st, p :: r => match mapStep ps args st p with
      | some st' => mapLoop ps args st' r
      | none => none

/-- the final loop over `positional_args`: every slot is claimed and its (unevaluated)
    argument - or the parameter's default for an empty slot - passes `check` -/
def posOk (L : Lattice) : List (Option Param) → List Arg → Bool
  | [], _ => true
  | none :: _, _ => false
  | some _ :: _, [] => false
  | some p :: r, a :: as =>
      let v := if a.isNoValue then p.default.getD .noValue else a
      check L p.ty v && posOk L r as

def checkOpt (L : Lattice) (o : Option Param) (a : Arg) : Bool :=
  match o with
  | some p => check L p.ty a
  | none => false

structure Mapping where
  pos : List Param
  kwd : List (Name × Param)        -- in the order of the call's keyword arguments
deriving Repr, DecidableEq, Inhabited

/-- `FunctionDefinition.map_args(args, kwargs, context, engine)` -/
def mapArgs (L : Lattice) (ps : List Param) (args : List Arg) (kwargs : KwArgs) : Option Mapping :=
  let st0 : MapSt := { pos := List.replicate args.length (starParam ps), kwd := [], rest := kwargs }
  match mapLoop ps args st0 ps with
  | none => none
  | some st =>
      let kwd? : Option (List (Name × Param)) :=
        if st.rest.isEmpty then some st.kwd
        else match starStarParam ps with
          | some sp => some (st.rest.foldl (fun acc kv => aset kv.1 sp acc) st.kwd)
          | none => none
      match kwd? with
      | none => none
      | some kwd =>
          if !posOk L st.pos args then none
          else if !(st.rest.all fun kv => checkOpt L (alookup kv.1 kwd) kv.2) then none
          else some { pos := st.pos.filterMap id,
                      kwd := kwargs.filterMap fun kv => (alookup kv.1 kwd).map fun p => (kv.1, p) }

/-! ### get_delegate -/

inductive Slot where
  | hid (h : PTy)                  -- a hidden parameter: filled by `convert` from context/engine/receiver
  | arg (a : Arg)
deriving Repr, DecidableEq, Inhabited

/-- what the payload is going to be called with -/
structure Bound where
  pos : List (Option Slot)         -- `positional_args` by parameter position
  extra : List Arg                 -- the part that goes to `*args`
  kw : List (Name × Slot)          -- `keyword_args`
deriving Repr, DecidableEq, Inhabited

structure DelSt where
  pos : List (Option Slot)
  kw : List (Name × Slot)
  rest : KwArgs
  vis : Nat                        -- `positional` after the `-= 1` for hidden parameters
deriving Repr

def checked (L : Lattice) (p : Param) (a : Arg) : Option Slot :=
  if check L p.ty a then some (.arg a) else none

def delegStep (L : Lattice) (ps : List Param) (args : List Arg) (st : DelSt) (p : Param) : Option DelSt :=
  let an := p.argName
  match p.position with
  | some q =>
      if p.isStar then some st
      else if p.hidden then some { st with pos := st.pos.set q (some (.hid p.ty)), vis := st.vis - 1 }
      else
        let ap := q - fixAt ps q
        if given args ap then
          if ahas an st.rest then none
          else (checked L p (args.getD ap .noValue)).map fun s => { st with pos := st.pos.set q (some s) }
        else match alookup an st.rest with
          | some a => (checked L p a).map fun s =>
              { st with pos := st.pos.set q (some s), rest := adel an st.rest }
          | none => match p.default with
              | some d => (checked L p d).map fun s => { st with pos := st.pos.set q (some s) }
              | none => none
  | none =>
      if p.isStarStar then some st
      else if p.hidden then some { st with kw := aset p.name (.hid p.ty) st.kw }
      else match alookup an st.rest with
        | some a => (checked L p a).map fun s =>
            { st with kw := aset p.name s st.kw, rest := adel an st.rest }
        | none => match p.default with
            | some d => (checked L p d).map fun s => { st with kw := aset p.name s st.kw }
            | none => none

def delegLoop (L : Lattice) (ps : List Param) (args : List Arg) : DelSt → List Param → Option DelSt
  | st, [] => some st
  | st, p :: r => match delegStep L ps args st p with
      | some st' => delegLoop L ps args st' r
      | none => none

def positionalCount (ps : List Param) : Nat :=
  (ps.filter fun p => p.position.isSome && !p.isStar).length

/-- `FunctionDefinition.get_delegate(receiver, engine, context, args, kwargs)`;
    `none` = ArgumentException -/
def getDelegate (L : Lattice) (ps : List Param) (args : List Arg) (kwargs : KwArgs) : Option Bound :=
  let n := positionalCount ps
  let st0 : DelSt := { pos := List.replicate n none, kw := [], rest := kwargs, vis := n }
  match delegLoop L ps args st0 ps with
  | none => none
  | some st =>
      let extra? : Option (List Arg) :=
        if args.length > st.vis then
          match starParam ps with
          | some sp => if (args.drop st.vis).all (check L sp.ty) then some (args.drop st.vis) else none
          | none => none
        else some []
      match extra? with
      | none => none
      | some extra =>
          if st.rest.isEmpty then some { pos := st.pos, extra := extra, kw := st.kw }
          else match starStarParam ps with
            | some sp =>
                if st.rest.all (fun kv => check L sp.ty kv.2) then
                  some { pos := st.pos, extra := extra,
                         kw := st.rest.foldl (fun acc kv => aset kv.1 (.arg kv.2) acc) st.kw }
                else none
            | none => none

/-! ### runner.py -/

inductive Err where
  | unknown              -- NoFunctionRegistered / NoMethodRegistered
  | noMatching           -- NoMatchingFunction / NoMatchingMethod
  | ambiguous            -- AmbiguousFunction / AmbiguousMethod
  | argument             -- ArgumentException out of translate_args (keywords to a no_kwargs function)
  | mappingTranslation   -- MappingTranslationException
deriving Repr, DecidableEq, Inhabited

structure Outcome where
  log : List Nat                           -- probes fired by argument evaluation, in order
  res : Except Err (Nat × Bound)           -- chosen overload id and what it is called with
deriving Repr

instance : DecidableEq (Except Err (Nat × Bound)) := fun a b =>
  match a, b with
  | .ok x, .ok y => if h : x = y then isTrue (by rw [h]) else isFalse (fun e => h (by cases e; rfl))
  | .error x, .error y => if h : x = y then isTrue (by rw [h]) else isFalse (fun e => h (by cases e; rfl))
  | .ok _, .error _ => isFalse (fun e => by cases e)
  | .error _, .ok _ => isFalse (fun e => by cases e)

instance : DecidableEq Outcome := fun a b =>
  if h : a.log = b.log ∧ a.res = b.res then isTrue (by cases a; cases b; cases h; simp_all)
  else isFalse (fun e => h (by rw [e]; exact ⟨rfl, rfl⟩))

/-- one context of the chain: the overloads registered under the (right-stripped) name and
    whether the name is in `_exclusive_funcs` -/
structure Layer where
  fns : List FDef
  exclusive : Bool
deriving Repr, Inhabited

structure Call where
  receiver : Option Val        -- `none` = NO_VALUE (function syntax)
  args : List Arg
  kwargs : KwArgs              -- Python-level keywords (`call()`, host callers)
deriving Repr, Inhabited

/-- the predicate of `runner.call` -/
def kindOk (method : Bool) (f : FDef) : Bool := if method then f.isMethod else f.isFunction

/-- `context.collect_functions(name, predicate)` over the chain, nearest first -/
def collect (method : Bool) : List Layer → List (List FDef)
  | [] => []
  | l :: r =>
      let fs := l.fns.filter (kindOk method)
      let rest := if l.exclusive then [] else collect method r
      if fs.isEmpty then rest else fs :: rest

/-- `translate_args(without_kwargs, args, kwargs)` -/
def translatePos : List Arg → List Arg → KwArgs → Except Err (List Arg × KwArgs)
  | [], pos, kw => .ok (pos.reverse, kw)
  | .mapRule s d _ _ :: r, pos, kw =>
      match s with
      | .const _ _ (some n) _ => translatePos r pos (aset n d kw)
      | _ => .error .mappingTranslation
  | a :: r, pos, kw => translatePos r (a :: pos) kw

def mergeKw : KwArgs → KwArgs → Except Err KwArgs
  | [], kw => .ok kw
  | (k, v) :: r, kw => if ahas k kw then .error .mappingTranslation else mergeKw r (kw ++ [(k, v)])

def translateArgs (withoutKwargs : Bool) (args : List Arg) (kwargs : KwArgs) :
    Except Err (List Arg × KwArgs) :=
  if withoutKwargs then
    if kwargs.isEmpty then .ok (args, []) else .error .argument
  else match translatePos args [] [] with
    | .error e => .error e
    | .ok (pos, kw) => match mergeKw kwargs kw with
        | .error e => .error e
        | .ok kw' => .ok (pos, kw')

/-- the `lazy` set of one mapping, as membership vectors over the positions and over the
    call's keywords -/
structure LazySig where
  pos : List Bool
  kw : List Bool
deriving Repr, DecidableEq, Inhabited

def Mapping.lazySig (m : Mapping) : LazySig :=
  { pos := m.pos.map (·.ty.isLazy), kw := m.kwd.map (·.2.ty.isLazy) }

structure Cand where
  fd : FDef
  mapping : Mapping
deriving Repr, DecidableEq, Inhabited

def Cand.sig (c : Cand) : LazySig := c.mapping.lazySig

/-- inner loop of the first pass: `for c in level`; the state is `lazy_params` -/
def mapLevel (L : Lattice) (args : List Arg) (kw : KwArgs) :
    Option LazySig → List FDef → Except Err (Option LazySig × List Cand)
  | lz, [] => .ok (lz, [])
  | lz, c :: r =>
      match mapArgs L c.params args kw with
      | none => mapLevel L args kw lz r
      | some m =>
          match lz with
          | some s =>
              if s != m.lazySig then .error .ambiguous
              else match mapLevel L args kw lz r with
                | .error e => .error e
                | .ok (lz', cs) => .ok (lz', ⟨c, m⟩ :: cs)
          | none =>
              match mapLevel L args kw (some m.lazySig) r with
              | .error e => .error e
              | .ok (lz', cs) => .ok (lz', ⟨c, m⟩ :: cs)

/-- outer loop of the first pass: `for level in candidates` -/
def mapLevels (L : Lattice) (args : List Arg) (kw : KwArgs) :
    Option LazySig → List (List FDef) → Except Err (Option LazySig × List (List Cand))
  | lz, [] => .ok (lz, [])
  | lz, lv :: r =>
      match mapLevel L args kw lz lv with
      | .error e => .error e
      | .ok (lz', cs) =>
          match mapLevels L args kw lz' r with
          | .error e => .error e
          | .ok (lz'', css) => .ok (lz'', if cs.isEmpty then css else cs :: css)

/-- `arg_evaluator` over the positional arguments -/
def evalPos : List Bool → List Arg → List Arg × List Nat
  | _, [] => ([], [])
  | lz, a :: r =>
      let isLazy := lz.headD false
      let (as, lg) := evalPos lz.tail r
      if !isLazy && a.evaluable then (a.evaluated :: as, a.evalLog ++ lg) else (a :: as, lg)

def evalKw : List Bool → KwArgs → KwArgs × List Nat
  | _, [] => ([], [])
  | lz, (k, a) :: r =>
      let isLazy := lz.headD false
      let (as, lg) := evalKw lz.tail r
      if !isLazy && a.evaluable then ((k, a.evaluated) :: as, a.evalLog ++ lg) else ((k, a) :: as, lg)

/-- body of the two loops of `_is_specialization_of`; the accumulator is `res` -/
def specLoop (L : Lattice) : List (PTy × PTy) → Bool → Bool
  | [], res => res
  | (t1, t2) :: r, res =>
      if isSpecializationOf L t2 t1 then false
      else if isSpecializationOf L t1 t2 then specLoop L r true
      else specLoop L r res

def Mapping.typePairs (m1 m2 : Mapping) : List (PTy × PTy) :=
  (m1.pos.zip m2.pos).map (fun p => (p.1.ty, p.2.ty)) ++
  (m1.kwd.zip m2.kwd).map (fun p => (p.1.2.ty, p.2.2.ty))

/-- `_is_specialization_of(mapping1, mapping2)` -/
def isSpecM (L : Lattice) (m1 m2 : Mapping) : Bool := specLoop L (m1.typePairs m2) false

structure Match where
  cand : Cand
  bound : Bound
deriving Repr, DecidableEq, Inhabited

/-- `all(other is mapping or _is_specialization_of(mapping, other) for _, other in matches)` -/
def allSpec (L : Lattice) (m : Match) : List Match → Bool
  | [] => true
  | o :: r =>
      if o.cand.fd.id == m.cand.fd.id then allSpec L m r
      else if isSpecM L m.cand.mapping o.cand.mapping then allSpec L m r
      else false

/-- the list comprehension `winners = [...]` -/
def winners (L : Lattice) (ms : List Match) : List Match → List Match
  | [] => []
  | m :: r => if allSpec L m ms then m :: winners L ms r else winners L ms r

def matchesOf (L : Lattice) (args : List Arg) (kw : KwArgs) (cs : List Cand) : List Match :=
  cs.filterMap fun c => (getDelegate L c.fd.params args kw).map fun b => ⟨c, b⟩

/-- second pass: `for level in candidates2` -/
def selectLevel (L : Lattice) (args : List Arg) (kw : KwArgs) :
    List (List Cand) → Except Err (Nat × Bound)
  | [] => .error .noMatching
  | lv :: r =>
      let ms := matchesOf L args kw lv
      if ms.isEmpty then selectLevel L args kw r
      else match winners L ms ms with
        | [w] => .ok (w.cand.fd.id, w.bound)
        | _ => .error .ambiguous

/-- `if receiver is not utils.NO_VALUE: args = (receiver,) + args` -/
def callArgs (c : Call) : List Arg :=
  match c.receiver with
  | some r => .value r :: c.args
  | none => c.args

/-- `choose_overload(name, candidates, engine, receiver, context, args, kwargs)` -/
def chooseOverload (L : Lattice) (cands : List (List FDef)) (c : Call) : Outcome :=
  let args0 := callArgs c
  let flags := cands.flatten.map (·.noKwargs)
  if flags.any id && flags.any (!·) then ⟨[], .error .ambiguous⟩
  else match translateArgs (flags.headD false) args0 c.kwargs with
    | .error e => ⟨[], .error e⟩
    | .ok (args, kw) =>
        match mapLevels L args kw none cands with
        | .error e => ⟨[], .error e⟩
        | .ok (lz, cands2) =>
            if cands2.isEmpty then ⟨[], .error .noMatching⟩
            else
              let sig := lz.getD default
              let (args', lg1) := evalPos sig.pos args
              let (kw', lg2) := evalKw sig.kw kw
              ⟨lg1 ++ lg2, selectLevel L args' kw' cands2⟩

/-- `runner.call(name, context, args, kwargs, engine, receiver)` up to the point where
    the delegate is invoked -/
def resolve (L : Lattice) (layers : List Layer) (c : Call) : Outcome :=
  let cands := collect c.receiver.isSome layers
  if cands.isEmpty then ⟨[], .error .unknown⟩ else chooseOverload L cands c

end Yaql.Resolve
