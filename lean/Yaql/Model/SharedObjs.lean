import Yaql.Model.Sched
/-!
Small-step model of everything in yaql that carries state between calls (property C18), as an
instance of `Yaql.Sched.Machine`.

Shared component (`Shared = Base × Cache`):
* `Base` - what evaluation may only read: the frozen documents (a `FrozenDict` is represented by
  the hashes of its `(key, value)` pairs in iteration order), the function definitions, the lazy
  objects somebody stored in the shared context (`heap`; the property's setting has none), and a
  per-definition scratch slot that only the `ParkMode.onDefinition` variant writes;
* `Cache` - the memo tables evaluation may fill: `FrozenDict._hash` (key `hash d`) and the three
  module-level caches of `yaql.eval` (`_cached_engine`, `_cached_expressions[text]`,
  `_default_context`).  `entry b k` is THE value of key `k` - entries are a function of their key.

Private component (`PState`): the evaluation's own context id, the lazy objects it created
(`heap`), its remaining program, the locals of the operation in progress (`pend`), its outputs.

One step = the code between two scheduling points of the harness: a function dispatch
(`yaql.language.runner.call` entry), an iterator step of an instrumented source, a `__hash__` of a
key object, the entry of `YaqlFactory.create` / engine `__call__` / `create_context` in `yaql.eval`.

The stateful lazy objects, mirrored branch by branch:
* `OrderingIterable` (queries.py:31-88; `order_by`, `then_by`): `collection`, `order`, `sorted`,
  and the `context` attribute `then_by` stores on it;
* `GroupAggregator` (queries.py:847-907): `aggregator`, `allow_fallback`, `_failure_info`;
* `utils.memorize` (utils.py:156-181): the closure cell `yielded` + the wrapped iterator (`src`,
  `pos`), and one `index` per `RememberingIterator` instance (`indexes`).
-/
namespace Yaql.SharedObjs
open Yaql.Sched

inductive Ref where
  | own (i : Nat)        -- an object created by this evaluation (reachable from its locals only)
  | shared (i : Nat)     -- an object stored in the shared context
deriving DecidableEq, Repr

def Ref.isOwn : Ref → Bool
  | .own _ => true
  | .shared _ => false

abbrev Row := Int × Int

/-- key selector lambdas of `orderBy` / `thenBy` -/
inductive Sel where
  | fst | snd | sum
deriving DecidableEq, Repr

def Sel.apply : Sel → Row → Int
  | .fst, r => r.1
  | .snd, r => r.2
  | .sum, r => r.1 + r.2

inductive Err where
  | noMatching | indexError | typeError | badRef
deriving DecidableEq, Repr

/-- aggregator lambdas of `groupBy` (what they do on a value list = 1.1.1+ style, and on a
    `(key, value list)` item = pre-1.1.1 style) -/
inductive AggFn where
  | none | sum | legacy | head2 | flaky
deriving DecidableEq, Repr

inductive AggVal where
  | scalar (v : Int)
  | seq (vs : List Int)
deriving DecidableEq, Repr

inductive Obj where
  | ordering (coll : List Row) (order : List (Sel × Bool)) (sorted : Option (List Row)) (ctx : Option Nat)
  | aggregator (agg : AggFn) (allowFallback : Bool) (failure : Option Err)
  | memo (src : List Int) (pos : Nat) (yielded : List Int) (indexes : List Nat)
deriving DecidableEq, Repr

inductive Op where
  | orderBy (coll : List Row) (sel : Sel) (asc : Bool)
  | thenBy (r : Ref) (sel : Sel) (asc : Bool)
  | iterate (r : Ref)
  | memorize (src : List Int)
  | memoIter (r : Ref)
  | memoNext (r : Ref) (k : Nat)
  | aggNew (agg : AggFn) (fallback : Bool)
  | aggCall (r : Ref) (key : Int) (values : List Int)
  | hash (d : Nat)
  | evalCached (text : Nat)
  | call (f : Nat) (x : Int)
deriving DecidableEq, Repr

inductive Out where
  | made (i : Nat)
  | rows (rs : List Row)
  | val (v : Int)
  | stop
  | err (e : Err)
  | item (key : Int) (values : List Int)
  | group (key : Int) (v : AggVal)
  | legacyPair (a b : Int)
  | evald (expr ctx : Int)
deriving DecidableEq, Repr

/-- locals of the operation in progress (what lives on the Python stack of the call) -/
inductive Pend where
  | hashing (d : Nat) (acc : Int) (rest : List Int)
  | hashingShared (d : Nat) (tmp : Int) (rest : List Int)
  | pulling (r : Ref) (k : Nat)
  | evalMkEngine (t : Nat)
  | evalParse (t : Nat)
  | evalMkCtx (t : Nat) (e : Int)
  | calling (f : Nat) (x : Int)
  | callingParked (f : Nat)
deriving DecidableEq, Repr

structure PState where
  ctxId : Nat
  heap  : List Obj := []
  prog  : List Op
  pend  : Option Pend := none
  outs  : List Out := []
deriving DecidableEq, Repr

inductive CKey where
  | hash (d : Nat)
  | engine
  | expr (t : Nat)
  | defctx
deriving DecidableEq, Repr

structure Base where
  pairs   : List (List Int) := []
  funcs   : List (Int × Int) := []
  heap    : List Obj := []
  scratch : List (Option Int) := []
deriving DecidableEq, Repr

abbrev Cache := List (CKey × Int)
abbrev Shared := Base × Cache

def cacheGet : Cache → CKey → Option Int
  | [], _ => none
  | (k', v) :: rest, k => if k' = k then some v else cacheGet rest k

/-- an assignment to the cached field / table slot -/
def publish (s : Shared) (k : CKey) (v : Int) : Shared := (s.1, (k, v) :: s.2)

/-- Python's `^` on ints (two's complement of unbounded width): `-(n+1) = ~n` -/
def ixor : Int → Int → Int
  | .ofNat a, .ofNat b => .ofNat (a ^^^ b)
  | .ofNat a, .negSucc b => .negSucc (a ^^^ b)
  | .negSucc a, .ofNat b => .negSucc (a ^^^ b)
  | .negSucc a, .negSucc b => .ofNat (a ^^^ b)

def xorFold (acc : Int) (l : List Int) : Int := l.foldl ixor acc

/-- the value of a cache key: a function of the key (and of the immutable base) -/
def entry (b : Base) : CKey → Int
  | .hash d => xorFold 0 ((b.pairs[d]?).getD [])
  | .engine => 1
  | .expr t => t
  | .defctx => 1

/-- where the fixed code keeps the running hash (`publishComplete`, /repo ff43db8) and where the
    code before it did (`accumulateShared`: `self._hash = 0; self._hash ^= hash(pair)`) -/
inductive HashMode where
  | publishComplete | accumulateShared
deriving DecidableEq, Repr

/-- where the state of one dispatch lives: in locals (the real code) or parked on the shared
    definition / expression node between the dispatch and the payload (the class of defect the
    property is about) -/
inductive ParkMode where
  | locals | onDefinition
deriving DecidableEq, Repr

structure Cfg where
  hashMode : HashMode := .publishComplete
  park : ParkMode := .locals
deriving DecidableEq, Repr

def current : Cfg := {}

/-! ### the lazy objects -/

def getObj (sh own : List Obj) : Ref → Option Obj
  | .own i => own[i]?
  | .shared i => sh[i]?

structure LRes where
  sh   : List Obj
  own  : List Obj
  outs : List Out := []
  pend : Option Pend := none

def setObj (sh own : List Obj) (r : Ref) (o : Obj) (outs : List Out) : LRes :=
  match r with
  | .own i => { sh := sh, own := own.set i o, outs := outs }
  | .shared i => { sh := sh.set i o, own := own, outs := outs }

/-- `Comparator.compare` of `OrderingIterable.do_sort` -/
def compareRows : List (Sel × Bool) → Row → Row → Int
  | [], _, _ => 0
  | (sel, asc) :: rest, l, r =>
      if sel.apply l < sel.apply r then (if asc then -1 else 1)
      else if sel.apply l > sel.apply r then (if asc then 1 else -1)
      else compareRows rest l r

def insertSorted (order : List (Sel × Bool)) (x : Row) : List Row → List Row
  | [] => [x]
  | y :: ys => if compareRows order x y < 0 then x :: y :: ys else y :: insertSorted order x ys

/-- `sorted(collection, key=Comparator)`: the stable sort by `__lt__` -/
def sortRows (order : List (Sel × Bool)) (coll : List Row) : List Row :=
  coll.foldl (fun acc x => insertSorted order x acc) []

def sumInts (l : List Int) : Int := l.foldl (· + ·) 0

def aggOnList : AggFn → List Int → Except Err AggVal
  | .none, _ => .error .typeError
  | .sum, vs => .ok (.scalar (sumInts vs))
  | .legacy, vs => if vs.length < 2 then .error .indexError else .error .noMatching
  | .head2, vs => .ok (.seq (vs.take 2))
  | .flaky, vs => if vs.length = 2 then .ok (.seq (vs.take 2)) else .error .noMatching

def aggOnItem : AggFn → Int → List Int → Except Err AggVal
  | .none, _, _ => .error .typeError
  | .sum, _, _ => .error .noMatching
  | .legacy, k, vs => .ok (.seq [k, sumInts vs])
  | .head2, k, vs => .ok (.seq [k, vs.length])
  | .flaky, k, vs => .ok (.seq [k, sumInts vs])

/-- the tail of `GroupAggregator.__call__`: the 1.1.1 fallback, then `raise self._failure_info` -/
def aggFallback (agg : AggFn) (fb : Bool) (fail : Option Err) (key : Int) (values : List Int) : Out :=
  let raise : Out := match fail with
    | some e => .err e
    | none => .err .typeError
  if fb then
    match aggOnItem agg key values with
    | .ok (.seq [a, b]) => .legacyPair a b
    | _ => raise
  else raise

/-- `GroupAggregator.__call__`: new `(allow_fallback, _failure_info)` and what the call returns / raises -/
def aggCallObj (agg : AggFn) (fb : Bool) (fail : Option Err) (key : Int) (values : List Int) :
    Bool × Option Err × Out :=
  if agg = .none then (fb, fail, .item key values)
  else match fail with
    | none =>
        match aggOnList agg values with
        | .error e => (fb, some e, aggFallback agg fb (some e) key values)
        | .ok result =>
            let legacyLooking : Bool := values.length == 2 && (match result with
              | .seq [a, _] => some a == values.head?
              | _ => false)
            (if legacyLooking then fb else false, none, .group key result)
    | some e => (fb, some e, aggFallback agg fb (some e) key values)

def bump (l : List Nat) (k : Nat) : List Nat :=
  match l[k]? with
  | some i => l.set k (i + 1)
  | none => l

/-- one dispatch on a lazy object (the first segment of `memoNext` stops before the source is pulled) -/
def lazyOp (ctxId : Nat) (sh own : List Obj) : Op → LRes
  | .orderBy coll sel asc =>
      { sh := sh, own := own ++ [.ordering coll [(sel, asc)] none none], outs := [.made own.length] }
  | .thenBy r sel asc =>
      match getObj sh own r with
      | some (.ordering coll order sorted _) =>
          setObj sh own r (.ordering coll (order ++ [(sel, asc)]) sorted (some ctxId)) []
      | _ => { sh := sh, own := own, outs := [.err .noMatching] }
  | .iterate r =>
      match getObj sh own r with
      | some (.ordering coll order sorted ctx) =>
          match sorted with
          | some rows => { sh := sh, own := own, outs := [.rows rows] }
          | none =>
              let rows := sortRows order coll
              setObj sh own r (.ordering coll order (some rows) ctx) [.rows rows]
      | _ => { sh := sh, own := own, outs := [.err .noMatching] }
  | .memorize src =>
      { sh := sh, own := own ++ [.memo src 0 [] [0]], outs := [.made own.length] }
  | .memoIter r =>
      match getObj sh own r with
      | some (.memo src pos y idx) => setObj sh own r (.memo src pos y (idx ++ [0])) [.made idx.length]
      | _ => { sh := sh, own := own, outs := [.err .noMatching] }
  | .memoNext r k =>
      match getObj sh own r with
      | some (.memo src pos y idx) =>
          match idx[k]? with
          | none => { sh := sh, own := own, outs := [.err .badRef] }
          | some i =>
              if i < y.length then
                match y[i]? with
                | some v => setObj sh own r (.memo src pos y (bump idx k)) [.val v]
                | none => { sh := sh, own := own, outs := [.err .indexError] }
              else { sh := sh, own := own, pend := some (.pulling r k) }
      | _ => { sh := sh, own := own, outs := [.err .noMatching] }
  | .aggNew agg fb =>
      { sh := sh, own := own ++ [.aggregator agg fb none], outs := [.made own.length] }
  | .aggCall r key values =>
      match getObj sh own r with
      | some (.aggregator agg fb fail) =>
          let res := aggCallObj agg fb fail key values
          setObj sh own r (.aggregator agg res.1 res.2.1) [res.2.2]
      | _ => { sh := sh, own := own, outs := [.err .noMatching] }
  | _ => { sh := sh, own := own, outs := [.err .badRef] }

/-- second segment of `RememberingIterator.__next__`: `val = next(self.seq); yielded.append(val);
    self.index += 1; return val` -/
def pullSeg (sh own : List Obj) (r : Ref) (k : Nat) : LRes :=
  match getObj sh own r with
  | some (.memo src pos y idx) =>
      match src[pos]? with
      | none => { sh := sh, own := own, outs := [.stop] }
      | some v => setObj sh own r (.memo src (pos + 1) (y ++ [v]) (bump idx k)) [.val v]
  | _ => { sh := sh, own := own, outs := [.err .noMatching] }

def Op.isLazy : Op → Bool
  | .hash _ | .evalCached _ | .call _ _ => false
  | _ => true

/-! ### the machine -/

def emit (p : PState) (o : Out) : PState := { p with pend := none, outs := p.outs ++ [o] }

def applyL (s : Shared) (p : PState) (res : LRes) : Shared × PState :=
  (({ s.1 with heap := res.sh }, s.2),
   { p with heap := res.own, outs := p.outs ++ res.outs, pend := res.pend })

/-- `return self._hash` -/
def emitCached (s : Shared) (p : PState) (d : Nat) : PState :=
  match cacheGet s.2 (.hash d) with
  | some h => emit p (.val h)
  | none => emit p (.err .typeError)

def applyFn (b : Base) (f : Nat) (x : Int) : Out :=
  match b.funcs[f]? with
  | some (a, c) => .val (a * x + c)
  | none => .err .noMatching

/-- `return parsed_expression.evaluate(data, context=_default_context.create_child_context())` -/
def evalFinish (s : Shared) (p : PState) (e : Int) : Shared × PState :=
  match cacheGet s.2 .defctx with
  | some c => (s, emit p (.evald e c))
  | none => (s, emit p (.err .typeError))

/-- `if _default_context is None:` -/
def evalCtx (s : Shared) (p : PState) (t : Nat) (e : Int) : Shared × PState :=
  match cacheGet s.2 .defctx with
  | none => (s, { p with pend := some (.evalMkCtx t e) })
  | some _ => evalFinish s p e

/-- `parsed_expression = _cached_expressions.get(expression)` -/
def evalLookup (s : Shared) (p : PState) (t : Nat) : Shared × PState :=
  match cacheGet s.2 (.expr t) with
  | none => (s, { p with pend := some (.evalParse t) })
  | some e => evalCtx s p t e

/-- `if _cached_engine is None:` -/
def evalStart (s : Shared) (p : PState) (t : Nat) : Shared × PState :=
  match cacheGet s.2 .engine with
  | none => (s, { p with pend := some (.evalMkEngine t) })
  | some _ => evalLookup s p t

/-- `FrozenDict.__hash__` up to the first `hash(pair)` -/
def hashStart (cfg : Cfg) (s : Shared) (p : PState) (d : Nat) : Shared × PState :=
  match s.1.pairs[d]? with
  | none => (s, emit p (.err .badRef))
  | some ps =>
      match cacheGet s.2 (.hash d) with
      | some h => (s, emit p (.val h))
      | none =>
          match cfg.hashMode with
          | .publishComplete =>
              match ps with
              | [] => (publish s (.hash d) 0, emitCached (publish s (.hash d) 0) p d)
              | _ :: _ => (s, { p with pend := some (.hashing d 0 ps) })
          | .accumulateShared =>
              match ps with
              | [] => (publish s (.hash d) 0, emitCached (publish s (.hash d) 0) p d)
              | _ :: _ => (publish s (.hash d) 0, { p with pend := some (.hashingShared d 0 ps) })

/-- the step of a thread whose current operation is in progress (`p.pend` already cleared) -/
def stepPend (s : Shared) (p : PState) : Pend → Shared × PState
  | .hashing d acc [] => (publish s (.hash d) acc, emitCached (publish s (.hash d) acc) p d)
  | .hashing d acc [x] =>
      (publish s (.hash d) (ixor acc x), emitCached (publish s (.hash d) (ixor acc x)) p d)
  | .hashing d acc (x :: y :: rest) => (s, { p with pend := some (.hashing d (ixor acc x) (y :: rest)) })
  | .hashingShared d tmp [] => (publish s (.hash d) tmp, emitCached (publish s (.hash d) tmp) p d)
  | .hashingShared d tmp [x] =>
      (publish s (.hash d) (ixor tmp x), emitCached (publish s (.hash d) (ixor tmp x)) p d)
  | .hashingShared d tmp (x :: y :: rest) =>
      let s' := publish s (.hash d) (ixor tmp x)
      match cacheGet s'.2 (.hash d) with
      | some v => (s', { p with pend := some (.hashingShared d v (y :: rest)) })
      | none => (s', emit p (.err .typeError))
  | .pulling r k => applyL s p (pullSeg s.1.heap p.heap r k)
  | .evalMkEngine t => evalLookup (publish s .engine (entry s.1 .engine)) p t
  | .evalParse t =>
      evalCtx (publish s (.expr t) (entry s.1 (.expr t))) p t (entry s.1 (.expr t))
  | .evalMkCtx _ e => evalFinish (publish s .defctx (entry s.1 .defctx)) p e
  | .calling f x => (s, emit p (applyFn s.1 f x))
  | .callingParked f =>
      match s.1.scratch[f]? with
      | some (some x) => (s, emit p (applyFn s.1 f x))
      | _ => (s, emit p (.err .badRef))

/-- the first segment of an operation (`p.prog` already popped) -/
def stepOp (cfg : Cfg) (s : Shared) (p : PState) : Op → Shared × PState
  | .hash d => hashStart cfg s p d
  | .evalCached t => evalStart s p t
  | .call f x =>
      match cfg.park with
      | .locals => (s, { p with pend := some (.calling f x) })
      | .onDefinition =>
          (({ s.1 with scratch := s.1.scratch.set f (some x) }, s.2),
           { p with pend := some (.callingParked f) })
  | op => applyL s p (lazyOp p.ctxId s.1.heap p.heap op)

def step (cfg : Cfg) (s : Shared) (p : PState) : (Shared × PState) ⊕ List Out :=
  match p.pend with
  | some pd => .inl (stepPend s { p with pend := none } pd)
  | none =>
      match p.prog with
      | [] => .inr p.outs
      | op :: rest => .inl (stepOp cfg s { p with prog := rest } op)

def machine (cfg : Cfg) : Machine Shared PState (List Out) := ⟨step cfg⟩

/-! ### what a thread computes alone: big-step reference, independent of the cache contents -/

def finishPend (b : Base) (own : List Obj) : Pend → List Obj × List Out
  | .hashing d _ _ => (own, [.val (entry b (.hash d))])
  | .hashingShared d _ _ => (own, [.val (entry b (.hash d))])
  | .pulling r k => ((pullSeg b.heap own r k).own, (pullSeg b.heap own r k).outs)
  | .evalMkEngine t => (own, [.evald (entry b (.expr t)) (entry b .defctx)])
  | .evalParse t => (own, [.evald (entry b (.expr t)) (entry b .defctx)])
  | .evalMkCtx _ e => (own, [.evald e (entry b .defctx)])
  | .calling f x => (own, [applyFn b f x])
  | .callingParked _ => (own, [.err .badRef])

def finishL (b : Base) (res : LRes) : List Obj × List Out :=
  match res.pend with
  | none => (res.own, res.outs)
  | some pd => ((finishPend b res.own pd).1, res.outs ++ (finishPend b res.own pd).2)

def fullOp (b : Base) (ctxId : Nat) (own : List Obj) : Op → List Obj × List Out
  | .hash d =>
      match b.pairs[d]? with
      | none => (own, [.err .badRef])
      | some _ => (own, [.val (entry b (.hash d))])
  | .evalCached t => (own, [.evald (entry b (.expr t)) (entry b .defctx)])
  | .call f x => (own, [applyFn b f x])
  | op => finishL b (lazyOp ctxId b.heap own op)

def evalProg (b : Base) (ctxId : Nat) : List Obj → List Op → List Out
  | _, [] => []
  | own, op :: rest => (fullOp b ctxId own op).2 ++ evalProg b ctxId (fullOp b ctxId own op).1 rest

/-- the result of the thread, as a function of its private state and the immutable base alone -/
def den (b : Base) (p : PState) : List Out :=
  match p.pend with
  | none => p.outs ++ evalProg b p.ctxId p.heap p.prog
  | some pd => p.outs ++ ((finishPend b p.heap pd).2 ++ evalProg b p.ctxId (finishPend b p.heap pd).1 p.prog)

/-! ### which programs stay inside their evaluation -/

def Op.ownOnly : Op → Bool
  | .thenBy r _ _ | .iterate r | .memoIter r | .memoNext r _ | .aggCall r _ _ => r.isOwn
  | _ => true

def Pend.ownOnly : Pend → Bool
  | .pulling r _ => r.isOwn
  | .callingParked _ => false
  | .hashingShared _ _ _ => false
  | _ => true

end Yaql.SharedObjs
