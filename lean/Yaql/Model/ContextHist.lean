import Yaql.Model.Context
/-!
Naming conventions on context trees, and HISTORIES of writes and reads (C17).

`Context.get_functions(name, predicate, use_convention)` of a plain `Context`:

    name = name.rstrip('_')
    if use_convention and self._convention is not None:
        name = self._convention.convert_function_name(name)
    return set(self._functions.get(name, ())), name in self._exclusive_funcs

`MultiContext` / `LinkedContext` hand `use_convention` on unchanged, so EVERY plain context that is
reached converts the requested name by ITS OWN convention object.  A convention object is any
function on names (`Conv`); which object a context has is fixed when the context is made
(`ContextBase.__init__`: the one given, else the parent's; `MultiContext`: the one given, else the
first member's, else that of the parent it builds; `LinkedContext`: the one given, else that of
the parent it builds) - `baseInit`, `multiChain`, `linkedChain`.

A history is a list of operations on a forest of contexts, READS included.  A read is a function
of the state and leaves the state alone - there is no field a lookup could write to.  The
contrasting design (`Memo`, at the end) remembers per layer how a requested name was resolved.
-/
namespace Yaql.Context

/-- `Convention.convert_function_name` of a convention object -/
abbrev Conv := Name → Name

/-- `Context._convention` of every cell (`none` = the context has no convention) -/
abbrev Convs := List (Option Conv)

def Convs.get (cv : Convs) (c : Nat) : Option Conv := cv.getD c none

/-- the key under which the plain context owning cell `c` looks into its own tables when asked
    for `n` (`n` already right-stripped) -/
def lookupName (cv : Convs) (uc : Bool) (c : Nat) (n : Name) : Name :=
  match uc, cv.get c with
  | true, some f => f n
  | _, _ => n

mutual
/-- `ctx.get_functions(name, None, use_convention)` with `name` already right-stripped -/
def getFunctionsU (cs : Cells) (cv : Convs) (uc : Bool) (n : Name) : Shape → List Fid × Bool
  | .plain c _ =>
      (cellFuncs (cs.get c) (lookupName cv uc c n), (cs.get c).excl.contains (lookupName cv uc c n))
  | .multi ms _ => getFunctionsUL cs cv uc n ms
  | .linked t _ => getFunctionsU cs cv uc n t
def getFunctionsUL (cs : Cells) (cv : Convs) (uc : Bool) (n : Name) : List Shape → List Fid × Bool
  | [] => ([], false)
  | m :: ms =>
      let (f, e) := getFunctionsU cs cv uc n m
      let (fs, es) := getFunctionsUL cs cv uc n ms
      (unionF f fs, e || es)
end

mutual
/-- one iteration of the `while p is not None` loop of `ContextBase.collect_functions` -/
def collectAtU (cs : Cells) (cv : Convs) (uc : Bool) (n : Name) : Shape → List (List Fid)
  | .plain c p =>
      let k := lookupName cv uc c n
      let f := cellFuncs (cs.get c) k
      let rest := if (cs.get c).excl.contains k then [] else collectFromU cs cv uc n p
      if f.isEmpty then rest else f :: rest
  | .multi ms p =>
      let (f, e) := getFunctionsUL cs cv uc n ms
      let rest := if e then [] else collectFromU cs cv uc n p
      if f.isEmpty then rest else f :: rest
  | .linked t p =>
      let (f, e) := getFunctionsU cs cv uc n t
      let rest := if e then [] else collectFromU cs cv uc n p
      if f.isEmpty then rest else f :: rest
def collectFromU (cs : Cells) (cv : Convs) (uc : Bool) (n : Name) : Option Shape → List (List Fid)
  | none => []
  | some s => collectAtU cs cv uc n s
end

/-- `ctx.collect_functions(name, None, use_convention)` -/
def collectFunctionsU (cs : Cells) (cv : Convs) (s : Shape) (name : Name) (uc : Bool) : List (List Fid) :=
  collectFromU cs cv uc (rstripUnderscore name) (some s)

mutual
/-- the cells whose tables a lookup from `s` can reach: those of its own layer (`delCells`: the
    plain context itself, every member of a multi-context, the target of a linked one), then
    those of its parents -/
def cellsOf : Shape → List Nat
  | .plain c p => c :: cellsOfO p
  | .multi ms p => delCellsL ms ++ cellsOfO p
  | .linked t p => delCells t ++ cellsOfO p
def cellsOfO : Option Shape → List Nat
  | none => []
  | some s => cellsOf s
end

/-! ### histories -/

/-- the conventions along the `.parent` chain of a context object: its own `_convention` first, then its
    parent's, ... (`ContextBase.__init__` inherits along exactly this chain) -/
abbrev ConvChain := List (Option Conv)

def ConvChain.own (ch : ConvChain) : Option Conv := ch.head?.join

/-- a context handle: the shape and the conventions of the object and of its `.parent` chain -/
structure Handle where
  shape : Shape
  chain : ConvChain
deriving Inhabited

def Handle.conv (h : Handle) : Option Conv := h.chain.own

structure HSt where
  cells : Cells := []
  convs : Convs := []
  ctxs : List Handle := []
deriving Inhabited

/-- the reads of the public interface -/
inductive Query where
  | getData (i : Nat) (n : Name)                       -- `ctx[n]`
  | contains (i : Nat) (n : Name)                      -- `n in ctx`
  | keys (i : Nat)                                     -- `list(ctx.keys())`
  | getFunctions (i : Nat) (n : Name) (uc : Bool)      -- `ctx.get_functions(n, None, uc)`
  | collect (i : Nat) (n : Name) (uc : Bool)           -- `ctx.collect_functions(n, None, uc)`

inductive Answer where
  | val (v : Val)
  | bool (b : Bool)
  | names (l : List Name)
  | funcs (l : List Fid) (exclusive : Bool)
  | layers (l : List (List Fid))
  | noContext
deriving Repr, DecidableEq, Inhabited

inductive HOp where
  /-- `Context(ctxs[parent] or None, convention=conv)` -/
  | plain (parent : Option Nat) (conv : Option Conv)
  /-- `MultiContext([ctxs[m] for m in ms], convention=conv)` -/
  | multi (ms : List Nat) (conv : Option Conv)
  /-- `LinkedContext(ctxs[p] or None, ctxs[t], convention=conv)` -/
  | linked (p : Option Nat) (t : Nat) (conv : Option Conv)
  /-- `ctxs[i].create_child_context()` -/
  | child (i : Nat)
  | set (i : Nat) (n : Name) (v : Val)
  | del (i : Nat) (n : Name)
  | reg (i : Nat) (fname : Name) (fid : Fid) (exclusive : Bool)
  | delf (i : Nat) (fname : Name) (fid : Fid)
  /-- any read of any context -/
  | read (q : Query)

def HOp.isRead : HOp → Bool
  | .read _ => true
  | _ => false

inductive Res where
  | ok | keyError | pyError | noContext
deriving Repr, DecidableEq, Inhabited

def HSt.ctx (st : HSt) (i : Nat) : Option Handle := st.ctxs[i]?

def HSt.ctxAll (st : HSt) : List Nat → Option (List Handle)
  | [] => some []
  | i :: is =>
      match st.ctx i, st.ctxAll is with
      | some s, some ss => some (s :: ss)
      | _, _ => none

/-- `ContextBase.__init__(parent_context, convention)`: the convention given, else the parent's;
    the result is the chain of the new object -/
def baseInit (given : Option Conv) (parent : ConvChain) : ConvChain :=
  (match given with
   | some f => some f
   | none => parent.own) :: parent

/-- `MultiContext(context_list, convention)`: `convention or context_list[0].convention`, then
    `ContextBase.__init__` with no parent / the single parent / a `MultiContext` of the parents.
    `ms` = the chains of the members; fuel = their total length. -/
def multiChainF : Nat → Option Conv → List ConvChain → ConvChain
  | 0, g, ms => [match g with | some f => some f | none => (ms.head?.getD []).own]
  | fuel + 1, g, ms =>
      let g' := match g with | some f => some f | none => (ms.head?.getD []).own
      match (ms.map List.tail).filter (fun p => !p.isEmpty) with
      | [] => baseInit g' []
      | [p] => baseInit g' p
      | ps => baseInit g' (multiChainF fuel none ps)

def multiChain (g : Option Conv) (ms : List ConvChain) : ConvChain :=
  multiChainF (ms.map List.length).sum g ms

/-- `LinkedContext(parent_context, linked_context, convention)`: one `LinkedContext` per context on the
    target's `.parent` chain, each made with the SAME `convention` argument -/
def linkedChain (g : Option Conv) (p : ConvChain) : ConvChain → ConvChain
  | [] => baseInit g p
  | [_] => baseInit g p
  | _ :: tp => baseInit g (linkedChain g p tp)

def answer (st : HSt) : Query → Answer
  | .getData i n => match st.ctx i with
      | some h => .val (getData st.cells h.shape n)
      | none => .noContext
  | .contains i n => match st.ctx i with
      | some h => .bool (containsName st.cells h.shape n)
      | none => .noContext
  | .keys i => match st.ctx i with
      | some h => .names (keys st.cells h.shape)
      | none => .noContext
  | .getFunctions i n uc => match st.ctx i with
      | some h =>
          let r := getFunctionsU st.cells st.convs uc (rstripUnderscore n) h.shape
          .funcs r.1 r.2
      | none => .noContext
  | .collect i n uc => match st.ctx i with
      | some h => .layers (collectFunctionsU st.cells st.convs h.shape n uc)
      | none => .noContext

def hstep (st : HSt) : HOp → HSt × Res
  | .plain parent conv =>
      match parent with
      | none =>
          ({ cells := st.cells ++ [{}], convs := st.convs ++ [conv],
             ctxs := st.ctxs ++ [⟨.plain st.cells.length none, baseInit conv []⟩] }, .ok)
      | some pi =>
          match st.ctx pi with
          | none => (st, .noContext)
          | some p =>
              let ch := baseInit conv p.chain
              ({ cells := st.cells ++ [{}], convs := st.convs ++ [ch.own],
                 ctxs := st.ctxs ++ [⟨.plain st.cells.length (some p.shape), ch⟩] }, .ok)
  | .multi ms conv =>
      match st.ctxAll ms with
      | none => (st, .noContext)
      | some hs =>
          ({ st with ctxs := st.ctxs ++ [⟨mkMulti (hs.map (·.shape)), multiChain conv (hs.map (·.chain))⟩] }, .ok)
  | .linked p t conv =>
      match st.ctx t with
      | none => (st, .noContext)
      | some th =>
          match p with
          | none =>
              ({ st with ctxs := st.ctxs ++ [⟨mkLinked none th.shape, linkedChain conv [] th.chain⟩] }, .ok)
          | some pi =>
              match st.ctx pi with
              | none => (st, .noContext)
              | some ph =>
                  ({ st with ctxs := st.ctxs ++ [⟨mkLinked (some ph.shape) th.shape,
                                                   linkedChain conv ph.chain th.chain⟩] }, .ok)
  | .child i =>
      match st.ctx i with
      | none => (st, .noContext)
      | some h =>
          -- `Context(self)`: no convention given, so the one of `self`
          match createChild st.cells.length h.shape with
          | .ok s' true =>
              ({ cells := st.cells ++ [{}], convs := st.convs ++ [h.conv],
                 ctxs := st.ctxs ++ [⟨s', baseInit none h.chain⟩] }, .ok)
          | .ok s' false => ({ st with ctxs := st.ctxs ++ [⟨s', baseInit none h.chain⟩] }, .ok)
          | .typeError => (st, .pyError)
  | .set i n v =>
      match st.ctx i with
      | none => (st, .noContext)
      | some h => ({ st with cells := setData st.cells h.shape n v }, .ok)
  | .del i n =>
      match st.ctx i with
      | none => (st, .noContext)
      | some h =>
          match delData st.cells h.shape n with
          | some cs => ({ st with cells := cs }, .ok)
          | none => (st, .keyError)
  | .reg i fname fid x =>
      match st.ctx i with
      | none => (st, .noContext)
      | some h => ({ st with cells := register st.cells h.shape fname fid x }, .ok)
  | .delf i fname fid =>
      match st.ctx i with
      | none => (st, .noContext)
      | some h => ({ st with cells := deleteFunction st.cells h.shape fname fid }, .ok)
  | .read _ => (st, .ok)

def hrun (st : HSt) (ops : List HOp) : HSt := ops.foldl (fun s op => (hstep s op).1) st

/-- what the reads of a history answer, in order -/
def transcript : HSt → List HOp → List Answer
  | _, [] => []
  | st, .read q :: r => answer st q :: transcript st r
  | st, op :: r => transcript (hstep st op).1 r

/-! ### the contrasting design: a layer that remembers how it resolved a requested name

`Memo.names` maps (cell, requested name) to the key that was computed the FIRST time the name was
asked for in that cell - without `use_convention` in the key. -/

structure Memo where
  st : HSt
  names : List ((Nat × Name) × Name) := []

def Memo.find (m : Memo) (c : Nat) (n : Name) : Option Name :=
  (m.names.find? fun e => e.1 == (c, n)).map (·.2)

/-- `get_functions` of the plain context `i` in the memoising design (only plain handles matter
    for the contrast) -/
def Memo.getFunctions (m : Memo) (i : Nat) (name : Name) (uc : Bool) : Memo × Answer :=
  match m.st.ctx i with
  | some ⟨.plain c _, _⟩ =>
      match m.find c name with
      | some k => (m, .funcs (cellFuncs (m.st.cells.get c) k) ((m.st.cells.get c).excl.contains k))
      | none =>
          let k := lookupName m.st.convs uc c (rstripUnderscore name)
          ({ m with names := m.names ++ [((c, name), k)] },
           .funcs (cellFuncs (m.st.cells.get c) k) ((m.st.cells.get c).excl.contains k))
  | _ => (m, .noContext)

def Memo.transcript : Memo → List HOp → List Answer
  | _, [] => []
  | m, .read (.getFunctions i n uc) :: r =>
      (m.getFunctions i n uc).2 :: Memo.transcript (m.getFunctions i n uc).1 r
  | m, .read q :: r => answer m.st q :: Memo.transcript m r
  | m, op :: r => Memo.transcript { m with st := (hstep m.st op).1 } r

end Yaql.Context
