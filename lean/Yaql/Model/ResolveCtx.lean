import Yaql.Model.Context
import Yaql.Model.Resolve
/-!
Overload resolution on LIVE contexts (C05 call histories, C06 registration order).

`Yaql.Context` models the mutable state of contexts (`register_function`,
`delete_function`, `create_child_context`; cells + immutable shapes);
`Yaql.Resolve` models `runner.call` on a given list of layers.  This file joins the
two the way the code does: `runner.call` asks the context it is given for
`collect_functions(name, predicate)` - a walk over the CURRENT state of the chain,
nothing remembered between calls - and hands the result to `choose_overload`.

A history is a list of operations on a forest of contexts; the state after a history
is plain data (`St`); contexts are plain, `MultiContext`s or `LinkedContext`s, and the outcome of a call made at some moment is
`resolveAt` of the state at that moment.
-/
namespace Yaql.ResolveCtx
open Yaql.Context (Cells Cell Shape Fid)

abbrev CName := Yaql.Context.Name

/-- the FunctionDefinition object behind an identity -/
abbrev Defs := Fid → Yaql.Resolve.FDef

mutual
/-- `ContextBase.collect_functions(name, predicate)`: one iteration of the
    `while p is not None` loop per context; `get_functions(name, context_predicate)`
    filters the set and reports the exclusive flag regardless of the filter -/
def collectAtP (pred : Fid → Bool) (cs : Cells) (n : CName) : Shape → List (List Fid)
  | .plain c p =>
      let f := (Yaql.Context.cellFuncs (cs.get c) n).filter pred
      let rest := if (cs.get c).excl.contains n then [] else collectFromP pred cs n p
      if f.isEmpty then rest else f :: rest
  | .multi ms p =>
      let (f0, e) := Yaql.Context.getFunctionsL cs n ms
      let f := f0.filter pred
      let rest := if e then [] else collectFromP pred cs n p
      if f.isEmpty then rest else f :: rest
  | .linked t p =>
      let (f0, e) := Yaql.Context.getFunctions cs n t
      let f := f0.filter pred
      let rest := if e then [] else collectFromP pred cs n p
      if f.isEmpty then rest else f :: rest
def collectFromP (pred : Fid → Bool) (cs : Cells) (n : CName) : Option Shape → List (List Fid)
  | none => []
  | some s => collectAtP pred cs n s
end

/-- `runner.call(name, context, args, kwargs, engine, receiver)` on the live context `s`
    (up to the point where the delegate is invoked) -/
def resolveAt (L : Yaql.Types.Lattice) (defs : Defs) (cs : Cells) (s : Shape) (name : CName)
    (c : Yaql.Resolve.Call) : Yaql.Resolve.Outcome :=
  let pred := fun i => Yaql.Resolve.kindOk c.receiver.isSome (defs i)
  let cands := (collectAtP pred cs (Yaql.Context.rstripUnderscore name) s).map (·.map defs)
  if cands.isEmpty then ⟨[], .error .unknown⟩ else Yaql.Resolve.chooseOverload L cands c

/-! ### histories -/

/-- the contexts that exist (index = order of creation) and their cells -/
structure St where
  cells : Cells := []
  ctxs : List Shape := []
deriving Inhabited

inductive Op where
  /-- `Context()` without parent -/
  | root
  /-- `ctxs[i].create_child_context()` -/
  | child (i : Nat)
  /-- `ctxs[i].register_function(fd, exclusive=x)` where `fd.name = fname` -/
  | register (i : Nat) (fname : CName) (fid : Fid) (x : Bool)
  /-- `ctxs[i].delete_function(fd)` -/
  | delete (i : Nat) (fname : CName) (fid : Fid)
  /-- `MultiContext([ctxs[m] for m in ms])` -/
  | multi (ms : List Nat)
  /-- `LinkedContext(ctxs[p] or None, ctxs[t])` -/
  | linked (p : Option Nat) (t : Nat)

def St.ctx (st : St) (i : Nat) : Option Shape := st.ctxs[i]?

/-- the shapes behind a list of handles; `none` when one of them does not exist -/
def St.ctxAll (st : St) : List Nat → Option (List Shape)
  | [] => some []
  | i :: is =>
      match st.ctx i, st.ctxAll is with
      | some s, some ss => some (s :: ss)
      | _, _ => none

def step (st : St) : Op → St
  | .root => { cells := st.cells ++ [{}], ctxs := st.ctxs ++ [.plain st.cells.length none] }
  | .child i =>
      match st.ctx i with
      | none => st
      | some s =>
          match Yaql.Context.createChild st.cells.length s with
          | .ok s' true => { cells := st.cells ++ [{}], ctxs := st.ctxs ++ [s'] }
          | .ok s' false => { st with ctxs := st.ctxs ++ [s'] }
          | .typeError => st
  | .register i fname fid x =>
      match st.ctx i with
      | none => st
      | some s => { st with cells := Yaql.Context.register st.cells s fname fid x }
  | .delete i fname fid =>
      match st.ctx i with
      | none => st
      | some s => { st with cells := Yaql.Context.deleteFunction st.cells s fname fid }
  | .multi ms =>
      match st.ctxAll ms with
      | none => st
      | some ss => { st with ctxs := st.ctxs ++ [Yaql.Context.mkMulti ss] }
  | .linked p t =>
      match st.ctx t with
      | none => st
      | some ts =>
          match p with
          | none => { st with ctxs := st.ctxs ++ [Yaql.Context.mkLinked none ts] }
          | some pi =>
              match st.ctx pi with
              | none => st
              | some ps => { st with ctxs := st.ctxs ++ [Yaql.Context.mkLinked (some ps) ts] }

def run (st : St) (ops : List Op) : St := ops.foldl step st

/-- a call made from context `i` in state `st` -/
def resolveIn (L : Yaql.Types.Lattice) (defs : Defs) (st : St) (i : Nat) (name : CName)
    (c : Yaql.Resolve.Call) : Yaql.Resolve.Outcome :=
  match st.ctx i with
  | some s => resolveAt L defs st.cells s name c
  | none => ⟨[], .error .unknown⟩

end Yaql.ResolveCtx
