import Yaql.Model.Value
/-!
List-level reference semantics of `yaql/standard_library/queries.py` and
`collections.py` (plus `unpack` of system.py and `memorize` of utils.py).

Part A  Python value semantics the functions rely on: `==`/hash (`pyEq`, through a
        canonical form), truthiness, hashability, dict and set primitives.
Part B  one *pure* definition per function, written from the docstrings, over
        `List Value` and total lambdas.  The theorems of `Props/C13.lean` are about these.

The error-aware, lazily evaluated layer that the driver runs (lambdas from a closed
family that may fail on an element; one-shot iterators that raise part-way) is
`Model/SeqRun.lean`; it calls the definitions of Part B.
-/
namespace Yaql
namespace Value

/-! ## Part A - Python value semantics -/

def rank : Value → Nat
  | null => 0 | bool _ => 1 | int _ => 2 | flt _ => 3 | str _ => 4 | tuple _ => 5
  | list _ => 6 | dict _ => 7 | set _ => 8 | iter _ => 9 | host _ => 10

def cmpChars : List Char → List Char → Ordering
  | [], [] => .eq
  | [], _ :: _ => .lt
  | _ :: _, [] => .gt
  | a :: as, b :: bs => (compare a.toNat b.toNat).then (cmpChars as bs)

mutual
/-- a total order on values, only used to sort the elements of sets and the keys of
    dicts inside the canonical form -/
def cmp : Value → Value → Ordering
  | int a, int b => compare a b
  | bool a, bool b => compare a.toNat b.toNat
  | flt a, flt b => compare a.toNat b.toNat
  | str a, str b => cmpChars a b
  | tuple a, tuple b => cmpL a b
  | list a, list b => cmpL a b
  | set a, set b => cmpL a b
  | iter a, iter b => cmpL a b
  | dict a, dict b => cmpP a b
  | host a, host b => compare a b
  | a, b => compare a.rank b.rank
def cmpL : List Value → List Value → Ordering
  | [], [] => .eq
  | [], _ :: _ => .lt
  | _ :: _, [] => .gt
  | a :: as, b :: bs => (cmp a b).then (cmpL as bs)
def cmpP : List (Value × Value) → List (Value × Value) → Ordering
  | [], [] => .eq
  | [], _ :: _ => .lt
  | _ :: _, [] => .gt
  | (k, v) :: as, (k', v') :: bs => ((cmp k k').then (cmp v v')).then (cmpP as bs)
end

def leC (a b : Value) : Bool := cmp a b != .gt

/-! floats are IEEE-754 binary64 bit patterns; what the collection functions need of them
    (`==` / hash against integers, ordering, exact arithmetic) is integer arithmetic on the bits -/

/-- the exact value `m * 2^e` of a finite double; `none` for inf / nan -/
def fltParts (w : UInt64) : Option (Int × Int) :=
  let n : Nat := w.toNat
  let ex : Nat := n / 2 ^ 52 % 2048
  let man : Nat := n % 2 ^ 52
  if ex == 2047 then none
  else
    let m : Nat := if ex == 0 then man else 2 ^ 52 + man
    let e : Int := if ex == 0 then -1074 else (ex : Int) - 1075
    some (if n / 2 ^ 63 % 2 == 1 then -(m : Int) else (m : Int), e)

/-- the integer a double is `==` to (and hashes like), if there is one -/
def fltInt? (w : UInt64) : Option Int :=
  match fltParts w with
  | none => none
  | some (m, e) =>
    if m == 0 then some 0
    else if e ≥ 0 then some (m * 2 ^ e.toNat)
    else
      let d : Int := 2 ^ (-e).toNat
      if m % d == 0 then some (m / d) else none

mutual
/-- canonical form: `True`/`False` are the integers 1/0 (as Python's `==` and `hash`
    have it), set elements and dict entries are sorted. Two values are `==` in Python
    iff their canonical forms are structurally equal.  A double that is a whole number is
    that integer (`1.0 == 1 == True`, one dict key, one set element). -/
def canon : Value → Value
  | bool b => int (if b then 1 else 0)
  | flt w => (match fltInt? w with | some n => int n | none => flt w)
  | tuple l => tuple (canonL l)
  | list l => list (canonL l)
  | iter l => iter (canonL l)
  | set l => set ((canonL l).mergeSort leC)
  | dict kvs => dict ((canonP kvs).mergeSort (fun p q => leC p.1 q.1))
  | v => v
def canonL : List Value → List Value
  | [] => []
  | x :: xs => canon x :: canonL xs
def canonP : List (Value × Value) → List (Value × Value)
  | [] => []
  | (k, v) :: r => (canon k, canon v) :: canonP r
end

/-- Python `a == b` -/
def pyEq (a b : Value) : Bool := canon a == canon b

mutual
/-- `hash(v)` does not raise -/
def hashable : Value → Bool
  | list _ => false
  | tuple l => hashableL l
  | dict kvs => hashableP kvs      -- FrozenDict.__hash__ hashes the (key, value) pairs
  | iter _ => false                -- (identity hash; never put into a set by the model)
  | _ => true
def hashableL : List Value → Bool
  | [] => true
  | x :: xs => hashable x && hashableL xs
def hashableP : List (Value × Value) → Bool
  | [] => true
  | (_, v) :: r => hashable v && hashableP r
end

/-- `bool(v)` -/
def truthy : Value → Bool
  | null => false
  | bool b => b
  | int i => i != 0
  | flt b => b != 0 && b != 0x8000000000000000
  | str s => !s.isEmpty
  | tuple l => !l.isEmpty
  | list l => !l.isEmpty
  | dict l => !l.isEmpty
  | set l => !l.isEmpty
  | iter _ => true
  | host _ => true

/-- `utils.is_iterable`: Iterable and not str / Mapping -/
def isIterable : Value → Bool
  | tuple _ | list _ | set _ | iter _ => true
  | _ => false

def isSequence : Value → Bool
  | tuple _ | list _ => true
  | _ => false

/-- the elements an iterable yields -/
def elems : Value → List Value
  | tuple l | list l | set l | iter l => l
  | _ => []

end Value

namespace Seq
open Value

abbrev VL := List Value
abbrev KV := List (Value × Value)

/-! ### dict primitives (insertion ordered, keys distinct under `pyEq`) -/

def dGet (d : KV) (k : Value) : Option Value :=
  match d with
  | [] => none
  | (k', v) :: r => if pyEq k' k then some v else dGet r k

def dHas (d : KV) (k : Value) : Bool := (dGet d k).isSome

/-- `d[k] = v`: an existing key keeps its position (and its key object) -/
def dSet (d : KV) (k v : Value) : KV :=
  match d with
  | [] => [(k, v)]
  | (k', v') :: r => if pyEq k' k then (k', v) :: r else (k', v') :: dSet r k v

def dDel (d : KV) (k : Value) : KV := d.filter fun p => !pyEq p.1 k

/-- `dict(pairs)` -/
def dOfPairs (ps : KV) : KV := ps.foldl (fun acc p => dSet acc p.1 p.2) []

/-- `d.update(e)` -/
def dUpdate (d e : KV) : KV := e.foldl (fun acc p => dSet acc p.1 p.2) d

/-! ### set primitives (lists without `pyEq` duplicates; the order is the iteration order) -/

def sMem (s : VL) (x : Value) : Bool := s.any fun y => pyEq y x
def sInsert (s : VL) (x : Value) : VL := if sMem s x then s else s ++ [x]
def sOfList (xs : VL) : VL := xs.foldl sInsert []
def sUnion (a b : VL) : VL := b.foldl sInsert a
def sInter (a b : VL) : VL := a.filter (sMem b)
def sDiff (a b : VL) : VL := a.filter fun x => !sMem b x
def sSymDiff (a b : VL) : VL := sDiff a b ++ sDiff b a
def sSubset (a b : VL) : Bool := a.all (sMem b)

/-! ## Part B - the functions, pure -/

/-- Python index normalisation of `list.insert` / slicing bounds: clamp into `[0, len]` -/
def clampIdx (len : Nat) (i : Int) : Nat :=
  if i < 0 then (Int.toNat (len + i)) else min i.toNat len

/-! ### queries.py -/

def where_ (p : Value → Bool) (xs : VL) : VL := xs.filter p
def select (f : Value → Value) (xs : VL) : VL := xs.map f
/-- `f` already gives the elements to splice (an iterable result is iterated, anything else is itself) -/
def selectMany (f : Value → VL) (xs : VL) : VL := xs.flatMap f
def skip (n : Nat) (xs : VL) : VL := xs.drop n
def take (n : Nat) (xs : VL) : VL := xs.take n
def takeWhile (p : Value → Bool) (xs : VL) : VL := xs.takeWhile p
def skipWhile (p : Value → Bool) (xs : VL) : VL := xs.dropWhile p
def append (xs args : VL) : VL := xs ++ args
def concat (xss : List VL) : VL := xss.flatten

/-- `distinct`: the first element of every key class, in encounter order -/
def distinctAux (key : Value → Value) (seen : VL) : VL → VL
  | [] => []
  | x :: xs =>
    if sMem seen (key x) then distinctAux key seen xs
    else x :: distinctAux key (key x :: seen) xs
def distinctBy (key : Value → Value) (xs : VL) : VL := distinctAux key [] xs
def distinct (xs : VL) : VL := distinctBy id xs

def enumerateFrom (start : Int) : VL → VL
  | [] => []
  | x :: xs => list [int start, x] :: enumerateFrom (start + 1) xs

def any_ (p : Value → Bool) (xs : VL) : Bool := xs.any p
def all_ (p : Value → Bool) (xs : VL) : Bool := xs.all p
def len (xs : VL) : Nat := xs.length

/-- `functools.reduce(f, xs, seed)`; `none` = "reduce() of empty iterable with no initial value" -/
def aggregate (f : Value → Value → Value) (seed : Option Value) (xs : VL) : Option Value :=
  match seed, xs with
  | some s, xs => some (xs.foldl f s)
  | none, [] => none
  | none, x :: xs => some (xs.foldl f x)

def scanFrom (f : Value → Value → Value) (acc : Value) : VL → VL
  | [] => []
  | x :: xs => f acc x :: scanFrom f (f acc x) xs

/-- `accumulate`: the list of intermediate values of `aggregate`, the start value first -/
def accumulate (f : Value → Value → Value) (seed : Option Value) (xs : VL) : Option VL :=
  match seed, xs with
  | some s, xs => some (s :: scanFrom f s xs)
  | none, [] => none
  | none, x :: xs => some (x :: scanFrom f x xs)

def first (xs : VL) : Option Value := xs.head?
def last (xs : VL) : Option Value := xs.getLast?
def single : VL → Option Value
  | [x] => some x
  | _ => none

/-- `range(start, stop, step)` for `step ≠ 0` -/
def rangeFuel : Nat → Int → Int → Int → VL
  | 0, _, _, _ => []
  | n + 1, i, stop, step =>
    if (step > 0 && i < stop) || (step < 0 && i > stop) then int i :: rangeFuel n (i + step) stop step else []
def range (start stop step : Int) : VL :=
  rangeFuel (Int.toNat (if step > 0 then stop - start else start - stop)) start stop step

/-- first `n` elements of `sequence(start, step)` -/
def sequenceTake (start step : Int) : Nat → VL
  | 0 => []
  | n + 1 => int start :: sequenceTake (start + step) step n

def repeatN (v : Value) (n : Nat) : VL := List.replicate n v

/-- first `n` elements of `cycle(xs)` -/
def cycleTake (xs : VL) (n : Nat) : VL :=
  if xs.isEmpty then [] else (List.range n).map fun i => xs.getD (i % xs.length) null

/-! #### ordering -/

/-- one sort field: key selector and direction (`true` = ascending) -/
abbrev Field := (Value → Value) × Bool

/-- `OrderingIterable.Comparator.compare` for given `<` and `>` on keys -/
def cmpFields (lt gt : Value → Value → Bool) : List Field → Value → Value → Int
  | [], _, _ => 0
  | (k, asc) :: rest, a, b =>
    if lt (k a) (k b) then (if asc then -1 else 1)
    else if gt (k a) (k b) then (if asc then 1 else -1)
    else cmpFields lt gt rest a b

/-- what CPython's `sorted` sees: it only asks `Comparator.__lt__`; `a` may stay before `b`
    unless `b < a` -/
def sortLe (lt gt : Value → Value → Bool) (fs : List Field) (a b : Value) : Bool :=
  !(cmpFields lt gt fs b a < 0)

/-- `sorted(xs, key=Comparator)`: the stable sort -/
def orderFields (lt gt : Value → Value → Bool) (fs : List Field) (xs : VL) : VL :=
  xs.mergeSort (sortLe lt gt fs)

def orderBy (lt gt : Value → Value → Bool) (k : Value → Value) (xs : VL) : VL := orderFields lt gt [(k, true)] xs
def orderByDescending (lt gt : Value → Value → Bool) (k : Value → Value) (xs : VL) : VL := orderFields lt gt [(k, false)] xs

/-! #### grouping -/

/-- add `v` to the group of key `k` (a new group goes to the end) -/
def addToGroup (k v : Value) : List (Value × VL) → List (Value × VL)
  | [] => [(k, [v])]
  | (k', vs) :: r => if pyEq k' k then (k', vs ++ [v]) :: r else (k', vs) :: addToGroup k v r

def groupsOf (key val : Value → Value) (xs : VL) : List (Value × VL) :=
  xs.foldl (fun g x => addToGroup (key x) (val x) g) []

/-- `groupBy(key, val)` without aggregator: pairs (key, list of values) -/
def groupBy (key val : Value → Value) (xs : VL) : VL :=
  (groupsOf key val xs).map fun g => tuple [g.1, list g.2]

/-! #### zipping and joining -/

def minLen : List VL → Nat
  | [] => 0
  | [xs] => xs.length
  | xs :: r => min xs.length (minLen r)
def maxLen : List VL → Nat
  | [] => 0
  | xs :: r => max xs.length (maxLen r)

def zip (xss : List VL) : VL :=
  (List.range (minLen xss)).map fun i => tuple (xss.map fun xs => xs.getD i null)
def zipLongest (dflt : Value) (xss : List VL) : VL :=
  (List.range (maxLen xss)).map fun i => tuple (xss.map fun xs => xs.getD i dflt)

def join (pred : Value → Value → Bool) (sel : Value → Value → Value) (xs ys : VL) : VL :=
  xs.flatMap fun x => (ys.filter (pred x)).map (sel x)

/-! #### searching -/

def indexWhereFrom (p : Value → Bool) (i : Nat) : VL → Int
  | [] => -1
  | x :: xs => if p x then i else indexWhereFrom p (i + 1) xs
def indexWhere (p : Value → Bool) (xs : VL) : Int := indexWhereFrom p 0 xs
def lastIndexWhereFrom (p : Value → Bool) (i : Nat) (best : Int) : VL → Int
  | [] => best
  | x :: xs => lastIndexWhereFrom p (i + 1) (if p x then i else best) xs
def lastIndexWhere (p : Value → Bool) (xs : VL) : Int := lastIndexWhereFrom p 0 (-1) xs
def indexOf (v : Value) (xs : VL) : Int := indexWhere (fun x => pyEq x v) xs
def lastIndexOf (v : Value) (xs : VL) : Int := lastIndexWhere (fun x => pyEq x v) xs

/-! #### splitting -/

/-- `slice(n)`: consecutive chunks of `n` elements (the last may be shorter); nothing for `n = 0` -/
def sliceFuel (n : Nat) : Nat → VL → List VL
  | 0, _ => []
  | fuel + 1, xs => if n = 0 || xs.isEmpty then [] else xs.take n :: sliceFuel n fuel (xs.drop n)
def slice (n : Nat) (xs : VL) : List VL := sliceFuel n xs.length xs

/-- `splitAt(i)` = `[lst[:i], lst[i:]]` with Python's treatment of negative / large `i` -/
def splitAt (i : Int) (xs : VL) : VL × VL :=
  (xs.take (clampIdx xs.length i), xs.drop (clampIdx xs.length i))

/-- `splitWhere`: delimiters (elements satisfying `p`) are removed; a piece is produced at every
    delimiter (possibly empty) and a last one for a non-empty remainder -/
def splitWhereAux (p : Value → Bool) (cur : VL) : VL → List VL
  | [] => if cur.isEmpty then [] else [cur]
  | x :: xs => if p x then cur :: splitWhereAux p [] xs else splitWhereAux p (cur ++ [x]) xs
def splitWhere (p : Value → Bool) (xs : VL) : List VL := splitWhereAux p [] xs

/-- `sliceWhere`: maximal runs of adjacent elements on which the predicate gives `==` values -/
def sliceWhereAux (f : Value → Value) (cur : VL) (prev : Value) : VL → List VL
  | [] => [cur]
  | x :: xs =>
    if pyEq (f x) prev then sliceWhereAux f (cur ++ [x]) prev xs
    else cur :: sliceWhereAux f [x] (f x) xs
def sliceWhere (f : Value → Value) : VL → List VL
  | [] => []
  | x :: xs => sliceWhereAux f [x] (f x) xs

def reverse (xs : VL) : VL := xs.reverse

/-! ### collections.py -/

mutual
/-- `flatten`: recursive traversal; iterables (not strings, not dicts) are opened -/
def flattenV : Value → VL
  | .tuple l => flattenL l
  | .list l => flattenL l
  | .set l => flattenL l
  | .iter l => flattenL l
  | v => [v]
def flattenL : List Value → VL
  | [] => []
  | x :: xs => flattenV x ++ flattenL xs
end
def flatten (xs : VL) : VL := flattenL xs

mutual
/-- `list(args)`: only *iterators* among the arguments are opened (recursively) -/
def listRecV : Value → VL
  | .iter l => listRecL l
  | v => [v]
def listRecL : List Value → VL
  | [] => []
  | x :: xs => listRecV x ++ listRecL xs
end
def list_ (args : VL) : VL := listRecL args

def toList (xs : VL) : VL := xs
def toSet (xs : VL) : VL := sOfList xs

/-- `toDict(key, val)` -/
def toDict (key val : Value → Value) (xs : VL) : KV :=
  xs.foldl (fun d x => dSet d (key x) (val x)) []

/-- `dict(items)`: every item gives its first two elements -/
def dictOfItems (items : List (Value × Value)) : KV := dOfPairs items

def dictGet (d : KV) (k dflt : Value) : Value := (dGet d k).getD dflt
def dictSet (d : KV) (k v : Value) : KV := dSet d k v
def dictSetMany (d e : KV) : KV := dUpdate d e
def dictKeys (d : KV) : VL := d.map (·.1)
def dictValues (d : KV) : VL := d.map (·.2)
def dictItems (d : KV) : VL := d.map fun p => tuple [p.1, p.2]
def containsKey (d : KV) (k : Value) : Bool := dHas d k
def containsValue (d : KV) (v : Value) : Bool := d.any fun p => pyEq p.2 v
def contains (xs : VL) (v : Value) : Bool := xs.any fun x => pyEq x v
def combineDicts (a b : KV) : KV := dUpdate a b
def dictDelete (d : KV) (keys : VL) : KV := keys.foldl dDel d
def combineLists (a b : VL) : VL := a ++ b
def listByInt (xs : VL) (n : Int) : VL := (List.replicate n.toNat xs).flatten

/-- is index `i` inside the range addressed by `(position, count)` of delete / replace:
    `[position, position+count)` for `count ≥ 0`, `[position, ∞)` for a negative count -/
def inRange (pos count : Int) (i : Nat) : Bool :=
  if count ≥ 0 then pos ≤ i && (i : Int) < pos + count else pos ≤ (i : Int)

def deleteFrom (pos count : Int) (i : Nat) : VL → VL
  | [] => []
  | x :: xs => if inRange pos count i then deleteFrom pos count (i + 1) xs else x :: deleteFrom pos count (i + 1) xs
def delete (pos count : Int) (xs : VL) : VL := deleteFrom pos count 0 xs

/-- `replaceMany`: the first element of the range is replaced by `vals`, the others vanish -/
def replaceFrom (pos count : Int) (vals : VL) (i : Nat) (done : Bool) : VL → VL
  | [] => []
  | x :: xs =>
    if inRange pos count i then
      (if done then [] else vals) ++ replaceFrom pos count vals (i + 1) true xs
    else x :: replaceFrom pos count vals (i + 1) done xs
def replaceMany (pos count : Int) (vals : VL) (xs : VL) : VL := replaceFrom pos count vals 0 false xs
def replace (pos count : Int) (v : Value) (xs : VL) : VL := replaceMany pos count [v] xs

/-- `insert` on a sequence = `list.insert` -/
def listInsert (pos : Int) (v : Value) (xs : VL) : VL :=
  xs.take (clampIdx xs.length pos) ++ v :: xs.drop (clampIdx xs.length pos)

/-- `insertMany` (generator): a negative position puts the values first, a position
    beyond the last index puts them last -/
def insertMany (pos : Int) (vals : VL) (xs : VL) : VL :=
  if pos < 0 then vals ++ xs
  else xs.take pos.toNat ++ vals ++ xs.drop pos.toNat

/-- `insert` on a non-sequence iterable (generator): as `insertMany`, but a negative
    position inserts nothing (doc-silent, as implemented) -/
def iterInsert (pos : Int) (v : Value) (xs : VL) : VL :=
  if pos < 0 then xs else insertMany pos [v] xs

def setOf (args : VL) : VL := sOfList (list_ args)
def union (a b : VL) : VL := sUnion a b
/-- `a.intersection(b)`: CPython walks the smaller set (`b` on a tie) and keeps *its* elements -
    visible when `1` and `True` meet -/
def intersect (a b : VL) : VL := if b.length > a.length then sInter a b else sInter b a
def difference (a b : VL) : VL := sDiff a b
def symmetricDifference (a b : VL) : VL := sSymDiff a b
def setAdd (s vals : VL) : VL := sUnion s (sOfList vals)
def setRemove (s vals : VL) : VL := sDiff s (sOfList vals)
def setLe (a b : VL) : Bool := sSubset a b
def setLt (a b : VL) : Bool := sSubset a b && a.length < b.length

/-! ### `mergeWith` -/

/-- one entry `p` of the left dict against the right dict `d2` (`rec` merges nested dicts) -/
def mergeStep (listMerge itemMerge : Value → Value → Value) (rec : KV → KV → Option KV) (lvl : Nat) (d2 : KV)
    (acc : Option KV) (p : Value × Value) : Option KV :=
  match acc with
  | none => none
  | some acc =>
    match dGet d2 p.1 with
    | none => some (acc ++ [p])
    | some v2 =>
      if lvl != 1 then
        match v2, p.2 with
        | dict e2, dict e1 => (rec e1 e2).map fun m => acc ++ [(p.1, dict m)]
        | dict _, _ => none
        | tuple _, tuple _ | tuple _, list _ | list _, tuple _ | list _, list _ =>
          some (acc ++ [(p.1, listMerge p.2 v2)])
        | tuple _, _ | list _, _ => none
        | _, _ => some (acc ++ [(p.1, itemMerge p.2 v2)])
      else some (acc ++ [(p.1, itemMerge p.2 v2)])

/-- deep merge; `fuel` bounds the nesting depth (`fuel > depth` suffices); `lvl` is maxLevels
    (0 = unlimited). `none` = TypeError ("Cannot merge"). -/
def mergeDicts (listMerge itemMerge : Value → Value → Value) : Nat → Nat → KV → KV → Option KV
  | 0, _, _, _ => none
  | fuel + 1, lvl, d1, d2 =>
    (d1.foldl (mergeStep listMerge itemMerge
        (mergeDicts listMerge itemMerge fuel (if lvl = 0 then 0 else lvl - 1)) lvl d2) (some [])).map
      fun r => r ++ d2.filter fun q => !dHas d1 q.1

/-! ### `memorize` (utils.py): a shared buffer in front of a one-shot source -/

structure Mem where
  src : VL            -- what the wrapped iterator has not produced yet
  yielded : VL        -- the buffer `yielded`

/-- `RememberingIterator.__next__` of a cursor standing at `index` -/
def Mem.next (m : Mem) (index : Nat) : Option (Value × Mem) :=
  if index < m.yielded.length then some (m.yielded.getD index null, m)
  else match m.src with
    | [] => none
    | x :: r => some (x, { src := r, yielded := m.yielded ++ [x] })

/-- run one cursor from `index` to exhaustion -/
def Mem.drain : Nat → Mem → Nat → VL × Mem
  | 0, m, _ => ([], m)
  | fuel + 1, m, i =>
    match m.next i with
    | none => ([], m)
    | some (x, m') => let (r, m'') := Mem.drain fuel m' (i + 1); (x :: r, m'')

/-! ### `unpack` (system.py) -/

/-- the context entries `unpack(names)` writes: `none` = ValueError.  `pulled` is what the
    length probe `islice(sequence, len(names)+1)` took out of the (possibly one-shot) source,
    `rest` what is left in it. -/
def unpackBinds (names : List (List Char)) (pulled rest : VL) : Option (List (List Char × Value)) :=
  if names.isEmpty then
    some (((pulled ++ rest).zipIdx 1).map fun p => (Nat.toDigits 10 p.2, p.1))
  else if names.length != pulled.length then none
  else some (names.zip pulled)

def unpack (names : List (List Char)) (xs : VL) : Option (List (List Char × Value)) :=
  unpackBinds names (xs.take (names.length + 1)) (xs.drop (names.length + 1))

end Seq
end Yaql
