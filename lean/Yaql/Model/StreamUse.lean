/-! Vocabulary of the AST use-facts about the source parameter of a streaming payload
(`harness/gens/streamfacts.py` emits `Yaql/Gen/StreamFacts.lean` in these terms). -/
namespace Yaql.StreamUse

inductive Use where
  | returnsLazy      -- the source goes into map/filter/islice/chain/takewhile/dropwhile/zip... and that object is returned
  | loopInGenerator  -- `for t in source` inside a generator function
  | yieldFrom        -- `yield from source`
  | lazyGenExp       -- generator expression over the source
  | pullOne          -- `next(...)`
  | searchLoop       -- `for t in source` in a plain function whose loop body returns (short-circuit search)
  | alias            -- bound to another local name (that name is tracked as well)
  | boundedEager     -- an eager consumer of `islice(source, n)` (at most n elements)
  | storedLazy       -- kept in an attribute as an iterator (pulled on demand)
  | typeTest         -- isinstance / is_iterator ... / comparison
  | returnsSource    -- handed back untouched
  | sizeOf           -- `len(...)` (only defined on sized collections; never pulls an iterator)
  | unused
  | eager            -- tuple/list/sorted/sum/set/reduce..., a comprehension or a plain `for` over the source
  | escapes          -- passed to something the walker does not know (worst case)
  | missing          -- the payload function was not found
deriving Repr, DecidableEq, Inhabited

/-- uses that pull only on demand -/
def Use.isLazy : Use → Bool
  | .eager | .escapes | .missing => false
  | _ => true

structure Fact where
  op : String
  pyName : String
  isGenerator : Bool
  uses : List Use
deriving Repr

end Yaql.StreamUse
