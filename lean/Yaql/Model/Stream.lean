import Yaql.Model.SeqRun
/-!
Cost model of the streaming operators (C14).

A streaming operator is a `Machine`: a reaction before the first pull (`start`), a reaction to
each element pulled from its input (`step`) and a reaction to the input being exhausted
(`finish`).  A reaction emits items, says how many lambda applications it made (in total and
at the moment each item is emitted) and whether the operator is done (`stop`: it will not pull
again).  That is exactly the shape of the generator functions / itertools objects of
queries.py and collections.py.

Running a machine over an annotated stream (`runOn`) stamps every produced element with
* `pulls` - how many elements of the ORIGINAL source have been pulled when it is produced,
* `apps`  - how many lambda applications the whole pipeline has made when it is produced.
`outsOf m xs` is the operator "as a function from a source prefix to the list of produced
elements annotated with their cost"; the stream of an open prefix has `fin = none`, so nothing
is invented about what follows the prefix.  A pipeline is iterated `runOn` (`runPipe`): the
cost of a pipeline is the composition of the costs by construction.
-/
namespace Yaql.Stream
open Yaql Yaql.Value Yaql.Seq

abbrev Item := Except Err Value

def isErr : Except Err α → Bool
  | .error _ => true
  | .ok _ => false

structure Out where
  item : Item
  pulls : Nat
  apps : Nat
deriving Repr, Inhabited

/-- what an operator does in one go -/
structure React (σ : Type) where
  st : σ
  outs : List (Item × Nat) := []   -- item, and the applications made within this reaction when it is emitted
  apps : Nat := 0                  -- applications made by the whole reaction
  stop : Bool := false             -- the operator will not pull again

structure Machine where
  σ : Type
  start : React σ
  step : σ → Value → React σ
  finish : σ → React σ

/-- an annotated stream: the elements and, if it is known to end, the stamps at which it ends -/
structure Strm where
  outs : List Out
  fin : Option (Nat × Nat) := none
deriving Repr, Inhabited

def stampOuts (outs : List (Item × Nat)) (pulls apps : Nat) : List Out :=
  outs.map fun p => ⟨p.1, pulls, apps + p.2⟩

/-- run `m` from state `s`, having made `a` applications of its own so far, over the input -/
def runFrom (m : Machine) (s : m.σ) (a : Nat) : List Out → Option (Nat × Nat) → Strm
  | [], none => ⟨[], none⟩
  | [], some (p, ua) =>
    let r := m.finish s
    ⟨stampOuts r.outs p (ua + a), some (p, ua + a + r.apps)⟩
  | i :: rest, fin =>
    match i.item with
    | .error e => ⟨[⟨.error e, i.pulls, i.apps + a⟩], some (i.pulls, i.apps + a)⟩
    | .ok x =>
      let r := m.step s x
      let here := stampOuts r.outs i.pulls (i.apps + a)
      if r.stop then ⟨here, some (i.pulls, i.apps + a + r.apps)⟩
      else
        let t := runFrom m r.st (a + r.apps) rest fin
        ⟨here ++ t.outs, t.fin⟩

def runOn (m : Machine) (I : Strm) : Strm :=
  let r := m.start
  let here := stampOuts r.outs 0 0
  if r.stop then ⟨here, some (0, r.apps)⟩
  else
    let t := runFrom m r.st r.apps I.outs I.fin
    ⟨here ++ t.outs, t.fin⟩

def stampSrc (i : Nat) : VL → List Out
  | [] => []
  | x :: xs => ⟨.ok x, i + 1, 0⟩ :: stampSrc (i + 1) xs

/-- an open prefix of a source: element `i` costs `i+1` pulls, no lambda applications -/
def src (xs : VL) : Strm := ⟨stampSrc 0 xs, none⟩
/-- a finite source: asking beyond the end is the `(n+1)`-th pull -/
def srcClosed (xs : VL) : Strm := ⟨stampSrc 0 xs, some (xs.length + 1, 0)⟩

/-- the operator as a function from a source prefix to its annotated outputs -/
def outsOf (m : Machine) (xs : VL) : List Out := (runOn m (src xs)).outs

def runPipe (ms : List Machine) (I : Strm) : Strm := ms.foldl (fun I m => runOn m I) I
def pipeOuts (ms : List Machine) (xs : VL) : List Out := (runPipe ms (src xs)).outs

/-- endless source: its first `n` elements -/
def prefixOf (f : Nat → Value) (n : Nat) : VL := (List.range n).map f

/-! ### the operators -/

def one (r : Item) (k : Nat) : List (Item × Nat) := [(r, k)]
def oks (vs : VL) (k : Nat) : List (Item × Nat) := vs.map fun v => (.ok v, k)

/-- reaction of a stateless operator that applies one lambda and emits what `g` says -/
def react1 (r : R α) (g : α → VL) : React Unit :=
  match r with
  | .error e => { st := (), outs := one (.error e) 1, apps := 1, stop := true }
  | .ok a => { st := (), outs := oks (g a) 1, apps := 1 }

def idle (s : σ) : React σ := { st := s }
def done (s : σ) : React σ := { st := s, stop := true }

@[reducible] def mSelect (f : Lam) : Machine :=
  { σ := Unit, start := idle (), finish := fun _ => done ()
    step := fun _ x => react1 (f.eval x) fun v => [v] }

@[reducible] def mWhere (p : Lam) : Machine :=
  { σ := Unit, start := idle (), finish := fun _ => done ()
    step := fun _ x => react1 (p.test x) fun b => if b then [x] else [] }

@[reducible] def mSelectMany (f : Lam) : Machine :=
  { σ := Unit, start := idle (), finish := fun _ => done ()
    step := fun _ x => react1 (f.eval x) fun v => if isIterable v then elems v else [v] }

@[reducible] def mAttr (name : List Char) : Machine :=
  { σ := Unit, start := idle (), finish := fun _ => done ()
    step := fun _ x =>
      match memberV x name with
      | .error e => { st := (), outs := one (.error e) 0, stop := true }
      | .ok v => { st := (), outs := oks [v] 0 } }

@[reducible] def mPass : Machine :=
  { σ := Unit, start := idle (), finish := fun _ => done ()
    step := fun _ x => { st := (), outs := oks [x] 0 } }

/-- `memorize`: elements are handed on as they are pulled -/
@[reducible] def mMemorize : Machine := mPass

@[reducible] def mSkip (n : Int) : Machine :=
  { σ := Nat
    start := if n < 0 then { st := 0, outs := one (.error .value) 0, stop := true } else idle 0
    finish := fun c => done c
    step := fun c x => if c < n.toNat then { st := c + 1 } else { st := c, outs := oks [x] 0 } }

@[reducible] def mTake (n : Int) : Machine :=
  { σ := Nat
    start := if n < 0 then { st := 0, outs := one (.error .value) 0, stop := true }
             else if n = 0 then done 0 else idle 0
    finish := fun c => done c
    step := fun c x => { st := c + 1, outs := oks [x] 0, stop := decide (n.toNat ≤ c + 1) } }

@[reducible] def mTakeWhile (p : Lam) : Machine :=
  { σ := Unit, start := idle (), finish := fun _ => done ()
    step := fun _ x =>
      match p.test x with
      | .error e => { st := (), outs := one (.error e) 1, apps := 1, stop := true }
      | .ok true => { st := (), outs := oks [x] 1, apps := 1 }
      | .ok false => { st := (), apps := 1, stop := true } }

@[reducible] def mSkipWhile (p : Lam) : Machine :=
  { σ := Bool            -- still dropping
    start := idle true, finish := fun s => done s
    step := fun dropping x =>
      if dropping then
        match p.test x with
        | .error e => { st := true, outs := one (.error e) 1, apps := 1, stop := true }
        | .ok true => { st := true, apps := 1 }
        | .ok false => { st := false, outs := oks [x] 1, apps := 1 }
      else { st := false, outs := oks [x] 0 } }

/-- `append(args)` / `concat(others)`: the tail comes when the input is exhausted -/
@[reducible] def mAppend (tail : VL) : Machine :=
  { σ := Unit, start := idle ()
    finish := fun _ => { st := (), outs := oks tail 0, stop := true }
    step := fun _ x => { st := (), outs := oks [x] 0 } }

@[reducible] def mDistinct (key : Option Lam) : Machine :=
  { σ := VL, start := idle [], finish := fun s => done s
    step := fun seen x =>
      let a := if key.isSome then 1 else 0
      match (optLam key).eval x with
      | .error e => { st := seen, outs := one (.error e) a, apps := a, stop := true }
      | .ok k =>
        if !hashable k then { st := seen, outs := one (.error .type) a, apps := a, stop := true }
        else if sMem seen k then { st := seen, apps := a }
        else { st := k :: seen, outs := oks [x] a, apps := a } }

@[reducible] def mEnumerate (start : Int) : Machine :=
  { σ := Int, start := idle start, finish := fun s => done s
    step := fun i x => { st := i + 1, outs := oks [list [int i, x]] 0 } }

/-- `zip(others)`: row `i` exists while every other collection has an element `i`; the input
    element of the first incomplete row is pulled (and lost) -/
@[reducible] def mZip (others : List VL) : Machine :=
  { σ := Nat, start := idle 0, finish := fun s => done s
    step := fun i x =>
      if others.all (fun o => i < o.length) then
        { st := i + 1, outs := oks [tuple (x :: others.map fun o => o.getD i null)] 0 }
      else done i }

@[reducible] def mAccumulate (f : Lam2) (seed : Option Value) : Machine :=
  { σ := Option Value
    start := match seed with
      | some s => { st := some s, outs := oks [s] 0 }
      | none => idle none
    finish := fun s => match s with
      | none => { st := none, outs := one (.error .type) 0, stop := true }
      | some _ => done s
    step := fun s x =>
      match s with
      | none => { st := some x, outs := oks [x] 0 }
      | some acc =>
        match f.eval acc x with
        | .error e => { st := s, outs := one (.error e) 1, apps := 1, stop := true }
        | .ok v => { st := some v, outs := oks [v] 1, apps := 1 } }

/-- `insertMany(pos, vals)` / `insert(pos, v)` on an iterator (`front`: a negative position puts
    the values first - insertMany - or nowhere - insert) -/
@[reducible] def mInsert (pos : Int) (vals : VL) (front : Bool) : Machine :=
  { σ := Nat
    start := if pos < 0 && front then { st := 0, outs := oks vals 0 } else idle 0
    finish := fun i => if pos ≥ 0 && pos.toNat ≥ i then { st := i, outs := oks vals 0, stop := true } else done i
    step := fun i x =>
      if pos ≥ 0 && pos.toNat = i then { st := i + 1, outs := oks (vals ++ [x]) 0 }
      else { st := i + 1, outs := oks [x] 0 } }

@[reducible] def mDelete (pos count : Int) : Machine :=
  { σ := Nat, start := idle 0, finish := fun s => done s
    step := fun i x => if inRange pos count i then { st := i + 1 } else { st := i + 1, outs := oks [x] 0 } }

@[reducible] def mReplace (pos count : Int) (vals : VL) : Machine :=
  { σ := Nat × Bool, start := idle (0, false), finish := fun s => done s
    step := fun s x =>
      if inRange pos count s.1 then
        (if s.2 then { st := (s.1 + 1, true) } else { st := (s.1 + 1, true), outs := oks vals 0 })
      else { st := (s.1 + 1, s.2), outs := oks [x] 0 } }

@[reducible] def mSlice (n : Int) : Machine :=
  { σ := VL
    start := if n < 0 then { st := [], outs := one (.error .value) 0, stop := true }
             else if n = 0 then done [] else idle []
    finish := fun buf => if buf.isEmpty then done buf else { st := [], outs := oks [tuple buf] 0, stop := true }
    step := fun buf x =>
      if (buf ++ [x]).length ≥ n.toNat then { st := [], outs := oks [tuple (buf ++ [x])] 0 }
      else { st := buf ++ [x] } }

@[reducible] def mFirst (dflt : Option Value) : Machine :=
  { σ := Unit, start := idle ()
    finish := fun _ => match dflt with
      | some d => { st := (), outs := oks [d] 0, stop := true }
      | none => { st := (), outs := one (.error .stopIteration) 0, stop := true }
    step := fun _ x => { st := (), outs := oks [x] 0, stop := true } }

@[reducible] def mAny (p : Option Lam) : Machine :=
  { σ := Unit, start := idle ()
    finish := fun _ => { st := (), outs := oks [bool false] 0, stop := true }
    step := fun _ x =>
      match p with
      | none => { st := (), outs := oks [bool true] 0, stop := true }
      | some l =>
        match l.test x with
        | .error e => { st := (), outs := one (.error e) 1, apps := 1, stop := true }
        | .ok true => { st := (), outs := oks [bool true] 1, apps := 1, stop := true }
        | .ok false => { st := (), apps := 1 } }

@[reducible] def mAll (p : Option Lam) : Machine :=
  { σ := Unit, start := idle ()
    finish := fun _ => { st := (), outs := oks [bool true] 0, stop := true }
    step := fun _ x =>
      let a := if p.isSome then 1 else 0
      match (optLam p).test x with
      | .error e => { st := (), outs := one (.error e) a, apps := a, stop := true }
      | .ok false => { st := (), outs := oks [bool false] a, apps := a, stop := true }
      | .ok true => { st := (), apps := a } }

@[reducible] def mIndexWhere (p : Value → R Bool) (countsApp : Bool) : Machine :=
  { σ := Nat, start := idle 0
    finish := fun i => { st := i, outs := oks [int (-1)] 0, stop := true }
    step := fun i x =>
      let a := if countsApp then 1 else 0
      match p x with
      | .error e => { st := i, outs := one (.error e) a, apps := a, stop := true }
      | .ok true => { st := i, outs := oks [int i] a, apps := a, stop := true }
      | .ok false => { st := i + 1, apps := a } }

@[reducible] def mIndexOf (v : Value) : Machine := mIndexWhere (fun x => .ok (pyEq x v)) false

/-- rows of `join` for one outer element with the applications made when each is produced -/
def joinCosts (pred sel : Lam2) (x : Value) (a : Nat) : VL → List (Item × Nat) × Nat × Bool
  | [] => ([], a, false)
  | y :: ys =>
    match pred.eval x y with
    | .error e => ([(.error e, a + 1)], a + 1, true)
    | .ok b =>
      if truthy b then
        match sel.eval x y with
        | .error e => ([(.error e, a + 2)], a + 2, true)
        | .ok v => let r := joinCosts pred sel x (a + 2) ys; ((.ok v, a + 2) :: r.1, r.2.1, r.2.2)
      else joinCosts pred sel x (a + 1) ys

@[reducible] def mJoin (other : VL) (pred sel : Lam2) : Machine :=
  { σ := Unit, start := idle (), finish := fun _ => done ()
    step := fun _ x => let r := joinCosts pred sel x 0 other; { st := (), outs := r.1, apps := r.2.1, stop := r.2.2 } }

/-! ### operators seen from a SECONDARY lazy collection argument

The machines above run over the receiver.  `join`, `zip`, `zipLongest`, `concat` / `+`,
`insertMany`, `replaceMany`, `defaultIfEmpty` and the result of a `selectMany` selector take a
further lazy collection; here the machine runs over THAT collection and the receiver (and the
other collection arguments) are constants. -/

/-- rows of `join` for the outer elements `xs` against a completely known inner list -/
def joinRest (pred sel : Lam2) (memo : VL) (a : Nat) : VL → List (Item × Nat) × Nat × Bool
  | [] => ([], a, false)
  | x :: xs =>
    let r := joinCosts pred sel x a memo
    if r.2.2 then r
    else
      let t := joinRest pred sel memo r.2.1 xs
      (r.1 ++ t.1, t.2.1, t.2.2)

/-- `outer.join(S, pred, sel)` over `S`: `collection2 = utils.memorize(collection2)`.  While the
    rows of the FIRST outer element are made `S` is pulled on demand (one predicate application
    per pulled element, a selector application when it holds); only when `S` is exhausted do
    the later outer elements come, and they replay the memo.  No outer element: `S` is never
    touched. -/
@[reducible] def mJoinInner (outer : VL) (pred sel : Lam2) : Machine :=
  { σ := VL                       -- what has been pulled so far, newest first
    start := match outer with
      | [] => done []
      | _ :: _ => idle []
    finish := fun memo =>
      let r := joinRest pred sel memo.reverse 0 outer.tail
      { st := memo, outs := r.1, apps := r.2.1, stop := true }
    step := fun memo y =>
      let r := joinCosts pred sel (outer.headD null) 0 [y]
      { st := y :: memo, outs := r.1, apps := r.2.1, stop := r.2.2 } }

/-- `zip(before.., S, after..)` over `S`: builtin `zip` asks the collections in argument order for
    every row, so `S` is asked for row `i` only if every collection in front of it has an element
    `i`; if one behind it has none, the pulled element is lost. -/
@[reducible] def mZipAt (before after : List VL) : Machine :=
  { σ := Nat
    start := if before.all (fun o => 0 < o.length) then idle 0 else done 0
    finish := fun s => done s
    step := fun i y =>
      if after.all (fun o => i < o.length) then
        { st := i + 1
          outs := oks [tuple (before.map (fun o => o.getD i null) ++ y :: after.map fun o => o.getD i null)] 0
          stop := !before.all (fun o => i + 1 < o.length) }
      else done i }

def longest (ls : List VL) : Nat := ls.foldl (fun n o => max n o.length) 0

/-- `zipLongest(before.., S, after.., default => fill)` over `S`: a row per pulled element; when
    `S` ends the remaining rows of the longer constant collections follow without a pull. -/
@[reducible] def mZipLongestAt (before after : List VL) (fill : Value) : Machine :=
  { σ := Nat, start := idle 0
    finish := fun i =>
      { st := i, stop := true
        outs := oks ((List.range (longest (before ++ after) - i)).map fun d =>
          tuple (before.map (fun o => o.getD (i + d) fill) ++ fill :: after.map fun o => o.getD (i + d) fill)) 0 }
    step := fun i y =>
      { st := i + 1
        outs := oks [tuple (before.map (fun o => o.getD i fill) ++ y :: after.map fun o => o.getD i fill)] 0 } }

/-- a lazy collection spliced between two constant runs: `head` is produced before the first
    pull, the elements are handed on, `tail` follows at exhaustion.  `tail = none`: the lazy
    collection is never asked for anything. -/
@[reducible] def mSplice (head : VL) (tail : Option VL) : Machine :=
  { σ := Unit
    start := { st := (), outs := oks head 0, stop := tail.isNone }
    finish := fun _ => { st := (), outs := oks (tail.getD []) 0, stop := true }
    step := fun _ y => { st := (), outs := oks [y] 0 } }

/-- `before.concat(.., S, ..after)` / `left + S` -/
def spliceConcat (before after : List VL) : VL × Option VL := (before.flatten, some after.flatten)

/-- `xs.insertMany(pos, S)`: in front of everything (negative position), in front of element
    `pos`, or at the end -/
def spliceInsertMany (xs : VL) (pos : Int) : VL × Option VL :=
  let p := if pos < 0 then 0 else min pos.toNat xs.length
  (xs.take p, some (xs.drop p))

/-- `xs.replaceMany(pos, S, count)`: `S` stands in for the first element of the addressed range,
    the other elements of the range vanish; a range that meets no element never asks `S` -/
def spliceReplaceMany (pos count : Int) (i : Nat) : VL → VL × Option VL
  | [] => ([], none)
  | x :: xs =>
    if inRange pos count i then ([], some (deleteFrom pos count (i + 1) xs))
    else let r := spliceReplaceMany pos count (i + 1) xs; (x :: r.1, r.2)

/-- `xs.defaultIfEmpty(S)` hands `S` out untouched when `xs` is empty and never looks at it otherwise -/
def spliceDefault (xs : VL) : VL × Option VL := if xs.isEmpty then ([], some []) else (xs, none)

/-- `[x].selectMany(λ. S)` over `S`: one application of the selector, then `yield from` its result -/
@[reducible] def mSelectManyInner (nonEmpty : Bool) : Machine :=
  { σ := Unit
    start := if nonEmpty then { st := (), apps := 1 } else done ()
    finish := fun _ => done ()
    step := fun _ y => { st := (), outs := oks [y] 0 } }

/-- the machine of an operation of the C13 catalogue (`none`: not a streaming operator) -/
def machineOf : Op → Option Machine
  | .select f => some (mSelect f)
  | .where_ p => some (mWhere p)
  | .selectMany f => some (mSelectMany f)
  | .attr n => some (mAttr n)
  | .skip n => some (mSkip n)
  | .take n => some (mTake n)
  | .takeWhile p => some (mTakeWhile p)
  | .skipWhile p => some (mSkipWhile p)
  | .append args => some (mAppend args)
  | .concat colls => some (mAppend colls.flatten)
  | .distinct k => some (mDistinct k)
  | .enumerate s => some (mEnumerate (s.getD 0))
  | .zip others => some (mZip others)
  | .accumulate f s => some (mAccumulate f s)
  | .insert pos v => some (mInsert pos [v] false)
  | .insertMany pos vals => some (mInsert pos vals true)
  | .delete [int pos] => some (mDelete pos 1)
  | .delete [int pos, int count] => some (mDelete pos count)
  | .replace pos v c => some (mReplace pos (c.getD 1) [v])
  | .replaceMany pos vals c => some (mReplace pos (c.getD 1) vals)
  | .slice n => some (mSlice n)
  | .memorize => some mMemorize
  | .first d => some (mFirst d)
  | .any_ p => some (mAny p)
  | .all_ p => some (mAll p)
  | .indexOf v => some (mIndexOf v)
  | .indexWhere p => some (mIndexWhere p.test true)
  | .join other pred sel => some (mJoin other pred sel)
  | _ => none

/-- the first `k` results of a pipeline over the first `n` elements of a source, if the prefix
    suffices to produce them -/
def firstK (ms : List Machine) (xs : VL) (k : Nat) : Option (List Out) :=
  let o := pipeOuts ms xs
  if k ≤ o.length then some (o.take k) else none

end Yaql.Stream
