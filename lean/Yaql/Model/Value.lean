/-!
Values of the modelled language (shared by the evaluation, collection, scalar,
string and conversion models).  Strings are code-point lists; floats are IEEE
bit patterns (arithmetic on them goes through Lean's `Float`, the same doubles
CPython uses); `tuple` is yaql's internal immutable sequence, `list` a host
mutable list; `dict` keeps insertion order; `set` keeps first-insertion order
and is compared as a set; `iter` is a one-shot lazy sequence given by its
(finite) content; `host` an opaque host object identified by an id.
-/
namespace Yaql

inductive Value where
  | null
  | bool (b : Bool)
  | int (i : Int)
  | flt (bits : UInt64)
  | str (s : List Char)
  | tuple (l : List Value)
  | list (l : List Value)
  | dict (kvs : List (Value × Value))
  | set (l : List Value)
  | iter (l : List Value)
  | host (id : Nat)
deriving Repr, Inhabited

namespace Value

mutual
def beq : Value → Value → Bool
  | null, null => true
  | bool a, bool b => a == b
  | int a, int b => a == b
  | flt a, flt b => a == b
  | str a, str b => a == b
  | tuple a, tuple b => beqL a b
  | list a, list b => beqL a b
  | dict a, dict b => beqP a b
  | set a, set b => beqL a b
  | iter a, iter b => beqL a b
  | host a, host b => a == b
  | _, _ => false
def beqL : List Value → List Value → Bool
  | [], [] => true
  | a :: as, b :: bs => beq a b && beqL as bs
  | _, _ => false
def beqP : List (Value × Value) → List (Value × Value) → Bool
  | [], [] => true
  | (k, v) :: as, (k', v') :: bs => beq k k' && beq v v' && beqP as bs
  | _, _ => false
end

instance : BEq Value := ⟨beq⟩

end Value
end Yaql
