/-!
Tokens: the interface between the lexer model (`Yaql.Model.Lexer`) and the parser model
(`Yaql.Model.Parser`).  An operator token is identified by its symbol text (the ply lexeme
names `OP_A`, `OP_B`.. are an internal numbering of the same thing).
-/
namespace Yaql.Syntax

inductive TokKind where
  | keyword            -- KEYWORD_STRING (value: its text)
  | quoted             -- QUOTED_STRING in any of the three quote styles (value: decoded text)
  | number             -- NUMBER (value: int or float)
  | func               -- FUNC: `name(` (value: name)
  | dollar             -- DOLLAR: `$`, `$name` (value: text including the `$`)
  | indexer            -- `[`
  | map                -- `{`
  | mapping            -- the name/value operator, `=>` by default
  | true_ | false_ | null_
  | op (sym : List Char)   -- any operator of the table: `+`, `and`, `->`, ...
  | lit (c : Char)         -- one of `(`, `)`, `]`, `,`, `}`
deriving DecidableEq, Repr, Inhabited

inductive TokVal where
  | none
  | text (s : List Char)
  | int (n : Nat)
  | flt (literal : List Char) (bits : UInt64)
      -- a float literal: its decimal text `ddd.ddd` (ASCII digits) and the binary64 value it denotes (IEEE bits)
deriving DecidableEq, Repr, Inhabited

structure Token where
  kind : TokKind
  val : TokVal := .none
  pos : Nat := 0                 -- `lexpos`: offset (in code points) of the token's first character
deriving DecidableEq, Repr, Inhabited

end Yaql.Syntax
