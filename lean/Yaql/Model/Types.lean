/-!
Model of yaql/language/yaqltypes.py as a closed description.

Python classes are numbers (`Cls`); `issubclass`/`isinstance` are an ABSTRACT
relation `Lattice.sub` (nothing is assumed about it: the theorems hold for every
class graph, including ABCs with registered virtual subclasses).  A runtime
value is described only by what the smart types can observe of it: its class,
the validators it passes, and an identity tag (so that the driver can say which
value ended up in which parameter).  Call arguments are the objects
`runner.choose_overload` sees: the `NO_VALUE` marker of an empty slot, a
`Constant`/`KeywordConstant`, any other expression (a probe that logs when
it is evaluated), a `MappingRuleExpression`, or an already evaluated Python
value (receiver, `call()` arguments, parameter defaults).
-/
namespace Yaql.Types

abbrev Name := List Char
abbrev Cls := Nat

/-- an evaluated Python value as far as parameter types can tell -/
inductive Val where
  | none                                            -- Python `None`
  | obj (cls : Cls) (passes : List Nat) (tag : Nat) -- type(value), validators v with v(value), identity
deriving Repr, DecidableEq, Inhabited

/-- the class graph and the marker object (`utils.NO_VALUE` / `specs.NO_DEFAULT` are instances
    of private marker classes; both look the same to every smart type) -/
structure Lattice where
  sub : Cls → Cls → Bool          -- issubclass
  marker : Val

/-- `PythonType.python_type`: a class or a tuple of classes -/
inductive PyCls where
  | one (c : Cls)
  | many (cs : List Cls)
deriving Repr, DecidableEq, Inhabited

/-- what the `*Constant` smart types look at in `Constant.value` -/
inductive Lit where
  | null | str | bool | num | other
deriving Repr, DecidableEq, Inhabited

inductive Arg where
  | noValue                                                        -- utils.NO_VALUE
  | const (v : Val) (lit : Lit) (kw : Option Name) (ek : Nat)      -- Constant / KeywordConstant (kw = some name)
  | expr (ek : Nat) (probe : Nat) (usesReceiver : Bool) (result : Val)   -- any other Expression
  | mapRule (src dst : Arg) (result : Val) (ek : Nat)              -- MappingRuleExpression
  | value (v : Val)                                                -- a plain Python value
deriving Repr, DecidableEq, Inhabited

namespace Arg

def isNoValue : Arg → Bool
  | noValue => true
  | _ => false

/-- `type(value)` among the expression classes; `none` when the object is not an Expression -/
def ekind : Arg → Option Nat
  | const _ _ _ ek => some ek
  | expr ek _ _ _ => some ek
  | mapRule _ _ _ ek => some ek
  | _ => Option.none

/-- `isinstance(arg, Expression) and not isinstance(arg, Constant)`: what `arg_evaluator` evaluates -/
def evaluable : Arg → Bool
  | expr .. => true
  | mapRule .. => true
  | _ => false

/-- probes fired by `arg(NO_VALUE, context, engine)`, in order
    (`MappingRuleExpression.__call__` evaluates source, then destination) -/
def evalLog : Arg → List Nat
  | expr _ p _ _ => [p]
  | mapRule s d _ _ => evalLog s ++ evalLog d
  | _ => []

/-- the argument after `arg_evaluator` ran on an eager position -/
def evaluated : Arg → Arg
  | expr _ _ _ r => value r
  | mapRule _ _ r _ => value r
  | a => a

end Arg

inductive HKind where
  | context | engine | receiver | super | delegate | fdef | yaqlInterface
deriving Repr, DecidableEq, Inhabited

inductive CKind where
  | any | string | boolean | numeric
deriving Repr, DecidableEq, Inhabited

/-- the smart types; `String()`, `Integer()`, `Number()`, `Iterable()`, `Iterator()`,
    `Sequence()`, `DateTime()` are `py` with their class (tuple) and validators, see below -/
inductive PTy where
  | py (c : PyCls) (nullable : Bool) (validators : List Nat)
  | lambda (method : Bool)
  | mappingRule
  | yaqlExpr (kinds : List Nat)          -- [] = any Expression
  | constant (nullable : Bool) (kind : CKind)
  | keyword
  | hidden (h : HKind)
deriving Repr, DecidableEq, Inhabited

/-- ids of the builtin classes / validators in a given class table -/
structure Builtins where
  str : Cls
  int : Cls
  float : Cls
  iterable : Cls
  sequence : Cls
  vNotBool : Nat
  vNotStrMapping : Nat
  vNotStrDict : Nat
  vIsIterator : Nat

namespace PTy
def string (b : Builtins) (nullable := false) : PTy := py (.one b.str) nullable []
def integer (b : Builtins) (nullable := false) : PTy := py (.one b.int) nullable [b.vNotBool]
def number (b : Builtins) (nullable := false) : PTy := py (.many [b.int, b.float]) nullable [b.vNotBool]
def iterable (b : Builtins) (nullable := false) : PTy := py (.one b.iterable) nullable [b.vNotStrMapping]
def iterator (b : Builtins) (nullable := false) : PTy :=
  py (.one b.iterable) nullable [b.vNotStrMapping, b.vIsIterator]
def sequence (b : Builtins) (nullable := false) : PTy := py (.one b.sequence) nullable [b.vNotStrDict]

/-- `isinstance(t, LazyParameterType)` -/
def isLazy : PTy → Bool
  | lambda _ => true
  | mappingRule => true
  | yaqlExpr _ => true
  | _ => false

/-- `isinstance(t, HiddenParameterType)` -/
def isHidden : PTy → Bool
  | hidden _ => true
  | _ => false
end PTy

def isInstance (L : Lattice) (c : Cls) : PyCls → Bool
  | .one t => L.sub c t
  | .many ts => ts.any (L.sub c)

/-- `GenericType.check` of a `PythonType` on a value that is not an expression -/
def checkPyVal (L : Lattice) (pc : PyCls) (nullable : Bool) (vs : List Nat) : Val → Bool
  | .none => nullable
  | .obj c ps _ => isInstance L c pc && vs.all ps.contains

def CKind.ok : CKind → Lit → Bool
  | .any, _ => true
  | .string, .str => true
  | .boolean, .bool => true
  | .numeric, .num => true
  | _, _ => false

/-- `value_type.check(value, context, engine)`, class by class -/
def check (L : Lattice) : PTy → Arg → Bool
  | .hidden _, _ => true
  | .py pc n vs, a =>
      match a with
      | .const v _ _ _ => checkPyVal L pc n vs v          -- unwrapped `Constant.value`
      | .expr .. => true                                   -- not known before evaluation
      | .mapRule .. => true
      | .value v => checkPyVal L pc n vs v
      | .noValue => checkPyVal L pc n vs L.marker
  | .lambda m, a =>
      match a with
      | .const .. => !m                                    -- uses_receiver = False
      | .expr _ _ ur _ => !m || ur
      | .mapRule .. => !m
      | _ => true                                          -- nullable = True
  | .mappingRule, a =>
      match a with
      | .mapRule .. => true
      | _ => false
  | .yaqlExpr ks, a =>
      match a.ekind with
      | some k => ks.isEmpty || ks.contains k
      | none => false
  | .constant n kind, a =>
      match a with
      | .value .none => n
      | .const _ lit _ _ => kind.ok lit
      | _ => false
  | .keyword, a =>
      match a with
      | .const _ _ (some _) _ => true
      | _ => false

/-- `self.is_specialization_of(other)`: only `PythonType`s over single classes are ordered (proper
    subclass); a type given as a tuple of classes neither specializes nor is specialized -/
def isSpecializationOf (L : Lattice) : PTy → PTy → Bool
  | .py (.one a) _ _, .py (.one b) _ _ => L.sub a b && !L.sub b a
  | _, _ => false

/-- the same relation under the name the specification uses -/
def specializes (L : Lattice) (a b : PTy) : Bool := isSpecializationOf L a b

/-- `is_specialization_of` BEFORE commit 9bf7e72 (kept to document what the repair changed):
    `none` = the `TypeError` that `issubclass` raised when exactly one of the two `python_type`s was a
    tuple and the other was reached -/
def isSpecializationOfOld (L : Lattice) : PTy → PTy → Option Bool
  | .py (.one a) _ _, .py (.one b) _ _ => some (L.sub a b && !L.sub b a)
  | .py (.many _) _ _, .py (.many _) _ _ => some false
  | .py (.one a) _ _, .py (.many bs) _ _ => if bs.any (L.sub a) then none else some false
  | .py (.many _) _ _, .py (.one _) _ _ => none
  | _, _ => some false

end Yaql.Types
