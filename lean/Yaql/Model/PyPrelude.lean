/-!
Python primitives the source translator (`harness/py2lean.py`) maps Python syntax to.

Import-free and executable.  Every definition here is the meaning of one piece of Python
*syntax or builtin* on the closed type universe of the translator (`Int`, `Bool`,
`List α` for `list`/`tuple`/`str`, `Option α` for a nullable, association lists for `dict`),
not of any yaql function.  The lemmas about them are in `Yaql/Lemmas/PyPrelude.lean`.

Conventions
* `Err` is the closed enum of exception classes a translated function may raise.
* loops: `forLoop xs s f` runs `f` over `xs` threading the state `s`; the body answers with a
  `Step` (`next` = fall off the end of the body / `continue`, `brk` = `break`, `ret` = `return`
  out of the enclosing function).  A loop with no `break`/`return` is a plain `List.foldl`.
* `whileLoop` takes fuel; running out of fuel is the error `Err.fuel` (never produced when the
  caller supplies enough fuel, which the equivalence theorems state explicitly).
-/
namespace Yaql.Py

/-- exception classes of translated code -/
inductive Err where
  | valueError | typeError | indexError | keyError | zeroDivision | overflowError
  | stopIteration | attributeError | notImplemented
  | fuel                      -- a `while` ran out of the supplied fuel
  | other (tag : Nat)         -- an exception class named in the target's typing entry
deriving Repr, DecidableEq, Inhabited

/-! ## integers -/

/-- `a // b` for `b ≠ 0` (floor) -/
def floordiv (a b : Int) : Int := Int.fdiv a b
/-- `a % b` for `b ≠ 0` (sign of the divisor) -/
def mod (a b : Int) : Int := Int.fmod a b
/-- `a // b` -/
def floordiv? (a b : Int) : Except Err Int := if b = 0 then .error .zeroDivision else .ok (Int.fdiv a b)
/-- `a % b` -/
def mod? (a b : Int) : Except Err Int := if b = 0 then .error .zeroDivision else .ok (Int.fmod a b)
/-- `min(a, b)` / `max(a, b)` on ints -/
def imin (a b : Int) : Int := if b < a then b else a
def imax (a b : Int) : Int := if b > a then b else a
/-- `abs(a)` -/
def iabs (a : Int) : Int := if a < 0 then -a else a
/-- does the int fit a C `Py_ssize_t` (arguments CPython converts with the "n" format; outside: OverflowError) -/
def ssizeOk (i : Int) : Bool := decide (-(2 : Int) ^ 63 ≤ i ∧ i < (2 : Int) ^ 63)
/-- `bool(i)` -/
def truthyInt (i : Int) : Bool := i != 0

/-! ## sequences (`list`, `tuple`, `str` are all `List α`) -/

/-- `len(xs)` -/
def len (xs : List α) : Int := (xs.length : Int)

/-- a slice bound: negative counts from the end, everything clamps into `[0, len]` -/
def clampIdx (len : Nat) (i : Int) : Nat :=
  if i < 0 then (i + len).toNat else min i.toNat len

def loBound (len : Nat) : Option Int → Nat
  | none => 0
  | some a => clampIdx len a

def hiBound (len : Nat) : Option Int → Nat
  | none => len
  | some b => clampIdx len b

/-- `xs[a:b]` (`none` = bound omitted) -/
def slice (xs : List α) (a b : Option Int) : List α :=
  (xs.take (hiBound xs.length b)).drop (loBound xs.length a)

/-- `xs[i]` -/
def index (xs : List α) (i : Int) : Except Err α :=
  let j := if i < 0 then i + xs.length else i
  if j < 0 then .error .indexError
  else match xs[j.toNat]? with
    | some v => .ok v
    | none => .error .indexError

/-- `xs.insert(i, v)` (as a new list) -/
def listInsert (xs : List α) (i : Int) (v : α) : List α :=
  let k := clampIdx xs.length i
  xs.take k ++ v :: xs.drop k

/-- `xs.insert(i, v)`: the index is converted to a C `Py_ssize_t` first -/
def listInsert? (xs : List α) (i : Int) (v : α) : Except Err (List α) :=
  if ssizeOk i then .ok (listInsert xs i v) else .error .overflowError

/-- `xs * n` -/
def repeat_ (xs : List α) (n : Int) : List α := (List.replicate n.toNat xs).flatten

/-- `range(a, b)` as a list, by recursion on the count -/
def rangeFrom (a : Int) : Nat → List Int
  | 0 => []
  | n + 1 => a :: rangeFrom (a + 1) n

def range (a b : Int) : List Int := rangeFrom a (b - a).toNat

/-- `enumerate(xs, start)` -/
def enumFrom (i : Int) : List α → List (Int × α)
  | [] => []
  | x :: xs => (i, x) :: enumFrom (i + 1) xs

def enumerate (xs : List α) : List (Int × α) := enumFrom 0 xs

/-- `zip(xs, ys)` -/
def zip (xs : List α) (ys : List β) : List (α × β) := List.zip xs ys

/-- a bound of `itertools.islice`: `None` or `0 <= x <= sys.maxsize` -/
def isliceOk (i : Int) : Bool := decide (0 ≤ i ∧ i < (2 : Int) ^ 63)

def isliceOkOpt : Option Int → Bool
  | none => true
  | some i => isliceOk i

/-- marker for "the two-argument form `islice(xs, stop)`" in the third argument position -/
def isliceStopOnly : Option Int := some (-1)

/-- `itertools.islice(xs, a, b)`; with `b = isliceStopOnly` it is `islice(xs, a)` i.e. stop = a.  The bounds are
    validated when the object is built: ValueError. -/
def islice (xs : List α) (a b : Option Int) : Except Err (List α) :=
  if b = isliceStopOnly then
    (if isliceOkOpt a then .ok (match a with | none => xs | some n => xs.take n.toNat) else .error .valueError)
  else if isliceOkOpt a && isliceOkOpt b then
    .ok (((match b with | none => xs | some n => xs.take n.toNat)).drop (match a with | none => 0 | some n => n.toNat))
  else .error .valueError

/-- `reversed(xs)` -/
def reversed (xs : List α) : List α := xs.reverse

/-- `x in xs` with `==` -/
def contains [BEq α] (xs : List α) (x : α) : Bool := xs.any fun y => y == x

/-- widest code point of a string (decides the storage class CPython picks) -/
def maxCp (s : List Char) : Nat := s.foldl (fun m c => max m c.toNat) 0

/-- a limit / count argument where a negative number means "unlimited" -/
def limitOf (n : Int) : Option Nat := if n < 0 then none else some n.toNat

/-! ## nullable -/

/-- a lookup that raises `e` when nothing is found -/
def ofOption (o : Option α) (e : Err) : Except Err α :=
  match o with
  | some v => .ok v
  | none => .error e

/-- `x if x is not None else d` -/
def orElse (x : Option α) (d : α) : α := match x with | some v => v | none => d

/-! ## dictionaries as association lists (insertion ordered, keys unique under `==`) -/

def dictGet? [BEq κ] (d : List (κ × ν)) (k : κ) : Option ν :=
  match d.find? (fun p => p.1 == k) with
  | some p => some p.2
  | none => none

/-- `k in d` -/
def dictHas [BEq κ] (d : List (κ × ν)) (k : κ) : Bool := (dictGet? d k).isSome

/-- `d[k]` -/
def dictIndex [BEq κ] (d : List (κ × ν)) (k : κ) : Except Err ν :=
  match dictGet? d k with
  | some v => .ok v
  | none => .error .keyError

/-- `d.get(k, dflt)` -/
def dictGetD [BEq κ] (d : List (κ × ν)) (k : κ) (dflt : ν) : ν := (dictGet? d k).getD dflt

/-- `d[k] = v`: an existing key keeps its position -/
def dictSet [BEq κ] (d : List (κ × ν)) (k : κ) (v : ν) : List (κ × ν) :=
  if dictHas d k then d.map (fun p => if p.1 == k then (p.1, v) else p) else d ++ [(k, v)]

/-- `del d[k]` / `d.pop(k, None)` (result dict) -/
def dictDel [BEq κ] (d : List (κ × ν)) (k : κ) : List (κ × ν) := d.filter fun p => !(p.1 == k)

def dictKeys (d : List (κ × ν)) : List κ := d.map (·.1)
def dictValues (d : List (κ × ν)) : List ν := d.map (·.2)

/-! ## loops -/

/-- how one run of a loop body ends -/
inductive Step (σ ρ : Type) where
  | next (s : σ)      -- end of body or `continue`
  | brk (s : σ)       -- `break`
  | ret (r : ρ)       -- `return r` out of the function
deriving Repr

/-- how a loop ends -/
inductive Loop (σ ρ : Type) where
  | done (s : σ)      -- exhausted or left by `break`
  | ret (r : ρ)       -- `return r` out of the function
deriving Repr

/-- `for x in xs: body` -/
def forLoop (xs : List α) (s : σ) (f : σ → α → Step σ ρ) : Loop σ ρ :=
  match xs with
  | [] => .done s
  | x :: rest =>
    match f s x with
    | .next s' => forLoop rest s' f
    | .brk s' => .done s'
    | .ret r => .ret r

/-- `while c: body` with fuel; `none` = fuel exhausted -/
def whileLoop (fuel : Nat) (s : σ) (c : σ → Bool) (f : σ → Step σ ρ) : Option (Loop σ ρ) :=
  match fuel with
  | 0 => if c s then none else some (.done s)
  | n + 1 =>
    if c s then
      match f s with
      | .next s' => whileLoop n s' c f
      | .brk s' => some (.done s')
      | .ret r => some (.ret r)
    else some (.done s)

end Yaql.Py
