/-!
Model of concurrent / repeated use of one engine for parsing (property C01).

`YaqlEngine.__call__` runs `parser.parse(text, lexer=L)`.  ply's `parse` first calls
`L.input(text)` (which overwrites the lexer's data and cursor) and then fetches tokens from
`L` one at a time, feeding each to the LR automaton whose stacks are locals of the call.
The model is generic in the tokeniser and in the automaton:

* `nextTok data pos` - what one `Lexer.token()` call returns and where it leaves the cursor;
  it reads nothing but the lexer's `lexdata`/`lexpos` (this is the shape of `ply.lex.Lexer.token`
  and of the lexer model `Yaql.Model.Lexer.nextTok`);
* `feed ps tok` - the automaton consumes one token: it either continues or finishes with an
  outcome (a tree or an error).

`Mode.shared` is the engine handing its one lexer to every parse, `Mode.perCall` the engine
handing each parse its own `clone()`.  A scheduling step of thread `i` is: the `input` call if
the thread has not started, otherwise one token fetch together with the automaton's reaction.
-/
namespace Yaql.ParseSched

structure LexSt where
  data : List Char := []
  pos  : Nat := 0
deriving DecidableEq, Repr

structure Machine (Tok PS Out : Type) where
  nextTok : List Char → Nat → Tok × Nat
  init    : PS
  feed    : PS → Tok → PS ⊕ Out

inductive Phase (PS Out : Type) where
  | notStarted
  | running (ps : PS)
  | done (out : Out)
deriving DecidableEq, Repr

structure Thread (PS Out : Type) where
  text  : List Char
  own   : LexSt := {}            -- the thread's private lexer (used in `perCall` mode only)
  phase : Phase PS Out := .notStarted
deriving DecidableEq, Repr

inductive Mode where | shared | perCall
deriving DecidableEq, Repr

structure Sys (PS Out : Type) where
  mode    : Mode
  shared  : LexSt := {}          -- the engine-wide lexer
  threads : List (Thread PS Out)

variable {Tok PS Out : Type}

/-- one step of a thread against the lexer it uses: returns the lexer afterwards and the thread -/
def stepOn (m : Machine Tok PS Out) (lx : LexSt) (t : Thread PS Out) : LexSt × Thread PS Out :=
  match t.phase with
  | .notStarted => ({ data := t.text, pos := 0 }, { t with phase := .running m.init })
  | .running ps =>
      let (tok, pos') := m.nextTok lx.data lx.pos
      let lx' := { lx with pos := pos' }
      match m.feed ps tok with
      | .inl ps' => (lx', { t with phase := .running ps' })
      | .inr out => (lx', { t with phase := .done out })
  | .done _ => (lx, t)

/-- a thread running alone on a lexer of its own -/
def soloStep (m : Machine Tok PS Out) (t : Thread PS Out) : Thread PS Out :=
  let (lx, t') := stepOn m t.own t
  { t' with own := lx }

def soloIter (m : Machine Tok PS Out) : Nat → Thread PS Out → Thread PS Out
  | 0, t => t
  | n + 1, t => soloIter m n (soloStep m t)

/-- scheduling step of thread `i` -/
def step (m : Machine Tok PS Out) (s : Sys PS Out) (i : Nat) : Sys PS Out :=
  match s.threads[i]? with
  | none => s
  | some t =>
      match s.mode with
      | .perCall => { s with threads := s.threads.set i (soloStep m t) }
      | .shared =>
          let (lx, t') := stepOn m s.shared t
          { s with shared := lx, threads := s.threads.set i t' }

def run (m : Machine Tok PS Out) (s : Sys PS Out) (sched : List Nat) : Sys PS Out :=
  sched.foldl (step m) s

/-- what is observable of a thread: how far it is and with which automaton state / outcome -/
def Thread.core (t : Thread PS Out) : List Char × Phase PS Out := (t.text, t.phase)

/-! ## state parked on the engine-wide rules objects

ply's `clone()` gives a parse its own `lexdata`/`lexpos`, but the clone still calls the rule functions of the ONE
lexer-rules object of the engine (and the parser the ONE parser-rules object); `engine.copy()` shares them too.
`MachineR` is a tokeniser whose token fetch may read and write such a piece of engine-wide state `R` (a look-behind
flag, a mode switch, a cache ...), and whose `input()` may reset it.  Every parse has its own lexer here. -/

structure MachineR (Tok PS Out R : Type) where
  nextTok : R → List Char → Nat → (Tok × Nat) × R
  onInput : R → R
  init    : PS
  feed    : PS → Tok → PS ⊕ Out

structure SysR (PS Out R : Type) where
  rules   : R
  threads : List (Thread PS Out)

variable {R : Type}

/-- one step of a parse against the rules state as it is now -/
def stepOnR (m : MachineR Tok PS Out R) (r : R) (t : Thread PS Out) : R × Thread PS Out :=
  match t.phase with
  | .notStarted => (m.onInput r, { t with own := { data := t.text, pos := 0 }, phase := .running m.init })
  | .running ps =>
      let res := m.nextTok r t.own.data t.own.pos
      let own' : LexSt := { t.own with pos := res.1.2 }
      match m.feed ps res.1.1 with
      | .inl ps' => (res.2, { t with own := own', phase := .running ps' })
      | .inr out => (res.2, { t with own := own', phase := .done out })
  | .done _ => (r, t)

def stepR (m : MachineR Tok PS Out R) (s : SysR PS Out R) (i : Nat) : SysR PS Out R :=
  match s.threads[i]? with
  | none => s
  | some t => { rules := (stepOnR m s.rules t).1, threads := s.threads.set i (stepOnR m s.rules t).2 }

def runR (m : MachineR Tok PS Out R) (s : SysR PS Out R) (sched : List Nat) : SysR PS Out R :=
  sched.foldl (stepR m) s

/-- a parse alone, with a rules state nobody else touches -/
def soloIterR (m : MachineR Tok PS Out R) : Nat → R × Thread PS Out → R × Thread PS Out
  | 0, x => x
  | n + 1, x => soloIterR m n (stepOnR m x.1 x.2)

/-- the tokeniser one gets by freezing the rules state at `r0` -/
def MachineR.frozen (m : MachineR Tok PS Out R) (r0 : R) : Machine Tok PS Out where
  nextTok := fun d p => (m.nextTok r0 d p).1
  init := m.init
  feed := m.feed

end Yaql.ParseSched
