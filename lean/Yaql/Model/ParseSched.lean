/-!
Model of concurrent / repeated use of one engine for parsing (property C01).

`YaqlEngine.__call__` runs `parser.parse(text, lexer=L)`.  ply's `parse` first calls
`L.input(text)` (which overwrites the lexer's data and cursor) and then fetches tokens from
`L` one at a time, feeding each to the LR automaton whose stacks are locals of the call.
The model is generic in the tokeniser and in the automaton:

* `nextTok data pos` - what one `Lexer.token()` call returns and where it leaves the cursor;
  it reads nothing but the lexer's `lexdata`/`lexpos` (this is the shape of `ply.lex.Lexer.token`
  and of the lexer model `Yaql.Model.Lexer.nextTok`);
* `feed ps tok` - the automaton consumes one token: it either continues or finishes with an
  outcome (a tree or an error).

`Mode.shared` is the engine handing its one lexer to every parse, `Mode.perCall` the engine
handing each parse its own `clone()`.  A scheduling step of thread `i` is: the `input` call if
the thread has not started, otherwise one token fetch together with the automaton's reaction.
-/
namespace Yaql.ParseSched

structure LexSt where
  data : List Char := []
  pos  : Nat := 0
deriving DecidableEq, Repr

structure Machine (Tok PS Out : Type) where
  nextTok : List Char → Nat → Tok × Nat
  init    : PS
  feed    : PS → Tok → PS ⊕ Out

inductive Phase (PS Out : Type) where
  | notStarted
  | running (ps : PS)
  | done (out : Out)
deriving DecidableEq, Repr

structure Thread (PS Out : Type) where
  text  : List Char
  own   : LexSt := {}            -- the thread's private lexer (used in `perCall` mode only)
  phase : Phase PS Out := .notStarted
deriving DecidableEq, Repr

inductive Mode where | shared | perCall
deriving DecidableEq, Repr

structure Sys (PS Out : Type) where
  mode    : Mode
  shared  : LexSt := {}          -- the engine-wide lexer
  threads : List (Thread PS Out)

variable {Tok PS Out : Type}

/-- one step of a thread against the lexer it uses: returns the lexer afterwards and the thread -/
def stepOn (m : Machine Tok PS Out) (lx : LexSt) (t : Thread PS Out) : LexSt × Thread PS Out :=
  match t.phase with
  | .notStarted => ({ data := t.text, pos := 0 }, { t with phase := .running m.init })
  | .running ps =>
      let (tok, pos') := m.nextTok lx.data lx.pos
      let lx' := { lx with pos := pos' }
      match m.feed ps tok with
      | .inl ps' => (lx', { t with phase := .running ps' })
      | .inr out => (lx', { t with phase := .done out })
  | .done _ => (lx, t)

/-- a thread running alone on a lexer of its own -/
def soloStep (m : Machine Tok PS Out) (t : Thread PS Out) : Thread PS Out :=
  let (lx, t') := stepOn m t.own t
  { t' with own := lx }

def soloIter (m : Machine Tok PS Out) : Nat → Thread PS Out → Thread PS Out
  | 0, t => t
  | n + 1, t => soloIter m n (soloStep m t)

/-- scheduling step of thread `i` -/
def step (m : Machine Tok PS Out) (s : Sys PS Out) (i : Nat) : Sys PS Out :=
  match s.threads[i]? with
  | none => s
  | some t =>
      match s.mode with
      | .perCall => { s with threads := s.threads.set i (soloStep m t) }
      | .shared =>
          let (lx, t') := stepOn m s.shared t
          { s with shared := lx, threads := s.threads.set i t' }

def run (m : Machine Tok PS Out) (s : Sys PS Out) (sched : List Nat) : Sys PS Out :=
  sched.foldl (step m) s

/-- what is observable of a thread: how far it is and with which automaton state / outcome -/
def Thread.core (t : Thread PS Out) : List Char × Phase PS Out := (t.text, t.phase)

end Yaql.ParseSched
