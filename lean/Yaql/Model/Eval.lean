import Yaql.Model.SeqRun
import Yaql.Model.Context
/-!
# Reference interpreter of the core fragment (property C04)

Written from `doc/source/language_reference.rst`, the docstrings of
`yaql/standard_library/system.py` and the mechanisms the property names:

* `Function.__call__` -> `context(name, engine, receiver, context)(*args)` (expressions.py):
  every node is a function call dispatched through the *calling* context `C`; eager
  arguments are evaluated in `C` itself, left to right (`runner.choose_overload`).
* `FunctionDefinition.get_delegate.func` (specs.py:307): the payload runs with a **fresh child**
  `C' = Context(C)` of the calling context; a hidden `Context()` parameter (`let`, `with`,
  `unpack`, `def`) receives `C'`, writes into it and returns it.
* `Lambda.convert` (yaqltypes.py:262): a lazy argument becomes a closure over the *call context
  of the function it is passed to*; applying it creates a child of that (defining) context and
  publishes the arguments as `$1..$n` / `$name` (`_publish_params`).  With `with_context=True`
  (`->`) the expression runs *in* the given context object.
* `Context.get_data` / `_normalize_name` (contexts.py:142): `$` is `$1`; lookup walks the parents;
  missing -> `None`.
* `def(name, lambda)` registers the closure in its own call context; functions are collected
  innermost layer first (`collect_functions`), a registered `wrapper(*args, **kwargs)` matches every
  function call (never a method call).

## Representation

A context is an **immutable chain of frames** `Ctx = List Frame` (head = innermost, tail = parent
chain).  A Python context object is written only by the call that created it, before anybody else
can see it (`let`/`with`/`unpack`/`def` write into their own fresh call context and return it,
`_publish_params` writes into the fresh child of a lambda application; `->` publishes nothing), so
a context *value* never changes after it has been handed out: "creating a child and writing into
it" is `frame :: C`, and `C` itself is still the same value for everybody else.  That evaluation
hands back no modified version of a pre-existing context is therefore a fact about the *shape* of
this evaluator (stated in `Props/C04.lean`: `frame`, `sibling_independence`, `no_leak_*`), and the
tie to the Python objects is the differential run of `harness/props/c04.py`.

Frames that are never written are unobservable (`Props.C04.empty_frame_invisible`); the model
therefore does not push the (always empty) call frames of pure builtins and of `#operator_.`; it
pushes exactly the frames something is published into: lambda applications, `let`, `with`,
`unpack`, `def`.

The closure a `def` registers captures the context it is registered in, i.e. the suffix of the
chain that starts at the frame holding it; `Ctx.getFun` returns that suffix, so frames need not
store contexts (and recursion through the own name works as in yaql).

## Values

Data are `Yaql.Value` (shared with the collection model): JSON-like documents become
`tuple` / `dict` (FrozenDict) / scalars as `convert_input_data` makes them.  At run time an
expression denotes an `Obj`: data, a lazy sequence (generator / `map` / `filter` / `islice`...:
the elements it yields, then normal exhaustion or an exception - the `LSeq` reading of
`Model/SeqRun.lean`), an `OrderingIterable`, or a context object.

Out of the modelled domain (`Err.outOfDomain`, no prediction, the harness skips and counts):
reading a variable that holds a one-shot iterator (its second consumer would find it empty),
a lazy sequence that will raise / an `OrderingIterable` / a context object stored *inside* data,
operators applied to lazy sequences, sets / host objects, `-` `*` unary `-` and the order comparisons on
floats (floats otherwise pass through as values: `=`, `+`, sort keys, dict keys), keyword arguments of builtins.

`eval fuel` is structurally recursive on `fuel` through the non-recursive `step`; running out of
fuel is the error `Err.fuel`, which is never captured into a lazy sequence, so more fuel never
changes a definite outcome (`Props.C04.fuel_mono`).
-/
namespace Yaql.Eval
open Yaql Yaql.Value

abbrev Name := List Char
abbrev VL := List Value
abbrev KV := List (Value × Value)

/-! ## syntax -/

/-- builtin functions of the fragment (the driver maps names; `def`-ined names are `ucall`) -/
inductive Fn where
  | let_ | with_ | def_ | list | dict                                     -- functions only
  | unpack | select | where_ | selectMany | orderBy | orderByDescending  -- methods only
  | takeWhile | skipWhile | indexWhere | toDict | aggregate | sum | first | toList | take | skip | get
  | len | any | all                                                       -- extension methods (both forms)
deriving DecidableEq, Repr, Inhabited

inductive UnOp where | not | neg
deriving DecidableEq, Repr, Inhabited

inductive BinOp where
  | add | sub | mul | eq | ne | lt | le | gt | ge | and | or
deriving DecidableEq, Repr, Inhabited

inductive Expr where
  | lit (v : Value)                                   -- number / string / true / false / null
  | kw (s : Name)                                     -- keyword constant (`foo` = the string "foo")
  | var (x : Name)                                    -- `$x`; the name is the token with its `$`
  | list (es : List Expr)                             -- `[a, b]`       = #list(a, b)
  | map (kvs : List (Expr × Expr))                    -- `{k => v}`     = #map(k => v)
  | index (e : Expr) (args : List Expr)               -- `e[a, ..]`     = #indexer(e, a, ..)
  | un (op : UnOp) (e : Expr)
  | bin (op : BinOp) (a b : Expr)
  | arrow (l r : Expr)                                -- `l -> r`       = #operator_->(l, r)
  | member (e : Expr) (name : Name)                   -- `e.name`       = #operator_.(e, name)
  | call (f : Fn) (args : List Expr) (kw : List (Expr × Expr))          -- `f(args, k => v)`
  | ucall (f : Name) (args : List Expr) (kw : List (Expr × Expr))       -- a name that is no builtin
  | method (e : Expr) (f : Fn) (args : List Expr) (kw : List (Expr × Expr))   -- `e.f(args)`
  | umethod (e : Expr) (f : Name)                     -- `e.f(..)` for a name that is no builtin
deriving Repr, Inhabited

/-! ## errors, contexts, run-time objects -/

inductive Err where
  | fuel                 -- the evaluator ran out of fuel (no prediction)
  | outOfDomain          -- outside the modelled domain (no prediction)
  | noFunction           -- NoMatchingFunctionException
  | noMethod             -- NoMatchingMethodException
  | unknownFunction      -- NoFunctionRegisteredException
  | unknownMethod        -- NoMethodRegisteredException
  | mapping              -- MappingTranslationException
  | key | index | type | value | stopIteration | zeroDiv
deriving DecidableEq, Repr, Inhabited

abbrev R := Except Err

def Err.ofSeq : Seq.Err → Err
  | .noFunction => .noFunction | .noMethod => .noMethod | .unknownFunction => .unknownFunction
  | .key => .key | .index => .index | .zeroDiv => .zeroDiv | .type => .type
  | .stopIteration => .stopIteration | .value => .value
  | .attribute => .outOfDomain | .sortMixed => .outOfDomain | .outOfDomain => .outOfDomain
  | .ambiguous => .outOfDomain | .tooLarge => .outOfDomain | .wrappedStop => .outOfDomain | .unknownMethod => .outOfDomain      -- (option-dependent behaviour: Model/SeqRun.lean `Opts`)

def liftSeq (x : Seq.R α) : R α :=
  match x with
  | .ok a => .ok a
  | .error e => .error (Err.ofSeq e)

/-- one context object: `_data` (normalised names, insertion ordered) and the functions `def`
    registered in it -/
structure Frame where
  vars : List (Name × Value) := []
  funs : List (Name × Expr) := []
deriving Repr, Inhabited

/-- a context with its parent chain; head = the context itself -/
abbrev Ctx := List Frame

/-- `context[name]` without the default: own `_data`, then the parents (`Context.get_data`) -/
def Ctx.get : Ctx → Name → Option Value
  | [], _ => none
  | F :: C, x =>
    match Context.alookup (Context.normName x) F.vars with
    | some v => some v
    | none => Ctx.get C x

/-- the key a function name is registered / looked up under: "regardless of convention used, all
    trailing underscores are stripped from the names" (`Context.get_functions`: `name.rstrip('_')`).
    Apart from that a function name is DATA: no other relation between names makes two functions one. -/
def fnKey (f : Name) : Name := Context.rstripUnderscore f

/-- innermost registration of the function KEY, with the context it was registered in
    (= the context its lambda captured) -/
def Ctx.getFun : Ctx → Name → Option (Expr × Ctx)
  | [], _ => none
  | F :: C, f =>
    match Context.alookup f F.funs with
    | some body => some (body, F :: C)
    | none => Ctx.getFun C f

inductive Obj where
  | val (v : Value)
  | lazy (items : VL) (err : Option Err)       -- an iterator: yields `items`, then stops or raises
  | ordered (items : VL) (err : Option Err)    -- an OrderingIterable (iterable, not an iterator)
  | ctx (c : Ctx)
deriving Repr, Inhabited

mutual
/-- a one-shot iterator somewhere inside -/
def hasIter : Value → Bool
  | .iter _ => true
  | .tuple l | .list l | .set l => hasIterL l
  | .dict kvs => hasIterP kvs
  | _ => false
def hasIterL : List Value → Bool
  | [] => false
  | x :: xs => hasIter x || hasIterL xs
def hasIterP : List (Value × Value) → Bool
  | [] => false
  | (k, v) :: r => hasIter k || hasIter v || hasIterP r
end

/-- what using `k` as a dictionary key raises when it is not hashable by content: TypeError - unless a one-shot
    iterator is (in) it, which Python hashes by IDENTITY (the lookup / insertion then succeeds and finds nothing, the
    finaliser fails later): not modelled -/
def keyErr (k : Value) : Err := if hasIter k then .outOfDomain else .type

/-- `#get_context_data`: `context[name]`, missing -> null -/
def readVar (C : Ctx) (x : Name) : R Obj :=
  match C.get x with
  | none => .ok (.val .null)
  | some v => if hasIter v then .error .outOfDomain else .ok (.val v)

/-- an object stored into data (list element, dict entry, variable, lambda result collected by a
    generator) -/
def toV : Obj → R Value
  | .val v => .ok v
  | .lazy items none => .ok (.iter items)
  | _ => .error .outOfDomain

/-- what a parameter declared `Iterable()` accepts, as the elements it will yield -/
def toIter : Obj → Option (VL × Option Err)
  | .val (.tuple l) | .val (.list l) | .val (.iter l) => some (l, none)
  | .lazy items e | .ordered items e => some (items, e)
  | _ => none

def truthyObj : Obj → Bool
  | .val v => truthy v
  | _ => true

/-- an exception becomes data (the tail of a generator) - except "no prediction" -/
def capture (x : R α) : R (Except Err α) :=
  match x with
  | .ok a => .ok (.ok a)
  | .error .fuel => .error .fuel
  | .error .outOfDomain => .error .outOfDomain
  | .error e => .ok (.error e)

/-! ## positional / keyword publication -/

/-- `$i`, `$i+1`, ... for the given values (`_publish_params`, `with`, `let`, `unpack()`) -/
def bindPos (i : Nat) : VL → List (Name × Value)
  | [] => []
  | v :: vs => ('$' :: Nat.toDigits 10 i, v) :: bindPos (i + 1) vs

/-- `context[k] = v` for each pair, in order (a repeated name is overwritten) -/
def bindNamed (acc : List (Name × Value)) : List (Name × Value) → List (Name × Value)
  | [] => acc
  | (k, v) :: r => bindNamed (Context.aset (Context.normName k) v acc) r

/-- the frame of a lambda application / `let` -/
def argFrame (args : VL) (kw : List (Name × Value)) : Frame :=
  { vars := bindNamed (bindPos 1 args) kw }

/-! ## generators (lazy sequences with an exception tail) -/

/-- `map(f, it)` -/
def mapL (f : Value → R Value) : VL → Option Err → R (VL × Option Err)
  | [], e => .ok ([], e)
  | x :: xs, e => do
    match ← capture (f x) with
    | .error er => pure ([], some er)
    | .ok v => let r ← mapL f xs e; pure (v :: r.1, r.2)

/-- `filter(p, it)` -/
def filterL (p : Value → R Bool) : VL → Option Err → R (VL × Option Err)
  | [], e => .ok ([], e)
  | x :: xs, e => do
    match ← capture (p x) with
    | .error er => pure ([], some er)
    | .ok b => let r ← filterL p xs e; pure (if b then x :: r.1 else r.1, r.2)

/-- a generator yielding several elements per source element (`selectMany`); `f` gives the
    elements and the exception raised after them, if any -/
def flatMapL (f : Value → R (VL × Option Err)) : VL → Option Err → R (VL × Option Err)
  | [], e => .ok ([], e)
  | x :: xs, e => do
    match ← capture (f x) with
    | .error er => pure ([], some er)
    | .ok (vs, some er) => pure (vs, some er)
    | .ok (vs, none) => let r ← flatMapL f xs e; pure (vs ++ r.1, r.2)

/-- `itertools.takewhile` -/
def takeWhileL (p : Value → R Bool) : VL → Option Err → R (VL × Option Err)
  | [], e => .ok ([], e)
  | x :: xs, e => do
    match ← capture (p x) with
    | .error er => pure ([], some er)
    | .ok true => let r ← takeWhileL p xs e; pure (x :: r.1, r.2)
    | .ok false => pure ([], none)

/-- `itertools.dropwhile` -/
def dropWhileL (p : Value → R Bool) : VL → Option Err → R (VL × Option Err)
  | [], e => .ok ([], e)
  | x :: xs, e => do
    match ← capture (p x) with
    | .error er => pure ([], some er)
    | .ok true => dropWhileL p xs e
    | .ok false => pure (x :: xs, e)

/-- index of the first element satisfying `p` (a `for` loop that returns); scanning stops there -/
def findL (p : Value → R Bool) (i : Nat) : VL → Option Err → R (Option Nat)
  | [], none => .ok none
  | [], some e => .error e
  | x :: xs, e => do
    if (← p x) then pure (some i) else findL p (i + 1) xs e

/-- `functools.reduce(f, it, acc)` -/
def foldL (f : Value → Value → R Value) (acc : Value) : VL → Option Err → R Value
  | [], none => .ok acc
  | [], some e => .error e
  | x :: xs, e => do let a ← f acc x; foldL f a xs e

/-- the loop of `to_dict` -/
def toDictL (kf vf : Value → R Value) (acc : KV) : VL → Option Err → R KV
  | [], none => .ok acc
  | [], some e => .error e
  | x :: xs, e => do
    let k ← kf x
    let v ← vf x
    if hashable k then toDictL kf vf (Seq.dSet acc k v) xs e else .error (keyErr k)

/-- consume everything (`tuple(it)`, `len`) -/
def drain (s : VL × Option Err) : R VL :=
  match s.2 with
  | none => .ok s.1
  | some e => .error e

/-! ## scalar operators (math.py, strings.py, common.py, boolean.py, collections.py) -/

def isLazy : Obj → Bool
  | .val v => hasIter v
  | _ => true

/-- `<`, `<=`, `>`, `>=`: the null overloads of common.py, integers, strings -/
def cmpV (op : BinOp) (a b : Value) : R Bool :=
  let lt := op == .lt || op == .le
  let eq := op == .le || op == .ge
  match a, b with
  | .null, .null => .ok eq
  | .null, _ => .ok lt
  | _, .null => .ok (!lt)
  | .int x, .int y => .ok (if x == y then eq else if x < y then lt else !lt)
  | .str x, .str y =>
    .ok (match cmpChars x y with | .eq => eq | .lt => lt | .gt => !lt)
  | .set _, _ | _, .set _ | .flt _, _ | _, .flt _ | .host _, _ | _, .host _ => .error .outOfDomain
  | _, _ => .error .noFunction

def binopV (op : BinOp) (a b : Value) : R Value :=
  match op with
  | .add => liftSeq (Seq.plus a b)
  | .sub =>
    match a, b with
    | .int x, .int y => .ok (.int (x - y))
    | .set _, _ | _, .set _ | .flt _, _ | _, .flt _ | .host _, _ | _, .host _ => .error .outOfDomain
    | _, _ => .error .noFunction
  | .mul =>
    match a, b with
    | .int x, .int y => .ok (.int (x * y))
    | .null, _ | _, .null | .bool _, _ | _, .bool _ | .dict _, _ | _, .dict _ => .error .noFunction
    | _, _ => .error .outOfDomain          -- repetition overloads, floats
  | .eq => .ok (.bool (pyEq a b))
  | .ne => .ok (.bool (!pyEq a b))
  | .lt | .le | .gt | .ge => do let r ← cmpV op a b; pure (.bool r)
  | .and | .or => .error .outOfDomain      -- lazy operators, handled by `step`

/-- strict binary operators on run-time objects -/
def binop (op : BinOp) (x y : Obj) : R Obj :=
  match x, y with
  | .ctx _, _ | _, .ctx _ =>
    match op with
    | .eq | .ne => .error .outOfDomain     -- identity comparison of context objects
    | .lt | .le | .gt | .ge => .error .outOfDomain   -- the null overloads of common.py take ANY object, a context too
    | _ => .error .noFunction
  | x, y =>
    if isLazy x || isLazy y then .error .outOfDomain
    else do let a ← toV x; let b ← toV y; let r ← binopV op a b; pure (.val r)

def unop (op : UnOp) (x : Obj) : R Obj :=
  match op, x with
  | .not, .val v => if hasIter v then .error .outOfDomain else .ok (.val (.bool (!truthy v)))
  | .not, _ => .error .outOfDomain
  | .neg, .val (.int i) => .ok (.val (.int (-i)))
  | .neg, .val (.flt _) => .error .outOfDomain
  | .neg, .val v => if hasIter v then .error .outOfDomain else .error .noFunction
  | .neg, .ctx _ => .error .noFunction
  | .neg, _ => .error .outOfDomain

/-! ## `#indexer`, `#operator_.` with a keyword, `#map` / `dict`, `list` -/

def intOfIndex : Value → Option Int
  | .int i => some i
  | .bool b => some (if b then 1 else 0)       -- `int` parameters accept booleans
  | _ => none

def indexer (r : Obj) (args : VL) : R Obj :=
  match r, args with
  | .val (.tuple l), [k] | .val (.list l), [k] =>
    match intOfIndex k with
    | some i => do let v ← liftSeq (Seq.pyIndex l i); pure (.val v)
    | none => .error .noFunction
  | .val (.dict d), [k] =>
    if hashable k then (match Seq.dGet d k with | some v => .ok (.val v) | none => .error .key) else .error (keyErr k)
  | .val (.dict d), [k, dflt] =>
    if hashable k then .ok (.val ((Seq.dGet d k).getD dflt)) else .error (keyErr k)
  | _, _ => .error .noFunction

mutual
/-- `x.name` for one element of a collection: one more `#operator_.` call, dispatched on the kind of THIS
    element (`collection_attribution` calls its `Delegate('#operator_.')` per element) - a dictionary gives
    its entry, an element that is a collection itself gives the (lazy) projection of ITS elements, whatever
    kinds its neighbours are of; that `map` object is stored as data into the outer projection, so it must
    not carry an exception (`toV`). -/
def memberV (name : Name) : Value → R Value
  | .dict d => match Seq.dGet d (.str name) with | some v => .ok v | none => .error .key
  | .tuple l | .list l | .iter l => do let s ← memberVL name l; toV (.lazy s.1 s.2)
  | .set _ => .error .outOfDomain
  | .null | .bool _ | .int _ | .flt _ | .str _ | .host _ => .error .unknownFunction       -- `#property#name`
/-- `map(lambda t: operator(t, name), l)` (= `mapL (memberV name) l none`, see `memberVL_eq`) -/
def memberVL (name : Name) : List Value → R (VL × Option Err)
  | [] => .ok ([], none)
  | x :: xs => do
    match ← capture (memberV name x) with
    | .error er => pure ([], some er)
    | .ok v => let r ← memberVL name xs; pure (v :: r.1, r.2)
end

theorem memberVL_eq (name : Name) : ∀ l : List Value, memberVL name l = mapL (memberV name) l none
  | [] => by rw [memberVL]; rfl
  | x :: xs => by
    rw [memberVL, mapL, memberVL_eq name xs]

/-- `receiver.name`: dict key, or the projection of every element of a collection -/
def memberOf (r : Obj) (name : Name) : R Obj :=
  match r with
  | .val (.dict d) => match Seq.dGet d (.str name) with | some v => .ok (.val v) | none => .error .key
  | .val (.set _) => .error .outOfDomain
  | r =>
    match toIter r with
    | some (items, err) => do let s ← mapL (memberV name) items err; pure (.lazy s.1 s.2)
    | none => .error .unknownFunction

/-- `FrozenDict(pairs)` -/
def mkDict (ps : KV) : R Obj :=
  if ps.all (fun p => hashable p.1) then .ok (.val (.dict (Seq.dOfPairs ps)))
  else .error (if ps.any (fun p => hasIter p.1) then .outOfDomain else .type)

/-- the elements one argument of `list(...)` contributes: iterators are opened -/
def listArg : Obj → R VL
  | .lazy items err => do let xs ← drain (items, err); pure (Seq.listRecL xs)
  | .val v => .ok (Seq.listRecV v)
  | _ => .error .outOfDomain

/-! ## sorting (`OrderingIterable.do_sort` with one field) -/

def errsOf : List (Except Err Value) → List Err
  | [] => []
  | .error e :: r => e :: errsOf r
  | .ok _ :: r => errsOf r

def oksOf : List (Except Err Value) → VL
  | [] => []
  | .ok v :: r => v :: oksOf r
  | .error _ :: r => oksOf r

/-- the sorted elements, or the exception the sort raises.  The selector runs inside the
    comparisons, so with fewer than two elements it never runs; which of several *different*
    exceptions comes first depends on the sort algorithm (out of domain). -/
def sortKeyed (asc : Bool) (items : VL) (keys : List (Except Err Value)) : R (VL × Option Err) :=
  if items.length ≤ 1 then .ok (items, none)
  else
    let es := errsOf keys ++ (match Seq.keysComparable (oksOf keys) with | some e => [Err.ofSeq e] | none => [])
    match es with
    | [] =>
      let sorted := ((oksOf keys).zip items).mergeSort
        (fun p q => Seq.sortLe Seq.ltT Seq.gtT [(id, asc)] p.1 q.1)
      .ok (sorted.map (·.2), none)
    | e :: rest =>
      if e == .outOfDomain || rest.any (· != e) then .error .outOfDomain else .ok ([], some e)

/-- apply the selector to every element, keeping the exceptions -/
def keysL (f : Value → R Value) : VL → R (List (Except Err Value))
  | [] => .ok []
  | x :: xs => do let k ← capture (f x); let r ← keysL f xs; pure (k :: r)

/-! ## the evaluator -/

/-- the recursive knot: "evaluate this expression in this context" -/
abbrev Ev := Ctx → Expr → R Obj

/-- eager arguments: each in the calling context itself, left to right -/
def evalList (ev : Ev) (C : Ctx) : List Expr → R VL
  | [] => .ok []
  | e :: es => do let o ← ev C e; let v ← toV o; let vs ← evalList ev C es; pure (v :: vs)

def evalObjs (ev : Ev) (C : Ctx) : List Expr → R (List Obj)
  | [] => .ok []
  | e :: es => do let o ← ev C e; let os ← evalObjs ev C es; pure (o :: os)

/-- `k => v` pairs as mapping rules: key, then value, pair by pair -/
def evalPairs (ev : Ev) (C : Ctx) : List (Expr × Expr) → R KV
  | [] => .ok []
  | (k, v) :: r => do
    let ko ← ev C k; let kv ← toV ko
    let vo ← ev C v; let vv ← toV vo
    let rest ← evalPairs ev C r
    pure ((kv, vv) :: rest)

/-- `translate_args`: the left side of `=>` must be a keyword; a repeated keyword drops the
    earlier expression unevaluated (out of domain) -/
def kwNames : List (Expr × Expr) → R (List Name)
  | [] => .ok []
  | (.kw s, _) :: r => do
    let ns ← kwNames r
    if ns.contains s then .error .outOfDomain else pure (s :: ns)
  | _ :: _ => .error .mapping

/-- `Lambda.convert(...)(*args)`: child of the defining context `D`, `$1..$n` published, body
    evaluated there -/
def applyLam (ev : Ev) (D : Ctx) (body : Expr) (args : VL) : R Obj :=
  ev (argFrame args [] :: D) body

/-- a lambda used as a value-producing callback of a builtin -/
def lamV (ev : Ev) (D : Ctx) (body : Expr) (args : VL) : R Value := do
  let o ← applyLam ev D body args
  toV o

/-- ... as a predicate (`if predicate(x)`) -/
def lamB (ev : Ev) (D : Ctx) (body : Expr) (args : VL) : R Bool := do
  let o ← applyLam ev D body args
  pure (truthyObj o)

/-- the elements `selectMany` yields for one source element -/
def lamMany (ev : Ev) (D : Ctx) (body : Expr) (x : Value) : R (VL × Option Err) := do
  let o ← applyLam ev D body [x]
  match o with
  | .ctx _ => .error .outOfDomain
  | o =>
    match toIter o with
    | some s => pure s
    | none => do let v ← toV o; pure ([v], none)

/-- methods: `receiver.f(args)`; `bad` is the "no overload accepts this" error of the calling
    form (NoMatchingMethodException, or NoMatchingFunctionException for `f(receiver, args)`).
    The arity is checked before any argument is evaluated (`map_args`). -/
def callMethod (ev : Ev) (C : Ctx) (bad : Err) (r : Obj) (f : Fn) (args : List Expr) : R Obj :=
  match f, args with
  | .select, [l] =>
    match toIter r with
    | none => .error bad
    | some (xs, e) => do let s ← mapL (fun x => lamV ev C l [x]) xs e; pure (.lazy s.1 s.2)
  | .where_, [l] =>
    match toIter r with
    | none => .error bad
    | some (xs, e) => do let s ← filterL (fun x => lamB ev C l [x]) xs e; pure (.lazy s.1 s.2)
  | .selectMany, [l] =>
    match toIter r with
    | none => .error bad
    | some (xs, e) => do let s ← flatMapL (lamMany ev C l) xs e; pure (.lazy s.1 s.2)
  | .takeWhile, [l] =>
    match toIter r with
    | none => .error bad
    | some (xs, e) => do let s ← takeWhileL (fun x => lamB ev C l [x]) xs e; pure (.lazy s.1 s.2)
  | .skipWhile, [l] =>
    match toIter r with
    | none => .error bad
    | some (xs, e) => do let s ← dropWhileL (fun x => lamB ev C l [x]) xs e; pure (.lazy s.1 s.2)
  | .orderBy, [l] =>
    match toIter r with
    | none => .error bad
    | some (_, some e) => .ok (.ordered [] (some e))
    | some (xs, none) => do
      let ks ← if xs.length ≤ 1 then pure [] else keysL (fun x => lamV ev C l [x]) xs
      let s ← sortKeyed true xs ks
      pure (.ordered s.1 s.2)
  | .orderByDescending, [l] =>
    match toIter r with
    | none => .error bad
    | some (_, some e) => .ok (.ordered [] (some e))
    | some (xs, none) => do
      let ks ← if xs.length ≤ 1 then pure [] else keysL (fun x => lamV ev C l [x]) xs
      let s ← sortKeyed false xs ks
      pure (.ordered s.1 s.2)
  | .any, [] =>
    match toIter r with
    | none => .error bad
    | some (xs, e) => do let hit ← findL (fun _ => .ok true) 0 xs e; pure (.val (.bool hit.isSome))
  | .any, [l] =>
    match toIter r with
    | none => .error bad
    | some (xs, e) => do let hit ← findL (fun x => lamB ev C l [x]) 0 xs e; pure (.val (.bool hit.isSome))
  | .all, [] =>
    match toIter r with
    | none => .error bad
    | some (xs, e) => do let hit ← findL (fun x => .ok (!truthy x)) 0 xs e; pure (.val (.bool hit.isNone))
  | .all, [l] =>
    match toIter r with
    | none => .error bad
    | some (xs, e) => do
      let hit ← findL (fun x => do let b ← lamB ev C l [x]; pure (!b)) 0 xs e
      pure (.val (.bool hit.isNone))
  | .indexWhere, [l] =>
    match toIter r with
    | none => .error bad
    | some (xs, e) => do
      let hit ← findL (fun x => lamB ev C l [x]) 0 xs e
      pure (.val (.int (match hit with | some i => i | none => -1)))
  | .toDict, [k] =>
    match toIter r with
    | none => .error bad
    | some (xs, e) => do let d ← toDictL (fun x => lamV ev C k [x]) (fun x => .ok x) [] xs e; pure (.val (.dict d))
  | .toDict, [k, v] =>
    match toIter r with
    | none => .error bad
    | some (xs, e) => do
      let d ← toDictL (fun x => lamV ev C k [x]) (fun x => lamV ev C v [x]) [] xs e
      pure (.val (.dict d))
  | .aggregate, [l] =>
    match toIter r with
    | none => .error bad
    | some ([], none) => .error .type                -- reduce() of empty iterable with no initial value
    | some ([], some e) => .error e
    | some (x :: xs, e) => do let v ← foldL (fun a b => lamV ev C l [a, b]) x xs e; pure (.val v)
  | .aggregate, [l, seed] =>
    match toIter r with
    | none => .error bad
    | some (xs, e) => do
      let so ← ev C seed
      let s ← toV so
      let v ← foldL (fun a b => lamV ev C l [a, b]) s xs e
      pure (.val v)
  | .sum, [] =>
    match toIter r with
    | none => .error bad
    | some ([], none) => .error .type
    | some ([], some e) => .error e
    | some (x :: xs, e) => do let v ← foldL (binopV .add) x xs e; pure (.val v)
  | .sum, [init] =>
    match toIter r with
    | none => .error bad
    | some (xs, e) => do
      let io ← ev C init
      let i ← toV io
      let v ← foldL (binopV .add) i xs e
      pure (.val v)
  | .first, [] =>
    match toIter r with
    | none => .error bad
    | some (x :: _, _) => .ok (.val x)
    | some ([], some e) => .error e
    | some ([], none) => .error .stopIteration
  | .first, [d] =>
    match toIter r with
    | none => .error bad
    | some (xs, e) => do
      let dobj ← ev C d
      match xs, e with
      | x :: _, _ => pure (.val x)
      | [], some er => .error er
      | [], none => pure dobj
  | .toList, [] =>
    match toIter r with
    | none => .error bad
    | some s => do let xs ← drain s; pure (.val (.tuple xs))
  | .take, [n] =>
    match toIter r with
    | none => .error bad
    | some (xs, e) => do
      let no ← ev C n
      match no with
      | .val (.int k) =>
        if k < 0 then .error .value
        else pure (.lazy (xs.take k.toNat) (if k.toNat ≤ xs.length then none else e))
      | .val (.bool _) => .error .outOfDomain
      | _ => if isLazy no then .error .outOfDomain else .error bad
  | .skip, [n] =>
    match toIter r with
    | none => .error bad
    | some (xs, e) => do
      let no ← ev C n
      match no with
      | .val (.int k) =>
        if k < 0 then .error .value
        else pure (.lazy (xs.drop k.toNat) e)
      | .val (.bool _) => .error .outOfDomain
      | _ => if isLazy no then .error .outOfDomain else .error bad
  | .len, [] =>
    match r with
    | .val (.tuple l) | .val (.list l) | .val (.iter l) => .ok (.val (.int l.length))
    | .lazy xs e => do let l ← drain (xs, e); pure (.val (.int l.length))
    | .val (.dict d) => .ok (.val (.int d.length))
    | .val (.str s) => .ok (.val (.int s.length))
    | .val (.set _) => .error .outOfDomain
    | _ => .error bad
  | .get, [k] =>
    match r with
    | .val (.dict d) => do
      let ko ← ev C k
      let kv ← toV ko
      if hashable kv then pure (.val ((Seq.dGet d kv).getD .null)) else .error (keyErr kv)
    | _ => .error bad
  | .get, [k, dflt] =>
    match r with
    | .val (.dict d) => do
      let ko ← ev C k
      let kv ← toV ko
      let dobj ← ev C dflt
      let dv ← toV dobj
      if hashable kv then pure (.val ((Seq.dGet d kv).getD dv)) else .error (keyErr kv)
    | _ => .error bad
  | .unpack, names =>
    match toIter r with
    | none => .error bad
    | some (xs, e) =>
      if names.any (fun a => match a with | .lit (.str _) => false | .lit _ => true | _ => false) then .error bad
      else do
      let ns ← evalList ev C names
      let strs := ns.filterMap fun v => match v with | .str s => some s | _ => none
      if strs.length != ns.length then .error bad
      else
        let n := strs.length
        -- `islice(sequence, len(args) + 1)` reaches the end of a source that raises; without names
        -- `chain(lst, sequence)` consumes the whole source
        match (if n = 0 || xs.length < n + 1 then e else none) with
        | some er => .error er
        | none =>
        if n = 0 then pure (.ctx ({ vars := bindNamed [] (bindPos 1 xs) } :: C))
        else if (xs.take (n + 1)).length != n then .error .value
        else pure (.ctx ({ vars := bindNamed [] (strs.zip xs) } :: C))
  | .let_, _ | .with_, _ | .def_, _ | .list, _ | .dict, _ => .error .unknownMethod   -- functions, not methods
  | _, _ => .error bad

/-- functions: `f(args, k => v)` -/
def callFn (ev : Ev) (C : Ctx) (f : Fn) (args : List Expr) (kw : List (Expr × Expr)) : R Obj :=
  match f with
  | .let_ => do
    let names ← kwNames kw
    let vs ← evalList ev C args
    let kvs ← evalList ev C (kw.map (·.2))
    pure (.ctx (argFrame vs (names.zip kvs) :: C))
  | .with_ =>
    if !kw.isEmpty then (do let _ ← kwNames kw; .error .noFunction)
    else do
      let vs ← evalList ev C args
      pure (.ctx (argFrame vs [] :: C))
  | .def_ =>
    if !kw.isEmpty then .error .outOfDomain
    else match args with
      | [nameE, body] => do
        let no ← ev C nameE
        match no with
        | .val (.str name) => pure (.ctx ({ funs := [(fnKey name, body)] } :: C))
        | o => if isLazy o then .error .outOfDomain else .error .noFunction
      | _ => .error .noFunction
  | .list =>
    if !kw.isEmpty then .error .outOfDomain
    else do
      let os ← evalObjs ev C args
      let parts ← os.mapM listArg
      pure (.val (.tuple parts.flatten))
  | .dict =>
    match args, kw with
    | [], kw => do let ps ← evalPairs ev C kw; mkDict ps
    | [e], [] => do
      let o ← ev C e
      match toIter o with
      | none => .error .noFunction
      | some s => do
        let items ← drain s
        let ps ← items.mapM fun it =>
          match it with
          | .tuple (k :: v :: _) | .list (k :: v :: _) => (.ok (k, v) : R (Value × Value))
          | .tuple _ | .list _ => .error .stopIteration
          | _ => .error .outOfDomain
        mkDict ps
    | _, _ => .error .outOfDomain
  | .len | .any | .all =>
    if !kw.isEmpty then .error .outOfDomain
    else match args with
      | [] => .error .noFunction
      | recv :: rest => do
        -- the receiver is an ordinary first argument here: checked by arity, then evaluated
        let arityOk := match f, rest with
          | .len, [] => true
          | .any, [] | .any, [_] | .all, [] | .all, [_] => true
          | _, _ => false
        if !arityOk then .error .noFunction
        else do let r ← ev C recv; callMethod ev C .noFunction r f rest
  | _ => .error .unknownFunction          -- methods only

/-- `map_args` type-checks *literal* arguments when the overloads are mapped, i.e. before any
    argument is evaluated: a constant no overload of the operator accepts at its position makes
    the call fail with NoMatchingFunctionException whatever the other operand would do -/
def litOk (op : BinOp) : Expr → Bool
  | .lit .null | .lit (.bool _) => !(op == .add || op == .sub || op == .mul)
  | .lit (.str _) | .kw _ => op != .sub
  | _ => true

def isConst : Expr → Bool
  | .lit _ | .kw _ => true
  | _ => false

/-- one layer of the evaluator over the knot `ev` -/
def step (ev : Ev) (C : Ctx) : Expr → R Obj
  | .lit v => .ok (.val v)
  | .kw s => .ok (.val (.str s))
  | .var x => readVar C x
  | .list es => do let vs ← evalList ev C es; pure (.val (.tuple vs))
  | .map kvs => do let ps ← evalPairs ev C kvs; mkDict ps
  | .index e args =>
    if (args.length = 1 || args.length = 2) && !isConst e then do
      let r ← ev C e
      let vs ← evalList ev C args
      indexer r vs
    else .error .noFunction
  | .un op e => do let r ← ev C e; unop op r
  | .bin .and a b => do let x ← ev C a; if truthyObj x then ev C b else pure x
  | .bin .or a b => do let x ← ev C a; if truthyObj x then pure x else ev C b
  | .bin op a b =>
    if litOk op a && litOk op b then do let x ← ev C a; let y ← ev C b; binop op x y
    else .error .noFunction
  | .arrow l r => do
    let c ← ev C l
    match c with
    | .ctx C' => ev C' r            -- `right(left)`: the expression runs *in* the given context
    | _ => .error .noFunction
  | .member e name => do let r ← ev C e; memberOf r name
  | .call f args kw => callFn ev C f args kw
  | .ucall f args kw =>
    match C.getFun (fnKey f) with
    | none => .error .unknownFunction
    | some (body, D) => do
      let names ← kwNames kw
      let vs ← evalList ev C args
      let kvs ← evalList ev C (kw.map (·.2))
      -- `func(*args, **kwargs)`: child of the context the function was defined in
      ev (argFrame vs (names.zip kvs) :: D) body
  | .method e f args kw => do
    let r ← ev C e
    if !kw.isEmpty then .error .outOfDomain else callMethod ev C .noMethod r f args
  | .umethod e _ => do let _ ← ev C e; .error .unknownMethod

/-- the reference interpreter -/
def eval : Nat → Ev
  | 0 => fun _ _ => .error .fuel
  | n + 1 => step (eval n)

/-! ## finalisation (`#finalize` = `convert_output_data`) -/

inductive Final where
  | data (v : Value)      -- tuples / iterators inside become lists on the wire
  | context               -- a context object is handed back to the host
deriving Repr, Inhabited

def finalise (o : Obj) : R Final :=
  match o with
  | .ctx _ => .ok .context
  | o =>
    match toIter o with
    | some s => do let xs ← drain s; if Seq.finOkL xs then pure (.data (.list xs)) else .error .type
    | none =>
      match o with
      | .val v => if Seq.finOk v then .ok (.data v) else .error .type
      | _ => .error .outOfDomain

/-- `engine(text).evaluate(data=doc)`: `$` bound in the context the host passes in -/
def run (fuel : Nat) (doc : Value) (e : Expr) : R Final := do
  let o ← eval fuel [{ vars := [(['$', '1'], doc)] }] e
  finalise o

/-! ## how the data enters: the host's own context chain

A host need not call `evaluate(data=doc, context=<child of the library context>)`.  It may bind the
document with `yaql.create_context(data=doc)` - then `$` lives in the ROOT of the chain, below the
layers of the standard library -, hand a context that already holds variables to
`yaql.create_context(context=..)` (they live below the library too), stack contexts with variables
on top of the library context, and bind `$` itself in any of them.  The library layers bind no
variable (`Props.C04.empty_frame_invisible`: such frames cannot be observed), so the chain the
program runs in is: the host's layers from the root upwards, with the frame that binds `$` somewhere
among them. -/

/-- one context of the host: `ctx[k] = v` for each pair -/
def hostFrame (kvs : List (Name × Value)) : Frame := { vars := bindNamed [] kvs }

/-- layers given from the ROOT upwards -> the chain (head = the top context) -/
def hostFrames (layers : List (List (Name × Value))) : Ctx := (layers.map hostFrame).reverse

/-- the chain with `$` bound above the first `at` layers (`at = 0`: `create_context(data=doc)`;
    `at = layers.length`: `evaluate(data=doc, context=top)`) -/
def hostCtx (layers : List (List (Name × Value))) (at_ : Nat) (doc : Value) : Ctx :=
  hostFrames (layers.drop at_) ++ { vars := [(['$', '1'], doc)] } :: hostFrames (layers.take at_)

def runHost (fuel : Nat) (layers : List (List (Name × Value))) (at_ : Nat) (doc : Value) (e : Expr) : R Final := do
  let o ← eval fuel (hostCtx layers at_ doc) e
  finalise o

/-! ## arguments passed by keyword

`xs.toDict(keySelector => $.k, valueSelector => $.v)` is `xs.toDict($.k, $.v)`: a keyword argument reaches the
parameter of that name - the name the context's naming convention gives the parameter (`key_selector` is
`keySelector` under the default CamelCaseConvention) -, and how an argument is passed changes nothing about
WHEN it is evaluated: a lambda passed by keyword is as lazy as a positional one, its `$` is the argument it is
applied to.  `Expr.positional` rewrites keyword arguments of the builtin methods into positional ones; `runKw`
evaluates the rewritten program.  (`step` itself keeps treating a method call that still has keyword arguments
as out of domain: the functions, repeated names, gaps and evaluation orders `positional` does not translate.) -/

/-- the parameters of a builtin METHOD after its receiver, by the keyword the default convention passes them
    by, with "evaluated lazily" (a `Lambda()` parameter); `none`: keyword arguments are not modelled -/
def kwParams : Fn → Option (List (Name × Bool))
  | .select => some [(['s', 'e', 'l', 'e', 'c', 't', 'o', 'r'], true)]
  | .where_ => some [(['p', 'r', 'e', 'd', 'i', 'c', 'a', 't', 'e'], true)]
  | .selectMany => some [(['s', 'e', 'l', 'e', 'c', 't', 'o', 'r'], true)]
  | .orderBy => some [(['s', 'e', 'l', 'e', 'c', 't', 'o', 'r'], true)]
  | .orderByDescending => some [(['s', 'e', 'l', 'e', 'c', 't', 'o', 'r'], true)]
  | .takeWhile => some [(['p', 'r', 'e', 'd', 'i', 'c', 'a', 't', 'e'], true)]
  | .skipWhile => some [(['p', 'r', 'e', 'd', 'i', 'c', 'a', 't', 'e'], true)]
  | .indexWhere => some [(['p', 'r', 'e', 'd', 'i', 'c', 'a', 't', 'e'], true)]
  | .toDict => some [(['k', 'e', 'y', 'S', 'e', 'l', 'e', 'c', 't', 'o', 'r'], true), (['v', 'a', 'l', 'u', 'e', 'S', 'e', 'l', 'e', 'c', 't', 'o', 'r'], true)]
  | .aggregate => some [(['s', 'e', 'l', 'e', 'c', 't', 'o', 'r'], true), (['s', 'e', 'e', 'd'], false)]
  | .sum => some [(['i', 'n', 'i', 't', 'i', 'a', 'l'], false)]
  | .first => some [(['d', 'e', 'f', 'a', 'u', 'l', 't'], false)]
  | .take => some [(['c', 'o', 'u', 'n', 't'], false)]
  | .skip => some [(['c', 'o', 'u', 'n', 't'], false)]
  | .any => some [(['p', 'r', 'e', 'd', 'i', 'c', 'a', 't', 'e'], true)]
  | .all => some [(['p', 'r', 'e', 'd', 'i', 'c', 'a', 't', 'e'], true)]
  | _ => none

/-- the methods `kwParams` speaks about, with the names they are called by (for the tie to the live registry:
    `Props.C04Gen.kwParams_live`) -/
def kwMethods : List (Name × Fn) := [
  (['s', 'e', 'l', 'e', 'c', 't'], .select),
  (['w', 'h', 'e', 'r', 'e'], .where_),
  (['s', 'e', 'l', 'e', 'c', 't', 'M', 'a', 'n', 'y'], .selectMany),
  (['o', 'r', 'd', 'e', 'r', 'B', 'y'], .orderBy),
  (['o', 'r', 'd', 'e', 'r', 'B', 'y', 'D', 'e', 's', 'c', 'e', 'n', 'd', 'i', 'n', 'g'], .orderByDescending),
  (['t', 'a', 'k', 'e', 'W', 'h', 'i', 'l', 'e'], .takeWhile),
  (['s', 'k', 'i', 'p', 'W', 'h', 'i', 'l', 'e'], .skipWhile),
  (['i', 'n', 'd', 'e', 'x', 'W', 'h', 'e', 'r', 'e'], .indexWhere),
  (['t', 'o', 'D', 'i', 'c', 't'], .toDict),
  (['a', 'g', 'g', 'r', 'e', 'g', 'a', 't', 'e'], .aggregate),
  (['s', 'u', 'm'], .sum),
  (['f', 'i', 'r', 's', 't'], .first),
  (['t', 'a', 'k', 'e'], .take),
  (['s', 'k', 'i', 'p'], .skip),
  (['a', 'n', 'y'], .any),
  (['a', 'l', 'l'], .all)]

def kwName : Expr → Option Name
  | .kw n => some n
  | _ => none

/-- the keyword arguments `kw` (names resolved) laid over the parameters `rest` that the positional
    arguments left open: the expression for each parameter, in parameter order -/
def placeKw (rest : List (Name × Bool)) (kw : List (Name × Expr)) : List (Option Expr) :=
  rest.map fun p => (kw.find? (fun q => q.1 == p.1)).map (·.2)

/-- `some`s, then only `none`s -/
def noGap : List (Option Expr) → Bool
  | [] => true
  | some _ :: r => noGap r
  | none :: r => r.all Option.isNone

def provided : List (Option Expr) → List Expr
  | some e :: r => e :: provided r
  | _ => []

def nodup : List Name → Bool
  | [] => true
  | n :: r => !r.contains n && nodup r

/-- a call no overload accepts: the receiver is evaluated, then NoMatchingMethodException -/
def noOverload (e : Expr) (f : Fn) : Expr := .method e f [.lit .null, .lit .null, .lit .null, .lit .null] []

/-- `e.f(args, kw)` with every keyword argument moved to the position of its parameter; unchanged (and then
    out of domain for `step`) where that is not modelled -/
def placeMethod (e : Expr) (f : Fn) (args : List Expr) (kw : List (Expr × Expr)) : Expr :=
  match kw with
  | [] => .method e f args []
  | _ =>
    match kwParams f, kw.mapM (fun p => (kwName p.1).map (fun n => (n, p.2))) with
    | some ps, some named =>
      let names := named.map (·.1)
      if !nodup names then .method e f args kw                     -- a repeated keyword: not modelled
      else
        let rest := ps.drop args.length
        if ps.length < args.length || !(names.all fun n => (rest.map (·.1)).contains n) then noOverload e f
        else
          let placed := placeKw rest named
          let inOrder := (rest.filter fun p => names.contains p.1).map (·.1) == names
          let allLazy := (rest.filter fun p => names.contains p.1).all (·.2)
          if noGap placed && (inOrder || allLazy) then .method e f (args ++ provided placed) []
          else .method e f args kw                                  -- a gap / eager arguments out of order
    | _, _ => .method e f args kw

mutual
def Expr.positional : Expr → Expr
  | .lit v => .lit v
  | .kw s => .kw s
  | .var x => .var x
  | .list es => .list (positionalL es)
  | .map kvs => .map (positionalP kvs)
  | .index e args => .index e.positional (positionalL args)
  | .un op e => .un op e.positional
  | .bin op a b => .bin op a.positional b.positional
  | .arrow l r => .arrow l.positional r.positional
  | .member e name => .member e.positional name
  | .call f args kw => .call f (positionalL args) (positionalP kw)
  | .ucall f args kw => .ucall f (positionalL args) (positionalP kw)
  | .method e f args kw => placeMethod e.positional f (positionalL args) (positionalP kw)
  | .umethod e f => .umethod e.positional f
def positionalL : List Expr → List Expr
  | [] => []
  | e :: es => e.positional :: positionalL es
def positionalP : List (Expr × Expr) → List (Expr × Expr)
  | [] => []
  | (k, v) :: r => (k.positional, v.positional) :: positionalP r
end

mutual
/-- no method call of the program has a keyword argument -/
def NoKw : Expr → Prop
  | .lit _ | .kw _ | .var _ => True
  | .list es => NoKwL es
  | .map kvs => NoKwP kvs
  | .index e args => NoKw e ∧ NoKwL args
  | .un _ e => NoKw e
  | .bin _ a b => NoKw a ∧ NoKw b
  | .arrow l r => NoKw l ∧ NoKw r
  | .member e _ => NoKw e
  | .call _ args kw => NoKwL args ∧ NoKwP kw
  | .ucall _ args kw => NoKwL args ∧ NoKwP kw
  | .method e _ args kw => NoKw e ∧ NoKwL args ∧ kw = []
  | .umethod e _ => NoKw e
def NoKwL : List Expr → Prop
  | [] => True
  | e :: es => NoKw e ∧ NoKwL es
def NoKwP : List (Expr × Expr) → Prop
  | [] => True
  | (k, v) :: r => NoKw k ∧ NoKw v ∧ NoKwP r
end

/-- `engine(text).evaluate(..)` for programs that pass arguments by keyword -/
def runKw (fuel : Nat) (layers : List (List (Name × Value))) (at_ : Nat) (doc : Value) (e : Expr) : R Final :=
  runHost fuel layers at_ doc e.positional

end Yaql.Eval
