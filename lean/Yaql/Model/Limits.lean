import Yaql.Model.Convert
/-!
Model of the two resource limits of yaql (C08): `utils.limit_iterable`, `utils.limit_memory_usage`,
the CPython size model behind `sys.getsizeof` (constants regenerated from the running interpreter into
`Yaql.Gen.Sizes`), the pre-allocation estimates of `list_by_int` / `string_by_int`, `utils.memorize`
and the argument / result checks of `SmartType.convert` / `runner.call`.
The finaliser (`convert_output_data` with the `#iter` limiter) is `Yaql.Convert.convOut`.
-/
namespace Yaql.Limits
open Yaql.Convert (Limit Err)

/-! ## `limit_iterable` on iterators: the counting generator -/

/-- an underlying iterator: item `i` of it, `none` = StopIteration (finite or endless) -/
abbrev Source (α : Type) := Nat → Option α

/-- state of `limiting_iterator()`: `idx` = the `enumerate` index = number of items pulled from the
    source so far; `dead` = the generator has finished (source exhausted, or it raised) -/
structure LimIter where
  idx : Nat := 0
  dead : Bool := false
deriving Repr, DecidableEq

inductive Out (α : Type) where
  | item (a : α)
  | stop            -- StopIteration
  | tooLarge        -- CollectionTooLargeException
deriving Repr

/-- `0 <= max_count <= i` -/
def blocks : Limit → Nat → Bool
  | none, _ => false
  | some N, i => decide (N ≤ i)

/-- one `next()` on the limiting iterator:
    `for i, t in enumerate(iterable): if 0 <= max_count <= i: raise ...; yield t`
    - item `i` is pulled from the source *before* the index is checked -/
def limNext {α : Type} (lim : Limit) (src : Source α) (s : LimIter) : LimIter × Out α :=
  if s.dead then (s, .stop) else
  match src s.idx with
  | none => ({ s with dead := true }, .stop)
  | some a =>
      if blocks lim s.idx then ({ idx := s.idx + 1, dead := true }, .tooLarge)
      else ({ idx := s.idx + 1, dead := false }, .item a)

/-- what a consumer that calls `next()` `k` times observes -/
structure Run (α : Type) where
  st : LimIter := {}
  items : List α := []      -- in the order obtained
  raised : Bool := false

def Run.step {α : Type} (lim : Limit) (src : Source α) (r : Run α) : Run α :=
  match limNext lim src r.st with
  | (s, .item a) => { st := s, items := r.items ++ [a], raised := r.raised }
  | (s, .stop) => { r with st := s }
  | (s, .tooLarge) => { r with st := s, raised := true }

def run {α : Type} (lim : Limit) (src : Source α) : Nat → Run α → Run α
  | 0, r => r
  | k + 1, r => run lim src k (r.step lim src)

/-- `limit_iterable` on a sized collection (Sequence / Mapping / Set): `len` only, no iteration -/
def limitSized (lim : Limit) (len : Nat) : Except Err Unit :=
  if lim.admits len then .ok () else .error .tooLarge

/-! ## `limit_memory_usage` -/

/-- `limit_memory_usage(quota, (count, sample)...)` with `size = sys.getsizeof(sample)`;
    `true` = returns, `false` = MemoryQuotaExceededException.  The running total is compared after
    every term; a quota `<= 0` disables the check. -/
def limitMemoryGo (quota : Int) : Int → List (Int × Nat) → Bool
  | _, [] => true
  | total, (c, sz) :: r =>
      let t := total + c * (sz : Int)
      if t > quota then false else limitMemoryGo quota t r

def limitMemory (quota : Int) (args : List (Int × Nat)) : Bool :=
  if quota ≤ 0 then true else limitMemoryGo quota 0 args

/-! ## size model (`sys.getsizeof`) -/

structure SizeCfg where
  tupleHdr : Nat        -- sys.getsizeof(())
  listHdr : Nat         -- sys.getsizeof([])
  ptr : Nat             -- per item of a tuple / an exactly allocated list
  strAscii : Nat        -- sys.getsizeof(''), + 1 per character
  strLatin1 : Nat       -- header of a str whose widest character is in U+0080..U+00FF, + 1 per character
  strUcs2 : Nat         -- ... U+0100..U+FFFF, + 2 per character
  strUcs4 : Nat         -- ... above, + 4 per character
  fdictOverhead : Nat   -- sys.getsizeof(FrozenDict(d)) - sys.getsizeof(d): FrozenDict.__sizeof__ adds the dict it owns
deriving Repr

inductive SeqK where | tuple | list
deriving DecidableEq, Repr

inductive StrClass where | ascii | latin1 | ucs2 | ucs4
deriving DecidableEq, Repr

def SizeCfg.seqHdr (c : SizeCfg) : SeqK → Nat
  | .tuple => c.tupleHdr
  | .list => c.listHdr

/-- size of a tuple / of a list allocated exactly (`left * right` allocates exactly) -/
def SizeCfg.seqSize (c : SizeCfg) (k : SeqK) (n : Nat) : Nat := c.seqHdr k + c.ptr * n

def SizeCfg.strHdr (c : SizeCfg) : StrClass → Nat
  | .ascii => c.strAscii
  | .latin1 => c.strLatin1
  | .ucs2 => c.strUcs2
  | .ucs4 => c.strUcs4

def StrClass.width : StrClass → Nat
  | .ascii => 1 | .latin1 => 1 | .ucs2 => 2 | .ucs4 => 4

/-- the empty string is the ASCII `''` whatever class is asked for -/
def SizeCfg.strSize (c : SizeCfg) (cls : StrClass) (n : Nat) : Nat :=
  if n = 0 then c.strAscii else c.strHdr cls + cls.width * n

def strClassOf (maxCodePoint : Nat) : StrClass :=
  if maxCodePoint < 128 then .ascii else if maxCodePoint < 256 then .latin1
  else if maxCodePoint < 65536 then .ucs2 else .ucs4

/-- `sys.getsizeof` of a `utils.FrozenDict` whose private dict has `dictSize` bytes -/
def SizeCfg.fdictSize (c : SizeCfg) (dictSize : Nat) : Nat := c.fdictOverhead + dictSize

/-- `dict_set`: `utils.limit_memory_usage(engine, (1, d), (1, key), (1, value))` -/
def dictSetCheck (c : SizeCfg) (quota : Int) (dictSize keySize valSize : Nat) : Bool :=
  limitMemory quota [(1, c.fdictSize dictSize), (1, keySize), (1, valSize)]

/-! ## repetition: `list_by_int`, `string_by_int` -/

/-- length of `left * k` -/
def repLen (n : Nat) (k : Int) : Nat := if k ≤ 0 then 0 else n * k.toNat

/-- `utils.limit_memory_usage(engine, (-right + 1, ()), (right, left))` -/
def listByIntCheck (c : SizeCfg) (quota : Int) (kind : SeqK) (n : Nat) (k : Int) : Bool :=
  limitMemory quota [(-k + 1, c.tupleHdr), (k, c.seqSize kind n)]

/-- the estimate before fix 1e67e83: `(-right + 1, [])` -/
def listByIntCheckOld (c : SizeCfg) (quota : Int) (kind : SeqK) (n : Nat) (k : Int) : Bool :=
  limitMemory quota [(-k + 1, c.listHdr), (k, c.seqSize kind n)]

/-- `list_by_int`: size of the result, or `none` = MemoryQuotaExceededException before allocating -/
def listByInt (c : SizeCfg) (quota : Int) (kind : SeqK) (n : Nat) (k : Int) : Option Nat :=
  if listByIntCheck c quota kind n k then some (c.seqSize kind (repLen n k)) else none

/-- `utils.limit_memory_usage(engine, (-right + 1, ''), (right, left))` -/
def stringByIntCheck (c : SizeCfg) (quota : Int) (cls : StrClass) (n : Nat) (k : Int) : Bool :=
  limitMemory quota [(-k + 1, c.strAscii), (k, c.strSize cls n)]

def stringByInt (c : SizeCfg) (quota : Int) (cls : StrClass) (n : Nat) (k : Int) : Option Nat :=
  if stringByIntCheck c quota cls n k then some (c.strSize cls (repLen n k)) else none

/-! ## `utils.memorize` -/

/-- one `__next__` of a RememberingIterator that has to pull: `yielded.append(val);
    limit_memory_usage(engine, (1, yielded))`.  `listSize len` = `sys.getsizeof` of the growing list.
    `none` = MemoryQuotaExceededException. -/
def memorizeStep (quota : Int) (listSize : Nat → Nat) (len : Nat) : Option Nat :=
  if limitMemory quota [(1, listSize (len + 1))] then some (len + 1) else none

/-! ## argument / result checks: a first-order call tree

`SmartType.convert` runs `limit_memory_usage(engine, (1, value))` on every argument it binds,
`runner.call` on every result.  `payload f` is the (abstract) meaning of function `f`. -/

inductive Expr (V : Type) where
  | lit (v : V)
  | call (f : Nat) (args : List (Expr V))

inductive QErr where
  | quota           -- MemoryQuotaExceededException
  | other
deriving DecidableEq, Repr

mutual
/-- value and the log of every value that was bound to a parameter or returned from a call -/
def evalQ {V : Type} (quota : Int) (size : V → Nat) (payload : Nat → List V → Except QErr V) :
    Expr V → Except QErr (V × List V)
  | .lit v => .ok (v, [])
  | .call f args =>
      match evalArgs quota size payload args with
      | .error e => .error e
      | .ok (vs, log) =>
          match payload f vs with
          | .error e => .error e
          | .ok r => if limitMemory quota [(1, size r)] then .ok (r, log ++ vs ++ [r]) else .error .quota
/-- arguments are evaluated, then bound: each bound value is checked -/
def evalArgs {V : Type} (quota : Int) (size : V → Nat) (payload : Nat → List V → Except QErr V) :
    List (Expr V) → Except QErr (List V × List V)
  | [] => .ok ([], [])
  | a :: as =>
      match evalQ quota size payload a with
      | .error e => .error e
      | .ok (v, l1) =>
          if limitMemory quota [(1, size v)] then
            match evalArgs quota size payload as with
            | .error e => .error e
            | .ok (vs, l2) => .ok (v :: vs, l1 ++ l2)
          else .error .quota
end

end Yaql.Limits
