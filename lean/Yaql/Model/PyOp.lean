import Yaql.Model.PyPrelude
import Yaql.Model.OpTable
/-!
The records of `YaqlFactory.operators` as python tuples, for the source translator: `()` is `Rec.sep`, a 2- or
3-tuple `(symbol, type[, alias])` is `Rec.op symbol type alias` (a 2-tuple = alias `None`; the only place the code
tells them apart is `record[2] if len(record) > 2 else None`, which gives `None` for both).
-/
namespace Yaql.PyOp
open Yaql.OpTable

/-- `len(t)` up to the 2-tuple / 3-tuple identification: 0 for `()`, 3 for an operator record -/
def recLen : Rec → Int
  | .sep => 0
  | .op .. => 3

/-- `t[0]` -/
def recSym? : Rec → Except Py.Err Str
  | .sep => .error .indexError
  | .op s _ _ => .ok s

/-- `t[1]` -/
def recType? : Rec → Except Py.Err OpType
  | .sep => .error .indexError
  | .op _ t _ => .ok t

/-- `t[2]` (of the 3-tuple form) -/
def recAlias? : Rec → Except Py.Err (Option Str)
  | .sep => .error .indexError
  | .op _ _ a => .ok a

def liftErr {α : Type} : Except InsertErr α → Except Py.Err α
  | .ok v => .ok v
  | .error .notFound => .error .valueError

end Yaql.PyOp
