import Yaql.Model.Convert
/-!
A host that builds its engines from ONE option dictionary of its own, which it fills anew for every engine and
goes on changing afterwards (C10: "for all 4 combinations of convertTuplesToLists x convertSetsToLists" - the
combination an engine finalises with is the one it was CREATED with; the documentation: options cannot be
changed after the engine is created).

* `setOptions o`   the host writes its dictionary: `opts.update(..)`
* `create`         `factory.create(options=opts)`: `YaqlEngine.__init__` copies the dictionary
                   (`utils.FrozenDict(options or {})`) - the engine owns a SNAPSHOT
* `finalize i v`   engine number `i` finalises the value `v` (`#finalize` reads `engine.options`)

`stepView` is the contrasting design in which the engine keeps a read-only VIEW of the host's dictionary.
-/
namespace Yaql.EngineOptions
open Yaql.Convert

inductive Op where
  | setOptions (o : Opts)
  | create
  | finalize (i : Nat) (v : Py)
deriving Repr, Inhabited

structure St where
  hostOpts : Opts := {}
  /-- the options each engine was created with, oldest first -/
  engines : List Opts := []
deriving Repr, Inhabited

abbrev Out := Option (Except Err Py)

def step (st : St) : Op → St × Out
  | .setOptions o => ({ st with hostOpts := o }, none)
  | .create => ({ st with engines := st.engines ++ [st.hostOpts] }, none)
  | .finalize i v => (st, (st.engines[i]?).map fun o => convOut o none v)

def run : St → List Op → List Out
  | _, [] => []
  | st, op :: r => (step st op).2 :: run (step st op).1 r

def stateAfter (st : St) : List Op → St
  | [] => st
  | op :: r => stateAfter (step st op).1 r

/-- the contrasting design: an engine looks its options up in the host's dictionary when it needs them -/
def stepView (st : St) : Op → St × Out
  | .finalize i v => (st, (st.engines[i]?).map fun _ => convOut st.hostOpts none v)
  | op => step st op

def runView : St → List Op → List Out
  | _, [] => []
  | st, op :: r => (stepView st op).2 :: runView (stepView st op).1 r

/-- the options the host's dictionary holds after the operations -/
def optsAfter (o : Opts) : List Op → Opts
  | [] => o
  | .setOptions o' :: r => optsAfter o' r
  | _ :: r => optsAfter o r

/-- the options at the creation of every engine, oldest first -/
def createdWith (o : Opts) : List Op → List Opts
  | [] => []
  | .create :: r => o :: createdWith o r
  | .setOptions o' :: r => createdWith o' r
  | _ :: r => createdWith o r

end Yaql.EngineOptions
