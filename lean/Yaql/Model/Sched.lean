/-!
Generic interleaving semantics (properties C18, C01).

A system is ONE shared component `S` (for C18: the prepared context chain, the parsed statements,
the function definitions, the frozen documents, the module-level caches) plus one private state `P`
per thread (its child context, its locals, the lazy objects it created, its program counter).
A thread step is `step : S → P → (S × P) ⊕ R`: it may read the shared component and its OWN private
state, and returns either the shared component and its private state afterwards, or the thread's
result.  That a step cannot touch another thread's private state is built into the type - it is the
modelling of "locals and objects reachable only from locals of a call belong to that call".

The atomic step is whatever the instance chooses (C18: one function dispatch / one iterator step /
one `__hash__` of a key object - the scheduling points of the harness).  A schedule is a list of
thread indices, of any length; `run` follows it.  The program of a thread is part of its private
state, so "every program assignment" = every initial list of private states.
-/
namespace Yaql.Sched

structure Machine (S P R : Type) where
  step : S → P → (S × P) ⊕ R

inductive Thread (P R : Type) where
  | running (p : P)
  | done (r : R)
deriving DecidableEq, Repr

structure Sys (S P R : Type) where
  shared  : S
  threads : List (Thread P R)

variable {S P R : Type}

/-- one step of a thread against the shared component; a finished thread stays as it is -/
def stepThread (m : Machine S P R) (s : S) : Thread P R → S × Thread P R
  | .running p =>
      match m.step s p with
      | .inl (s', p') => (s', .running p')
      | .inr r => (s, .done r)
  | .done r => (s, .done r)

/-- scheduling step of thread `i` (an index that names no thread is a no-op) -/
def step (m : Machine S P R) (sys : Sys S P R) (i : Nat) : Sys S P R :=
  match sys.threads[i]? with
  | none => sys
  | some t =>
      { shared := (stepThread m sys.shared t).1,
        threads := sys.threads.set i (stepThread m sys.shared t).2 }

def run (m : Machine S P R) (sys : Sys S P R) (sched : List Nat) : Sys S P R :=
  sched.foldl (step m) sys

/-- a thread running alone for `n` steps, threading the shared component through -/
def soloIter (m : Machine S P R) : Nat → S × Thread P R → S × Thread P R
  | 0, x => x
  | n + 1, x => soloIter m n (stepThread m x.1 x.2)

/-- `r` is what thread state `t` returns when it runs alone from the shared component `s` -/
def SoloResult (m : Machine S P R) (s : S) (t : Thread P R) (r : R) : Prop :=
  ∃ n, (soloIter m n (s, t)).2 = .done r

/-- executable form: the result after at most `fuel` solo steps -/
def soloResult? (m : Machine S P R) (fuel : Nat) (s : S) (t : Thread P R) : Option R :=
  match (soloIter m fuel (s, t)).2 with
  | .done r => some r
  | .running _ => none

def Thread.isDone : Thread P R → Bool
  | .done _ => true
  | .running _ => false

/-- a schedule is complete for a system when it leaves every thread finished -/
def Complete (sys : Sys S P R) : Prop := ∀ t ∈ sys.threads, t.isDone = true

def results (sys : Sys S P R) : List (Option R) :=
  sys.threads.map fun
    | .done r => some r
    | .running _ => none

end Yaql.Sched
