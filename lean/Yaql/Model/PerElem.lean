import Yaql.Model.EvalOrder
/-!
Evaluation order of per-element lambdas (C11, last clause: "per-element lambdas run once per
element consumed").

The probe log sees a lazy collection as a `Strm`: for every element the probes that fire when
that element is pulled (since the previous pull returned), and the probes that fire when a pull
finds the end.  Nothing fires for an element that is never pulled - that is what "lazy" means
for the log.

A streaming operator is a `Stage`: its reaction (`Rx`) before the first pull, to the i-th
element it pulls, and to the end of its input.  A reaction says which probes fire before each
result it hands on, which fire after the last one, and whether the operator is done (it will
not pull again).  `runOn` runs a stage over a stream and gives the stream of its results; the
probes of a pulled element and of the lambda applied to it end up in front of the next result
that is handed on - or, if there is none, in `fin`.  A pipeline is iterated `runOn`; a consumer
that wants only k results is the stage `take k` (or `first`, `any`, ...: a stage that stops).

As everywhere in `EvalOrder`, values are abstracted: the operators carry, per input element,
the lambda body as evaluated on that element (an `X` with the truthiness flags of THAT
evaluation filled in) and the fact the operator's reaction depends on (kept / hit / how many
results).
-/
namespace Yaql.PerElem
open Yaql.EvalOrder

structure Strm where
  outs : List (List Nat) := []
  fin : List Nat := []
deriving Repr, Inhabited

def Strm.log (s : Strm) : List Nat := s.outs.flatten ++ s.fin

structure Rx where
  outs : List (List Nat) := []    -- per result handed on: the probes fired since the previous one
  tail : List Nat := []           -- probes fired after the last result
  stop : Bool := false
deriving Repr, Inhabited

def Rx.events (r : Rx) : List Nat := r.outs.flatten ++ r.tail

structure Stage where
  start : Rx := {}
  step : Nat → Rx
  finish : Nat → Rx := fun _ => {}

/-- hand on the results of a reaction; `pend` = probes fired since the last result was handed on.
    Gives the results and what is pending afterwards. -/
def emit (pend : List Nat) (r : Rx) : List (List Nat) × List Nat :=
  match r.outs with
  | [] => ([], pend ++ r.tail)
  | e :: es => ((pend ++ e) :: es, r.tail)

/-- run `m`, about to pull its `i`-th element, over the rest of its input -/
def runFrom (m : Stage) (i : Nat) (pend : List Nat) : List (List Nat) → List Nat → Strm
  | [], fin =>
    let e := emit (pend ++ fin) (m.finish i)
    ⟨e.1, e.2⟩
  | d :: rest, fin =>
    let e := emit (pend ++ d) (m.step i)
    if (m.step i).stop then ⟨e.1, e.2⟩
    else
      let t := runFrom m (i + 1) e.2 rest fin
      ⟨e.1 ++ t.outs, t.fin⟩

def runOn (m : Stage) (I : Strm) : Strm :=
  let e := emit [] m.start
  if m.start.stop then ⟨e.1, e.2⟩
  else
    let t := runFrom m 0 e.2 I.outs I.fin
    ⟨e.1 ++ t.outs, t.fin⟩

def runPipe (ms : List Stage) (I : Strm) : Strm := ms.foldl (fun I m => runOn m I) I

/-! ### the operators -/

def bodyAt (bodies : List X) (i : Nat) : List Nat := trace (bodies.getD i .leaf)

/-- one result after the probes `t` -/
def yield1 (t : List Nat) : Rx := { outs := [t] }
/-- no result, the probes `t` fired -/
def quiet (t : List Nat) : Rx := { tail := t }

/-- rows of `join` for one outer element: per inner element the probes of pulling it (first
    pass only), of the predicate and - when it holds - of the selector, which gives a row -/
def joinRows : List (List Nat) → List X → List Bool → List X → List (List Nat) × List Nat
  | [], _, _, _ => ([], [])
  | d :: ds, ps, fs, ss =>
    let r := joinRows ds ps.tail fs.tail ss.tail
    let here := d ++ trace (ps.headD .leaf)
    if fs.headD false then
      ((here ++ trace (ss.headD .leaf)) :: r.1, r.2)
    else
      match r.1 with
      | [] => ([], here ++ r.2)
      | e :: es => ((here ++ e) :: es, r.2)

inductive Op where
  /-- `select`, `enumerate`-like one-to-one operators: the lambda, then one result -/
  | select (bodies : List X)
  /-- `where`, `distinct(key)`: the lambda, a result if it is kept -/
  | filter (bodies : List X) (keep : List Bool)
  | takeWhile (bodies : List X) (keep : List Bool)
  | skipWhile (bodies : List X) (keep : List Bool)
  /-- `selectMany`: the lambda, then as many results as its value has elements -/
  | selectMany (bodies : List X) (counts : List Nat)
  /-- `any`, `all`, `indexWhere`, `first`: the lambda on element after element up to the first hit;
      one result (at the hit, or at the end) -/
  | search (bodies : List X) (hit : List Bool)
  /-- consumers of the whole collection with a per-element lambda (`len`, `sum`, `toDict`,
      `aggregate`, `groupBy`, `lastIndexWhere`, materialisation): `nout` results at the end -/
  | each (bodies : List X) (nout : Nat)
  /-- `accumulate`: the lambda from the second element on (from the first with a seed) -/
  | accumulate (bodies : List X) (seeded : Bool)
  | take (k : Nat)
  | skip (k : Nat)
  /-- `memorize`, `enumerate`: hands every element on -/
  | pass
  /-- `zip(other)`: a row per element while `other` has one -/
  | zip (other : Strm)
  /-- `concat(other)` / `+` / `insertMany` at the end: `other` after the receiver is exhausted -/
  | concat (other : Strm)
  /-- `join(inner, predicate, selector)`; the lambdas per (outer, inner) pair -/
  | join (inner : Strm) (preds : List (List X)) (flags : List (List Bool)) (sels : List (List X))

def allBefore (keep : List Bool) (i : Nat) : Bool := (keep.take i).all id

def stageOf : Op → Stage
  | .select bodies => { step := fun i => yield1 (bodyAt bodies i) }
  | .filter bodies keep =>
    { step := fun i => if keep.getD i false then yield1 (bodyAt bodies i) else quiet (bodyAt bodies i) }
  | .takeWhile bodies keep =>
    { step := fun i => if keep.getD i false then yield1 (bodyAt bodies i) else { tail := bodyAt bodies i, stop := true } }
  | .skipWhile bodies keep =>
    { step := fun i =>
        if allBefore keep i then (if keep.getD i false then quiet (bodyAt bodies i) else yield1 (bodyAt bodies i))
        else yield1 [] }
  | .selectMany bodies counts =>
    { step := fun i =>
        match counts.getD i 0 with
        | 0 => quiet (bodyAt bodies i)
        | n + 1 => { outs := bodyAt bodies i :: List.replicate n [] } }
  | .search bodies hit =>
    { step := fun i => if hit.getD i false then { outs := [bodyAt bodies i], stop := true } else quiet (bodyAt bodies i)
      finish := fun _ => { outs := [[]], stop := true } }
  | .each bodies nout =>
    { step := fun i => quiet (bodyAt bodies i)
      finish := fun _ => { outs := List.replicate nout [], stop := true } }
  | .accumulate bodies seeded =>
    { start := if seeded then yield1 [] else {}
      step := fun i => if !seeded && i == 0 then yield1 [] else yield1 (bodyAt bodies i) }
  | .take k =>
    { start := { stop := k == 0 }
      step := fun i => { outs := [[]], stop := decide (k ≤ i + 1) } }
  | .skip k => { step := fun i => if i < k then {} else yield1 [] }
  | .pass => { step := fun _ => yield1 [] }
  | .zip other =>
    { step := fun i =>
        match other.outs[i]? with
        | some d => yield1 d
        | none => { tail := other.fin, stop := true } }
  | .concat other =>
    { step := fun _ => yield1 []
      finish := fun _ => { outs := other.outs, tail := other.fin, stop := true } }
  | .join inner preds flags sels =>
    { step := fun i =>
        let ds := if i == 0 then inner.outs else inner.outs.map fun _ => []
        let r := joinRows ds (preds.getD i []) (flags.getD i []) (sels.getD i [])
        { outs := r.1, tail := r.2 ++ (if i == 0 then inner.fin else []) } }

/-- a source whose elements exist already (a list literal: its probes fired when it was built) -/
def listSrc (n : Nat) : Strm := ⟨List.replicate n [], []⟩

/-- the probes fired by consuming a pipeline over a source completely -/
def pipeLog (ops : List Op) (src : Strm) : List Nat := (runPipe (ops.map stageOf) src).log

end Yaql.PerElem
