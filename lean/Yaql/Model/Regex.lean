import Yaql.Model.Strings
/-
Model of yaql/standard_library/regex.py.

Part 1: yaql's wrappers (`matches`, `search`, `searchAll`, `split`, `replace`,
`replaceBy`, `=~`, `!~`) and `_publish_match` over an ABSTRACT matcher
  `M pattern flags string pos mustAdvance : Option Match`
which stands for one `SRE(search)` of CPython's `re`: the leftmost match starting at
or after `pos`; when `mustAdvance` is set an empty match AT `pos` is not acceptable
(this is how `finditer`, `sub` and `split` continue after an empty match).  The
iteration of `finditer`/`sub`/`split` over that matcher is modelled here.

Part 2: an executable backtracking matcher for a generated family of patterns, used
by the driver to run regex cases end to end against CPython's `re`.

(The only import is the sibling, import-free `Yaql.Model.Strings`.)
-/
namespace Yaql.Regex
open Yaql.Strings

structure Span where
  start : Nat
  stop : Nat
deriving Repr, DecidableEq, Inhabited

/-- `s[start:stop]` -/
def Span.text (s : Str) (sp : Span) : Str := (s.take sp.stop).drop sp.start

/-- a match object: span of the whole match, spans of the numbered groups 1..n (`none`: the
    group did not take part), and the name -> group number table (`groupdict` order) -/
structure Match where
  whole : Span
  groups : List (Option Span) := []
  names : List (Str × Nat) := []
deriving Repr, DecidableEq, Inhabited

structure Flags where
  ignoreCase : Bool := false
  multiLine : Bool := false
  dotAll : Bool := false
deriving Repr, DecidableEq, Inhabited

abbrev Matcher (P : Type) := P → Flags → Str → Nat → Bool → Option Match

/-! ## Part 1 - iteration, wrappers, published variables -/

/-- what every match returned by a search from `pos` satisfies; the iteration below only
    accepts such matches, so that it is total and its laws hold for EVERY matcher -/
def Match.sane (len pos : Nat) (adv : Bool) (m : Match) : Bool :=
  decide (pos ≤ m.whole.start) && decide (m.whole.start ≤ m.whole.stop) && decide (m.whole.stop ≤ len)
    && !(adv && m.whole.stop == pos)

/-- one search -/
def step {P : Type} (M : Matcher P) (p : P) (f : Flags) (s : Str) (pos : Nat) (adv : Bool) : Option Match :=
  match M p f s pos adv with
  | some m => if m.sane s.length pos adv then some m else none
  | none => none

/-- a `count` / `maxsplit` argument of `re`: 0 = no limit, negative = nothing at all -/
def limOf (n : Int) : Option Nat := if n = 0 then none else some n.toNat

/-- the successive matches of `finditer` / `sub` / `split`: after a match the search
    resumes at its end, and must advance iff the match was empty -/
def matchesFrom {P : Type} (M : Matcher P) (p : P) (f : Flags) (s : Str) :
    Nat → Option Nat → Nat → Bool → List Match
  | 0, _, _, _ => []
  | fuel + 1, lim, pos, adv =>
    if more lim then
      match step M p f s pos adv with
      | none => []
      | some m => m :: matchesFrom M p f s fuel (decr lim) m.whole.stop (m.whole.stop == m.whole.start)
    else []

/-- enough fuel: every stop position is used by at most two matches -/
def fuelFor (s : Str) : Nat := 2 * s.length + 3

def allMatches {P : Type} (M : Matcher P) (p : P) (f : Flags) (s : Str) (lim : Option Nat) : List Match :=
  matchesFrom M p f s (fuelFor s) lim 0 false

/-- the pieces of the string between the matches (`last` = end of the previous match) -/
def pieces (s : Str) : Nat → List Match → List Str
  | last, [] => [s.drop last]
  | last, m :: ms => (s.take m.whole.start).drop last :: pieces s m.whole.stop ms

/-- `p0 t0 p1 t1 .. pn` -/
def weave : List Str → List Str → Str
  | [], _ => []
  | p :: ps, [] => p ++ weave ps []
  | p :: ps, t :: ts => p ++ (t ++ weave ps ts)

/-- the loop of `pattern_split`: the piece before each match, then the text of every group
    of the match (`none` for a group that did not take part), finally the rest -/
def splitItems (s : Str) : Nat → List Match → List (Option Str)
  | last, [] => [some (s.drop last)]
  | last, m :: ms =>
    some ((s.take m.whole.start).drop last) :: (m.groups.map fun g => g.map (Span.text s))
      ++ splitItems s m.whole.stop ms

/-- the loop of `pattern_subx` over the matches paired with their replacement texts -/
def subGo (s : Str) : Nat → List (Match × Str) → Str
  | i, [] => s.drop i
  | i, (m, r) :: rest => (s.take m.whole.start).drop i ++ (r ++ subGo s m.whole.stop rest)

/-! ### published variables -/

/-- the record bound to `$1`, `$2`.., `$name` -/
structure Rec where
  value : Option Str
  start : Int
  stop : Int
deriving Repr, DecidableEq, Inhabited

/-- `{'value': m.group(i), 'start': m.start(i), 'end': m.end(i)}` -/
def recOf (s : Str) : Option Span → Rec
  | some sp => { value := some (sp.text s), start := sp.start, stop := sp.stop }
  | none => { value := none, start := -1, stop := -1 }

/-- a context variable name: `'$' + str(n)` or `'$' + identifier` (an identifier is never a
    numeral, so the two kinds cannot collide) -/
inductive Key where
  | num (n : Nat)
  | name (s : Str)
deriving Repr, DecidableEq, Inhabited

/-- the data of the context the selector runs in: most recent assignment first -/
abbrev Bindings := List (Key × Rec)

def setVar (b : Bindings) (k : Key) (r : Rec) : Bindings := (k, r) :: b

def lookup : Bindings → Key → Option Rec
  | [], _ => none
  | (k', r) :: b, k => if k' = k then some r else lookup b k

/-- `for i, t in enumerate(match.groups(), 1): context['$' + str(i + 1)] = ...` -/
def publishGroups (s : Str) : List (Option Span) → Nat → Bindings → Bindings
  | [], _, ctx => ctx
  | g :: gs, i, ctx => publishGroups s gs (i + 1) (setVar ctx (.num (i + 1)) (recOf s g))

/-- span of group number `i` (1-based) -/
def groupSpan (m : Match) (i : Nat) : Option Span :=
  match i with
  | 0 => some m.whole
  | i + 1 => (m.groups[i]?).join

/-- `for key, value in match.groupdict().items(): context['$' + key] = ...` -/
def publishNames (s : Str) (m : Match) : List (Str × Nat) → Bindings → Bindings
  | [], ctx => ctx
  | (nm, gi) :: r, ctx => publishNames s m r (setVar ctx (.name nm) (recOf s (groupSpan m gi)))

/-- `_publish_match` -/
def publishMatch (s : Str) (m : Match) (ctx : Bindings) : Bindings :=
  let ctx := setVar ctx (.num 1) (recOf s (some m.whole))
  let ctx := publishGroups s m.groups 1 ctx
  publishNames s m m.names ctx

/-! ### selectors (the fragment of yaql expressions the generated cases use) -/

inductive Fld where
  | value | start | stop
deriving Repr, DecidableEq, Inhabited

inductive SelAtom where
  | var (k : Key)                  -- `$k`: the record, `null` when unbound
  | field (k : Key) (f : Fld)      -- `$k.f`
  | strField (k : Key) (f : Fld)   -- `str($k.f)`
  | lit (s : Str)
deriving Repr, Inhabited

inductive Sel where
  | one (a : SelAtom)
  | list (l : List SelAtom)        -- `[a, b, ..]`
  | concat (l : List SelAtom)      -- `concat(a, b, ..)`: every argument must be a string
deriving Repr, Inhabited

inductive RAtom where
  | null
  | int (i : Int)
  | str (s : Str)
  | record (r : Rec)
deriving Repr, DecidableEq, Inhabited

inductive RVal where
  | atom (a : RAtom)
  | list (l : List RAtom)
deriving Repr, DecidableEq, Inhabited

def fieldOf (r : Rec) : Fld → RAtom
  | .value => match r.value with
    | some v => .str v
    | none => .null
  | .start => .int r.start
  | .stop => .int r.stop

def strOfAtom : RAtom → Str
  | .null => ['n', 'u', 'l', 'l']
  | .int i => intDec i
  | .str s => s
  | .record _ => []       -- never produced: `strField` reads a field

def evalAtom (b : Bindings) : SelAtom → Except Err RAtom
  | .var k => match lookup b k with
    | some r => .ok (.record r)
    | none => .ok .null
  | .field k f => match lookup b k with
    | some r => .ok (fieldOf r f)
    | none => .error .noMatch
  | .strField k f => match lookup b k with
    | some r => .ok (.str (strOfAtom (fieldOf r f)))
    | none => .error .noMatch
  | .lit s => .ok (.str s)

def evalAtoms (b : Bindings) : List SelAtom → Except Err (List RAtom)
  | [] => .ok []
  | a :: as => match evalAtom b a with
    | .error e => .error e
    | .ok v => match evalAtoms b as with
      | .error e => .error e
      | .ok vs => .ok (v :: vs)

def concatStrs : List RAtom → Except Err Str
  | [] => .ok []
  | .str s :: r => match concatStrs r with
    | .ok t => .ok (s ++ t)
    | .error e => .error e
  | _ :: _ => .error .noMatch

def evalSel (b : Bindings) : Sel → Except Err RVal
  | .one a => match evalAtom b a with
    | .ok v => .ok (.atom v)
    | .error e => .error e
  | .list l => match evalAtoms b l with
    | .ok vs => .ok (.list vs)
    | .error e => .error e
  | .concat l => match evalAtoms b l with
    | .ok vs => match concatStrs vs with
      | .ok s => .ok (.atom (.str s))
      | .error e => .error e
    | .error e => .error e

/-! ### the functions of regex.py -/

section wrappers
variable {P : Type} (M : Matcher P)

/-- `matches`, `matches_`, `=~` -/
def reMatches (p : P) (f : Flags) (s : Str) : Bool := (step M p f s 0 false).isSome

/-- `!~` -/
def reNotMatches (p : P) (f : Flags) (s : Str) : Bool := !(reMatches M p f s)

/-- what one match yields: its text without selector, else the selector's value in a child
    context in which the match has been published -/
def selectOn (s : Str) (sel : Option Sel) (ctx : Bindings) (m : Match) : Except Err RVal :=
  match sel with
  | none => .ok (.atom (.str (m.whole.text s)))
  | some sel => evalSel (publishMatch s m ctx) sel

/-- `search(regexp, string, selector=None)` -/
def search (p : P) (f : Flags) (s : Str) (sel : Option Sel) (ctx : Bindings := []) : Except Err RVal :=
  match step M p f s 0 false with
  | none => .ok (.atom .null)
  | some m => selectOn s sel ctx m

def mapE {α β : Type} (g : α → Except Err β) : List α → Except Err (List β)
  | [] => .ok []
  | a :: as => match g a with
    | .error e => .error e
    | .ok v => match mapE g as with
      | .error e => .error e
      | .ok vs => .ok (v :: vs)

/-- `search_all(regexp, string, selector=None)` -/
def searchAll (p : P) (f : Flags) (s : Str) (sel : Option Sel) (ctx : Bindings := []) : Except Err (List RVal) :=
  mapE (selectOn s sel ctx) (allMatches M p f s none)

/-- `split(regexp, string, max_split=0)` and `split_string` -/
def reSplit (p : P) (f : Flags) (s : Str) (maxSplit : Int := 0) : List (Option Str) :=
  splitItems s 0 (allMatches M p f s (limOf maxSplit))

/-- a replacement template, already parsed: literal text, `\N` / `\g<N>`, `\g<name>` -/
inductive TItem where
  | lit (s : Str)
  | num (n : Nat)
  | name (s : Str)
deriving Repr, Inhabited

def nameIndex : List (Str × Nat) → Str → Option Nat
  | [], _ => none
  | (n, i) :: r, k => if n = k then some i else nameIndex r k

def groupText (s : Str) (m : Match) (i : Nat) : Except Err Str :=
  if i ≤ m.groups.length then
    match groupSpan m i with
    | some sp => .ok (sp.text s)
    | none => .ok []                      -- a group that did not take part expands to ''
  else .error .reError                    -- invalid group reference

def expand (s : Str) (m : Match) : List TItem → Except Err Str
  | [] => .ok []
  | it :: r =>
    let head : Except Err Str := match it with
      | .lit t => .ok t
      | .num n => groupText s m n
      | .name nm => match nameIndex m.names nm with
        | some i => groupText s m i
        | none => .error .reError
    match head with
    | .error e => .error e
    | .ok h => match expand s m r with
      | .error e => .error e
      | .ok t => .ok (h ++ t)

/-- `replace(regexp, string, repl, count=0)` and `replace_string` -/
def reReplace (p : P) (f : Flags) (s : Str) (repl : List TItem) (count : Int := 0) : Except Err Str :=
  let ms := allMatches M p f s (limOf count)
  match mapE (fun m => match expand s m repl with
      | .ok t => .ok (m, t)
      | .error e => .error e) ms with
  | .error e => .error e
  | .ok prs => .ok (subGo s 0 prs)

/-- what `re.sub` does with the value the callable returns: a string is spliced in, `None`
    counts as the empty string, anything else is a `TypeError` (from the final `join`) -/
def replText : RVal → Except Err Str
  | .atom (.str t) => .ok t
  | .atom .null => .ok []
  | _ => .error .typeError

/-- `replace_by(regexp, string, repl, count=0)` and `replace_by_string`: the match is published
    in the function's own context, the selector runs in a child of it -/
def reReplaceBy (p : P) (f : Flags) (s : Str) (repl : Sel) (count : Int := 0) (ctx : Bindings := []) :
    Except Err Str :=
  let ms := allMatches M p f s (limOf count)
  match mapE (fun m => match evalSel (publishMatch s m ctx) repl with
      | .error e => .error e
      | .ok v => match replText v with
        | .ok t => .ok (m, t)
        | .error e => .error e) ms with
  | .error e => .error e
  | .ok prs => .ok (subGo s 0 prs)

end wrappers

/-- `escape_regex`: every character of `special` gets a backslash -/
def escapeRegex (special : List Char) (s : Str) : Str :=
  s.flatMap fun c => if special.contains c then ['\\', c] else [c]

/-! ## Part 2 - an executable backtracking matcher for the generated family -/

inductive Re where
  | eps
  | lit (c : Char)
  | cls (neg : Bool) (cs : List Char)
  | dot
  | bol
  | eol
  | seq (a b : Re)
  | alt (a b : Re)
  | star (greedy : Bool) (r : Re)
  | plus (greedy : Bool) (r : Re)
  | opt (greedy : Bool) (r : Re)
  | grp (idx : Nat) (r : Re)         -- capturing group number `idx` (1-based)
deriving Repr, Inhabited

structure Pattern where
  re : Re
  ngroups : Nat := 0
  names : List (Str × Nat) := []
deriving Repr, Inhabited

abbrev Marks := List (Option Span)

/-- all ways (in backtracking order) to run the loop of a `*`: each iteration must consume
    something for the loop to go on (CPython's zero-width protection: after an empty
    iteration only the tail is tried) -/
def starLoop (greedy : Bool) (body : Nat → Marks → List (Nat × Marks)) : Nat → Nat → Marks → List (Nat × Marks)
  | 0, pos, mk => [(pos, mk)]
  | fuel + 1, pos, mk =>
    let iter := (body pos mk).flatMap fun pm =>
      if pm.1 ≤ pos then [pm] else starLoop greedy body fuel pm.1 pm.2
    if greedy then iter ++ [(pos, mk)] else (pos, mk) :: iter

/-- environment of one match attempt -/
structure Env where
  fold : Char → Char       -- simple lower-casing used under IGNORECASE
  flags : Flags
  s : Str

def Env.same (e : Env) (a b : Char) : Bool :=
  if e.flags.ignoreCase then e.fold a == e.fold b else a == b

/-- every way (end position, group marks), in backtracking order, in which `r` matches at `pos` -/
def mRe (e : Env) : Re → Nat → Marks → List (Nat × Marks)
  | .eps, pos, mk => [(pos, mk)]
  | .lit c, pos, mk =>
    match e.s[pos]? with
    | some d => if e.same d c then [(pos + 1, mk)] else []
    | none => []
  | .cls neg cs, pos, mk =>
    match e.s[pos]? with
    | some d => if (cs.any fun c => e.same d c) != neg then [(pos + 1, mk)] else []
    | none => []
  | .dot, pos, mk =>
    match e.s[pos]? with
    | some d => if e.flags.dotAll || d != '\n' then [(pos + 1, mk)] else []
    | none => []
  | .bol, pos, mk =>
    if pos == 0 || (e.flags.multiLine && e.s[pos - 1]? == some '\n') then [(pos, mk)] else []
  | .eol, pos, mk =>
    if pos == e.s.length || (e.flags.multiLine && e.s[pos]? == some '\n')
        || (!e.flags.multiLine && pos + 1 == e.s.length && e.s[pos]? == some '\n') then [(pos, mk)] else []
  | .seq a b, pos, mk => (mRe e a pos mk).flatMap fun pm => mRe e b pm.1 pm.2
  | .alt a b, pos, mk => mRe e a pos mk ++ mRe e b pos mk
  | .star g r, pos, mk => starLoop g (mRe e r) (e.s.length + 1) pos mk
  | .plus g r, pos, mk =>
    (mRe e r pos mk).flatMap fun pm => starLoop g (mRe e r) (e.s.length + 1) pm.1 pm.2
  | .opt g r, pos, mk =>
    if g then mRe e r pos mk ++ [(pos, mk)] else (pos, mk) :: mRe e r pos mk
  | .grp i r, pos, mk =>
    (mRe e r pos mk).map fun pm => (pm.1, pm.2.set (i - 1) (some ⟨pos, pm.1⟩))

/-- the first way that is acceptable at top level -/
def firstOk (adv : Bool) (start : Nat) : List (Nat × Marks) → Option (Nat × Marks)
  | [] => none
  | pm :: r => if adv && pm.1 == start then firstOk adv start r else some pm

def execSearch (e : Env) (p : Pattern) : Nat → Nat → Bool → Option Match
  | 0, _, _ => none
  | fuel + 1, st, adv =>
    if e.s.length < st then none else
    match firstOk adv st (mRe e p.re st (List.replicate p.ngroups none)) with
    | some pm => some { whole := ⟨st, pm.1⟩, groups := pm.2, names := p.names }
    | none => execSearch e p fuel (st + 1) false

/-- the executable instance of the abstract matcher -/
def execMatcher (fold : Char → Char) : Matcher Pattern :=
  fun p f s pos adv => execSearch { fold := fold, flags := f, s := s } p (s.length + 2 - pos) pos adv

end Yaql.Regex
