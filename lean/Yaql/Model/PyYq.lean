import Yaql.Model.PyPrelude
import Yaql.Model.Yaqlized
/-!
Python-level primitives on the whitelist / blacklist entries and the settings record of the C07 model, for the
source translator: what `name == entry`, `isinstance(entry, REGEX_TYPE)`, `entry.search(name)`, `callable(entry)`
and `entry(name)` are on the closed universe `Yaql.Yaqlized.Entry` (plain string | compiled regex | predicate).
-/
namespace Yaql.PyYq
open Yaql.Yaqlized

/-- `name == entry`: only a plain string entry can be equal to a string -/
def eqName (n : Name) : Entry → Bool
  | .str s => n == s
  | _ => false

/-- `isinstance(entry, REGEX_TYPE)` -/
def isRegex : Entry → Bool
  | .regex _ => true
  | _ => false

/-- `entry.search(name)`: `some ()` stands for a match object -/
def search (e : Entry) (n : Name) : Option Unit :=
  match e with
  | .regex r => if r.search n then some () else none
  | _ => none

/-- `callable(entry)`: a predicate; a `str` or a compiled pattern is not callable -/
def isCallable : Entry → Bool
  | .table _ => true
  | _ => false

/-- `entry(name)` of a predicate entry -/
def call (e : Entry) (n : Name) : Bool :=
  match e with
  | .table t => t.contains n
  | _ => false

/-- the exception class handed to `_validate_name` inside the translator's error enum -/
def liftErrClass : Yaqlized.Err → Py.Err
  | .attributeError => .attributeError
  | .keyError => .keyError
  | .typeError => .typeError
  | .indexError => .indexError
  | .notYaqlized => .other 21

def liftErr {α : Type} : Except Yaqlized.Err α → Except Py.Err α
  | .ok v => .ok v
  | .error e => .error (liftErrClass e)

/-- `name.startswith('_')`-style test with one prefix -/
def startswith1 (s p : List Char) : Bool := p.isPrefixOf s

end Yaql.PyYq
