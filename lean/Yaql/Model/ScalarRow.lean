import Yaql.Model.Scalar
/-!
Rows of the generated table of operator overloads (`Yaql/Gen/ScalarOps.lean`, dumped from the live
`yaql.create_context()` and `YaqlFactory().operators` by harness/gens/scalarops.py) and their
projection onto what the scalar model dispatches over.

A parameter is described by what its smart type *does*: `accepts` lists the scalar kinds whose probe
values (several per kind, boundary ones included) all pass `value_type.check`; `mixed` says that
some kind was accepted for some probes and rejected for others (then no kind list describes it).
-/
namespace Yaql.Scalar

structure GParam where
  cls : List Char          -- class name of the smart type (documentation only)
  accepts : List Kind
  mixed : Bool
  hasDefault : Bool
deriving Repr, DecidableEq, Inhabited

structure GRow where
  name : List Char
  payload : List Char      -- module.function of the payload
  layer : Nat              -- index of the context layer that holds the definition
  params : List GParam     -- visible positional parameters in position order
  star : Option GParam     -- the `*args` parameter
  kwOnly : Nat             -- number of visible keyword-only / `**` parameters
deriving Repr, DecidableEq, Inhabited

/-- one operator of the engine's operator table: symbol, unary?, the function name it calls -/
structure GOp where
  symbol : List Char
  unary : Bool
  fname : List Char
deriving Repr, DecidableEq, Inhabited

/-- can the row match scalar operands at all: every parameter accepts some scalar kind -/
def GRow.reachable (r : GRow) : Bool :=
  r.params.all (fun p => !p.accepts.isEmpty) &&
  (match r.star with | some p => !p.accepts.isEmpty | none => true)

/-- the row as the model sees it -/
def GRow.sig (r : GRow) : List Char × List Char × List (List Kind) × Option (List Kind) :=
  (r.name, r.payload, r.params.map (·.accepts), r.star.map (·.accepts))

def Overload.sig (o : Overload) : List Char × List Char × List (List Kind) × Option (List Kind) :=
  (o.name, o.payload, o.params, o.star)

/-- shape conditions the model relies on: no defaults, no keyword-only parameters, every
    parameter type is uniform per kind -/
def GRow.plain (r : GRow) : Bool :=
  r.kwOnly == 0 && r.params.all (fun p => !p.mixed && !p.hasDefault) &&
  (match r.star with | some p => !p.mixed | none => true)

/-- the function names the model covers -/
def modelNames : List (List Char) :=
  [BinOp.mul, .div, .mod, .add, .sub, .gt, .lt, .ge, .le, .ne, .eq, .isIn, .and, .or].map BinOp.fname ++
  [UnOp.pos, .neg, .not].map UnOp.fname

/-- operator symbols of the default engine that are not scalar operators (member access, indexer,
    dict/list literals, `=>`, context passing) or belong to the regex module (C19) -/
def excludedSymbols : List (List Char) :=
  [['=', '>'], ['.'], ['?', '.'], ['[', ']'], ['{', '}'], ['=', '~'], ['!', '~'], ['-', '>']]

end Yaql.Scalar
