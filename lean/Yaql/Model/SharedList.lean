import Yaql.Model.SharedObjs
/-!
Small-step model of RAW MUTABLE host values shared through the prepared context (property C18), as an
instance of `Yaql.Sched.Machine`.

The shared component is the list of the Python lists a host stored in the shared context without
converting them (`context['hosts'] = [...]` - `Context.__setitem__` keeps the object; the same objects
reach the library functions when the engine runs with `yaql.convertInputData` off, or as results of
host functions).  Every thread evaluates in its own child context, but the VALUE of such a variable is
one Python object for all of them.

Operations of a thread:
* `sortBy v sel asc` - `list($v.orderBy(sel($)))`: `OrderingIterable.do_sort` (queries.py:47-92).
  The key selector is a yaql lambda, so every key computation is a function dispatch = a scheduling
  point: the sort of `n >= 2` elements consists of `n + 1` segments (start up to the first selector call,
  `n - 1` segments between selector calls, the rest of the comparisons up to the end); `n <= 1`
  elements need no comparison, hence no selector call: one segment.
  - `SortMode.copy` is the code: `sorted(collection, key=Comparator)` takes a private copy in the first
    segment and never touches the shared list;
  - `SortMode.inPlace` is `collection.sort(key=Comparator)` on the shared object: CPython empties a list
    for the whole duration of `list.sort` (the items live in a local of the C function) and stores the
    sorted items back at the end;
  - `SortMode.inPlaceRestore` sorts in place and puts the original order back at the end (alone, the
    shared context is the same afterwards - the emptied list is visible only to a concurrent reader).
* `read v` - `list($v)`: what `$v.len()`, `$v.select(..)`, `$v[0]` ... see; one segment.
-/
namespace Yaql.SharedList
open Yaql.Sched
open Yaql.SharedObjs (Row Sel sortRows)

inductive SortMode where
  | copy | inPlace | inPlaceRestore
deriving DecidableEq, Repr

inductive Op where
  | sortBy (v : Nat) (sel : Sel) (asc : Bool)
  | read (v : Nat)
deriving DecidableEq, Repr

inductive Out where
  | rows (rs : List Row)
  | noVar
deriving DecidableEq, Repr

/-- locals of a sort in progress: the items the sort works on (the private copy of `sorted`, or what
    `list.sort` took out of the list) and the number of segments before the last one -/
structure Sorting where
  v : Nat
  sel : Sel
  asc : Bool
  items : List Row
  left : Nat
deriving DecidableEq, Repr

structure PState where
  prog : List Op
  pend : Option Sorting := none
  outs : List Out := []
deriving DecidableEq, Repr

/-- the values of the variables of the shared context -/
abbrev Shared := List (List Row)

def emit (p : PState) (o : Out) : PState := { p with pend := none, outs := p.outs ++ [o] }

def readVar (s : Shared) (v : Nat) : Out :=
  match s[v]? with
  | some l => .rows l
  | none => .noVar

/-- first segment of `do_sort` -/
def start (mode : SortMode) (s : Shared) (p : PState) (v : Nat) (sel : Sel) (asc : Bool) : Shared × PState :=
  match s[v]? with
  | none => (s, emit p .noVar)
  | some items =>
      if items.length ≤ 1 then (s, emit p (.rows items))
      else
        let s' := match mode with
          | .copy => s
          | _ => s.set v []
        (s', { p with pend := some ⟨v, sel, asc, items, items.length - 1⟩ })

/-- last segment of `do_sort` -/
def finish (mode : SortMode) (s : Shared) (p : PState) (st : Sorting) : Shared × PState :=
  let rows := sortRows [(st.sel, st.asc)] st.items
  let s' := match mode with
    | .copy => s
    | .inPlace => s.set st.v rows
    | .inPlaceRestore => s.set st.v st.items
  (s', emit p (.rows rows))

def step (mode : SortMode) (s : Shared) (p : PState) : (Shared × PState) ⊕ List Out :=
  match p.pend with
  | some st =>
      if st.left = 0 then .inl (finish mode s p st)
      else .inl (s, { p with pend := some { st with left := st.left - 1 } })
  | none =>
      match p.prog with
      | [] => .inr p.outs
      | .read v :: rest => .inl (s, emit { p with prog := rest } (readVar s v))
      | .sortBy v sel asc :: rest => .inl (start mode s { p with prog := rest } v sel asc)

def machine (mode : SortMode) : Machine Shared PState (List Out) := ⟨step mode⟩

/-! ### what a thread returns, as a function of the (immutable) shared values and its program -/

def evalOp (s : Shared) : Op → Out
  | .read v => readVar s v
  | .sortBy v sel asc =>
      match s[v]? with
      | none => .noVar
      | some items => if items.length ≤ 1 then .rows items else .rows (sortRows [(sel, asc)] items)

def den (s : Shared) (p : PState) : List Out :=
  match p.pend with
  | none => p.outs ++ p.prog.map (evalOp s)
  | some st => p.outs ++ (.rows (sortRows [(st.sel, st.asc)] st.items) :: p.prog.map (evalOp s))

def opCost (s : Shared) : Op → Nat
  | .read _ => 1
  | .sortBy v _ _ => ((s[v]?).getD []).length + 1

def progCost (s : Shared) : List Op → Nat
  | [] => 0
  | op :: rest => opCost s op + progCost s rest

/-- number of steps a thread still needs -/
def stepsLeft (s : Shared) (p : PState) : Nat :=
  (match p.pend with
   | some st => st.left + 1
   | none => 0) + progCost s p.prog

end Yaql.SharedList
