import Yaql.Model.ConvertId
/-!
`convert_input_data` with a memo keyed by `id()` - the CONTRASTING design to `Convert.convIn` (C10).

`Convert.convIn` is a function of the CONTENT of the host document.  A converter that remembers "the frozen
form of the container at address `id`" is a function of content AND addresses: `convMemo m x` threads the
memo `m : address -> converted form` through the document `x : Obj` (`ConvertId.Obj`: content with the
identity of every container node).  Addresses identify objects only among objects that are alive at the
same time: a host document that is finished before the conversion starts (`Respects c x`: every address
`id` in it stands for the one content `c id`) converts correctly (`Props.C10.memo_sound`), a lazily built
one - a generator / `zip` / `enumerate` / `dict.items()` whose items come into being when they are pulled
and die when the converter drops them, so that the next item reuses the address - does not
(`Props.C10.memo_breaks_transient_items`).  The real `convert_input_data` has no memo
(`Props.C10.convIn_identity_free`: its result does not depend on the identities at all).
-/
namespace Yaql.Convert

abbrev Memo := List (Nat × Py)

def Memo.find : Memo → Nat → Option Py
  | [], _ => none
  | (i, r) :: t, id => if i = id then some r else Memo.find t id

/-- the kinds the memo is applied to: `Sequence`, `MutableSet` (and every `Mapping`) -/
def memoKind : SeqKind → Bool
  | .tuple | .list | .set => true
  | _ => false

mutual
def convMemo (m : Memo) : Obj → Py × Memo
  | .sc s => (.sc s, m)
  | .seq id k l =>
    if memoKind k then
      match m.find id with
      | some r => (r, m)
      | none =>
        let p := convMemoL m l
        (.seq (inKind k) p.1, (id, .seq (inKind k) p.1) :: p.2)
    else
      let p := convMemoL m l
      (.seq (inKind k) p.1, p.2)
  | .map id _ kvs =>
    match m.find id with
    | some r => (r, m)
    | none =>
      let p := convMemoP m kvs
      (.map .fdict p.1, (id, .map .fdict p.1) :: p.2)
  | .lazyMap _ _ l =>
    let p := convMemoL m l
    (.seq .iter p.1, p.2)
def convMemoL (m : Memo) : List Obj → List Py × Memo
  | [] => ([], m)
  | x :: xs =>
    let a := convMemo m x
    let b := convMemoL a.2 xs
    (a.1 :: b.1, b.2)
def convMemoP (m : Memo) : List (Obj × Obj) → List (Py × Py) × Memo
  | [] => ([], m)
  | (k, v) :: r =>
    let a := convMemo m k
    let b := convMemo a.2 v
    let c := convMemoP b.2 r
    ((a.1, b.1) :: c.1, c.2)
end

mutual
/-- every memoised node of the document lives at an address that stands for ITS content: what holds for a
    document whose objects are all alive while it is converted -/
def Respects (c : Nat → Option Py) : Obj → Prop
  | .sc _ => True
  | .seq id k l => (memoKind k = true → c id = some (.seq k (eraseL l))) ∧ RespectsL c l
  | .map id k kvs => c id = some (.map k (eraseP kvs)) ∧ RespectsP c kvs
  | .lazyMap _ _ l => RespectsL c l
def RespectsL (c : Nat → Option Py) : List Obj → Prop
  | [] => True
  | x :: xs => Respects c x ∧ RespectsL c xs
def RespectsP (c : Nat → Option Py) : List (Obj × Obj) → Prop
  | [] => True
  | (k, v) :: r => Respects c k ∧ Respects c v ∧ RespectsP c r
end

/-- the memo holds, for every address, the conversion of the content that lives there -/
def MemoOK (c : Nat → Option Py) (m : Memo) : Prop :=
  ∀ id r, m.find id = some r → ∃ p, c id = some p ∧ r = convIn p

end Yaql.Convert
