import Yaql.Model.Eval
/-!
# Store-passing evaluator of the core fragment: the mutable context objects of `contexts.py`

`Model/Eval.lean` (property C04) represents a context as an immutable chain of frames, so "evaluation
never writes an older context" holds there by representation.  This file evaluates the **same
expressions with the same value semantics** (AST, values, errors, operators, sequence helpers are
imported from `Model/Eval.lean`), but a context is an **ID into a store of mutable cells**
(`_data`, the functions `def` registered, the parent pointer), and every context-API call of the real
evaluator is an operation on that store, logged:

* `childCtx p`        = `p.create_child_context()`           (`contexts.py:86`): appends a cell;
* `setVar c name v`   = `c[name] = v`                         (`Context.__setitem__`, `contexts.py:150`):
                         rewrites cell `c` - *any* `c`, nothing in the operation restricts it;
* `regFun c f body d` = `c.register_function(wrapper)`        (`contexts.py:112`) for the closure a
                         `def` makes: body and the ID of the context the lambda captured.

Who calls them, as in the code:

* `FunctionDefinition.get_delegate.func` (`specs.py:307`): **every** function call - operators,
  `#get_context_data`, `#list`, `#map`, `#indexer`, `#operator_.`, methods, `#finalize` - allocates a
  child of the *calling* context after the eager arguments were evaluated in the calling context
  itself (`runner.choose_overload`), and before the payload runs; a call no overload accepts
  (`raise_not_found`) allocates nothing.  A hidden `Context()` parameter (`let`, `with`, `unpack`,
  `def`) receives that child; the payload writes there and returns it.
* `yaqltypes.Lambda.convert.func`: a lazy argument is a closure over the call context `F` of the
  function it is passed to; each application allocates a child of `F` and `_publish_params` writes
  `$1..$n` (and `$name` for keyword arguments) into that child.  `e.f(..)` is
  `#operator_.(e, f(..))`: `op_dot`'s call context `A`, the (parameterless) method lambda's child `A1`
  of `A`, the method's arguments evaluated in `A1`, the method's own call context a child of `A1`.
  `and` / `or` take both operands lazily: each operand runs in its own child of the operator's call
  context.  With `with_context=True` (`->`) the right side runs *in* the context object it is given.
* `system.def_`: registers the wrapper (under the name without trailing underscores, `fnKey`) in the call
  context it returns; the wrapper's lambda captured
  that same context; a call `f(..)` allocates the wrapper's call context (child of the caller) and the
  application context (child of the captured one).
* `queries.collection_attribution` (`xs.name`): per element a `Delegate` child of the call context,
  in it `#operator_.(element, name)` again.
* `Statement.evaluate` (`expressions.py:149`): `context['$'] = data` on the context it was given, then
  `#finalize(expression)`; the default finaliser calls the `#iter` delegate once per container of the
  result (two contexts each).

Lazy sequences are computed eagerly, as in `Model/Eval.lean` (an iterator is the list of elements it
will yield and the exception that ends it): the store operations of a generator's lambda applications
happen when the generator is created, not when it is consumed.  The *tree* of contexts (who is whose
child, what is written where) is the same; the real evaluator performs a prefix of it when a consumer
stops early.  `orderBy` calls its selector from inside the comparisons of the sort (the number of
applications is the algorithm's); the model applies it once per element.
-/
namespace Yaql.EvalStore
open Yaql Yaql.Value Yaql.Eval

/-! ## the store -/

/-- the mutable part of one `Context` object plus its (immutable) parent pointer -/
structure Cell where
  data : List (Name × Value) := []            -- `_data`, normalised names, insertion ordered
  funs : List (Name × (Expr × Nat)) := []     -- `def`-registered closures: body, captured context
  parent : Option Nat := none
deriving Repr, Inhabited

/-- one context-API call that allocates or writes -/
inductive Entry where
  | alloc (id parent : Nat)                               -- `parent.create_child_context()` gave `id`
  | set (id : Nat) (name : Name) (v : Value)              -- `id[name] = v` (name normalised)
  | reg (id : Nat) (fname : Name) (body : Expr) (cap : Nat)   -- `id.register_function(..)`
deriving Repr, Inhabited

structure St where
  cells : List Cell := []
  log : List Entry := []
deriving Repr, Inhabited

/-- state survives an exception: what was written before a `raise` stays written -/
def M (α : Type) := St → Except Err α × St

def M.pure (a : α) : M α := fun s => (.ok a, s)

def M.bind (m : M α) (f : α → M β) : M β := fun s =>
  match m s with
  | (.ok a, s') => f a s'
  | (.error e, s') => (.error e, s')

instance : Monad M where
  pure := M.pure
  bind := M.bind

def fail (e : Err) : M α := fun s => (.error e, s)

/-- a computation that touches no context -/
def liftR (x : R α) : M α := fun s => (x, s)

def modifyCell (cs : List Cell) (c : Nat) (f : Cell → Cell) : List Cell :=
  match cs[c]? with
  | some cell => cs.set c (f cell)
  | none => cs

/-- `p.create_child_context()`: a new plain context whose parent is `p` -/
def childCtx (p : Nat) : M Nat := fun s =>
  (.ok s.cells.length,
   { cells := s.cells ++ [{ parent := some p }], log := s.log ++ [.alloc s.cells.length p] })

/-- `c[name] = v` -/
def setVar (c : Nat) (name : Name) (v : Value) : M Unit := fun s =>
  (.ok (),
   { cells := modifyCell s.cells c fun cell => { cell with data := Context.aset (Context.normName name) v cell.data },
     log := s.log ++ [.set c (Context.normName name) v] })

/-- `c.register_function(wrapper)` for the closure `(body, cap)` -/
def regFun (c : Nat) (fname : Name) (body : Expr) (cap : Nat) : M Unit := fun s =>
  (.ok (),
   { cells := modifyCell s.cells c fun cell => { cell with funs := Context.aset fname (body, cap) cell.funs },
     log := s.log ++ [.reg c fname body cap] })

/-- `Context.get_data`: own `_data`, then the parents; `fuel` bounds the walk (a child is younger than
    its parent, so `c + 1` steps reach the root of every chain the evaluator builds) -/
def getDataF (cs : List Cell) (x : Name) : Nat → Nat → Option Value
  | 0, _ => none
  | fuel + 1, c =>
    match cs[c]? with
    | none => none
    | some cell =>
      match Context.alookup x cell.data with
      | some v => some v
      | none =>
        match cell.parent with
        | none => none
        | some p => getDataF cs x fuel p

def getData (cs : List Cell) (c : Nat) (x : Name) : Option Value :=
  getDataF cs (Context.normName x) (c + 1) c

/-- innermost registration of the function name (`collect_functions`, first layer) -/
def getFunF (cs : List Cell) (f : Name) : Nat → Nat → Option (Expr × Nat)
  | 0, _ => none
  | fuel + 1, c =>
    match cs[c]? with
    | none => none
    | some cell =>
      match Context.alookup f cell.funs with
      | some r => some r
      | none =>
        match cell.parent with
        | none => none
        | some p => getFunF cs f fuel p

def getFun (cs : List Cell) (c : Nat) (f : Name) : Option (Expr × Nat) := getFunF cs f (c + 1) c

/-! ## run-time objects -/

/-- a context object is its ID; everything else is C04's `Obj` (never its `ctx`) -/
inductive ObjS where
  | data (o : Obj)
  | ctx (c : Nat)
deriving Repr, Inhabited

/-- the object as C04's pure helpers see it (none of them looks into a context) -/
def ObjS.erase : ObjS → Obj
  | .data o => o
  | .ctx _ => .ctx []

def toVS (o : ObjS) : R Value := toV o.erase
def toIterS (o : ObjS) : Option (VL × Option Err) := toIter o.erase
def truthyS (o : ObjS) : Bool := truthyObj o.erase
def isLazyS (o : ObjS) : Bool := isLazy o.erase

def dataR (x : R Obj) : R ObjS :=
  match x with
  | .ok o => .ok (.data o)
  | .error e => .error e

/-- errors of dispatch (no payload ran, `get_delegate.func` was never called) and "no prediction" -/
def isDispatchErr : Err → Bool
  | .noFunction | .noMethod | .unknownFunction | .unknownMethod | .mapping | .fuel | .outOfDomain => true
  | _ => false

/-- a call whose payload touches no context: its call context is allocated iff an overload accepted
    the arguments; the payload's own exception is raised inside it -/
def callPure (C : Nat) (x : R α) : M α :=
  match x with
  | .ok o => do let _ ← childCtx C; pure o
  | .error e => if isDispatchErr e then fail e else do let _ ← childCtx C; fail e

/-- `#get_context_data`: `context[name]` read through the call context -/
def readVarS (c : Nat) (x : Name) : M ObjS := fun s =>
  match getData s.cells c x with
  | none => (.ok (.data (.val .null)), s)
  | some v => if hasIter v then (.error .outOfDomain, s) else (.ok (.data (.val v)), s)

def getFunS (c : Nat) (f : Name) : M (Option (Expr × Nat)) := fun s => (.ok (getFun s.cells c f), s)

/-- an exception becomes data (the tail of a generator) - except "no prediction" -/
def captureS (m : M α) : M (Except Err α) := fun s =>
  match m s with
  | (.ok a, s') => (.ok (.ok a), s')
  | (.error .fuel, s') => (.error .fuel, s')
  | (.error .outOfDomain, s') => (.error .outOfDomain, s')
  | (.error e, s') => (.ok (.error e), s')

/-! ## publication (`_publish_params`, `let`, `with`, `unpack`) -/

/-- `for i, v in enumerate(vs, i): c['$' + str(i)] = v` -/
def publishPos (c : Nat) : Nat → VL → M Unit
  | _, [] => pure ()
  | i, v :: vs => do setVar c ('$' :: Nat.toDigits 10 i) v; publishPos c (i + 1) vs

/-- `for k, v in kwargs.items(): c[k] = v` -/
def publishNamed (c : Nat) : List (Name × Value) → M Unit
  | [] => pure ()
  | (k, v) :: r => do setVar c k v; publishNamed c r

/-! ## generators -/

def mapLS (f : Value → M Value) : VL → Option Err → M (VL × Option Err)
  | [], e => pure ([], e)
  | x :: xs, e => do
    match ← captureS (f x) with
    | .error er => pure ([], some er)
    | .ok v => let r ← mapLS f xs e; pure (v :: r.1, r.2)

def filterLS (p : Value → M Bool) : VL → Option Err → M (VL × Option Err)
  | [], e => pure ([], e)
  | x :: xs, e => do
    match ← captureS (p x) with
    | .error er => pure ([], some er)
    | .ok b => let r ← filterLS p xs e; pure (if b then x :: r.1 else r.1, r.2)

def flatMapLS (f : Value → M (VL × Option Err)) : VL → Option Err → M (VL × Option Err)
  | [], e => pure ([], e)
  | x :: xs, e => do
    match ← captureS (f x) with
    | .error er => pure ([], some er)
    | .ok (vs, some er) => pure (vs, some er)
    | .ok (vs, none) => let r ← flatMapLS f xs e; pure (vs ++ r.1, r.2)

def takeWhileLS (p : Value → M Bool) : VL → Option Err → M (VL × Option Err)
  | [], e => pure ([], e)
  | x :: xs, e => do
    match ← captureS (p x) with
    | .error er => pure ([], some er)
    | .ok true => let r ← takeWhileLS p xs e; pure (x :: r.1, r.2)
    | .ok false => pure ([], none)

def dropWhileLS (p : Value → M Bool) : VL → Option Err → M (VL × Option Err)
  | [], e => pure ([], e)
  | x :: xs, e => do
    match ← captureS (p x) with
    | .error er => pure ([], some er)
    | .ok true => dropWhileLS p xs e
    | .ok false => pure (x :: xs, e)

def findLS (p : Value → M Bool) (i : Nat) : VL → Option Err → M (Option Nat)
  | [], none => pure none
  | [], some e => fail e
  | x :: xs, e => do
    if (← p x) then pure (some i) else findLS p (i + 1) xs e

def foldLS (f : Value → Value → M Value) (acc : Value) : VL → Option Err → M Value
  | [], none => pure acc
  | [], some e => fail e
  | x :: xs, e => do let a ← f acc x; foldLS f a xs e

def toDictLS (kf vf : Value → M Value) (acc : KV) : VL → Option Err → M KV
  | [], none => pure acc
  | [], some e => fail e
  | x :: xs, e => do
    let k ← kf x
    let v ← vf x
    if hashable k then toDictLS kf vf (Seq.dSet acc k v) xs e else fail (keyErr k)

def keysLS (f : Value → M Value) : VL → M (List (Except Err Value))
  | [] => pure []
  | x :: xs => do let k ← captureS (f x); let r ← keysLS f xs; pure (k :: r)

/-! ## the evaluator -/

/-- the recursive knot: "evaluate this expression in the context with this ID" -/
abbrev EvS := Nat → Expr → M ObjS

/-- eager arguments: each in the calling context itself, left to right -/
def evalListS (ev : EvS) (C : Nat) : List Expr → M VL
  | [] => pure []
  | e :: es => do let o ← ev C e; let v ← liftR (toVS o); let vs ← evalListS ev C es; pure (v :: vs)

def evalObjsS (ev : EvS) (C : Nat) : List Expr → M (List ObjS)
  | [] => pure []
  | e :: es => do let o ← ev C e; let os ← evalObjsS ev C es; pure (o :: os)

def evalPairsS (ev : EvS) (C : Nat) : List (Expr × Expr) → M KV
  | [] => pure []
  | (k, v) :: r => do
    let ko ← ev C k; let kv ← liftR (toVS ko)
    let vo ← ev C v; let vv ← liftR (toVS vo)
    let rest ← evalPairsS ev C r
    pure ((kv, vv) :: rest)

/-- `Lambda.convert(...)(*args)`: a child of the captured context `D`, `$1..$n` written into it,
    the body evaluated there -/
def applyLamS (ev : EvS) (D : Nat) (body : Expr) (args : VL) : M ObjS := do
  let c ← childCtx D
  publishPos c 1 args
  ev c body

def lamVS (ev : EvS) (D : Nat) (body : Expr) (args : VL) : M Value := do
  let o ← applyLamS ev D body args
  liftR (toVS o)

def lamBS (ev : EvS) (D : Nat) (body : Expr) (args : VL) : M Bool := do
  let o ← applyLamS ev D body args
  pure (truthyS o)

def lamManyS (ev : EvS) (D : Nat) (body : Expr) (x : Value) : M (VL × Option Err) := do
  let o ← applyLamS ev D body [x]
  match o with
  | .ctx _ => fail .outOfDomain
  | .data o =>
    match toIter o with
    | some s => pure s
    | none => do let v ← liftR (toV o); pure ([v], none)

/-- one step of `sum`: `operator(a, b)` through the `#operator_+` delegate of `sum`'s call context `F` -/
def plusS (F : Nat) (a b : Value) : M Value := do
  let Dl ← childCtx F
  callPure Dl (binopV .add a b)

/-- methods.  `Ca` is the context the arguments are evaluated in (the method lambda's context for
    `e.f(..)`, the caller's for `f(e, ..)`); the payload's call context `F` is a child of `Ca`,
    allocated once an overload accepted the evaluated arguments; lambdas capture `F`. -/
def callMethodS (ev : EvS) (Ca : Nat) (bad : Err) (r : ObjS) (f : Fn) (args : List Expr) : M ObjS :=
  match f, args with
  | .select, [l] =>
    match toIterS r with
    | none => fail bad
    | some (xs, e) => do
      let F ← childCtx Ca
      let s ← mapLS (fun x => lamVS ev F l [x]) xs e; pure (.data (.lazy s.1 s.2))
  | .where_, [l] =>
    match toIterS r with
    | none => fail bad
    | some (xs, e) => do
      let F ← childCtx Ca
      let s ← filterLS (fun x => lamBS ev F l [x]) xs e; pure (.data (.lazy s.1 s.2))
  | .selectMany, [l] =>
    match toIterS r with
    | none => fail bad
    | some (xs, e) => do
      let F ← childCtx Ca
      let s ← flatMapLS (lamManyS ev F l) xs e; pure (.data (.lazy s.1 s.2))
  | .takeWhile, [l] =>
    match toIterS r with
    | none => fail bad
    | some (xs, e) => do
      let F ← childCtx Ca
      let s ← takeWhileLS (fun x => lamBS ev F l [x]) xs e; pure (.data (.lazy s.1 s.2))
  | .skipWhile, [l] =>
    match toIterS r with
    | none => fail bad
    | some (xs, e) => do
      let F ← childCtx Ca
      let s ← dropWhileLS (fun x => lamBS ev F l [x]) xs e; pure (.data (.lazy s.1 s.2))
  | .orderBy, [l] =>
    match toIterS r with
    | none => fail bad
    | some (_, some e) => do let _ ← childCtx Ca; pure (.data (.ordered [] (some e)))
    | some (xs, none) => do
      let F ← childCtx Ca
      let ks ← if xs.length ≤ 1 then pure [] else keysLS (fun x => lamVS ev F l [x]) xs
      let s ← liftR (sortKeyed true xs ks)
      pure (.data (.ordered s.1 s.2))
  | .orderByDescending, [l] =>
    match toIterS r with
    | none => fail bad
    | some (_, some e) => do let _ ← childCtx Ca; pure (.data (.ordered [] (some e)))
    | some (xs, none) => do
      let F ← childCtx Ca
      let ks ← if xs.length ≤ 1 then pure [] else keysLS (fun x => lamVS ev F l [x]) xs
      let s ← liftR (sortKeyed false xs ks)
      pure (.data (.ordered s.1 s.2))
  | .any, [] =>
    match toIterS r with
    | none => fail bad
    | some (xs, e) => do
      let _ ← childCtx Ca
      let hit ← liftR (findL (fun _ => .ok true) 0 xs e); pure (.data (.val (.bool hit.isSome)))
  | .any, [l] =>
    match toIterS r with
    | none => fail bad
    | some (xs, e) => do
      let F ← childCtx Ca
      let hit ← findLS (fun x => lamBS ev F l [x]) 0 xs e; pure (.data (.val (.bool hit.isSome)))
  | .all, [] =>
    match toIterS r with
    | none => fail bad
    | some (xs, e) => do
      let _ ← childCtx Ca
      let hit ← liftR (findL (fun x => .ok (!truthy x)) 0 xs e); pure (.data (.val (.bool hit.isNone)))
  | .all, [l] =>
    match toIterS r with
    | none => fail bad
    | some (xs, e) => do
      let F ← childCtx Ca
      let hit ← findLS (fun x => do let b ← lamBS ev F l [x]; pure (!b)) 0 xs e
      pure (.data (.val (.bool hit.isNone)))
  | .indexWhere, [l] =>
    match toIterS r with
    | none => fail bad
    | some (xs, e) => do
      let F ← childCtx Ca
      let hit ← findLS (fun x => lamBS ev F l [x]) 0 xs e
      pure (.data (.val (.int (match hit with | some i => i | none => -1))))
  | .toDict, [k] =>
    match toIterS r with
    | none => fail bad
    | some (xs, e) => do
      let F ← childCtx Ca
      let d ← toDictLS (fun x => lamVS ev F k [x]) (fun x => pure x) [] xs e; pure (.data (.val (.dict d)))
  | .toDict, [k, v] =>
    match toIterS r with
    | none => fail bad
    | some (xs, e) => do
      let F ← childCtx Ca
      let d ← toDictLS (fun x => lamVS ev F k [x]) (fun x => lamVS ev F v [x]) [] xs e
      pure (.data (.val (.dict d)))
  | .aggregate, [l] =>
    match toIterS r with
    | none => fail bad
    | some ([], none) => do let _ ← childCtx Ca; fail .type
    | some ([], some e) => do let _ ← childCtx Ca; fail e
    | some (x :: xs, e) => do
      let F ← childCtx Ca
      let v ← foldLS (fun a b => lamVS ev F l [a, b]) x xs e; pure (.data (.val v))
  | .aggregate, [l, seed] =>
    match toIterS r with
    | none => fail bad
    | some (xs, e) => do
      let so ← ev Ca seed
      let s ← liftR (toVS so)
      let F ← childCtx Ca
      let v ← foldLS (fun a b => lamVS ev F l [a, b]) s xs e
      pure (.data (.val v))
  | .sum, [] =>
    match toIterS r with
    | none => fail bad
    | some ([], none) => do let _ ← childCtx Ca; fail .type
    | some ([], some e) => do let _ ← childCtx Ca; fail e
    | some (x :: xs, e) => do
      let F ← childCtx Ca
      let v ← foldLS (plusS F) x xs e; pure (.data (.val v))
  | .sum, [init] =>
    match toIterS r with
    | none => fail bad
    | some (xs, e) => do
      let io ← ev Ca init
      let i ← liftR (toVS io)
      let F ← childCtx Ca
      let v ← foldLS (plusS F) i xs e
      pure (.data (.val v))
  | .first, [] =>
    match toIterS r with
    | none => fail bad
    | some (x :: _, _) => do let _ ← childCtx Ca; pure (.data (.val x))
    | some ([], some e) => do let _ ← childCtx Ca; fail e
    | some ([], none) => do let _ ← childCtx Ca; fail .stopIteration
  | .first, [d] =>
    match toIterS r with
    | none => fail bad
    | some (xs, e) => do
      let dobj ← ev Ca d
      let _ ← childCtx Ca
      match xs, e with
      | x :: _, _ => pure (.data (.val x))
      | [], some er => fail er
      | [], none => pure dobj
  | .toList, [] =>
    match toIterS r with
    | none => fail bad
    | some s => do let _ ← childCtx Ca; let xs ← liftR (drain s); pure (.data (.val (.tuple xs)))
  | .take, [n] =>
    match toIterS r with
    | none => fail bad
    | some (xs, e) => do
      let no ← ev Ca n
      match no with
      | .data (.val (.int k)) => do
        let _ ← childCtx Ca
        if k < 0 then fail .value
        else pure (.data (.lazy (xs.take k.toNat) (if k.toNat ≤ xs.length then none else e)))
      | .data (.val (.bool _)) => fail .outOfDomain
      | _ => if isLazyS no then fail .outOfDomain else fail bad
  | .skip, [n] =>
    match toIterS r with
    | none => fail bad
    | some (xs, e) => do
      let no ← ev Ca n
      match no with
      | .data (.val (.int k)) => do
        let _ ← childCtx Ca
        if k < 0 then fail .value
        else pure (.data (.lazy (xs.drop k.toNat) e))
      | .data (.val (.bool _)) => fail .outOfDomain
      | _ => if isLazyS no then fail .outOfDomain else fail bad
  | .len, [] =>
    match r with
    | .data (.val (.tuple l)) | .data (.val (.list l)) | .data (.val (.iter l)) => do
      let _ ← childCtx Ca; pure (.data (.val (.int l.length)))
    | .data (.lazy xs e) => do
      let _ ← childCtx Ca; let l ← liftR (drain (xs, e)); pure (.data (.val (.int l.length)))
    | .data (.val (.dict d)) => do let _ ← childCtx Ca; pure (.data (.val (.int d.length)))
    | .data (.val (.str s)) => do let _ ← childCtx Ca; pure (.data (.val (.int s.length)))
    | .data (.val (.set _)) => fail .outOfDomain
    | _ => fail bad
  | .get, [k] =>
    match r with
    | .data (.val (.dict d)) => do
      let ko ← ev Ca k
      let kv ← liftR (toVS ko)
      let _ ← childCtx Ca
      if hashable kv then pure (.data (.val ((Seq.dGet d kv).getD .null))) else fail (keyErr kv)
    | _ => fail bad
  | .get, [k, dflt] =>
    match r with
    | .data (.val (.dict d)) => do
      let ko ← ev Ca k
      let kv ← liftR (toVS ko)
      let dobj ← ev Ca dflt
      let dv ← liftR (toVS dobj)
      let _ ← childCtx Ca
      if hashable kv then pure (.data (.val ((Seq.dGet d kv).getD dv))) else fail (keyErr kv)
    | _ => fail bad
  | .unpack, names =>
    match toIterS r with
    | none => fail bad
    | some (xs, e) =>
      if names.any (fun a => match a with | .lit (.str _) => false | .lit _ => true | _ => false) then fail bad
      else do
      let ns ← evalListS ev Ca names
      let strs := ns.filterMap fun v => match v with | .str s => some s | _ => none
      if strs.length != ns.length then fail bad
      else do
        let n := strs.length
        -- the hidden `Context()` parameter: the call context itself is written and returned
        let F ← childCtx Ca
        match (if n = 0 || xs.length < n + 1 then e else none) with
        | some er =>
          -- without names the elements are published one by one while `chain(lst, sequence)` is consumed: what the
          -- source yielded before it raised has been written into the (fresh, then abandoned) call context
          if n = 0 then do publishNamed F (bindPos 1 xs); fail er else fail er
        | none =>
        if n = 0 then do publishNamed F (bindPos 1 xs); pure (.ctx F)
        else if (xs.take (n + 1)).length != n then fail .value
        else do publishNamed F (strs.zip xs); pure (.ctx F)
  | .let_, _ | .with_, _ | .def_, _ | .list, _ | .dict, _ => fail .unknownMethod
  | _, _ => fail bad

/-- functions: `f(args, k => v)` called in context `C` -/
def callFnS (ev : EvS) (C : Nat) (f : Fn) (args : List Expr) (kw : List (Expr × Expr)) : M ObjS :=
  match f with
  | .let_ => do
    let names ← liftR (kwNames kw)
    let vs ← evalListS ev C args
    let kvs ← evalListS ev C (kw.map (·.2))
    let L ← childCtx C                  -- `get_delegate.func`: new_context; `let` receives it
    publishPos L 1 vs                   -- `__context__[str(i)] = value`
    publishNamed L (names.zip kvs)      -- `__context__[key] = value`
    pure (.ctx L)
  | .with_ =>
    if !kw.isEmpty then (do let _ ← liftR (kwNames kw); fail .noFunction)
    else do
      let vs ← evalListS ev C args
      let W ← childCtx C
      publishPos W 1 vs
      pure (.ctx W)
  | .def_ =>
    if !kw.isEmpty then fail .outOfDomain
    else match args with
      | [nameE, body] => do
        let no ← ev C nameE
        match no with
        | .data (.val (.str name)) => do
          let D ← childCtx C
          regFun D (fnKey name) body D  -- the lambda captured `D`; registered in `D` under `name.rstrip('_')`
          pure (.ctx D)
        | o => if isLazyS o then fail .outOfDomain else fail .noFunction
      | _ => fail .noFunction
  | .list =>
    if !kw.isEmpty then fail .outOfDomain
    else do
      let os ← evalObjsS ev C args
      let L ← childCtx C
      let Dl ← childCtx L               -- `delegate(rec(args))`: the `to_list` delegate's child ...
      let _ ← childCtx Dl               -- ... and `to_list`'s call context
      let parts ← liftR (os.mapM fun o => listArg o.erase)
      pure (.data (.val (.tuple parts.flatten)))
  | .dict =>
    match args, kw with
    | [], kw => do let ps ← evalPairsS ev C kw; let _ ← childCtx C; liftR (dataR (mkDict ps))
    | [e], [] => do
      let o ← ev C e
      match toIterS o with
      | none => fail .noFunction
      | some s => do
        let _ ← childCtx C
        let items ← liftR (drain s)
        let ps ← liftR (items.mapM fun it =>
          match it with
          | .tuple (k :: v :: _) | .list (k :: v :: _) => (.ok (k, v) : R (Value × Value))
          | .tuple _ | .list _ => .error .stopIteration
          | _ => .error .outOfDomain)
        liftR (dataR (mkDict ps))
    | _, _ => fail .outOfDomain
  | .len | .any | .all =>
    if !kw.isEmpty then fail .outOfDomain
    else match args with
      | [] => fail .noFunction
      | recv :: rest => do
        let arityOk := match f, rest with
          | .len, [] => true
          | .any, [] | .any, [_] | .all, [] | .all, [_] => true
          | _, _ => false
        if !arityOk then fail .noFunction
        else do let r ← ev C recv; callMethodS ev C .noFunction r f rest
  | _ => fail .unknownFunction

/-- neither a dictionary nor a collection: `get_property`, whose delegate does not find `#property#name` -/
def memberNoneS (K : Nat) : M Value := do
  let Dt ← childCtx K
  let G ← childCtx Dt               -- `get_property`
  let _ ← childCtx G                -- its delegate, looking up `#property#name`
  fail .unknownFunction

mutual
/-- `#operator_.(element, name)` through the `Delegate` of `collection_attribution`, whose call context
    is `K`: a delegate child per element, the operator's call context in it.  For an element that is a
    collection itself that operator is `collection_attribution` again: ITS call context `K2` is the parent of
    the delegate children of the nested elements (computed eagerly, like every generator of this model). -/
def memberVS (K : Nat) (name : Name) : Value → M Value
  | .dict d => do
    let Dt ← childCtx K
    let _ ← childCtx Dt               -- `dict_keyword_access`
    match Seq.dGet d (.str name) with | some v => pure v | none => fail .key
  | .tuple l => do
    let Dt ← childCtx K
    let K2 ← childCtx Dt              -- `collection_attribution`
    let s ← memberVSL K2 name l
    liftR (toV (.lazy s.1 s.2))
  | .list l => do
    let Dt ← childCtx K
    let K2 ← childCtx Dt
    let s ← memberVSL K2 name l
    liftR (toV (.lazy s.1 s.2))
  | .iter l => do
    let Dt ← childCtx K
    let K2 ← childCtx Dt
    let s ← memberVSL K2 name l
    liftR (toV (.lazy s.1 s.2))
  | .set _ => fail .outOfDomain
  | .null => memberNoneS K
  | .bool _ => memberNoneS K
  | .int _ => memberNoneS K
  | .flt _ => memberNoneS K
  | .str _ => memberNoneS K
  | .host _ => memberNoneS K
/-- `map(lambda t: operator(t, name), l)` in the call context `K` (= `mapLS (memberVS K name) l none`) -/
def memberVSL (K : Nat) (name : Name) : List Value → M (VL × Option Err)
  | [] => pure ([], none)
  | x :: xs => do
    match ← captureS (memberVS K name x) with
    | .error er => pure ([], some er)
    | .ok v => let r ← memberVSL K name xs; pure (v :: r.1, r.2)
end

/-- `receiver.name` called in context `C` -/
def memberOfS (C : Nat) (r : ObjS) (name : Name) : M ObjS :=
  match r with
  | .data (.val (.dict d)) => do
    let _ ← childCtx C
    match Seq.dGet d (.str name) with | some v => pure (.data (.val v)) | none => fail .key
  | .data (.val (.set _)) => fail .outOfDomain
  | r =>
    match toIterS r with
    | some (items, err) => do
      let K ← childCtx C
      let s ← mapLS (memberVS K name) items err; pure (.data (.lazy s.1 s.2))
    | none => do
      let G ← childCtx C
      let _ ← childCtx G
      fail .unknownFunction

/-- one layer of the evaluator over the knot `ev` -/
def stepS (ev : EvS) (C : Nat) : Expr → M ObjS
  | .lit v => pure (.data (.val v))
  | .kw s => pure (.data (.val (.str s)))
  | .var x => do let G ← childCtx C; readVarS G x          -- `#get_context_data`
  | .list es => do let vs ← evalListS ev C es; let _ ← childCtx C; pure (.data (.val (.tuple vs)))
  | .map kvs => do let ps ← evalPairsS ev C kvs; let _ ← childCtx C; liftR (dataR (mkDict ps))
  | .index e args =>
    if (args.length = 1 || args.length = 2) && !isConst e then do
      let r ← ev C e
      let vs ← evalListS ev C args
      callPure C (dataR (indexer r.erase vs))
    else fail .noFunction
  | .un op e => do let r ← ev C e; callPure C (dataR (unop op r.erase))
  | .bin .and a b => do
    let A ← childCtx C                  -- both operands are lazy: each in its own child of `A`
    let A1 ← childCtx A
    let x ← ev A1 a
    if truthyS x then do let A2 ← childCtx A; ev A2 b else pure x
  | .bin .or a b => do
    let A ← childCtx C
    let A1 ← childCtx A
    let x ← ev A1 a
    if truthyS x then pure x else do let A2 ← childCtx A; ev A2 b
  | .bin op a b =>
    if litOk op a && litOk op b then do
      let x ← ev C a; let y ← ev C b; callPure C (dataR (binop op x.erase y.erase))
    else fail .noFunction
  | .arrow l r => do
    let c ← ev C l
    match c with
    | .ctx C' => do let _ ← childCtx C; ev C' r       -- `right(left)`: runs *in* the given context
    | _ => fail .noFunction
  | .member e name => do let r ← ev C e; memberOfS C r name
  | .call f args kw => callFnS ev C f args kw
  | .ucall f args kw => do
    match ← getFunS C (fnKey f) with      -- `get_functions`: the name without trailing underscores
    | none => fail .unknownFunction
    | some (body, D) => do
      let names ← liftR (kwNames kw)
      let vs ← evalListS ev C args
      let kvs ← evalListS ev C (kw.map (·.2))
      let _ ← childCtx C                -- the wrapper's call context
      let V ← childCtx D                -- `func(*args, **kwargs)`: child of the captured context
      publishPos V 1 vs
      publishNamed V (names.zip kvs)
      ev V body
  | .method e f args kw => do
    let r ← ev C e
    if !kw.isEmpty then fail .outOfDomain
    else do
      let A ← childCtx C                -- `op_dot`
      let A1 ← childCtx A               -- `expr(receiver)`: the method lambda's context
      callMethodS ev A1 .noMethod r f args
  | .umethod e _ => do
    let _ ← ev C e
    let A ← childCtx C
    let _ ← childCtx A
    fail .unknownMethod

/-- the store-passing evaluator -/
def evalS : Nat → EvS
  | 0 => fun _ _ => fail .fuel
  | n + 1 => stepS (evalS n)

/-! ## `Statement.evaluate` -/

mutual
/-- containers of a value in the order `convert_output_data` opens them (`result[rec(key)] = rec(value)`
    evaluates the value first) -/
def containers : Value → Nat
  | .tuple l | .list l | .set l | .iter l => 1 + containersL l
  | .dict kvs => 1 + containersP kvs
  | _ => 0
def containersL : List Value → Nat
  | [] => 0
  | x :: xs => containers x + containersL xs
def containersP : List (Value × Value) → Nat
  | [] => 0
  | (k, v) :: r => containers v + containers k + containersP r
end

/-- `limiter(obj)` once per container: the `#iter` delegate's child of the finaliser's context and
    `#iter`'s own call context -/
def iterCalls (F : Nat) : Nat → M Unit
  | 0 => pure ()
  | n + 1 => do let D ← childCtx F; let _ ← childCtx D; iterCalls F n

/-- the payload of `#finalize` running in its call context `F` -/
def finaliseS (F : Nat) (o : ObjS) : M Final :=
  match o with
  | .ctx _ => pure .context
  | .data o =>
    match toIter o with
    | some s => do
      iterCalls F 1
      iterCalls F (containersL s.1)     -- `list(rec(t) for t in limiter(obj))`: element by element, then the tail
      let _ ← liftR (drain s)
      liftR (finalise o)
    | none =>
      match o with
      | .val v => do iterCalls F (containers v); liftR (finalise o)
      | _ => fail .outOfDomain

/-- `Statement.__call__` on a context that has `#finalize`: `#finalize(expression)` - the argument is evaluated
    in the given context, then the finaliser runs in its own call context -/
def callS (fuel : Nat) (C : Nat) (e : Expr) : M Final := do
  let o ← evalS fuel C e
  let F ← childCtx C
  finaliseS F o

/-- `statement.evaluate(data=doc, context=C)`: `context['$'] = data`, then the call -/
def evaluateS (fuel : Nat) (C : Nat) (doc : Value) (e : Expr) : M Final := do
  setVar C ['$'] doc
  callS fuel C e

/-- what a host does per evaluation: its own child of the prepared context, the statement evaluated there -/
def hostEvalS (fuel : Nat) (shared : Nat) (doc : Value) (e : Expr) : M Final := do
  let c ← childCtx shared
  evaluateS fuel c doc e

end Yaql.EvalStore
