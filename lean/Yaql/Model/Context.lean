/-
Model of yaql/language/contexts.py (Context, MultiContext, LinkedContext).

Python context objects form a DAG whose edges (parent, member list, linked
target) are fixed at construction time; only a plain `Context` owns mutable
state (`_data`, `_functions`, `_exclusive_funcs`).  The model therefore splits
a context into an immutable `Shape` (who points to whom) and a mutable cell
table (`Cells`): a plain context is `plain c parent` where `c` names its cell.
Two shapes that mention the same cell share state, exactly as two Python
references to one `Context` object do.
-/
namespace Yaql.Context

abbrev Val := Option Int          -- a stored value; `none` is Python `None`
abbrev Fid := Nat                 -- identity of a FunctionDefinition object
/-- names are code-point lists (Lean's `Name` is a byte array whose operations the
    kernel cannot unfold; `List Char` keeps every definition reducible) -/
abbrev Name := List Char

/-- the mutable part of one plain `Context` -/
structure Cell where
  data  : List (Name × Val) := []      -- `_data`, insertion ordered, keys distinct
  funcs : List (Name × Fid) := []      -- `_functions`: (spec.name, spec) pairs, a set
  excl  : List Name := []              -- `_exclusive_funcs`, a set
deriving Repr, BEq, DecidableEq, Inhabited

abbrev Cells := List Cell                -- cell id = index

def Cells.get (cs : Cells) (c : Nat) : Cell := cs.getD c {}

inductive Shape where
  | plain  (cell : Nat) (parent : Option Shape)
  | multi  (members : List Shape) (parent : Option Shape)
  | linked (target : Shape) (parent : Option Shape)
deriving Repr, Inhabited

namespace Shape

def parent : Shape → Option Shape
  | plain _ p => p
  | multi _ p => p
  | linked _ p => p

mutual
def size : Shape → Nat
  | plain _ p => 1 + sizeO p
  | multi ms p => 1 + sizeL ms + sizeO p
  | linked t p => 1 + size t + sizeO p
def sizeO : Option Shape → Nat
  | none => 0
  | some s => size s
def sizeL : List Shape → Nat
  | [] => 0
  | s :: ss => size s + sizeL ss
end

end Shape

/-! ### name handling -/

/-- `Context._normalize_name` -/
def normName (n : Name) : Name :=
  let n := match n with
    | '$' :: _ => n
    | _ => '$' :: n
  if n == ['$'] then ['$', '1'] else n

/-- `str.rstrip('_')` -/
def rstripUnderscore (n : Name) : Name :=
  (n.reverse.dropWhile (· == '_')).reverse

/-! ### association-list helpers (Python dict / set semantics) -/

def alookup (k : Name) : List (Name × α) → Option α
  | [] => none
  | (k', v) :: r => if k' == k then some v else alookup k r

def aset (k : Name) (v : α) : List (Name × α) → List (Name × α)
  | [] => [(k, v)]
  | (k', v') :: r => if k' == k then (k', v) :: r else (k', v') :: aset k v r

/-- `dict.pop(k)`; keys of a dict are distinct, so removing every pair with key `k`
    is the same as removing the one there is -/
def aerase (k : Name) (l : List (Name × α)) : List (Name × α) :=
  l.filter fun p => !(p.1 == k)

def sinsert [BEq α] (x : α) (l : List α) : List α := if l.contains x then l else l ++ [x]

/-! ### reads: one function per Python method, recursion as in the classes -/

mutual
/-- `ctx.get_data(name, NO_VALUE, ask_parent=False)`; `none` = NO_VALUE.
    `n` is already normalised (every class normalises, idempotently, on entry
    of the plain `Context` that finally answers). -/
def getLocal (cs : Cells) (n : Name) : Shape → Option Val
  | .plain c _ => alookup n (cs.get c).data
  | .multi ms _ => getLocalL cs n ms
  | .linked t _ => getLocal cs n t
def getLocalL (cs : Cells) (n : Name) : List Shape → Option Val
  | [] => none
  | m :: ms => match getLocal cs n m with
      | some v => some v
      | none => getLocalL cs n ms
end

mutual
/-- `ctx.get_data(name, NO_VALUE, ask_parent=True)` for any of the three classes: the own
    lookup, then the `while ask_parent and ctx:` loop of `Context.get_data` /
    `MultiContext.get_data`, resp. the parent recursion of `LinkedContext.get_data` -/
def walk (cs : Cells) (n : Name) : Shape → Option Val
  | .plain c p => match alookup n (cs.get c).data with
      | some v => some v
      | none => walkParents cs n p
  | .multi ms p => match getLocalL cs n ms with
      | some v => some v
      | none => walkParents cs n p
  | .linked t p => match getLocal cs n t with
      | some v => some v
      | none => walkParents cs n p
def walkParents (cs : Cells) (n : Name) : Option Shape → Option Val
  | none => none
  | some s => walk cs n s
end

/-- `ctx[name]` = `ctx.get_data(name)` (default `None`) -/
def getData (cs : Cells) (s : Shape) (name : Name) : Val :=
  (walkParents cs (normName name) (some s)).getD none

mutual
/-- `name in ctx` for a string -/
def contains (cs : Cells) (n : Name) : Shape → Bool
  | .plain c _ => (alookup n (cs.get c).data).isSome
  | .multi ms _ => containsL cs n ms
  | .linked t _ => contains cs n t
def containsL (cs : Cells) (n : Name) : List Shape → Bool
  | [] => false
  | m :: ms => contains cs n m || containsL cs n ms
end

def containsName (cs : Cells) (s : Shape) (name : Name) : Bool :=
  contains cs (normName name) s

def dedupAppend (acc : List Name) : List Name → List Name
  | [] => acc
  | k :: ks => if acc.contains k then dedupAppend acc ks else dedupAppend (acc ++ [k]) ks

mutual
/-- `list(ctx.keys())` -/
def keys (cs : Cells) : Shape → List Name
  | .plain c _ => (cs.get c).data.map (·.1)
  | .multi ms _ => keysL cs [] ms
  | .linked t _ => keys cs t
def keysL (cs : Cells) (acc : List Name) : List Shape → List Name
  | [] => acc
  | m :: ms => keysL cs (dedupAppend acc (keys cs m)) ms
end

/-! ### functions -/

def cellFuncs (c : Cell) (n : Name) : List Fid :=
  (c.funcs.filter (·.1 == n)).map (·.2)

def unionF (a b : List Fid) : List Fid := b.foldl (fun acc x => sinsert x acc) a

mutual
/-- `ctx.get_functions(name)` with `name` already right-stripped: (set, is_exclusive) -/
def getFunctions (cs : Cells) (n : Name) : Shape → List Fid × Bool
  | .plain c _ => (cellFuncs (cs.get c) n, (cs.get c).excl.contains n)
  | .multi ms _ => getFunctionsL cs n ms
  | .linked t _ => getFunctions cs n t
def getFunctionsL (cs : Cells) (n : Name) : List Shape → List Fid × Bool
  | [] => ([], false)
  | m :: ms =>
      let (f, e) := getFunctions cs n m
      let (fs, es) := getFunctionsL cs n ms
      (unionF f fs, e || es)
end

mutual
/-- one iteration of the `while p is not None` loop of `ContextBase.collect_functions` -/
def collectAt (cs : Cells) (n : Name) : Shape → List (List Fid)
  | .plain c p =>
      let f := cellFuncs (cs.get c) n
      let rest := if (cs.get c).excl.contains n then [] else collectFrom cs n p
      if f.isEmpty then rest else f :: rest
  | .multi ms p =>
      let (f, e) := getFunctionsL cs n ms
      let rest := if e then [] else collectFrom cs n p
      if f.isEmpty then rest else f :: rest
  | .linked t p =>
      let (f, e) := getFunctions cs n t
      let rest := if e then [] else collectFrom cs n p
      if f.isEmpty then rest else f :: rest
def collectFrom (cs : Cells) (n : Name) : Option Shape → List (List Fid)
  | none => []
  | some s => collectAt cs n s
end

def collectFunctions (cs : Cells) (s : Shape) (name : Name) : List (List Fid) :=
  collectFrom cs (rstripUnderscore name) (some s)

/-! ### writes: all of them end in one plain `Context` -/

/-- the cell that `ctx[name] = v` and `register_function` write to -/
def writeCell : Shape → Option Nat
  | .plain c _ => some c
  | .multi [] _ => none
  | .multi (m :: _) _ => writeCell m
  | .linked t _ => writeCell t

def modifyCell (cs : Cells) (c : Nat) (f : Cell → Cell) : Cells :=
  if c < cs.length then cs.set c (f (cs.get c)) else cs

def setData (cs : Cells) (s : Shape) (name : Name) (v : Val) : Cells :=
  match writeCell s with
  | some c => modifyCell cs c fun cell => { cell with data := aset (normName name) v cell.data }
  | none => cs

mutual
/-- cells that `del ctx[name]` touches, in order -/
def delCells : Shape → List Nat
  | .plain c _ => [c]
  | .multi ms _ => delCellsL ms
  | .linked t _ => delCells t
def delCellsL : List Shape → List Nat
  | [] => []
  | m :: ms => delCells m ++ delCellsL ms
end

/-- `del ctx[name]`; `none` = KeyError.  For a multi-context the variable is
    removed from every member that defines it; KeyError only when no member
    does (the repaired `MultiContext.__delitem__`). -/
def delData (cs : Cells) (s : Shape) (name : Name) : Option Cells :=
  let n := normName name
  if contains cs n s then
    some ((delCells s).foldl
      (fun cs c => modifyCell cs c fun cell => { cell with data := aerase n cell.data }) cs)
  else none

def register (cs : Cells) (s : Shape) (fname : Name) (fid : Fid) (exclusive : Bool) : Cells :=
  match writeCell s with
  | some c => modifyCell cs c fun cell =>
      { cell with funcs := sinsert (fname, fid) cell.funcs,
                  excl := if exclusive then sinsert fname cell.excl else cell.excl }
  | none => cs

/-- `ctx.delete_function(spec)`: discards the spec and the name's exclusive
    flag in every plain context reached (all members of a multi-context). -/
def deleteFunction (cs : Cells) (s : Shape) (fname : Name) (fid : Fid) : Cells :=
  (delCells s).foldl
    (fun cs c => modifyCell cs c fun cell =>
      { cell with funcs := cell.funcs.filter (· != (fname, fid)),
                  excl := cell.excl.filter (· != fname) }) cs

/-! ### constructors -/

/-- `MultiContext(context_list)`: the parent is nothing, the single parent, or
    a new `MultiContext` of the members' parents.  Fuel = size of the members
    (each recursion strictly shrinks it; see `Props.C17.mkMulti_fuel`). -/
def mkMultiF : Nat → List Shape → Shape
  | 0, ms => .multi ms none
  | fuel + 1, ms =>
      match ms.filterMap Shape.parent with
      | [] => .multi ms none
      | [p] => .multi ms (some p)
      | ps => .multi ms (some (mkMultiF fuel ps))

def mkMulti (ms : List Shape) : Shape := mkMultiF (Shape.sizeL ms) ms

/-- `LinkedContext(parent_context, linked_context)` -/
def mkLinkedF : Nat → Option Shape → Shape → Shape
  | 0, p, t => .linked t p
  | fuel + 1, p, t =>
      match t.parent with
      | some tp => .linked t (some (mkLinkedF fuel p tp))
      | none => .linked t p

def mkLinked (p : Option Shape) (t : Shape) : Shape := mkLinkedF t.size p t

inductive ChildResult where
  | ok (s : Shape) (newCell : Bool)
  | typeError

/-- `ctx.create_child_context()`; `fresh` is the id of the cell a new plain
    context would own. -/
def createChild (fresh : Nat) : Shape → ChildResult
  | s@(.plain _ _) => .ok (.plain fresh (some s)) true
  | s@(.multi _ _) => .ok (.plain fresh (some s)) true
  | s@(.linked (.plain _ _) _) => .ok (.plain fresh (some s)) true
  | .linked _ _ => .typeError     -- type(self.linked_context)(self) is ill-typed

end Yaql.Context
