import Yaql.Model.Resolve
/-!
The phase AFTER `choose_overload`: `runner.call` invokes the delegate it got.

    def func():                                   # FunctionDefinition.get_delegate
        new_context = context.create_child_context()
        return self.payload(*map(lambda t: t(new_context), positional_args), **...)

where every `t` is `convert_arg_func`: `param.value_type.convert(val, receiver, context2, self, engine)`, and an
`ArgumentValueException` out of a smart type's `convert` becomes `ArgumentException(param.name)`.  `check()` having
passed does not mean `convert()` succeeds (a smart type may validate the VALUE only when converting - dates, identifiers,
`Chain`ed types).  The exception is the outcome of the call: `choose_overload` returned ONE delegate and nothing else of
the layer is consulted any more.

Conversion is abstract here (`Conv`): any deterministic predicate on the chosen overload and the arguments bound to it.
-/
namespace Yaql.Resolve

/-- does `value_type.convert` succeed for every argument bound to overload `id` -/
abbrev Conv := Nat → Bound → Bool

inductive Final where
  /-- the payload of the chosen overload ran on the converted arguments -/
  | ran (id : Nat) (b : Bound)
  /-- a `convert` of the CHOSEN overload raised: its `ArgumentException` leaves `runner.call` -/
  | conversionFailed (id : Nat)
  /-- resolution itself ended in an error -/
  | error (e : Err)
deriving Repr, DecidableEq

/-- invoking the delegate `choose_overload` returned -/
def invoke (conv : Conv) (o : Outcome) : Final :=
  match o.res with
  | .error e => .error e
  | .ok (i, b) => if conv i b then .ran i b else .conversionFailed i

/-- `runner.call(..)` up to and including the payload call: evaluation log and final outcome -/
def callFinal (L : Yaql.Types.Lattice) (conv : Conv) (layers : List Layer) (c : Call) : List Nat × Final :=
  ((resolve L layers c).log, invoke conv (resolve L layers c))

end Yaql.Resolve
