import Yaql.Model.Eval
import Yaql.Model.Limits
/-!
# The reference interpreter with the two resource limits (property C08 over the C04 evaluator)

`evalL` is `Yaql.Eval.eval` (same constructs, same order of evaluation, same context discipline)
plus the two mechanisms of `yaql/language/utils.py` placed where the real code applies them:

* **memory quota** (`limit_memory_usage`, `yaql.memoryQuota = Q`, `Q <= 0` disables):
  - `runner.call` measures the result of *every* function call - every node of an expression that
    is not a constant is a call (`stepL`: one `measure` after the node's own work);
  - `SmartType.convert` measures every value bound to a parameter, in parameter order, after all
    eager arguments have been evaluated and the overload has been chosen (so an exception of
    argument evaluation or of overload resolution comes first) and before the payload runs
    (`withConv`, `bindIter`, the `measure` lines of `callMethodL` / `callFnL` / `rawL`);
    `receiver.f(..)` is `#operator_.(receiver, f(..))`: the receiver is bound once more before the
    method's other arguments are evaluated;
  - the payloads with a check of their own: `#list` (running total of the elements), `#map` /
    `dict(k => v)` (running total of the rule objects), `dict(items)` / `toDict` (the growing
    dict after every insertion), `+` on lists / dicts (both operands), `sum` (= repeated `+` calls),
    `orderBy` (keys are bound to `#operator_<` / `#operator_>`), `coll.name` (one `#operator_.`
    call per element);
  - sizes are `sys.getsizeof` (shallow): `sizeofV` over the constants of `ECfg` (regenerated from
    the running CPython); a FrozenDict measures the table it wraps (`fdictSize`).  Objects that are
    not data (iterators, generators, orderings, contexts) count `objMax`, an upper bound of what
    the real objects measure (and at least `objMin`): a check whose outcome depends on where in that
    interval the real size lies is "no prediction"; expression nodes bound to lambda / constant
    parameters (48 bytes) are not measured: below `objMax` the model makes no claim about the real engine.
    A size the model does not know (floats, sets, host objects, dicts whose keys are partly strings:
    the table size depends on the insertion history) is "no prediction" (`outOfDomain`) when the
    quota is enabled.
* **iterator limit** (`limit_iterable`, `yaql.limitIterators = N`, negative = `none` disables):
  every value bound to a parameter declared `Iterable()` / `Iterator()` passes `bindIter`: a sized
  collection is refused by `len` at once, an iterator is wrapped into the counting generator
  (`limitLazy`: at most `N` items, `TooLarge` when item `N + 1` is pulled - `Limits.limNext` /
  `Limits.run`, see `Props.C08Eval.limitLazy_run`); `list(..)` limits every iterator it opens and
  the flattened stream; the finaliser (`finaliseL`) passes every collection at every depth of the
  result through `#iter`.  `Sequence()` parameters (`len` of a list, `x[i]`) are measured but NOT
  limited - that is what yaqltypes.Sequence does.

Lazy sequences are, as in `Eval`, "the items it yields, then normal end or an exception"; the two
new exceptions are ordinary exceptions: they are captured into the tail of a generator and surface
only if the consumer gets that far.

Where `Eval` orders two *ordinary* exceptions differently from the code (`dict(items)` and the
finaliser drain the source before they look at the items), `evalL` keeps `Eval`'s order - so that
`evalL` without limits IS `Eval.eval` (`Props.C08Eval.evalL_off`) - and puts the limit exceptions
where the code raises them.
-/
namespace Yaql.EvalLimits
open Yaql Yaql.Value Yaql.Eval

/-! ## errors, limits, sizes -/

inductive LErr where
  | base (e : Eval.Err)     -- an outcome of the uninstrumented interpreter
  | quota                   -- MemoryQuotaExceededException
  | tooLarge                -- CollectionTooLargeException
deriving DecidableEq, Repr, Inhabited

abbrev RL := Except LErr

/-- no prediction: out of fuel / outside the modelled domain -/
def noPred : LErr → Bool
  | .base .fuel | .base .outOfDomain => true
  | _ => false

/-- one of the two new outcomes -/
def isLim : LErr → Bool
  | .quota | .tooLarge => true
  | _ => false

def liftR (x : Eval.R α) : RL α :=
  match x with
  | .ok a => .ok a
  | .error e => .error (.base e)

def liftSeqL (x : Seq.R α) : RL α := liftR (Eval.liftSeq x)

/-- the two engine options -/
structure Lim where
  N : Option Nat      -- yaql.limitIterators (`none` = negative = unlimited)
  Q : Int             -- yaql.memoryQuota (`<= 0` = disabled)
deriving Repr

def Lim.off : Lim := { N := none, Q := 0 }

/-- `sys.getsizeof` constants beyond `Limits.SizeCfg` (all regenerated from the running CPython) -/
structure ECfg where
  sz : Limits.SizeCfg
  noneSz : Nat                    -- sys.getsizeof(None)
  boolSz : Nat                    -- sys.getsizeof(True)
  intBase : Nat                   -- int: intBase + intDigit * max(1, number of digits)
  intDigit : Nat
  digitBits : Nat                 -- bits per digit (30)
  objMin : Nat                    -- bounds of the size of every non-data object that gets measured
  objMax : Nat                    --   (iterators, generators, orderings, contexts)
  ruleSz : Nat                    -- sys.getsizeof(utils.MappingRule(..))
  dictEmpty : Nat                 -- sys.getsizeof({})
  dictUni : List (Nat × Nat)      -- (n, size): a dict with <= n string keys grown by insertion; ascending
  dictGen : List (Nat × Nat)      -- ... with keys none of which is a string
  listGrow : List (Nat × Nat)     -- (n, slots): `list(<generator of <= n items>)` has `slots` allocated
deriving Repr

def lookupLe : List (Nat × Nat) → Nat → Option Nat
  | [], _ => none
  | (m, v) :: r, n => if n ≤ m then some v else lookupLe r n

/-- number of `2^bits` digits of `n >= 1` (at most `fuel`) -/
def digitsFuel : Nat → Nat → Nat → Option Nat
  | 0, _, _ => none
  | f + 1, b, n => if n < 2 ^ b then some 1 else (digitsFuel f b (n / 2 ^ b)).map (· + 1)

def intSize (c : ECfg) (i : Int) : Option Nat :=
  (digitsFuel 64 c.digitBits i.natAbs).map fun d => c.intBase + c.intDigit * d

def maxCp : List Char → Nat
  | [] => 0
  | ch :: r => Nat.max ch.toNat (maxCp r)

/-- a one-character latin-1 string is a cached singleton that may carry a utf-8 copy: not modelled -/
def strSizeOf (c : ECfg) (s : List Char) : Option Nat :=
  let cls := Limits.strClassOf (maxCp s)
  if s.length = 1 && cls == .latin1 then none else some (c.sz.strSize cls s.length)

def isStr : Value → Bool
  | .str _ => true
  | _ => false

/-- `sys.getsizeof` of a builtin dict that was filled by insertions (no deletions): determined by the
    number of keys when the keys are all strings (compact unicode table) or all non-strings; a mixed
    history is not modelled -/
def dictTable (c : ECfg) (keys : List Value) : Option Nat :=
  if keys.isEmpty then some c.dictEmpty
  else if keys.all isStr then lookupLe c.dictUni keys.length
  else if keys.all (fun k => !isStr k) then lookupLe c.dictGen keys.length
  else none

/-- what the model knows about `sys.getsizeof(x)`: between `lo` and `hi` (data: `lo = hi`) -/
structure Sz where
  lo : Nat
  hi : Nat
deriving Repr, DecidableEq

def Sz.exact (n : Nat) : Sz := ⟨n, n⟩

/-- an object that is not data: an iterator / generator / ordering / context -/
def objSzOf (c : ECfg) : Sz := ⟨c.objMin, c.objMax⟩

def plainDictSize (c : ECfg) (d : KV) : Option Sz := (dictTable c (d.map (·.1))).map Sz.exact

/-- `sys.getsizeof(value, 0)` as `limit_memory_usage` sees it (shallow) -/
def sizeofV (c : ECfg) : Value → Option Sz
  | .null => some (.exact c.noneSz)
  | .bool _ => some (.exact c.boolSz)
  | .int i => (intSize c i).map Sz.exact
  | .str s => (strSizeOf c s).map Sz.exact
  | .tuple l => some (.exact (c.sz.seqSize .tuple l.length))
  | .list l => some (.exact (c.sz.seqSize .list l.length))
  | .dict kvs => (dictTable c (kvs.map (·.1))).map fun t => .exact (c.sz.fdictSize t)   -- FrozenDict: wrapper + the table it owns
  | .iter _ => some (objSzOf c)
  | .flt _ | .set _ | .host _ => none

/-- `limit_memory_usage(engine, (1, x))` with `sys.getsizeof(x) = s` -/
def allSome : List (Option Sz) → Option (List Sz)
  | [] => some []
  | none :: _ => none
  | some n :: r => (allSome r).map (n :: ·)

/-- `limit_memory_usage(engine, (1, x1), (1, x2), ...)`: the running total is compared after every term.
    With sizes known up to an interval: passes if it passes with the upper bounds, raises if it raises with
    the lower bounds, no prediction in between (and for a size the model does not know). -/
def measureAll (L : Lim) (ss : List (Option Sz)) : RL Unit :=
  if L.Q ≤ 0 then .ok ()
  else match allSome ss with
    | none => .error (.base .outOfDomain)
    | some ns =>
      if Limits.limitMemory L.Q (ns.map fun n => ((1 : Int), n.hi)) then .ok ()
      else if Limits.limitMemory L.Q (ns.map fun n => ((1 : Int), n.lo)) then .error (.base .outOfDomain)
      else .error .quota

/-- `limit_memory_usage(engine, (1, x))` -/
def measure (L : Lim) (s : Option Sz) : RL Unit := measureAll L [s]

def measureEach (L : Lim) : List (Option Sz) → RL Unit
  | [] => .ok ()
  | s :: r => do measure L s; measureEach L r

/-- `limit_iterable` on a sized collection -/
def limitLen (L : Lim) (len : Nat) : RL Unit :=
  match Limits.limitSized L.N len with
  | .ok _ => .ok ()
  | .error _ => .error .tooLarge

/-- `limit_iterable` on an iterator, as the items / the tail the consumer will see -/
def limitLazy (L : Lim) (s : VL × Option LErr) : VL × Option LErr :=
  match L.N with
  | none => s
  | some n => if n < s.1.length then (s.1.take n, some .tooLarge) else s

/-! ## run-time objects -/

inductive ObjL where
  | val (v : Value)
  | lazy (items : VL) (err : Option LErr)
  | ordered (items : VL) (err : Option LErr)
  | ctx (c : Ctx)
deriving Repr, Inhabited

abbrev EvL := Ctx → Expr → RL ObjL

def objSz (c : ECfg) : ObjL → Option Sz
  | .val v => sizeofV c v
  | _ => some (objSzOf c)

def toVL : ObjL → RL Value
  | .val v => .ok v
  | .lazy items none => .ok (.iter items)
  | _ => .error (.base .outOfDomain)

def toIterL : ObjL → Option (VL × Option LErr)
  | .val (.tuple l) | .val (.list l) | .val (.iter l) => some (l, none)
  | .lazy items e | .ordered items e => some (items, e)
  | _ => none

def truthyObjL : ObjL → Bool
  | .val v => truthy v
  | _ => true

def isLazyL : ObjL → Bool
  | .val v => hasIter v
  | _ => true

def readVarL (C : Ctx) (x : Name) : RL ObjL :=
  match C.get x with
  | none => .ok (.val .null)
  | some v => if hasIter v then .error (.base .outOfDomain) else .ok (.val v)

/-- the conversion of a parameter declared `Iterable()` / `Iterator()`: `SmartType.convert` measures the
    value, `limit_iterable` checks `len` of a sized collection and wraps anything else -/
def bindIter (c : ECfg) (L : Lim) (o : ObjL) : RL (VL × Option LErr) := do
  measure L (objSz c o)
  match o with
  | .val (.tuple l) | .val (.list l) => do limitLen L l.length; pure (l, none)
  | .val (.iter l) => pure (limitLazy L (l, none))
  | .lazy xs e | .ordered xs e => pure (limitLazy L (xs, e))
  | _ => .error (.base .outOfDomain)

/-- an exception becomes data (the tail of a generator) - except "no prediction" -/
def capture (x : RL α) : RL (Except LErr α) :=
  match x with
  | .ok a => .ok (.ok a)
  | .error e => if noPred e then .error e else .ok (.error e)

/-! ## generators (as in `Eval`, over the larger exception type) -/

def mapL (f : Value → RL Value) : VL → Option LErr → RL (VL × Option LErr)
  | [], e => .ok ([], e)
  | x :: xs, e => do
    match ← capture (f x) with
    | .error er => pure ([], some er)
    | .ok v => let r ← mapL f xs e; pure (v :: r.1, r.2)

def filterL (p : Value → RL Bool) : VL → Option LErr → RL (VL × Option LErr)
  | [], e => .ok ([], e)
  | x :: xs, e => do
    match ← capture (p x) with
    | .error er => pure ([], some er)
    | .ok b => let r ← filterL p xs e; pure (if b then x :: r.1 else r.1, r.2)

def flatMapL (f : Value → RL (VL × Option LErr)) : VL → Option LErr → RL (VL × Option LErr)
  | [], e => .ok ([], e)
  | x :: xs, e => do
    match ← capture (f x) with
    | .error er => pure ([], some er)
    | .ok (vs, some er) => pure (vs, some er)
    | .ok (vs, none) => let r ← flatMapL f xs e; pure (vs ++ r.1, r.2)

def takeWhileL (p : Value → RL Bool) : VL → Option LErr → RL (VL × Option LErr)
  | [], e => .ok ([], e)
  | x :: xs, e => do
    match ← capture (p x) with
    | .error er => pure ([], some er)
    | .ok true => let r ← takeWhileL p xs e; pure (x :: r.1, r.2)
    | .ok false => pure ([], none)

def dropWhileL (p : Value → RL Bool) : VL → Option LErr → RL (VL × Option LErr)
  | [], e => .ok ([], e)
  | x :: xs, e => do
    match ← capture (p x) with
    | .error er => pure ([], some er)
    | .ok true => dropWhileL p xs e
    | .ok false => pure (x :: xs, e)

def findL (p : Value → RL Bool) (i : Nat) : VL → Option LErr → RL (Option Nat)
  | [], none => .ok none
  | [], some e => .error e
  | x :: xs, e => do
    if (← p x) then pure (some i) else findL p (i + 1) xs e

def foldL (f : Value → Value → RL Value) (acc : Value) : VL → Option LErr → RL Value
  | [], none => .ok acc
  | [], some e => .error e
  | x :: xs, e => do let a ← f acc x; foldL f a xs e

/-- the loop of `to_dict`: `result[key] = value; limit_memory_usage(engine, (1, result))` -/
def toDictL (c : ECfg) (L : Lim) (kf vf : Value → RL Value) (acc : KV) : VL → Option LErr → RL KV
  | [], none => .ok acc
  | [], some e => .error e
  | x :: xs, e => do
    let k ← kf x
    let v ← vf x
    if hashable k then do
      let acc' := Seq.dSet acc k v
      measure L (plainDictSize c acc')
      toDictL c L kf vf acc' xs e
    else .error (.base (keyErr k))

def drain (s : VL × Option LErr) : RL VL :=
  match s.2 with
  | none => .ok s.1
  | some e => .error e

/-! ## operators -/

/-- exceptions of overload resolution (and "no prediction"): raised before any parameter is converted -/
def isResolution : Eval.Err → Bool
  | .noFunction | .noMethod | .unknownFunction | .unknownMethod | .mapping | .fuel | .outOfDomain => true
  | _ => false

/-- a builtin whose `Eval` model is a pure function of its evaluated arguments: overload resolution comes
    first, then the parameter conversions `conv`, then the payload (with its own exception) -/
def withConv (res : Eval.R α) (conv : RL Unit) : RL α :=
  match res with
  | .ok a => do conv; pure a
  | .error e => if isResolution e then .error (.base e) else do conv; .error (.base e)

/-- parameter conversions and the payload's own check of a binary operator -/
def convBin (c : ECfg) (L : Lim) (op : BinOp) (a b : Value) : RL Unit :=
  match op, a, b with
  | .add, .tuple x, .tuple y => do
    -- combine_lists: both `Iterable()`; `limit_memory_usage(engine, (1, left), (1, right))`
    measure L (sizeofV c a); limitLen L x.length
    measure L (sizeofV c b); limitLen L y.length
    measureAll L [sizeofV c a, sizeofV c b]
  | .add, .dict _, .dict _ => do
    measure L (sizeofV c a); measure L (sizeofV c b)
    measureAll L [sizeofV c a, sizeofV c b]
  | _, _, _ => do measure L (sizeofV c a); measure L (sizeofV c b)

/-- one call of a strict binary operator on values (also what `sum` and the delegates do) -/
def binCall (c : ECfg) (L : Lim) (op : BinOp) (a b : Value) : RL Value := do
  let r ← withConv (Eval.binopV op a b) (convBin c L op a b)
  measure L (sizeofV c r)
  pure r

def binopL (c : ECfg) (L : Lim) (op : BinOp) (x y : ObjL) : RL ObjL :=
  match x, y with
  | .ctx _, _ | _, .ctx _ =>
    match op with
    | .eq | .ne => .error (.base .outOfDomain)
    | .lt | .le | .gt | .ge => .error (.base .outOfDomain)
    | _ => .error (.base .noFunction)
  | x, y =>
    if isLazyL x || isLazyL y then .error (.base .outOfDomain)
    else do let a ← toVL x; let b ← toVL y; let r ← binCall c L op a b; pure (.val r)

def unopL (c : ECfg) (L : Lim) (op : UnOp) (x : ObjL) : RL ObjL :=
  match op, x with
  | .not, .val v =>
    if hasIter v then .error (.base .outOfDomain)
    else do measure L (sizeofV c v); pure (.val (.bool (!truthy v)))
  | .not, _ => .error (.base .outOfDomain)
  | .neg, .val (.int i) => do measure L (sizeofV c (.int i)); pure (.val (.int (-i)))
  | .neg, .val (.flt _) => .error (.base .outOfDomain)
  | .neg, .val v => if hasIter v then .error (.base .outOfDomain) else .error (.base .noFunction)
  | .neg, .ctx _ => .error (.base .noFunction)
  | .neg, _ => .error (.base .outOfDomain)

/-- `Eval.indexer` on the data part -/
def indexerV (r : ObjL) (args : VL) : Eval.R Value :=
  match r, args with
  | .val (.tuple l), [k] | .val (.list l), [k] =>
    match intOfIndex k with
    | some i => liftSeq (Seq.pyIndex l i)
    | none => .error .noFunction
  | .val (.dict d), [k] =>
    if hashable k then (match Seq.dGet d k with | some v => .ok v | none => .error .key) else .error (keyErr k)
  | .val (.dict d), [k, dflt] =>
    if hashable k then .ok ((Seq.dGet d k).getD dflt) else .error (keyErr k)
  | _, _ => .error .noFunction

def indexerL (c : ECfg) (L : Lim) (r : ObjL) (args : VL) : RL ObjL := do
  let v ← withConv (indexerV r args) (do measure L (objSz c r); measureEach L (args.map (sizeofV c)))
  pure (.val v)

/-- `x.name` for an element that is not a collection: `dict_keyword_access`, or `get_property` -/
def memberFlatL (c : ECfg) (L : Lim) (name : Name) (x : Value) : RL Value := do
  let v ← (match Eval.memberV name x with
    -- neither a dict nor a collection: `get_property(obj, name)` binds the object, then `#property#name` is not found
    | .error .unknownFunction => (do measure L (sizeofV c x); .error (.base .unknownFunction) : RL Value)
    | res => withConv res (measure L (sizeofV c x)))
  measure L (sizeofV c v)
  pure v

mutual
/-- `x.name` for one element of a collection: one `#operator_.` call.  An element that is a collection
    itself goes to `collection_attribution` again: it is bound to the `Iterable()` parameter (measured; a
    sized collection is refused by `len` at once, an iterator is wrapped into the counting generator), the
    call returns a `map` object (measured as the result of the call) whose items - one more `#operator_.`
    call each - are computed when somebody consumes it; as in `Eval` that object is data of the outer
    projection, so it must not carry an exception (`toVL`: a limit exception waiting in it is "no prediction"). -/
def memberVL (c : ECfg) (L : Lim) (name : Name) : Value → RL Value
  | .tuple l => do
    measure L (sizeofV c (.tuple l)); limitLen L l.length
    let s ← memberVLs c L name l
    let v ← toVL (.lazy s.1 s.2)
    measure L (sizeofV c v)
    pure v
  | .list l => do
    measure L (sizeofV c (.list l)); limitLen L l.length
    let s ← memberVLs c L name l
    let v ← toVL (.lazy s.1 s.2)
    measure L (sizeofV c v)
    pure v
  | .iter l => do
    measure L (sizeofV c (.iter l))
    let s ← memberVLs c L name l
    let v ← toVL (ObjL.lazy (limitLazy L s).1 (limitLazy L s).2)
    measure L (sizeofV c v)
    pure v
  | .null => memberFlatL c L name .null
  | .bool b => memberFlatL c L name (.bool b)
  | .int i => memberFlatL c L name (.int i)
  | .flt f => memberFlatL c L name (.flt f)
  | .str t => memberFlatL c L name (.str t)
  | .dict d => memberFlatL c L name (.dict d)
  | .set t => memberFlatL c L name (.set t)
  | .host h => memberFlatL c L name (.host h)
/-- `map(lambda t: operator(t, name), l)` under the limits (= `mapL (memberVL c L name) l none`) -/
def memberVLs (c : ECfg) (L : Lim) (name : Name) : List Value → RL (VL × Option LErr)
  | [] => .ok ([], none)
  | x :: xs => do
    match ← capture (memberVL c L name x) with
    | .error er => pure ([], some er)
    | .ok v => let r ← memberVLs c L name xs; pure (v :: r.1, r.2)
end

theorem memberVLs_eq (c : ECfg) (L : Lim) (name : Name) :
    ∀ l : List Value, memberVLs c L name l = mapL (memberVL c L name) l none
  | [] => by rw [memberVLs]; rfl
  | x :: xs => by rw [memberVLs, mapL, memberVLs_eq c L name xs]

def memberOfL (c : ECfg) (L : Lim) (r : ObjL) (name : Name) : RL ObjL :=
  match r with
  | .val (.dict d) => do
    measure L (objSz c r)
    match Seq.dGet d (.str name) with
    | some v => pure (.val v)
    | none => .error (.base .key)
  | .val (.set _) => .error (.base .outOfDomain)
  | r =>
    match toIterL r with
    | some _ => do
      let (items, err) ← bindIter c L r
      let s ← mapL (memberVL c L name) items err
      pure (.lazy s.1 s.2)
    | none => do
      measure L (objSz c r)                     -- `get_property(obj, name)`
      .error (.base .unknownFunction)

def mkDictL (ps : KV) : RL ObjL :=
  if ps.all (fun p => hashable p.1) then .ok (.val (.dict (Seq.dOfPairs ps)))
  else .error (.base (if ps.any (fun p => hasIter p.1) then .outOfDomain else .type))

/-! ## `list(...)`: iterators among the arguments are opened, each through `limit_iterable`; the
flattened stream is the `Iterable()` argument of `to_list` -/

/-- two streams one after the other: the tail of the first ends the stream -/
def catS (a b : VL × Option LErr) : VL × Option LErr :=
  match a.2 with
  | some e => (a.1, some e)
  | none => (a.1 ++ b.1, b.2)

/-- concatenation of streams with exception tails: the first tail ends the stream -/
def catStreams : List (VL × Option LErr) → VL × Option LErr
  | [] => ([], none)
  | s :: r => catS s (catStreams r)

mutual
/-- `rec(seq)` for one element of the sequence: an iterator is opened through `limit_iterable` -/
def recV (L : Lim) : Value → VL × Option LErr
  | .iter l => recItems L L.N l
  | v => ([v], none)
/-- the items the limiter lets through (budget `b`: `none` = no limit), opened in turn -/
def recItems (L : Lim) : Option Nat → VL → VL × Option LErr
  | _, [] => ([], none)
  | some 0, _ :: _ => ([], some .tooLarge)
  | b, x :: xs => catS (recV L x) (recItems L (b.map (· - 1)) xs)
end

/-- the stream one argument of `list(...)` contributes (an ordering / a context object inside the list is
    outside the domain: "no prediction" at the point where the consumer gets there) -/
def listArgL (L : Lim) : ObjL → VL × Option LErr
  | .lazy items err =>
    let s := limitLazy L (items, err)
    catS (recItems L none s.1) ([], s.2)
  | .val v => recV L v
  | _ => ([], some (.base .outOfDomain))

/-! ## sorting -/

def errsOfL : List (Except LErr Value) → List LErr
  | [] => []
  | .error e :: r => e :: errsOfL r
  | .ok _ :: r => errsOfL r

def oksOfL : List (Except LErr Value) → VL
  | [] => []
  | .ok v :: r => v :: oksOfL r
  | .error _ :: r => oksOfL r

/-- the keys are bound to `#operator_<` / `#operator_>` (every key takes part in a comparison when there
    are two or more elements) -/
def keyQuota (c : ECfg) (L : Lim) : VL → List LErr
  | [] => []
  | k :: r =>
    match measure L (sizeofV c k) with
    | .ok _ => keyQuota c L r
    | .error e => e :: keyQuota c L r

/-- the exception a sort raises, given every exception its comparisons can raise: none; the one they all
    agree on; which of several different ones comes first depends on the sort algorithm (no prediction) -/
def sortErr : List LErr → RL (Option LErr)
  | [] => .ok none
  | e :: rest =>
    if e == .base .outOfDomain || rest.any (· != e) then .error (.base .outOfDomain) else .ok (some e)

def sortKeyedL (c : ECfg) (L : Lim) (asc : Bool) (items : VL) (keys : List (Except LErr Value)) :
    RL (VL × Option LErr) :=
  if items.length ≤ 1 then .ok (items, none)
  else do
    let r ← sortErr (errsOfL keys
      ++ (match Seq.keysComparable (oksOfL keys) with | some e => [LErr.base (Err.ofSeq e)] | none => [])
      ++ keyQuota c L (oksOfL keys))
    match r with
    | none =>
      let sorted := ((oksOfL keys).zip items).mergeSort
        (fun p q => Seq.sortLe Seq.ltT Seq.gtT [(id, asc)] p.1 q.1)
      pure (sorted.map (·.2), none)
    | some e => pure ([], some e)

def keysL (f : Value → RL Value) : VL → RL (List (Except LErr Value))
  | [] => .ok []
  | x :: xs => do let k ← capture (f x); let r ← keysL f xs; pure (k :: r)

/-! ## the evaluator -/

def evalListL (ev : EvL) (C : Ctx) : List Expr → RL VL
  | [] => .ok []
  | e :: es => do let o ← ev C e; let v ← toVL o; let vs ← evalListL ev C es; pure (v :: vs)

def evalObjsL (ev : EvL) (C : Ctx) : List Expr → RL (List ObjL)
  | [] => .ok []
  | e :: es => do let o ← ev C e; let os ← evalObjsL ev C es; pure (o :: os)

def evalPairsL (ev : EvL) (C : Ctx) : List (Expr × Expr) → RL KV
  | [] => .ok []
  | (k, v) :: r => do
    let ko ← ev C k; let kv ← toVL ko
    let vo ← ev C v; let vv ← toVL vo
    let rest ← evalPairsL ev C r
    pure ((kv, vv) :: rest)

def applyLamL (ev : EvL) (D : Ctx) (body : Expr) (args : VL) : RL ObjL :=
  ev (argFrame args [] :: D) body

def lamVL (ev : EvL) (D : Ctx) (body : Expr) (args : VL) : RL Value := do
  let o ← applyLamL ev D body args
  toVL o

def lamBL (ev : EvL) (D : Ctx) (body : Expr) (args : VL) : RL Bool := do
  let o ← applyLamL ev D body args
  pure (truthyObjL o)

def lamManyL (ev : EvL) (D : Ctx) (body : Expr) (x : Value) : RL (VL × Option LErr) := do
  let o ← applyLamL ev D body [x]
  match o with
  | .ctx _ => .error (.base .outOfDomain)
  | o =>
    match toIterL o with
    | some s => pure s
    | none => do let v ← toVL o; pure ([v], none)

/-- one item of `dict(items)`: `it = iter(t); key = next(it); value = next(it)` -/
def pairOf (it : Value) : RL (Value × Value) :=
  match it with
  | .tuple (k :: v :: _) | .list (k :: v :: _) => .ok (k, v)
  | .tuple _ | .list _ => .error (.base .stopIteration)
  | _ => .error (.base .outOfDomain)

/-- the pairs `dict(items)` reads after `acc`, with the growing dict measured after every insertion -/
def dictItemsL (c : ECfg) (L : Lim) : KV → VL → RL KV
  | _, [] => .ok []
  | acc, it :: r => do
    let p ← pairOf it
    measure L (plainDictSize c (Seq.dOfPairs (acc ++ [p])))
    let rest ← dictItemsL c L (acc ++ [p]) r
    pure (p :: rest)

/-- the common shape of a method over a collection: the receiver is type-checked when the overload is
    mapped, the other eager arguments are evaluated (`pre`), then the receiver is converted (`Iterable()`:
    measured and limited), then the remaining conversions and the payload run (`k`) -/
def withIter {β : Type} (c : ECfg) (L : Lim) (bad : Eval.Err) (r : ObjL) (pre : RL β)
    (k : β → VL × Option LErr → RL ObjL) : RL ObjL :=
  match toIterL r with
  | none => .error (.base bad)
  | some _ => do let a ← pre; let s ← bindIter c L r; k a s

/-- an `int` argument (`take`, `skip`) -/
def intArg (bad : Eval.Err) (no : ObjL) : RL Int :=
  match no with
  | .val (.int k) => .ok k
  | .val (.bool _) => .error (.base .outOfDomain)
  | _ => if isLazyL no then .error (.base .outOfDomain) else .error (.base bad)

/-- the names `unpack` is given -/
def unpackNames (ev : EvL) (C : Ctx) (bad : Eval.Err) (names : List Expr) : RL (VL × List Name) :=
  if names.any (fun a => match a with | .lit (.str _) => false | .lit _ => true | _ => false) then .error (.base bad)
  else do
    let ns ← evalListL ev C names
    let strs := ns.filterMap fun v => match v with | .str s => some s | _ => none
    if strs.length != ns.length then .error (.base bad) else pure (ns, strs)

/-- a definite exception becomes "no prediction" -/
def hideBase (x : RL α) : RL α :=
  match x with
  | .error (.base _) => .error (.base .outOfDomain)
  | y => y

/-- methods: `receiver.f(args)`; the receiver has been bound to `#operator_.` already -/
def callMethodL (c : ECfg) (L : Lim) (ev : EvL) (C : Ctx) (bad : Eval.Err) (r : ObjL) (f : Fn)
    (args : List Expr) : RL ObjL :=
  match f, args with
  | .select, [l] => withIter c L bad r (pure ()) fun _ s => do
      let t ← mapL (fun x => lamVL ev C l [x]) s.1 s.2; pure (.lazy t.1 t.2)
  | .where_, [l] => withIter c L bad r (pure ()) fun _ s => do
      let t ← filterL (fun x => lamBL ev C l [x]) s.1 s.2; pure (.lazy t.1 t.2)
  | .selectMany, [l] => withIter c L bad r (pure ()) fun _ s => do
      let t ← flatMapL (lamManyL ev C l) s.1 s.2; pure (.lazy t.1 t.2)
  | .takeWhile, [l] => withIter c L bad r (pure ()) fun _ s => do
      let t ← takeWhileL (fun x => lamBL ev C l [x]) s.1 s.2; pure (.lazy t.1 t.2)
  | .skipWhile, [l] => withIter c L bad r (pure ()) fun _ s => do
      let t ← dropWhileL (fun x => lamBL ev C l [x]) s.1 s.2; pure (.lazy t.1 t.2)
  | .orderBy, [l] => withIter c L bad r (pure ()) fun _ s =>
      match s.2 with
      | some er => pure (.ordered [] (some er))
      | none => do
        let ks ← if s.1.length ≤ 1 then pure [] else keysL (fun x => lamVL ev C l [x]) s.1
        let t ← sortKeyedL c L true s.1 ks
        pure (.ordered t.1 t.2)
  | .orderByDescending, [l] => withIter c L bad r (pure ()) fun _ s =>
      match s.2 with
      | some er => pure (.ordered [] (some er))
      | none => do
        let ks ← if s.1.length ≤ 1 then pure [] else keysL (fun x => lamVL ev C l [x]) s.1
        let t ← sortKeyedL c L false s.1 ks
        pure (.ordered t.1 t.2)
  | .any, [] => withIter c L bad r (pure ()) fun _ s => do
      let hit ← findL (fun _ => .ok true) 0 s.1 s.2; pure (.val (.bool hit.isSome))
  | .any, [l] => withIter c L bad r (pure ()) fun _ s => do
      let hit ← findL (fun x => lamBL ev C l [x]) 0 s.1 s.2; pure (.val (.bool hit.isSome))
  | .all, [] => withIter c L bad r (pure ()) fun _ s => do
      let hit ← findL (fun x => .ok (!truthy x)) 0 s.1 s.2; pure (.val (.bool hit.isNone))
  | .all, [l] => withIter c L bad r (pure ()) fun _ s => do
      let hit ← findL (fun x => do let b ← lamBL ev C l [x]; pure (!b)) 0 s.1 s.2
      pure (.val (.bool hit.isNone))
  | .indexWhere, [l] => withIter c L bad r (pure ()) fun _ s => do
      let hit ← findL (fun x => lamBL ev C l [x]) 0 s.1 s.2
      pure (.val (.int (match hit with | some i => i | none => -1)))
  | .toDict, [k] => withIter c L bad r (pure ()) fun _ s => do
      let d ← toDictL c L (fun x => lamVL ev C k [x]) (fun x => .ok x) [] s.1 s.2; pure (.val (.dict d))
  | .toDict, [k, v] => withIter c L bad r (pure ()) fun _ s => do
      let d ← toDictL c L (fun x => lamVL ev C k [x]) (fun x => lamVL ev C v [x]) [] s.1 s.2
      pure (.val (.dict d))
  | .aggregate, [l] => withIter c L bad r (pure ()) fun _ s =>
      match s.1, s.2 with
      | [], none => .error (.base .type)                -- reduce() of empty iterable with no initial value
      | [], some er => .error er
      | x :: xs, e => do let v ← foldL (fun a b => lamVL ev C l [a, b]) x xs e; pure (.val v)
  | .aggregate, [l, seed] =>
    withIter c L bad r (do let so ← ev C seed; toVL so) fun sd s => do
      measure L (sizeofV c sd)
      let v ← foldL (fun a b => lamVL ev C l [a, b]) sd s.1 s.2
      pure (.val v)
  | .sum, [] => withIter c L bad r (pure ()) fun _ s =>
      match s.1, s.2 with
      | [], none => .error (.base .type)
      | [], some er => .error er
      | x :: xs, e => do let v ← foldL (binCall c L .add) x xs e; pure (.val v)
  | .sum, [init] =>
    withIter c L bad r (do let io ← ev C init; toVL io) fun i s => do
      measure L (sizeofV c i)
      let v ← foldL (binCall c L .add) i s.1 s.2
      pure (.val v)
  | .first, [] => withIter c L bad r (pure ()) fun _ s =>
      match s.1, s.2 with
      | x :: _, _ => pure (.val x)
      | [], some er => .error er
      | [], none => .error (.base .stopIteration)
  | .first, [d] =>
    withIter c L bad r (ev C d) fun dobj s => do
      measure L (objSz c dobj)
      match s.1, s.2 with
      | x :: _, _ => pure (.val x)
      | [], some er => .error er
      | [], none => pure dobj
  | .toList, [] => withIter c L bad r (pure ()) fun _ s => do
      let xs ← drain s; pure (.val (.tuple xs))
  | .take, [n] =>
    withIter c L bad r (do let no ← ev C n; intArg bad no) fun k s => do
      measure L (sizeofV c (.int k))
      if k < 0 then .error (.base .value)
      else pure (.lazy (s.1.take k.toNat) (if k.toNat ≤ s.1.length then none else s.2))
  | .skip, [n] =>
    withIter c L bad r (do let no ← ev C n; intArg bad no) fun k s => do
      measure L (sizeofV c (.int k))
      if k < 0 then .error (.base .value)
      else pure (.lazy (s.1.drop k.toNat) s.2)
  | .len, [] =>
    match r with
    | .val (.tuple l) | .val (.list l) => do
      measure L (objSz c r)                 -- `Sequence()`: measured, not limited
      pure (.val (.int l.length))
    | .val (.iter _) | .lazy _ _ => do
      let s ← bindIter c L r                -- `Iterator()`
      let l ← drain s; pure (.val (.int l.length))
    | .val (.dict d) => do measure L (objSz c r); pure (.val (.int d.length))
    | .val (.str s) => do measure L (objSz c r); pure (.val (.int s.length))
    | .val (.set _) => .error (.base .outOfDomain)
    | _ => .error (.base bad)
  | .get, [k] =>
    match r with
    | .val (.dict d) => do
      let ko ← ev C k
      let kv ← toVL ko
      measure L (objSz c r); measure L (sizeofV c kv)
      if hashable kv then pure (.val ((Seq.dGet d kv).getD .null)) else .error (.base (keyErr kv))
    | _ => .error (.base bad)
  | .get, [k, dflt] =>
    match r with
    | .val (.dict d) => do
      let ko ← ev C k
      let kv ← toVL ko
      let dobj ← ev C dflt
      let dv ← toVL dobj
      measure L (objSz c r); measure L (sizeofV c kv); measure L (sizeofV c dv)
      if hashable kv then pure (.val ((Seq.dGet d kv).getD dv)) else .error (.base (keyErr kv))
    | _ => .error (.base bad)
  | .unpack, names =>
    withIter c L bad r (unpackNames ev C bad names) fun nm s => do
      measureEach L (nm.1.map (sizeofV c))
      let n := nm.2.length
      -- `islice(sequence, len(args) + 1)` reaches the end of a source that raises; without names
      -- `chain(lst, sequence)` consumes the rest (the limiter raises at item N + 1, a raising source raises)
      match (if n = 0 || s.1.length < n + 1 then s.2 else none) with
      | some er => .error er
      | none =>
      if n = 0 then pure (.ctx ({ vars := bindNamed [] (bindPos 1 s.1) } :: C))
      else if (s.1.take (n + 1)).length != n then .error (.base .value)
      else pure (.ctx ({ vars := bindNamed [] (nm.2.zip s.1) } :: C))
  | .let_, _ | .with_, _ | .def_, _ | .list, _ | .dict, _ => .error (.base .unknownMethod)
  | _, _ => .error (.base bad)

/-- functions: `f(args, k => v)` -/
def callFnL (c : ECfg) (L : Lim) (ev : EvL) (C : Ctx) (f : Fn) (args : List Expr) (kw : List (Expr × Expr)) :
    RL ObjL :=
  match f with
  | .let_ => do
    let names ← liftR (kwNames kw)
    let vs ← evalListL ev C args
    let kvs ← evalListL ev C (kw.map (·.2))
    measureEach L (vs.map (sizeofV c)); measureEach L (kvs.map (sizeofV c))
    pure (.ctx (argFrame vs (names.zip kvs) :: C))
  | .with_ =>
    if !kw.isEmpty then (do let _ ← liftR (kwNames kw); .error (.base .noFunction))
    else do
      let vs ← evalListL ev C args
      measureEach L (vs.map (sizeofV c))
      pure (.ctx (argFrame vs [] :: C))
  | .def_ =>
    if !kw.isEmpty then .error (.base .outOfDomain)
    else match args with
      | [nameE, body] => do
        let no ← ev C nameE
        match no with
        | .val (.str name) => do
          measure L (sizeofV c (.str name))
          pure (.ctx ({ funs := [(fnKey name, body)] } :: C))
        | o => if isLazyL o then .error (.base .outOfDomain) else .error (.base .noFunction)
      | _ => .error (.base .noFunction)
  | .list =>
    if !kw.isEmpty then .error (.base .outOfDomain)
    else do
      let os ← evalObjsL ev C args
      measureEach L (os.map (objSz c))
      -- `delegate(rec(args))`: the flattened generator is the `Iterable()` argument of `to_list`
      measure L (some (objSzOf c))
      let xs ← drain (limitLazy L (catStreams (os.map (listArgL L))))
      pure (.val (.tuple xs))
  | .dict =>
    match args, kw with
    | [], kw => do
      let ps ← evalPairsL ev C kw
      measureAll L (ps.map fun _ => some (.exact c.ruleSz))
      mkDictL ps
    | [e], [] => do
      let o ← ev C e
      match toIterL o with
      | none => .error (.base .noFunction)
      | some _ => do
        let s ← bindIter c L o
        match s.2 with
        | some (.base b) => .error (.base b)
        | some er => do
          -- the limiter will raise after these items; an ill-formed item among them raises before that, but
          -- `Eval` would look at the (unknown) end of the uncut source first: no prediction
          let _ ← hideBase (dictItemsL c L [] s.1)
          .error er
        | none => do
          let ps ← dictItemsL c L [] s.1
          mkDictL ps
    | _, _ => .error (.base .outOfDomain)
  | .len | .any | .all =>
    if !kw.isEmpty then .error (.base .outOfDomain)
    else match args with
      | [] => .error (.base .noFunction)
      | recv :: rest => do
        let arityOk := match f, rest with
          | .len, [] => true
          | .any, [] | .any, [_] | .all, [] | .all, [_] => true
          | _, _ => false
        if !arityOk then .error (.base .noFunction)
        else do let r ← ev C recv; callMethodL c L ev C .noFunction r f rest
  | _ => .error (.base .unknownFunction)

/-- the work of one node that is a function call, before `runner.call` measures its result -/
def rawL (c : ECfg) (L : Lim) (ev : EvL) (C : Ctx) : Expr → RL ObjL
  | .lit v => .ok (.val v)
  | .kw s => .ok (.val (.str s))
  | .var x => readVarL C x
  | .list es => do
    let vs ← evalListL ev C es
    measureEach L (vs.map (sizeofV c))
    measureAll L (vs.map (sizeofV c))       -- build_list: the running total of the elements
    pure (.val (.tuple vs))
  | .map kvs => do
    let ps ← evalPairsL ev C kvs
    measureAll L (ps.map fun _ => some (.exact c.ruleSz))
    mkDictL ps
  | .index e args =>
    if (args.length = 1 || args.length = 2) && !isConst e then do
      let r ← ev C e
      let vs ← evalListL ev C args
      indexerL c L r vs
    else .error (.base .noFunction)
  | .un op e => do let r ← ev C e; unopL c L op r
  | .bin .and a b => do let x ← ev C a; if truthyObjL x then ev C b else pure x
  | .bin .or a b => do let x ← ev C a; if truthyObjL x then pure x else ev C b
  | .bin op a b =>
    if litOk op a && litOk op b then do let x ← ev C a; let y ← ev C b; binopL c L op x y
    else .error (.base .noFunction)
  | .arrow l r => do
    let cx ← ev C l
    match cx with
    | .ctx C' => do measure L (objSz c cx); ev C' r
    | _ => .error (.base .noFunction)
  | .member e name => do let r ← ev C e; memberOfL c L r name
  | .call f args kw => callFnL c L ev C f args kw
  | .ucall f args kw =>
    match C.getFun (fnKey f) with
    | none => .error (.base .unknownFunction)
    | some (body, D) => do
      let names ← liftR (kwNames kw)
      let vs ← evalListL ev C args
      let kvs ← evalListL ev C (kw.map (·.2))
      -- `wrapper(*args, **kwargs)`: every argument is bound to a parameter
      measureEach L (vs.map (sizeofV c)); measureEach L (kvs.map (sizeofV c))
      ev (argFrame vs (names.zip kvs) :: D) body
  | .method e f args kw => do
    let r ← ev C e
    if !kw.isEmpty then .error (.base .outOfDomain)
    else do
      measure L (objSz c r)                  -- `#operator_.(receiver, expr)`
      callMethodL c L ev C .noMethod r f args
  | .umethod e _ => do
    let r ← ev C e
    measure L (objSz c r)
    .error (.base .unknownMethod)

/-- one layer: constants are not calls; every other node is a call whose result `runner.call` measures -/
def stepL (c : ECfg) (L : Lim) (ev : EvL) (C : Ctx) (e : Expr) : RL ObjL :=
  if isConst e then rawL c L ev C e
  else do
    let o ← rawL c L ev C e
    measure L (objSz c o)
    pure o

/-- the interpreter under limits `L` -/
def evalL (c : ECfg) (L : Lim) : Nat → EvL
  | 0 => fun _ _ => .error (.base .fuel)
  | n + 1 => stepL c L (evalL c L n)

/-! ## finalisation: `#finalize(obj)` = `convert_output_data(obj, #iter, engine)` -/

mutual
/-- below the top level: every collection is the `Iterable()` argument of one `#iter` call -/
def walkV (c : ECfg) (L : Lim) : Value → RL Unit
  | .tuple l => do measure L (some (.exact (c.sz.seqSize .tuple l.length))); limitLen L l.length; walkL c L none l
  | .list l => do measure L (some (.exact (c.sz.seqSize .list l.length))); limitLen L l.length; walkL c L none l
  | .set l => do measure L none; limitLen L l.length; walkL c L none l
  | .iter l => do measure L (some (objSzOf c)); walkL c L L.N l       -- the counting generator
  | .dict kvs => do limitLen L kvs.length; walkP c L kvs           -- `obj.items()`: an ItemsView, checked by `len`
  | _ => .ok ()
/-- the elements in order; budget `b` = how many items the limiter still lets through (`none` = all) -/
def walkL (c : ECfg) (L : Lim) : Option Nat → List Value → RL Unit
  | _, [] => .ok ()
  | some 0, _ :: _ => .error .tooLarge
  | b, x :: xs => do walkV c L x; walkL c L (b.map (· - 1)) xs
def walkP (c : ECfg) (L : Lim) : List (Value × Value) → RL Unit
  | [] => .ok ()
  | (k, v) :: r => do walkV c L k; walkV c L v; walkP c L r
end

/-- `sys.getsizeof` of the converted top-level result -/
def outSize (c : ECfg) : Value → Option Sz
  | .list xs | .tuple xs => (lookupLe c.listGrow xs.length).map fun slots => .exact (c.sz.listHdr + c.sz.ptr * slots)
  | .dict d => plainDictSize c d
  | v => sizeofV c v

/-- a limit exception of the walk and an unhashable converted key in the same result: which comes first is
    not modelled -/
def afterWalk (ok : Bool) (w : RL Unit) : RL Unit :=
  match w with
  | .ok _ => .ok ()
  | .error e => if isLim e && !ok then .error (.base .outOfDomain) else .error e

/-- the items `#iter(obj)` lets through at the top level: walked in order, then the tail of the source; the
    converted list is what `#finalize` returns (measured by `runner.call`) -/
def finIter (c : ECfg) (L : Lim) (s : VL × Option LErr) : RL Final :=
  match s.2 with
  | some (.base b) => .error (.base b)
  | tl => do
    afterWalk (Seq.finOkL s.1) (do walkL c L none s.1; match tl with | some er => .error er | none => pure ())
    if Seq.finOkL s.1 then do
      measure L (outSize c (.list s.1))
      pure (.data (.list s.1))
    else .error (.base .type)

/-- a result that is no sequence -/
def finVal (c : ECfg) (L : Lim) (v : Value) : RL Final := do
  measure L (sizeofV c v)                      -- `#finalize(obj)`
  afterWalk (Seq.finOk v) (walkV c L v)
  if Seq.finOk v then do
    measure L (outSize c v)
    pure (.data v)
  else .error (.base .type)

def finaliseL (c : ECfg) (L : Lim) (o : ObjL) : RL Final :=
  match o with
  | .ctx _ => do measure L (some (objSzOf c)); pure .context
  | o =>
    match toIterL o with
    | some _ => do
      measure L (objSz c o)                    -- `#finalize(obj)`
      let s ← bindIter c L o                   -- `#iter(obj)`
      finIter c L s
    | none =>
      match o with
      | .val v => finVal c L v
      | _ => .error (.base .outOfDomain)

/-- `engine(text).evaluate(data=doc)` with `yaql.limitIterators = L.N`, `yaql.memoryQuota = L.Q` -/
def runL (c : ECfg) (L : Lim) (fuel : Nat) (doc : Value) (e : Expr) : RL Final := do
  let o ← evalL c L fuel [{ vars := [(['$', '1'], doc)] }] e
  finaliseL c L o

end Yaql.EvalLimits
