/-!
A small evaluation-order model: which probes `tick(id, value)` fire, and in which order, when an
expression is evaluated.  `X` keeps of an expression only its operator shape and - where an
operator's meaning selects operands - the facts the selection depends on (truthiness / nullness of
the operands that ARE evaluated, the selected index).

* `tick id a`    - `tick(id, a)`: evaluates `a`, then logs `id`
* `eager ks`     - any function, method, operator, indexer or literal constructor all of whose
                   parameters are eager: the operands left to right (receiver first, then the
                   positional arguments, then the keyword arguments in source order), each once
* `and_ / or_`   - `boolean.py:and_/or_`: `left() and right()`
* `elvis`        - `r ?. f(ks)`: the receiver, then - unless it is null - the arguments of `f`
* `switch`       - `switch(c1 => v1, ..)`: conditions in order until one is true, then its value
* `selectCase`   - predicates in order until one is true
* `allCases`     - `selectAllCases` / `examine`: every predicate in order (when the result is consumed)
* `switchCase`   - `case.switchCase(a0, a1, ..)`: the receiver, then only the selected argument
* `coalesce`     - arguments in order until one is not null
* `defCalls`     - `def(f, body) -> [slot, slot, ..]`: the body of a function made by `def` (a lazily passed
                   expression kept as a callable) is evaluated at EVERY call `f()` - `slots` says which slots are
                   calls of `f` (true) and which are the next of the other expressions (false); defining `f`
                   evaluates nothing
-/
namespace Yaql.EvalOrder

inductive X where
  | leaf
  | tick (id : Nat) (arg : X)
  | eager (kids : List X)
  | and_ (a b : X) (aTruthy : Bool)
  | or_ (a b : X) (aTruthy : Bool)
  | elvis (r : X) (rNull : Bool) (kids : List X)
  | switch (conds : List X) (truthy : List Bool) (vals : List X)
  | selectCase (preds : List X) (truthy : List Bool)
  | allCases (preds : List X)
  | switchCase (case : X) (sel : Option Nat) (args : List X)
  | coalesce (args : List X) (isNull : List Bool)
  | defCalls (body : X) (slots : List Bool) (others : List X)
deriving Repr, Inhabited

/-- operands in order until the first one whose flag is set (inclusive) -/
def untilFlag : List (List Nat) → List Bool → List Nat
  | [], _ => []
  | t :: r, f :: fs => if f then t else t ++ untilFlag r fs
  | t :: r, [] => t ++ untilFlag r []

/-- conditions in order until the first true one, then the value that belongs to it -/
def switchTrace : List (List Nat) → List Bool → List (List Nat) → List Nat
  | [], _, _ => []
  | c :: cs, t :: ts, v :: vs => if t then c ++ v else c ++ switchTrace cs ts vs
  | c :: cs, [], _ :: vs => c ++ switchTrace cs [] vs
  | c :: cs, t :: ts, [] => if t then c else c ++ switchTrace cs ts []
  | c :: cs, [], [] => c ++ switchTrace cs [] []

/-- the slots of `def(f, body) -> [..]` left to right: a call of `f` evaluates the body, another slot its own
    expression -/
def callsTrace (body : List Nat) : List Bool → List (List Nat) → List Nat
  | [], _ => []
  | true :: ps, os => body ++ callsTrace body ps os
  | false :: ps, o :: os => o ++ callsTrace body ps os
  | false :: ps, [] => callsTrace body ps []

mutual
def trace : X → List Nat
  | .leaf => []
  | .tick id a => trace a ++ [id]
  | .eager ks => (traces ks).flatten
  | .and_ a b t => trace a ++ (if t then trace b else [])
  | .or_ a b t => trace a ++ (if t then [] else trace b)
  | .elvis r rNull ks => trace r ++ (if rNull then [] else (traces ks).flatten)
  | .switch cs ts vs => switchTrace (traces cs) ts (traces vs)
  | .selectCase ps ts => untilFlag (traces ps) ts
  | .allCases ps => (traces ps).flatten
  | .switchCase c sel as => trace c ++ (match sel with | some i => (traces as).getD i [] | none => [])
  | .coalesce as nulls => untilFlag (traces as) (nulls.map not)
  | .defCalls b slots os => callsTrace (trace b) slots (traces os)
def traces : List X → List (List Nat)
  | [] => []
  | x :: r => trace x :: traces r
end

/-- all probes of an expression in source (operand) order; a `switch` lists condition, value,
    condition, value, .. -/
def interleave : List (List Nat) → List (List Nat) → List Nat
  | [], vs => vs.flatten
  | c :: cs, [] => c ++ interleave cs []
  | c :: cs, v :: vs => c ++ v ++ interleave cs vs

mutual
def probes : X → List Nat
  | .leaf => []
  | .tick id a => probes a ++ [id]
  | .eager ks => (probesL ks).flatten
  | .and_ a b _ => probes a ++ probes b
  | .or_ a b _ => probes a ++ probes b
  | .elvis r _ ks => probes r ++ (probesL ks).flatten
  | .switch cs _ vs => interleave (probesL cs) (probesL vs)
  | .selectCase ps _ => (probesL ps).flatten
  | .allCases ps => (probesL ps).flatten
  | .switchCase c _ as => probes c ++ (probesL as).flatten
  | .coalesce as _ => (probesL as).flatten
  | .defCalls b _ os => probes b ++ (probesL os).flatten
def probesL : List X → List (List Nat)
  | [] => []
  | x :: r => probes x :: probesL r
end

mutual
/-- no operator with lazy operands anywhere -/
def eagerOnly : X → Bool
  | .leaf => true
  | .tick _ a => eagerOnly a
  | .eager ks => eagerOnlyL ks
  | _ => false
def eagerOnlyL : List X → Bool
  | [] => true
  | x :: r => eagerOnly x && eagerOnlyL r
end

end Yaql.EvalOrder
