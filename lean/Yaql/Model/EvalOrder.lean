/-!
A small evaluation-order model: which probes `tick(id, value)` fire, and in which order, when an
expression is evaluated.  `X` keeps of an expression only its operator shape and - where an
operator's meaning selects operands - the facts the selection depends on (truthiness / nullness of
the operands that ARE evaluated, the selected index).

* `tick id a`    - `tick(id, a)`: evaluates `a`, then logs `id`
* `eager ks`     - any function, method, operator, indexer or literal constructor all of whose
                   parameters are eager: the operands left to right (receiver first, then the
                   positional arguments, then the keyword arguments in source order), each once
* `and_ / or_`   - `boolean.py:and_/or_`: `left() and right()`
* `elvis`        - `r ?. f(ks)`: the receiver, then - unless it is null - the arguments of `f`
* `switch`       - `switch(c1 => v1, ..)`: conditions in order until one is true, then its value
* `selectCase`   - predicates in order until one is true
* `allCases`     - `selectAllCases` / `examine`: every predicate in order (when the result is consumed)
* `switchCase`   - `case.switchCase(a0, a1, ..)`: the receiver, then only the selected argument
* `coalesce`     - arguments in order until one is not null
* `defCalls`     - `def(f, body) -> [slot, slot, ..]`: the body of a function made by `def` (a lazily passed
                   expression kept as a callable) is evaluated at EVERY call `f()` - `slots` says which slots are
                   calls of `f` (true) and which are the next of the other expressions (false); defining `f`
                   evaluates nothing
* `raise_ ks`    - a call that ENDS IN AN EXCEPTION after the operands `ks` have been evaluated: an unknown function /
                   method / property or a call no overload takes by arity (`ks = []`: resolution fails before anything
                   is evaluated), a call whose evaluated arguments no overload accepts or two overloads accept, a
                   payload that raises (`ks` = the eager arguments).  `trace` treats it as the call it would be if it
                   succeeded; `run` is the evaluation that stops there.
* `lazy b d`     - an expression whose value is a LAZY sequence (`coll.select(..)`, `.where(..)`, `.orderBy(..)`..)
                   that nothing iterates: building it evaluates `b` (the collection, eager arguments); the per-element
                   lambdas `d` stay dormant - testing the value for truth or null, storing it, passing it on or binding
                   it to a name does not consume an element, so no lambda is applied.
-/
namespace Yaql.EvalOrder

inductive X where
  | leaf
  | tick (id : Nat) (arg : X)
  | eager (kids : List X)
  | and_ (a b : X) (aTruthy : Bool)
  | or_ (a b : X) (aTruthy : Bool)
  | elvis (r : X) (rNull : Bool) (kids : List X)
  | switch (conds : List X) (truthy : List Bool) (vals : List X)
  | selectCase (preds : List X) (truthy : List Bool)
  | allCases (preds : List X)
  | switchCase (case : X) (sel : Option Nat) (args : List X)
  | coalesce (args : List X) (isNull : List Bool)
  | defCalls (body : X) (slots : List Bool) (others : List X)
  | raise_ (kids : List X)
  | lazy (build : List X) (dormant : List X)
deriving Repr, Inhabited

/-- operands in order until the first one whose flag is set (inclusive) -/
def untilFlag : List (List Nat) → List Bool → List Nat
  | [], _ => []
  | t :: r, f :: fs => if f then t else t ++ untilFlag r fs
  | t :: r, [] => t ++ untilFlag r []

/-- conditions in order until the first true one, then the value that belongs to it -/
def switchTrace : List (List Nat) → List Bool → List (List Nat) → List Nat
  | [], _, _ => []
  | c :: cs, t :: ts, v :: vs => if t then c ++ v else c ++ switchTrace cs ts vs
  | c :: cs, [], _ :: vs => c ++ switchTrace cs [] vs
  | c :: cs, t :: ts, [] => if t then c else c ++ switchTrace cs ts []
  | c :: cs, [], [] => c ++ switchTrace cs [] []

/-- the slots of `def(f, body) -> [..]` left to right: a call of `f` evaluates the body, another slot its own
    expression -/
def callsTrace (body : List Nat) : List Bool → List (List Nat) → List Nat
  | [], _ => []
  | true :: ps, os => body ++ callsTrace body ps os
  | false :: ps, o :: os => o ++ callsTrace body ps os
  | false :: ps, [] => callsTrace body ps []

mutual
def trace : X → List Nat
  | .leaf => []
  | .tick id a => trace a ++ [id]
  | .eager ks => (traces ks).flatten
  | .and_ a b t => trace a ++ (if t then trace b else [])
  | .or_ a b t => trace a ++ (if t then [] else trace b)
  | .elvis r rNull ks => trace r ++ (if rNull then [] else (traces ks).flatten)
  | .switch cs ts vs => switchTrace (traces cs) ts (traces vs)
  | .selectCase ps ts => untilFlag (traces ps) ts
  | .allCases ps => (traces ps).flatten
  | .switchCase c sel as => trace c ++ (match sel with | some i => (traces as).getD i [] | none => [])
  | .coalesce as nulls => untilFlag (traces as) (nulls.map not)
  | .defCalls b slots os => callsTrace (trace b) slots (traces os)
  | .raise_ ks => (traces ks).flatten
  | .lazy b _ => (traces b).flatten
def traces : List X → List (List Nat)
  | [] => []
  | x :: r => trace x :: traces r
end

/-- all probes of an expression in source (operand) order; a `switch` lists condition, value,
    condition, value, .. -/
def interleave : List (List Nat) → List (List Nat) → List Nat
  | [], vs => vs.flatten
  | c :: cs, [] => c ++ interleave cs []
  | c :: cs, v :: vs => c ++ v ++ interleave cs vs

mutual
def probes : X → List Nat
  | .leaf => []
  | .tick id a => probes a ++ [id]
  | .eager ks => (probesL ks).flatten
  | .and_ a b _ => probes a ++ probes b
  | .or_ a b _ => probes a ++ probes b
  | .elvis r _ ks => probes r ++ (probesL ks).flatten
  | .switch cs _ vs => interleave (probesL cs) (probesL vs)
  | .selectCase ps _ => (probesL ps).flatten
  | .allCases ps => (probesL ps).flatten
  | .switchCase c _ as => probes c ++ (probesL as).flatten
  | .coalesce as _ => (probesL as).flatten
  | .defCalls b _ os => probes b ++ (probesL os).flatten
  | .raise_ ks => (probesL ks).flatten
  | .lazy b d => (probesL b).flatten ++ (probesL d).flatten
def probesL : List X → List (List Nat)
  | [] => []
  | x :: r => probes x :: probesL r
end

mutual
/-- no operator with lazy operands anywhere -/
def eagerOnly : X → Bool
  | .leaf => true
  | .tick _ a => eagerOnly a
  | .eager ks => eagerOnlyL ks
  | _ => false
def eagerOnlyL : List X → Bool
  | [] => true
  | x :: r => eagerOnly x && eagerOnlyL r
end

/-! ### evaluations that end in an exception

`run x` = (the probe log, whether the evaluation ended in an exception).  An exception ends the evaluation of every
enclosing operator at once: nothing behind the failing call is evaluated, nothing in front of it is evaluated again. -/

/-- a probe log and whether the evaluation ended in an exception -/
abbrev R := List Nat × Bool

/-- `b` after `a` - unless `a` ended in an exception -/
def thenR (a b : R) : R := if a.2 then a else (a.1 ++ b.1, b.2)

/-- operands left to right up to the first one that raises -/
def seqRun : List R → R
  | [] => ([], false)
  | t :: r => thenR t (seqRun r)

def untilFlagRun : List R → List Bool → R
  | [], _ => ([], false)
  | t :: r, f :: fs => if f then t else thenR t (untilFlagRun r fs)
  | t :: r, [] => thenR t (untilFlagRun r [])

def switchRun : List R → List Bool → List R → R
  | [], _, _ => ([], false)
  | c :: cs, t :: ts, v :: vs => if t then thenR c v else thenR c (switchRun cs ts vs)
  | c :: cs, [], _ :: vs => thenR c (switchRun cs [] vs)
  | c :: cs, t :: ts, [] => if t then c else thenR c (switchRun cs ts [])
  | c :: cs, [], [] => thenR c (switchRun cs [] [])

def callsRun (body : R) : List Bool → List R → R
  | [], _ => ([], false)
  | true :: ps, os => thenR body (callsRun body ps os)
  | false :: ps, o :: os => thenR o (callsRun body ps os)
  | false :: ps, [] => callsRun body ps []

mutual
def run : X → R
  | .leaf => ([], false)
  | .tick id a => thenR (run a) ([id], false)
  | .eager ks => seqRun (runs ks)
  | .and_ a b t => thenR (run a) (if t then run b else ([], false))
  | .or_ a b t => thenR (run a) (if t then ([], false) else run b)
  | .elvis r rNull ks => thenR (run r) (if rNull then ([], false) else seqRun (runs ks))
  | .switch cs ts vs => switchRun (runs cs) ts (runs vs)
  | .selectCase ps ts => untilFlagRun (runs ps) ts
  | .allCases ps => seqRun (runs ps)
  | .switchCase c sel as => thenR (run c) (match sel with | some i => (runs as).getD i ([], false) | none => ([], false))
  | .coalesce as nulls => untilFlagRun (runs as) (nulls.map not)
  | .defCalls b slots os => callsRun (run b) slots (runs os)
  | .raise_ ks => thenR (seqRun (runs ks)) ([], true)
  | .lazy b _ => seqRun (runs b)
def runs : List X → List R
  | [] => []
  | x :: r => run x :: runs r
end

mutual
/-- no failing call anywhere -/
def noRaise : X → Bool
  | .leaf => true
  | .tick _ a => noRaise a
  | .eager ks => noRaiseL ks
  | .and_ a b _ => noRaise a && noRaise b
  | .or_ a b _ => noRaise a && noRaise b
  | .elvis r _ ks => noRaise r && noRaiseL ks
  | .switch cs _ vs => noRaiseL cs && noRaiseL vs
  | .selectCase ps _ => noRaiseL ps
  | .allCases ps => noRaiseL ps
  | .switchCase c _ as => noRaise c && noRaiseL as
  | .coalesce as _ => noRaiseL as
  | .defCalls b _ os => noRaise b && noRaiseL os
  | .raise_ _ => false
  | .lazy b _ => noRaiseL b
def noRaiseL : List X → Bool
  | [] => true
  | x :: r => noRaise x && noRaiseL r
end

mutual
/-- only calls with eager parameters, some of which may fail -/
def callsOnly : X → Bool
  | .leaf => true
  | .tick _ a => callsOnly a
  | .eager ks => callsOnlyL ks
  | .raise_ ks => callsOnlyL ks
  | _ => false
def callsOnlyL : List X → Bool
  | [] => true
  | x :: r => callsOnly x && callsOnlyL r
end

/-! ### lazy values that nothing consumes -/

mutual
/-- the probes inside per-element lambdas of lazy values that nothing iterates -/
def dormant : X → List Nat
  | .leaf => []
  | .tick _ a => dormant a
  | .eager ks => (dormantL ks).flatten
  | .and_ a b _ => dormant a ++ dormant b
  | .or_ a b _ => dormant a ++ dormant b
  | .elvis r _ ks => dormant r ++ (dormantL ks).flatten
  | .switch cs _ vs => (dormantL cs).flatten ++ (dormantL vs).flatten
  | .selectCase ps _ => (dormantL ps).flatten
  | .allCases ps => (dormantL ps).flatten
  | .switchCase c _ as => dormant c ++ (dormantL as).flatten
  | .coalesce as _ => (dormantL as).flatten
  | .defCalls b _ os => dormant b ++ (dormantL os).flatten
  | .raise_ ks => (dormantL ks).flatten
  | .lazy b d => (dormantL b).flatten ++ (probesL d).flatten
def dormantL : List X → List (List Nat)
  | [] => []
  | x :: r => dormant x :: dormantL r
end

mutual
/-- all other probes: those whose operand is evaluated when the operator's meaning selects it -/
def awake : X → List Nat
  | .leaf => []
  | .tick id a => awake a ++ [id]
  | .eager ks => (awakeL ks).flatten
  | .and_ a b _ => awake a ++ awake b
  | .or_ a b _ => awake a ++ awake b
  | .elvis r _ ks => awake r ++ (awakeL ks).flatten
  | .switch cs _ vs => (awakeL cs).flatten ++ (awakeL vs).flatten
  | .selectCase ps _ => (awakeL ps).flatten
  | .allCases ps => (awakeL ps).flatten
  | .switchCase c _ as => awake c ++ (awakeL as).flatten
  | .coalesce as _ => (awakeL as).flatten
  | .defCalls b _ os => awake b ++ (awakeL os).flatten
  | .raise_ ks => (awakeL ks).flatten
  | .lazy b _ => (awakeL b).flatten
def awakeL : List X → List (List Nat)
  | [] => []
  | x :: r => awake x :: awakeL r
end

end Yaql.EvalOrder
