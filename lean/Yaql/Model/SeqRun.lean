import Yaql.Model.Seq
/-!
The error-aware, lazily evaluated layer of the collection model (what the driver runs).

* `Lam` / `Lam2`: the closed family of one- and two-argument lambdas with an evaluator that
  fails with the class of exception yaql raises (`Err`).
* `LSeq`: a one-shot lazy sequence = the elements it yields followed by normal exhaustion or
  by an exception.  Every generator / itertools object of queries.py is one of these.
* `Obj`: what an expression denotes at run time (finished data, lazy sequence, an
  `OrderingIterable`, a dict view, a Value.set whose iteration order the model does not know).
* `Op` and `runOp`: one constructor per function, with its overload dispatch on the receiver.

Lambda-free functions call the pure definitions of `Model/Seq.lean` directly; functions
that apply a lambda are written by recursion over the elements (stopping at the first
exception) and are proved equal to the pure definition on exception-free inputs in
`Props/C13.lean` (`*_pure`).
-/
namespace Yaql.Seq
open Value

inductive Err where
  | noFunction       -- NoMatchingFunctionException
  | noMethod         -- NoMatchingMethodException
  | unknownFunction  -- NoFunctionRegisteredException
  | key | index | zeroDiv | type | stopIteration | value | attribute
  | sortMixed        -- an ordering raises, and which exception comes first depends on the sort algorithm
  | ambiguous        -- AmbiguousMethodException (two overloads accept the receiver, e.g. `delete` on a dict under yaql.iterableDicts)
  | tooLarge         -- CollectionTooLargeException (yaql.limitIterators)
  | unknownMethod    -- NoMethodRegisteredException (e.g. a set method in a context made with `no_sets`)
  | wrappedStop      -- WrappedException: a StopIteration met while the HOST consumes a lazy result (`yaql.convertOutputData` off)
  | outOfDomain      -- input outside the modelled domain (no prediction)
deriving DecidableEq, Repr, Inhabited

abbrev R := Except Err

/-! ### numbers: integers and doubles, exactly

A double is its bit pattern; `fltParts` (Model/Seq.lean) reads it as the dyadic rational `m * 2^e`.
Comparison between numbers is exact, as in CPython.  Arithmetic with a double operand is IEEE
arithmetic, which is correctly rounded: whenever the exact result is itself a double, that double
is the result - and when it is not, the model makes no prediction (`outOfDomain`). -/

/-- a number as the exact dyadic rational `m * 2^e` -/
def numParts : Value → Option (Int × Int)
  | int i => some (i, 0)
  | flt w => fltParts w
  | _ => none

def cmpDyadic (a b : Int × Int) : Ordering :=
  let e := min a.2 b.2
  compare (a.1 * 2 ^ (a.2 - e).toNat) (b.1 * 2 ^ (b.2 - e).toNat)

/-- `a = r.1 * 2 ^ r.2` with `r.1` odd (or zero) -/
def stripTwos : Nat → Nat → Nat × Nat
  | 0, a => (a, 0)
  | f + 1, a => if a % 2 == 0 && a != 0 then let r := stripTwos f (a / 2); (r.1, r.2 + 1) else (a, 0)

def negZero : UInt64 := 0x8000000000000000
def signBit (w : UInt64) : Bool := w.toNat / 2 ^ 63 % 2 == 1

/-- the (normal) double that IS `m * 2^e`, `m ≠ 0` -/
def fltOfDyadic (m e : Int) : Option UInt64 :=
  let a := m.natAbs
  let r := stripTwos (Nat.log2 a + 1) a
  let len := Nat.log2 r.1 + 1                 -- number of significant bits
  let top : Int := e + r.2 + len - 1          -- exponent of the leading bit
  if a == 0 || len > 53 || top < -1022 || top > 1023 then none
  else
    let man := r.1 * 2 ^ (53 - len) - 2 ^ 52
    some (UInt64.ofNat ((if m < 0 then 2 ^ 63 else 0) + (top + 1023).toNat * 2 ^ 52 + man))

/-- the result of a floating-point operation whose exact value is `m * 2^e`; `negz`: a zero result is `-0.0` -/
def fltResult (m e : Int) (negz : Bool := false) : R Value :=
  if m == 0 then .ok (flt (if negz then negZero else 0))
  else match fltOfDyadic m e with
    | some w => .ok (flt w)
    | none => .error .outOfDomain

/-- `float(i)` is exact -/
def smallInt (i : Int) : Bool := i.natAbs < 2 ^ 53

/-- `a + b` where at least one operand is a double -/
def addNum (a b : Value) : R Value :=
  match numParts a, numParts b with
  | some p, some q =>
    let okInt (v : Value) : Bool := match v with | int i => smallInt i | _ => true
    let nz (v : Value) : Bool := match v with | flt w => w == negZero | _ => false
    if okInt a && okInt b then
      let e := min p.2 q.2
      fltResult (p.1 * 2 ^ (p.2 - e).toNat + q.1 * 2 ^ (q.2 - e).toNat) e (nz a && nz b)
    else .error .outOfDomain
  | _, _ => .error .outOfDomain        -- inf / nan

/-! ### scalar operators used by the lambdas and by sum / min / max / orderBy -/

def plus : Value → Value → R Value
  | int a, int b => .ok (int (a + b))
  | int a, flt b => addNum (int a) (flt b)
  | flt a, int b => addNum (flt a) (int b)
  | flt a, flt b => addNum (flt a) (flt b)
  | str a, str b => .ok (str (a ++ b))
  | tuple a, tuple b => .ok (tuple (a ++ b))
  | Value.set a, Value.set b => .ok (Value.set (sUnion a b))
  | dict a, dict b => .ok (dict (dUpdate a b))
  | a, b => if isIterable a && isIterable b then .error .outOfDomain else .error .noFunction

def mulInt (x : Value) (k : Int) : R Value :=
  match x with
  | int a => .ok (int (a * k))
  | flt w =>
    match fltParts w with
    | some (m, e) => if smallInt k then fltResult (m * k) e (signBit w != decide (k < 0)) else .error .outOfDomain
    | none => .error .outOfDomain
  | str s => .ok (str ((List.replicate k.toNat s).flatten))
  | tuple l => .ok (tuple ((List.replicate k.toNat l).flatten))
  | list l => .ok (list ((List.replicate k.toNat l).flatten))
  | _ => .error .noFunction

/-- `x mod k`: Python's `%` (floored; a zero result of the float version has the sign of `k`) -/
def modInt (x : Value) (k : Int) : R Value :=
  match x with
  | int a => if k = 0 then .error .zeroDiv else .ok (int (Int.fmod a k))
  | flt w =>
    if k = 0 then .error .zeroDiv
    else match fltParts w with
      | some (m, e) =>
        if !smallInt k then .error .outOfDomain
        else if e ≥ 0 then fltResult (Int.fmod (m * 2 ^ e.toNat) k) 0 (decide (k < 0))
        else fltResult (Int.fmod m (k * 2 ^ (-e).toNat)) e (decide (k < 0))
      | none => .error .outOfDomain
  | _ => .error .noFunction

/-- `x / 2` (math.py): floor division on two integers, true division otherwise -/
def halfV : Value → R Value
  | int a => .ok (int (Int.fdiv a 2))
  | flt w =>
    match fltParts w with
    | some (m, e) => fltResult m (e - 1) (signBit w)
    | none => .error .outOfDomain
  | _ => .error .noFunction

def numCmp (a b : Value) (want : Ordering) : R Bool :=
  match numParts a, numParts b with
  | some p, some q => .ok (cmpDyadic p q == want)
  | _, _ => .error .outOfDomain          -- inf / nan

/-- `a > b` (math.py, strings.py, collections.py, and the null overloads of common.py) -/
def gtV : Value → Value → R Bool
  | null, _ => .ok false
  | _, null => .ok true
  | int a, int b => .ok (decide (a > b))
  | int a, flt b => numCmp (int a) (flt b) .gt
  | flt a, int b => numCmp (flt a) (int b) .gt
  | flt a, flt b => numCmp (flt a) (flt b) .gt
  | str a, str b => .ok (cmpChars a b == .gt)
  | Value.set a, Value.set b => .ok (setLt b a)
  | _, _ => .error .noFunction

/-- `a < b` -/
def ltV : Value → Value → R Bool
  | null, null => .ok false
  | null, _ => .ok true
  | _, null => .ok false
  | int a, int b => .ok (decide (a < b))
  | int a, flt b => numCmp (int a) (flt b) .lt
  | flt a, int b => numCmp (flt a) (int b) .lt
  | flt a, flt b => numCmp (flt a) (flt b) .lt
  | str a, str b => .ok (cmpChars a b == .lt)
  | Value.set a, Value.set b => .ok (setLt a b)
  | _, _ => .error .noFunction

/-- Python subscription of a sequence -/
def pyIndex (l : VL) (i : Int) : R Value :=
  let j := if i < 0 then i + l.length else i
  if 0 ≤ j && j < l.length then .ok (l.getD j.toNat null) else .error .index

/-- `x[i]` (`#indexer`) -/
def indexV (x k : Value) : R Value :=
  match x, k with
  | tuple l, int i => pyIndex l i
  | list l, int i => pyIndex l i
  | dict d, k => if hashable k then (match dGet d k with | some v => .ok v | none => .error .key) else .error .type
  | _, _ => .error .noFunction

/-- `x.name` (`#operator_.`) for a single value inside a lambda -/
def memberV (x : Value) (name : List Char) : R Value :=
  match x with
  | dict d => match dGet d (str name) with | some v => .ok v | none => .error .key
  | tuple _ | list _ | Value.set _ | iter _ => .error .outOfDomain   -- a nested lazy projection
  | _ => .error .unknownFunction

def intChars (i : Int) : List Char :=
  if i < 0 then '-' :: Nat.toDigits 10 i.natAbs else Nat.toDigits 10 i.toNat

/-- `repr` of a double, where that is its exact decimal expansion in positional notation: a whole
    number below 10^15, or at most 8 binary places after an integer part below 10^7 (<= 15
    significant digits, so no shorter decimal string reads back as the same double) -/
def fltChars (w : UInt64) : Option (List Char) :=
  match fltParts w with
  | none => none
  | some (m, e) =>
    let sign : List Char := if signBit w then ['-'] else []
    if m == 0 then some (sign ++ ['0', '.', '0'])
    else
      let r := stripTwos (Nat.log2 m.natAbs + 1) m.natAbs
      let e' : Int := e + r.2
      if e' ≥ 0 then
        let n := r.1 * 2 ^ e'.toNat
        if n < 10 ^ 15 then some (sign ++ Nat.toDigits 10 n ++ ['.', '0']) else none
      else
        let f := (-e').toNat
        let ip := r.1 / 2 ^ f
        let fr := r.1 % 2 ^ f
        if f ≤ 8 && ip < 10 ^ 7 then
          let ds := Nat.toDigits 10 (fr * 5 ^ f)
          some (sign ++ Nat.toDigits 10 ip ++ ['.'] ++ List.replicate (f - ds.length) '0' ++ ds)
        else none

/-- `str(x)` (strings.py): `null` / `true` / `false`, otherwise Python's `str` -/
def strV : Value → R Value
  | null => .ok (str ['n', 'u', 'l', 'l'])
  | Value.bool true => .ok (str ['t', 'r', 'u', 'e'])
  | Value.bool false => .ok (str ['f', 'a', 'l', 's', 'e'])
  | int i => .ok (str (intChars i))
  | str s => .ok (str s)
  | flt w => match fltChars w with | some s => .ok (str s) | none => .error .outOfDomain
  | _ => .error .outOfDomain           -- Python's repr of a tuple / dict / set

/-- `x.len()`: collections (queries.py / collections.py) and strings (strings.py) -/
def lenV : Value → R Value
  | str s => .ok (int s.length)
  | tuple l | list l | Value.set l | iter l => .ok (int l.length)
  | dict d => .ok (int d.length)
  | _ => .error .noMethod

mutual
/-- is there a generator (a lazy, one-shot result of a lambda) inside?  Such a value has identity,
    not content: it hashes and compares by identity and can be consumed once. -/
def hasLazy : Value → Bool
  | iter _ => true
  | tuple l | list l => hasLazyL l
  | dict d => hasLazyP d
  | _ => false                                   -- (set elements, like dict keys, are hashed by content when
                                                 --  the set is built - `hashKey`, `hashAll`: never generators)
def hasLazyL : List Value → Bool
  | [] => false
  | x :: xs => hasLazy x || hasLazyL xs
def hasLazyP : List (Value × Value) → Bool
  | [] => false
  | (_, v) :: r => hasLazy v || hasLazyP r      -- (keys are hashed by content: never generators, see `hashKey`)
end

/-! ### lazy sequences -/

/-- a one-shot iterator: yields `items`, then stops (`err = none`) or raises -/
structure LSeq where
  items : VL
  err : Option Err := none
deriving Repr, Inhabited

namespace LSeq

def ofList (xs : VL) : LSeq := ⟨xs, none⟩

/-- consume everything (`tuple(it)`, a `for` loop to the end) -/
def toList (s : LSeq) : R VL := match s.err with | none => .ok s.items | some e => .error e

/-- `map(f, it)` -/
def mapM (f : Value → R Value) : VL → Option Err → LSeq
  | [], e => ⟨[], e⟩
  | x :: xs, e =>
    match f x with
    | .error er => ⟨[], some er⟩
    | .ok v => let r := mapM f xs e; ⟨v :: r.items, r.err⟩

/-- `filter(p, it)` -/
def filterM (p : Value → R Bool) : VL → Option Err → LSeq
  | [], e => ⟨[], e⟩
  | x :: xs, e =>
    match p x with
    | .error er => ⟨[], some er⟩
    | .ok b => let r := filterM p xs e; ⟨if b then x :: r.items else r.items, r.err⟩

/-- a generator that yields a list per element (`selectMany`) -/
def flatMapM (f : Value → R VL) : VL → Option Err → LSeq
  | [], e => ⟨[], e⟩
  | x :: xs, e =>
    match f x with
    | .error er => ⟨[], some er⟩
    | .ok vs => let r := flatMapM f xs e; ⟨vs ++ r.items, r.err⟩

/-- `itertools.takewhile` -/
def takeWhileM (p : Value → R Bool) : VL → Option Err → LSeq
  | [], e => ⟨[], e⟩
  | x :: xs, e =>
    match p x with
    | .error er => ⟨[], some er⟩
    | .ok true => let r := takeWhileM p xs e; ⟨x :: r.items, r.err⟩
    | .ok false => ⟨[], none⟩

/-- `itertools.dropwhile` -/
def dropWhileM (p : Value → R Bool) : VL → Option Err → LSeq
  | [], e => ⟨[], e⟩
  | x :: xs, e =>
    match p x with
    | .error er => ⟨[], some er⟩
    | .ok true => dropWhileM p xs e
    | .ok false => ⟨x :: xs, e⟩

/-- `islice(it, n)` -/
def take (n : Nat) (s : LSeq) : LSeq := ⟨s.items.take n, if n ≤ s.items.length then none else s.err⟩
/-- `islice(it, n, None)` -/
def drop (n : Nat) (s : LSeq) : LSeq := ⟨s.items.drop n, s.err⟩
/-- a lazy, order-preserving rewrite of the elements that has produced `f prefix` when the
    source raises after `prefix` (true of every generator below that is used with it) -/
def lift (f : VL → VL) (s : LSeq) : LSeq := ⟨f s.items, s.err⟩
/-- `yield from it; yield from tail` -/
def thenList (s : LSeq) (tail : VL) : LSeq := match s.err with | none => ⟨s.items ++ tail, none⟩ | some e => ⟨s.items, some e⟩
def thenSeq (s t : LSeq) : LSeq := match s.err with | none => ⟨s.items ++ t.items, t.err⟩ | some e => ⟨s.items, some e⟩
def cons (xs : VL) (s : LSeq) : LSeq := ⟨xs ++ s.items, s.err⟩

/-- first element satisfying `p` with its index; scanning stops there -/
def findM (p : Value → R Bool) (i : Nat) : VL → Option Err → R (Option (Nat × Value))
  | [], none => .ok none
  | [], some e => .error e
  | x :: xs, e => do
    if (← p x) then pure (some (i, x)) else findM p (i + 1) xs e

end LSeq

/-! ### reduce / accumulate with failures -/

def foldM2 (f : Value → Value → R Value) (acc : Value) : VL → R Value
  | [] => .ok acc
  | x :: xs => do let a ← f acc x; foldM2 f a xs

def scanM2 (f : Value → Value → R Value) (acc : Value) : VL → Option Err → LSeq
  | [], e => ⟨[], e⟩
  | x :: xs, e =>
    match f acc x with
    | .error er => ⟨[], some er⟩
    | .ok a => let t := scanM2 f a xs e; ⟨a :: t.items, t.err⟩

/-- `functools.reduce(f, it[, seed])` -/
def reduceM (f : Value → Value → R Value) (seed : Option Value) (s : LSeq) : R Value :=
  match seed, s.items with
  | some a, xs => do let r ← foldM2 f a xs; match s.err with | none => pure r | some e => .error e
  | none, [] => match s.err with | none => .error .type | some e => .error e
  | none, x :: xs => do let r ← foldM2 f x xs; match s.err with | none => pure r | some e => .error e

/-! ### the lambda family

`Lam` is the closed family of one-argument lambdas the generator draws from.  Besides arithmetic,
comparison, member / index access and constants it contains lambdas that work on an element that
is itself a collection: `$.len()`, `$.first()` / `$.first(d)`, `$.last()`, `$.single()`, `$.sum()`,
`str(..)`, `.. / 2`, and the LAZY `$.where(p)`, `$.select(f)`, `$.take(n)`, `range($)`, whose result
is a generator that nobody has consumed yet when the lambda returns.

A lambda is a pure function of its argument: `eval` is a Lean function, so two applications to equal
elements give equal results, and an application that returns a lazy sequence returns a FRESH one
(`Props/C13.lam_fresh`, `select_congr_dup`).  What laziness leaves observable is *when* an exception
surfaces: a sub-expression denotes an `LRes` - a value, or an `LSeq` that raises only when a consumer
(`len`, `first`, `sum`...) reaches the failing element. -/

inductive Lam where
  | arg                                -- `$`
  | const (v : Value)
  | add (l : Lam) (k : Int)            -- `l + k`
  | mul (l : Lam) (k : Int)            -- `l * k`
  | mod (l : Lam) (k : Int)            -- `l mod k`
  | gt (l : Lam) (k : Int)             -- `l > k`
  | eq (l : Lam) (v : Value)           -- `l = v`
  | member (l : Lam) (name : List Char) -- `l.name`
  | index (l : Lam) (i : Int)          -- `l[i]`
  | not (l : Lam)                      -- `not l`
  | pair (a b : Lam)                   -- `[a, b]`
  | len (l : Lam)                      -- `l.len()`
  | first (l : Lam) (d : Option Value) -- `l.first()` / `l.first(d)`
  | last (l : Lam) (d : Option Value)  -- `l.last()` / `l.last(d)`
  | single (l : Lam)                   -- `l.single()`
  | sum (l : Lam)                      -- `l.sum()`
  | whereIn (l p : Lam)                -- `l.where(p)`   (lazy)
  | selectIn (l f : Lam)               -- `l.select(f)`  (lazy)
  | takeIn (l : Lam) (n : Int)         -- `l.take(n)`    (lazy)
  | rangeOf (l : Lam)                  -- `range(l)`     (lazy)
  | strOf (l : Lam)                    -- `str(l)`
  | half (l : Lam)                     -- `l / 2`
deriving Repr, Inhabited

/-- what a sub-expression of a lambda denotes -/
inductive LRes where
  | val (v : Value)
  | lazy (s : LSeq)                    -- a generator nobody has consumed yet
deriving Repr, Inhabited

/-- the result as a `Value`: a generator becomes an `iter`.  `Value` has no constructor for a generator
    that raises when it is consumed later (by the finaliser, by `selectMany`): no prediction then. -/
def LRes.force : LRes → R Value
  | .val v => .ok v
  | .lazy ⟨items, none⟩ => .ok (iter items)
  | .lazy ⟨_, some _⟩ => .error .outOfDomain

/-- the receiver of a method whose parameter is declared `Iterable()` -/
def LRes.seq : LRes → R LSeq
  | .lazy s => .ok s
  | .val (tuple l) | .val (list l) | .val (iter l) => .ok ⟨l, none⟩
  | .val (Value.set l) => if l.length > 1 then .error .outOfDomain else .ok ⟨l, none⟩   -- iteration order
  | .val _ => .error .noMethod

/-- `first()` / `first(default)` on a one-shot iterator: pulls one element -/
def firstOf (s : LSeq) (dflt : Option Value) : R Value :=
  match s.items, s.err, dflt with
  | x :: _, _, _ => .ok x
  | [], some e, _ => .error e
  | [], none, some d => .ok d
  | [], none, none => .error .stopIteration

/-- `single()`: pulls two elements -/
def singleOf (s : LSeq) : R Value :=
  match s.items, s.err with
  | [], none => .error .stopIteration
  | [], some e => .error e
  | [x], none => .ok x
  | [_], some e => .error e
  | _ :: _ :: _, _ => .error .stopIteration

/-- `last()` / `last(default)`: consumes everything -/
def lastOf (s : LSeq) (dflt : Option Value) : R Value := do
  let xs ← s.toList
  match xs.getLast?, dflt with
  | some x, _ => pure x
  | none, some d => pure d
  | none, none => .error .stopIteration

def Lam.evalR : Lam → Value → R LRes
  | .arg, x => .ok (.val x)
  | .const v, _ => .ok (.val v)
  | .add l k, x => do let v ← (← l.evalR x).force; let r ← plus v (int k); pure (.val r)
  | .mul l k, x => do let v ← (← l.evalR x).force; let r ← mulInt v k; pure (.val r)
  | .mod l k, x => do let v ← (← l.evalR x).force; let r ← modInt v k; pure (.val r)
  | .gt l k, x => do let v ← (← l.evalR x).force; let b ← gtV v (int k); pure (.val (bool b))
  | .eq l w, x => do let v ← (← l.evalR x).force; pure (.val (bool (pyEq v w)))
  | .member l n, x => do let v ← (← l.evalR x).force; let r ← memberV v n; pure (.val r)
  | .index l i, x => do let v ← (← l.evalR x).force; let r ← indexV v (int i); pure (.val r)
  | .not l, x => do let v ← (← l.evalR x).force; pure (.val (bool (!truthy v)))
  | .pair a b, x => do let u ← (← a.evalR x).force; let v ← (← b.evalR x).force; pure (.val (tuple [u, v]))
  | .len l, x => do
    match ← l.evalR x with
    | .lazy s => do let xs ← s.toList; pure (.val (int xs.length))      -- counting consumes the generator
    | .val v => do let n ← lenV v; pure (.val n)
  | .first l d, x => do let s ← (← l.evalR x).seq; let r ← firstOf s d; pure (.val r)
  | .last l d, x => do let s ← (← l.evalR x).seq; let r ← lastOf s d; pure (.val r)
  | .single l, x => do let s ← (← l.evalR x).seq; let r ← singleOf s; pure (.val r)
  | .sum l, x => do let s ← (← l.evalR x).seq; let r ← reduceM plus none s; pure (.val r)
  | .whereIn l p, x => do
    let s ← (← l.evalR x).seq
    pure (.lazy (LSeq.filterM (fun y => do let v ← (← p.evalR y).force; pure (truthy v)) s.items s.err))
  | .selectIn l f, x => do
    let s ← (← l.evalR x).seq
    pure (.lazy (LSeq.mapM (fun y => do (← f.evalR y).force) s.items s.err))
  | .takeIn l n, x => do
    let s ← (← l.evalR x).seq
    if n < 0 then .error .value else pure (.lazy (s.take n.toNat))       -- islice checks its bound when it is built
  | .rangeOf l, x => do
    match ← (← l.evalR x).force with
    | int n => pure (.lazy ⟨range 0 n 1, none⟩)
    | Value.bool b => pure (.lazy ⟨range 0 (if b then 1 else 0) 1, none⟩)       -- the parameter is a plain Python `int`
    | _ => .error .noFunction
  | .strOf l, x => do let v ← (← l.evalR x).force; let r ← strV v; pure (.val r)
  | .half l, x => do let v ← (← l.evalR x).force; let r ← halfV v; pure (.val r)

/-- lambdas that hand their argument on untouched -/
def Lam.passThrough : Lam → Bool
  | .arg | .const _ => true
  | _ => false

/-- one application of the lambda to one element.  An element that is (or contains) a generator made by
    an earlier stage can be consumed once only: the model follows it through lambdas that do not look at
    it, and makes no prediction otherwise. -/
def Lam.eval (l : Lam) (x : Value) : R Value :=
  if !l.passThrough && hasLazy x then .error .outOfDomain
  else do let r ← l.evalR x; r.force

/-- the lambda as a predicate (`filter`, `takewhile`... test truthiness) -/
def Lam.test (l : Lam) (x : Value) : R Bool := do let v ← l.eval x; pure (truthy v)

/-- total readings, meaningful where `eval` does not fail -/
def Lam.fn (l : Lam) (x : Value) : Value := match l.eval x with | .ok v => v | .error _ => null
def Lam.pred (l : Lam) (x : Value) : Bool := truthy (l.fn x)

inductive Lam2 where
  | fst | snd                 -- `$1`, `$2`
  | const (v : Value)
  | plus                      -- `$1 + $2`
  | gt                        -- `$1 > $2`
  | eq                        -- `$1 = $2`
  | pair                      -- `[$1, $2]`
  | maxOf                     -- `max($1, $2)`
  | on1 (l : Lam)             -- `l` applied to `$1`
  | on2 (l : Lam)             -- `l` applied to `$2`
  | plusOn (l : Lam)          -- `$1 + (l applied to $2)`   e.g. `$1 + $2.len()`
deriving Repr, Inhabited

/-- `max(a, b)` of math.py: `b` if `b > a` else `a` -/
def maxV (a b : Value) : R Value := do let g ← gtV b a; pure (if g then b else a)
/-- `min(a, b)`: `a` if `b > a` else `b` -/
def minV (a b : Value) : R Value := do let g ← gtV b a; pure (if g then a else b)

def Lam2.eval : Lam2 → Value → Value → R Value
  | .fst, a, _ => .ok a
  | .snd, _, b => .ok b
  | .const v, _, _ => .ok v
  | .plus, a, b => Seq.plus a b
  | .gt, a, b => do let g ← gtV a b; pure (bool g)
  | .eq, a, b => if hasLazy a && hasLazy b then .error .outOfDomain else .ok (bool (pyEq a b))   -- (identity)
  | .pair, a, b => .ok (tuple [a, b])
  | .maxOf, a, b => maxV a b
  | .on1 l, a, _ => l.eval a
  | .on2 l, _, b => l.eval b
  | .plusOn l, a, b => do let v ← l.eval b; Seq.plus a v

def Lam2.fn (l : Lam2) (a b : Value) : Value := match l.eval a b with | .ok v => v | .error _ => null

/-! ### distinct, with hashing failures -/

/-- may `k` be a set element / dict key?  A generator hashes by identity: no prediction. -/
def hashKey (k : Value) : Option Err :=
  if hasLazy k then some .outOfDomain else if !hashable k then some .type else none

def distinctM (key : Value → R Value) (seen : VL) : VL → Option Err → LSeq
  | [], e => ⟨[], e⟩
  | x :: xs, e =>
    match key x with
    | .error er => ⟨[], some er⟩
    | .ok k =>
      if hasLazy k then ⟨[], some .outOfDomain⟩
      else if !hashable k then ⟨[], some .type⟩
      else if sMem seen k then distinctM key seen xs e
      else let r := distinctM key (k :: seen) xs e; ⟨x :: r.items, r.err⟩

/-! ### ordering with failures -/

/-- can these sort keys be ordered by yaql's `<` / `>`?  `none` = yes.  Null sorts before
    anything; among the non-null keys at most one may be of an unordered type. -/
def keysComparable (keys : VL) : Option Err :=
  let nn := keys.filter fun k => match k with | null => false | _ => true
  if nn.length ≤ 1 then none
  else if nn.all (fun k => match k with | int _ | flt _ => true | _ => false) then
    (if nn.all (fun k => (numParts k).isSome) then none else some .outOfDomain)      -- (inf / nan)
  else if nn.all (fun k => match k with | str _ => true | _ => false) then none
  else if nn.any (fun k => match k with | Value.set _ => true | _ => false) then some .outOfDomain
  else some .noFunction

def errsOf : List (R Value) → List Err
  | [] => []
  | .error e :: r => e :: errsOf r
  | .ok _ :: r => errsOf r

/-- split a group into classes of `==` keys (encounter order) -/
def tieGroups (g : List (Value × Value)) : List VL :=
  (g.foldl (fun acc p => addToGroup p.1 p.2 acc) []).map (·.2)

/-- the exceptions a sort over these fields may raise on these groups of tied elements -/
def sortErrs : List (Lam × Bool) → List VL → List Err
  | [], _ => []
  | f :: rest, groups =>
    groups.flatMap fun g =>
      if g.length ≤ 1 then []
      else
        let ks := g.map f.1.eval
        let more : List Err := if rest.isEmpty then [] else [.sortMixed]
        match errsOf ks with
        | e :: es =>
          -- the keys that could be computed may in addition be unordered
          let okKeys := ks.filterMap fun r => match r with | .ok k => some k | .error _ => none
          (e :: es) ++ (match keysComparable okKeys with | some e' => [e'] | none => []) ++ more
        | [] =>
          let keys := g.map f.1.fn
          match keysComparable keys with
          | some e => e :: more
          | none => sortErrs rest (tieGroups (keys.zip g))

def ltT (a b : Value) : Bool := match ltV a b with | .ok r => r | .error _ => false
def gtT (a b : Value) : Bool := match gtV a b with | .ok r => r | .error _ => false

def fieldsFn (fs : List (Lam × Bool)) : List Field := fs.map fun f => (f.1.fn, f.2)

/-- `OrderingIterable.do_sort` on an already listed collection -/
def sortRun (fs : List (Lam × Bool)) (xs : VL) : R VL :=
  match sortErrs fs [xs] with
  | [] => .ok (orderFields ltT gtT (fieldsFn fs) xs)
  | e :: es => if es.all (· == e) then .error e
               else if (e :: es).any (· == .outOfDomain) then .error .outOfDomain else .error .sortMixed

/-! ### groupBy with the legacy aggregator fallback (`GroupAggregator`) -/

def pyLen? : Value → Option Nat
  | str s => some s.length
  | tuple l | list l | Value.set l => some l.length
  | dict d => some d.length
  | _ => none

def groupAggM (agg : Lam) (failure : Option Err) (fallback : Bool) : List (Value × VL) → LSeq
  | [] => ⟨[], none⟩
  | (k, vs) :: rest =>
    let tryFallback (failure : Err) : LSeq :=
      let fb : Option Value :=
        if fallback then
          match agg.eval (tuple [k, list vs]) with
          | .ok r => if pyLen? r == some 2 then some r else none
          | .error _ => none
        else none
      match fb with
      | some r => let t := groupAggM agg (some failure) fallback rest; ⟨r :: t.items, t.err⟩
      | none =>
        -- (what the retried aggregator does is not followed: no prediction at all)
        if fallback && (match agg.eval (tuple [k, list vs]) with | .error .outOfDomain => true | _ => false)
        then ⟨[], some .outOfDomain⟩ else ⟨[], some failure⟩
    match failure with
    | some f => tryFallback f
    | none =>
      if hasLazyL vs then ⟨[], some .outOfDomain⟩ else      -- (the legacy test compares values with `==`)
      match agg.eval (list vs) with
      | .error e =>
        if e == .noMethod || e == .noFunction || e == .index then tryFallback e
        else ⟨[], some e⟩
      | .ok r =>
        let legacyShape := vs.length == 2 && (match r with
          | tuple l | list l => l.length == 2 && pyEq (l.getD 0 null) (vs.getD 0 null)
          | _ => false)
        let t := groupAggM agg none (fallback && legacyShape) rest
        ⟨tuple [k, r] :: t.items, t.err⟩

/-- build the groups eagerly (as `group_by` does before returning) -/
def groupsM (key : Lam) (val : Option Lam) : VL → List (Value × VL) → R (List (Value × VL))
  | [], g => .ok g
  | x :: xs, g => do
    let v ← (val.getD .arg).eval x
    let k ← key.eval x
    if hasLazy k then .error .outOfDomain
    if !hashable k then .error .type
    groupsM key val xs (addToGroup k v g)

/-! ### zip / join -/

/-- `zip(*its)`: row `i` asks every iterator in turn; the first one that cannot deliver
    ends the zip (exhausted) or raises -/
def zipRow (i : Nat) : List LSeq → Except (Option Err) VL
  | [] => .ok []
  | s :: r =>
    if i < s.items.length then (zipRow i r).map (s.items.getD i null :: ·)
    else .error s.err

def zipM (ss : List LSeq) : Nat → Nat → LSeq
  | 0, _ => ⟨[], none⟩
  | fuel + 1, i =>
    match zipRow i ss with
    | .error e => ⟨[], e⟩
    | .ok row => let t := zipM ss fuel (i + 1); ⟨tuple row :: t.items, t.err⟩

/-- rows of `join` until the first exception (the elements produced before it are kept) -/
def joinPartial (pred sel : Lam2) (x : Value) : VL → VL × Option Err
  | [] => ([], none)
  | y :: ys =>
    match pred.eval x y with
    | .error e => ([], some e)
    | .ok b =>
      if truthy b then
        match sel.eval x y with
        | .error e => ([], some e)
        | .ok v => let (r, e) := joinPartial pred sel x ys; (v :: r, e)
      else joinPartial pred sel x ys

def joinM (pred sel : Lam2) (ys : LSeq) : VL → Option Err → LSeq
  | [], e => ⟨[], e⟩
  | x :: xs, e =>
    -- the inner collection is memorized: its own failure shows up at the end of the first pass
    let (row, er) := joinPartial pred sel x ys.items
    match er with
    | some er => ⟨row, some er⟩
    | none =>
      match ys.err with
      | some ey => ⟨row, some ey⟩
      | none => let t := joinM pred sel ys xs e; ⟨row ++ t.items, t.err⟩

/-! ### splitWhere / sliceWhere with failures (they list the collection first, inside the generator) -/

def splitWhereM (p : Value → R Bool) (cur : VL) : VL → LSeq
  | [] => ⟨if cur.isEmpty then [] else [tuple cur], none⟩
  | x :: xs =>
    match p x with
    | .error e => ⟨[], some e⟩
    | .ok true => let t := splitWhereM p [] xs; ⟨tuple cur :: t.items, t.err⟩
    | .ok false => splitWhereM p (cur ++ [x]) xs

def sliceWhereM (f : Value → R Value) (cur : VL) (prev : Value) : VL → LSeq
  | [] => ⟨[tuple cur], none⟩
  | x :: xs =>
    match f x with
    | .error e => ⟨[], some e⟩
    | .ok v =>
      if hasLazy v || hasLazy prev then ⟨[], some .outOfDomain⟩      -- generators compare by identity
      else if pyEq v prev then sliceWhereM f (cur ++ [x]) prev xs
      else let t := sliceWhereM f [x] v xs; ⟨tuple cur :: t.items, t.err⟩

/-! ### mergeWith with failing mergers (same traversal as `mergeDicts`) -/

def mergeDictsM (lmF imF : Value → Value → R Value) : Nat → Nat → KV → KV → R KV
  | 0, _, _, _ => .error .outOfDomain
  | fuel + 1, lvl, d1, d2 =>
    let step (acc : R KV) (p : Value × Value) : R KV := do
      let acc ← acc
      match dGet d2 p.1 with
      | none => pure (acc ++ [p])
      | some v2 =>
        if lvl != 1 then
          match v2, p.2 with
          | dict e2, dict e1 => do
            let m ← mergeDictsM lmF imF fuel (if lvl = 0 then 0 else lvl - 1) e1 e2
            pure (acc ++ [(p.1, dict m)])
          | dict _, _ => .error .type
          | tuple _, tuple _ | tuple _, list _ | list _, tuple _ | list _, list _ => do
            let m ← lmF p.2 v2
            pure (acc ++ [(p.1, m)])
          | tuple _, _ | list _, _ => .error .type
          | _, _ => do let m ← imF p.2 v2; pure (acc ++ [(p.1, m)])
        else do let m ← imF p.2 v2; pure (acc ++ [(p.1, m)])
    do let r ← d1.foldl step (.ok []); pure (r ++ d2.filter fun q => !dHas d1 q.1)

/-! ### run-time objects -/

inductive ViewKind where | keys | values | items
deriving Repr, DecidableEq, Inhabited

inductive Obj where
  | val (v : Value)                 -- finished data; a `set` here iterates in the order of its list
  | dset (l : VL)                   -- a Value.set built during evaluation (iteration order not modelled)
  | lazy (s : LSeq)                 -- a one-shot iterator
  | ordering (src : LSeq) (fields : List (Lam × Bool))   -- OrderingIterable, not sorted yet
  | view (kind : ViewKind) (d : KV) -- dict view
  | mdict (d : KV)                  -- a plain (mutable, unhashable) dict: what toDict / delete / mergeWith return
  | opaque (v : Value)              -- a result with plain dicts nested inside (deep mergeWith): only finalised
deriving Repr, Inhabited

def viewElems : ViewKind → KV → VL
  | .keys, d => dictKeys d
  | .values, d => dictValues d
  | .items, d => dictItems d

/-! ### the engine options and context flags the collection functions and the finaliser look at

A `Statement` is evaluated under the options of the engine that parsed it (`YaqlFactory.create(options)`,
`engine.copy(options)`, `engine(text, options)`), in a context whose standard library was registered by
`yaql.create_context(..)` with ITS flags (`group_by_agg_fallback`, `no_sets`).  Every definition below that depends on an
option or a flag takes the record. -/

structure Opts where
  /-- `yaql.iterableDicts`: a parameter declared `Iterable()` accepts a dictionary (and iterates its keys) -/
  iterableDicts : Bool := false
  /-- `yaql.convertTuplesToLists`: the finaliser turns tuples (yaql's immutable lists) into lists -/
  tuplesToLists : Bool := true
  /-- `yaql.convertSetsToLists`: the finaliser turns sets into lists -/
  setsToLists : Bool := true
  /-- `yaql.convertInputData`: the document is converted (`convert_input_data`) before it is bound to `$` -/
  convertInput : Bool := true
  /-- `yaql.limitIterators` (`none` = unlimited) -/
  limit : Option Nat := none
  /-- `yaql.convertOutputData`: the result passes `convert_output_data`; off, `evaluate()` hands the run-time object out -/
  convertOutput : Bool := true
  /-- `create_context(group_by_agg_fallback=..)`: `groupBy` retries a failing aggregator in the pre-1.1.1 style -/
  aggFallback : Bool := true
  /-- `create_context(no_sets=True)`: the set functions are not registered -/
  noSets : Bool := false
deriving Repr, DecidableEq, Inhabited

/-- `utils.limit_iterable` over a one-shot iterator: after `n` elements the next pull raises - if there is a next
    element (the source is asked first, so its own failure at that position comes first) -/
def LSeq.limitTo (n : Nat) (s : LSeq) : LSeq :=
  if s.items.length > n then ⟨s.items.take n, some .tooLarge⟩ else s

/-- `limit_iterable` over a sized collection (sequence, set, mapping, keys / items view): checked when the argument is
    converted -/
def limitSized (opts : Opts) (l : VL) : R LSeq :=
  match opts.limit with
  | some n => if l.length > n then .error .tooLarge else .ok ⟨l, none⟩
  | none => .ok ⟨l, none⟩

def limitLazy (opts : Opts) (s : LSeq) : LSeq :=
  match opts.limit with
  | some n => s.limitTo n
  | none => s

/-- how a parameter declared `Iterable()` sees the object. `ordered`: the consumer depends on
    the iteration order.  `none` = the overload does not accept the receiver. -/
def Obj.iterable? (opts : Opts) (ordered : Bool) : Obj → Option (R LSeq)
  | .val (tuple l) | .val (list l) | .val (Value.set l) => some (limitSized opts l)
  | .val (iter l) => some (.ok (limitLazy opts ⟨l, none⟩))
  | .dset l => some (do let s ← limitSized opts l; if ordered && l.length > 1 then .error .outOfDomain else pure s)
  | .lazy s => some (.ok (limitLazy opts s))
  | .ordering src fs =>
    some (.ok (limitLazy opts (match src.err with
      | some e => ⟨[], some e⟩
      | none => match sortRun fs src.items with | .ok l => ⟨l, none⟩ | .error e => ⟨[], some e⟩)))
  | .view .values d => some (.ok (limitLazy opts ⟨dictValues d, none⟩))
  | .view k d => some (limitSized opts (viewElems k d))
  -- `yaql.iterableDicts`: a dictionary is the collection of its keys
  | .val (dict d) | .mdict d => if opts.iterableDicts then some (limitSized opts (dictKeys d)) else none
  | .val _ => none
  | .opaque _ => none

/-- error of a method whose receiver is not accepted -/
def badReceiver : Obj → Err
  | .val (str _) => .outOfDomain    -- strings have their own `len`, `replace`, `indexOf`, `join`...
  | _ => .noMethod

def Obj.it (o : Obj) (opts : Opts) (ordered : Bool := true) : R LSeq :=
  match o.iterable? opts ordered with
  | some r => r
  | none => .error (badReceiver o)

def Obj.isSequence : Obj → Bool
  | .val (tuple _) | .val (list _) => true
  | _ => false

/-- the receiver as a `SetType` value -/
def Obj.asSet? : Obj → Option VL
  | .val (Value.set l) | .dset l => some l
  | _ => none

def Obj.asDict? : Obj → Option KV
  | .val (dict d) => some d
  | _ => none

def lazyOk (xs : VL) : R Obj := .ok (.lazy ⟨xs, none⟩)

/-- `frozenset(it)`: an unhashable element raises when it is reached, a source failure at the end -/
def hashAll (s : LSeq) : R VL := if s.items.all hashable then s.toList else .error .type

def Obj.ofValue : Value → Obj
  | iter l => .lazy ⟨l, none⟩
  | v => .val v

/-! ### input conversion (`convert_input_data`) and finalisation (`convert_output_data`) -/

mutual
/-- `utils.convert_input_data`: host sequences become tuples, mappings FrozenDicts, sets frozensets; the members of a
    one-shot iterator are converted as they are pulled -/
def convertInput : Value → Value
  | tuple l | list l => tuple (convertInputL l)
  | Value.set l => Value.set (convertInputL l)
  | iter l => iter (convertInputL l)
  | dict d => dict (convertInputP d)
  | v => v
def convertInputL : List Value → List Value
  | [] => []
  | x :: xs => convertInput x :: convertInputL xs
def convertInputP : List (Value × Value) → List (Value × Value)
  | [] => []
  | (k, v) :: r => (convertInput k, convertInput v) :: convertInputP r
end

mutual
/-- a host document the model can hold unconverted: no dictionary below the top level (`Value.dict` is the hashable
    FrozenDict; a plain dict exists only as the run-time object `Obj.mdict`) -/
def noDict : Value → Bool
  | dict _ => false
  | tuple l | list l | Value.set l | iter l => noDictL l
  | _ => true
def noDictL : List Value → Bool
  | [] => true
  | x :: xs => noDict x && noDictL xs
end

/-- what `$` is bound to: `Statement.evaluate(data=...)` converts the document unless `yaql.convertInputData` is off -/
def Obj.ofInput (opts : Opts) (data : Value) : R Obj :=
  if opts.convertInput then .ok (Obj.ofValue (convertInput data))
  else match data with
    | dict d => if noDictL (dictValues d) then .ok (.mdict d) else .error .outOfDomain
    | v => if noDict v then .ok (Obj.ofValue v) else .error .outOfDomain

mutual
/-- conversion succeeds: no dict has a key that turns into an unhashable list / dict (the default options; used by
    Model/Eval.lean) -/
def finOk : Value → Bool
  | tuple l | list l | Value.set l | iter l => finOkL l
  | dict d => finOkP d
  | _ => true
def finOkL : List Value → Bool
  | [] => true
  | x :: xs => finOk x && finOkL xs
def finOkP : List (Value × Value) → Bool
  | [] => true
  | (k, v) :: r =>
    (match k with | tuple _ | list _ | Value.set _ | iter _ | dict _ => false | _ => true) && finOk v && finOkP r
end

mutual
/-- `hash()` of a finalised value does not raise: lists, dicts and (mutable) sets are unhashable -/
def outHashable : Value → Bool
  | list _ | dict _ | Value.set _ | iter _ => false
  | tuple l => outHashableL l
  | _ => true
def outHashableL : List Value → Bool
  | [] => true
  | x :: xs => outHashable x && outHashableL xs
end

def overLimit (opts : Opts) (n : Nat) : Bool :=
  match opts.limit with
  | some k => n > k
  | none => false

mutual
/-- `utils.convert_output_data` under the engine's options: tuples become lists unless `convertTuplesToLists` is off
    (a mutable list stays a list), sets become lists with `convertSetsToLists` and Python sets otherwise (their converted
    members must be hashable), a generator inside the data is consumed into a list, a dict's value is converted before
    its key and the converted key must be hashable; every level is passed through the limiter first -/
def finV (opts : Opts) : Value → R Value   -- (`Value.set` in the result: a Python set, or with `convertSetsToLists` a list in unknown order)
  | tuple l => do
    if overLimit opts l.length then .error .tooLarge
    let r ← finL opts l
    pure (if opts.tuplesToLists then list r else tuple r)
  | list l => do
    if overLimit opts l.length then .error .tooLarge
    let r ← finL opts l
    pure (list r)
  | iter l => do
    let r ← finLim opts (match opts.limit with | some k => k | none => l.length) l
    pure (list r)
  | Value.set l => do
    if overLimit opts l.length then .error .tooLarge
    -- the members are converted (and, for a Python set, hashed) one by one in the set's iteration order, which the model
    -- does not know: when they fail in different ways only "raises" is predicted
    match finSetErrs opts l with
    | e :: rest => if rest.all (· == e) then .error e else .error .sortMixed
    | [] => do
      let r ← finL opts l
      -- with `convertSetsToLists` the result is the LIST of the members in that order: `Value.set` stands for it as well
      -- (the comparison decides list / set from the options)
      pure (Value.set r)
  | dict d => do
    if overLimit opts d.length then .error .tooLarge
    let r ← finP opts d
    pure (dict r)
  | v => pure v
def finL (opts : Opts) : List Value → R (List Value)
  | [] => pure []
  | x :: xs => do let x' ← finV opts x; let r ← finL opts xs; pure (x' :: r)
/-- how the members of a set fail to be finalised (conversion, then - for a Python set - hashing) -/
def finSetErrs (opts : Opts) : List Value → List Err
  | [] => []
  | x :: xs =>
    (match finV opts x with
     | .error e => [e]
     | .ok v => if !opts.setsToLists && !outHashable v then [.type] else []) ++ finSetErrs opts xs
/-- a lazily limited generator: the element after the `k`-th raises -/
def finLim (opts : Opts) : Nat → List Value → R (List Value)
  | _, [] => pure []
  | 0, _ :: _ => .error .tooLarge
  | k + 1, x :: xs => do let x' ← finV opts x; let r ← finLim opts k xs; pure (x' :: r)
def finP (opts : Opts) : List (Value × Value) → R (List (Value × Value))
  | [] => pure []
  | (k, v) :: r => do
    let v' ← finV opts v
    let k' ← finV opts k
    if !outHashable k' then .error .type
    let r' ← finP opts r
    pure ((k', v') :: r')
end

/-- with `yaql.convertOutputData` off `evaluate()` hands the run-time object out as it is - a tuple, a (mutable) list, a
    frozenset (`Value.set`; so are the keys / items views), a dictionary, or something lazy (`iter`: what the host gets when
    it consumes it, an exception if consuming raises).  No limiter is put around the result. -/
def hostConsumes (s : LSeq) : R Value :=
  match s.err with
  | none => .ok (iter s.items)
  -- yaql wraps a StopIteration that leaves a function call (it must not end the generators on the way); only `evaluate()`
  -- unwraps it again - the host that consumes the result itself meets the wrapper
  | some .stopIteration => .error .wrappedStop
  | some e => .error e

def rawOut (opts : Opts) : Obj → R Value
  | .val v => .ok v
  | .dset l => .ok (Value.set l)
  | .view .values d => .ok (iter (dictValues d))
  | .view k d => .ok (Value.set (viewElems k d))
  | .mdict d => .ok (dict d)
  | .opaque v => .ok v
  | .lazy s => hostConsumes s
  | o => do let s ← o.it { opts with limit := none }; hostConsumes s

/-- the finalised result of a run-time object -/
def finalise (opts : Opts) (o : Obj) : R Value :=
  if !opts.convertOutput then rawOut opts o else
  match o with
  | .val v => finV opts v
  | .dset l => finV opts (Value.set l)
  -- keys() / items(): set-like views, finalised to the list of the keys / of the `[key, value]` pairs in the
  -- dictionary's order (`convert_output_data` has a branch for them before its `Set` branch); values(): an iterable
  | .view .values d => finV opts (iter (dictValues d))
  | .view k d => finV opts (list (viewElems k d))
  | .mdict d => finV opts (dict d)
  | .opaque v => finV opts v
  | o => do
    let s ← o.it opts
    let r ← finL opts s.items
    match s.err with
    | some e => .error e
    | none => pure (list r)

/-! ### the operations -/

inductive Op where
  -- queries.py
  | where_ (p : Lam) | select (f : Lam) | attr (name : List Char)
  | skip (n : Int) | take (n : Int) | append (args : VL) | distinct (key : Option Lam)
  | enumerate (start : Option Int) | any_ (p : Option Lam) | all_ (p : Option Lam)
  | concat (colls : List VL) | len | count | memorize
  | sum (init : Option Value) | max_ (init : Option Value) | min_ (init : Option Value)
  | first (dflt : Option Value) | single | last (dflt : Option Value)
  | selectMany (f : Lam)
  | range1 (stop : Int) | range3 (start stop : Int) (step : Option Int)
  | sequenceTake (start step : Option Int) (n : Int)
  | orderBy (k : Lam) | orderByDescending (k : Lam) | thenBy (k : Lam) | thenByDescending (k : Lam)
  | groupBy (k : Lam) (v : Option Lam) (agg : Option Lam)
  | zip (colls : List VL) | zipLongest (colls : List VL) (dflt : Option Value)
  | join (other : VL) (pred sel : Lam2)
  | repeatTake (times : Option Int) (n : Option Int) | cycleTake (n : Int)
  | takeWhile (p : Lam) | skipWhile (p : Lam)
  | indexOf (v : Value) | lastIndexOf (v : Value) | indexWhere (p : Lam) | lastIndexWhere (p : Lam)
  | slice (n : Int) | splitWhere (p : Lam) | sliceWhere (p : Lam) | splitAt (i : Int)
  | aggregate (f : Lam2) (seed : Option Value) | accumulate (f : Lam2) (seed : Option Value)
  | reverse | mergeWith (other : KV) (lm im : Option Lam2) (lvl : Nat) | isIterable
  | defaultIfEmpty (dflt : VL)
  | generate (pred producer : Lam) (sel : Option Lam) (decycle : Bool) (limit : Nat)
  | generateManyTake (producer : Lam) (sel : Option Lam) (decycle depthFirst : Bool) (n : Int)
  -- collections.py
  | listFn | flatten | toList | listLit (extra : VL)
  | dictFn | toDict (k : Lam) (v : Option Lam)
  | index (k : Value) | indexDflt (k d : Value) | get (k : Value) (d : Option Value)
  | dictSet (k v : Value) | dictSetMany (e : KV) | dictSetInline (e : KV)
  | keys | values | items
  | inOp (v : Value) | contains (v : Value) | containsKey (v : Value) | containsValue (v : Value)
  | plusRight (r : Value) | plusLeft (l : Value) | timesInt (n : Int)
  | isList | isDict | isSet
  | delete (args : VL) | deleteAll (keys : VL)
  | replace (pos : Int) (v : Value) (count : Option Int)
  | replaceMany (pos : Int) (vals : VL) (count : Option Int)
  | insert (pos : Int) (v : Value) | insertMany (pos : Int) (vals : VL)
  | setFn | toSet | union (o : VL) | intersect (o : VL) | difference (o : VL) | minus (o : VL)
  | symmetricDifference (o : VL) | add (vals : VL) | remove (vals : VL)
  | setCmp (which : Nat) (o : VL)
  -- system.py
  | unpack (names : List (List Char)) (k : Nat)
  -- a second (third...) consumer of the expression's own `$` inside one expression
  | zipRoot (skips : List Int)          -- `recv.zip($.skip(a), $.skip(b)...)`
  | joinRoot (pred sel : Lam2)          -- `recv.join($, pred, sel)`
  | concatRoot (n : Int)                -- `recv.concat($.skip(n))`
  | partialThenFull (k : Int)           -- `[$.take(k).toList(), $.toList(), $.len()]`
deriving Repr, Inhabited

def optLam (l : Option Lam) : Lam := l.getD .arg

/-- `aggregate(collection, f, seed)` as used by sum / min / max -/
def reduceWith (opts : Opts) (f : Value → Value → R Value) (seed : Option Value) (o : Obj) : R Obj := do
  let s ← o.it opts
  let r ← reduceM f seed s
  pure (.val r)

/-- `value in collection` -/
def memberOf (opts : Opts) (o : Obj) (v : Value) (err : Err) : R Obj :=
  match o with
  | .val (Value.set l) | .dset l => do
    let _ ← limitSized opts l
    if hashable v then .ok (.val (bool (sMem l v))) else .error .type
  | .view .keys d => do
    let _ ← limitSized opts (dictKeys d)
    if hashable v then .ok (.val (bool (dHas d v))) else .error .type
  | .view .items _ => .error .outOfDomain
  | o =>
    match o.iterable? opts true with
    | none => .error err
    | some r => do
      let s ← r
      let hit ← LSeq.findM (fun x => .ok (pyEq x v)) 0 s.items s.err
      pure (.val (bool hit.isSome))

def setBin (f : VL → VL → VL) (o : Obj) (other : VL) : R Obj :=
  match o with
  | .view .keys _ | .view .items _ => .error .attribute
  | o => match o.asSet? with
    | some l => .ok (.dset (f l other))
    | none => .error (badReceiver o)

def generateM (pred producer : Lam) (sel : Option Lam) (decycle : Bool) : Nat → Value → VL → LSeq
  | 0, _, _ => ⟨[], some .outOfDomain⟩
  | fuel + 1, cur, past =>
    match pred.test cur with
    | .error e => ⟨[], some e⟩
    | .ok false => ⟨[], none⟩
    | .ok true =>
      if decycle && hasLazy cur then ⟨[], some .outOfDomain⟩
      else if decycle && !hashable cur then ⟨[], some .type⟩
      else if decycle && sMem past cur then ⟨[], none⟩
      else
        match (optLam sel).eval cur with
        | .error e => ⟨[], some e⟩
        | .ok out =>
          match producer.eval cur with
          | .error e => ⟨[out], some e⟩
          | .ok nxt => let t := generateM pred producer sel decycle fuel nxt (if decycle then cur :: past else past)
                       ⟨out :: t.items, t.err⟩

/-- the first `want` results of `generateMany` (tree traversal through a queue) -/
def generateManyM (producer : Lam) (sel : Option Lam) (decycle depthFirst : Bool) :
    Nat → Nat → VL → VL → LSeq
  | 0, _, _, _ => ⟨[], some .outOfDomain⟩
  | _, 0, _, _ => ⟨[], none⟩
  | _, _, [], _ => ⟨[], none⟩
  | fuel + 1, want + 1, item :: queue, past =>
    if decycle && hasLazy item then ⟨[], some .outOfDomain⟩
    else if decycle && !hashable item then ⟨[], some .type⟩
    else if decycle && sMem past item then generateManyM producer sel decycle depthFirst fuel (want + 1) queue past
    else
      match (optLam sel).eval item with
      | .error e => ⟨[], some e⟩
      | .ok out =>
        if want = 0 then ⟨[out], none⟩      -- the generator is not resumed after the last result taken
        else
          match producer.eval item with
          | .error e => ⟨[out], some e⟩
          | .ok kids =>
            match kids with
            | Value.set l => if l.length > 1 then ⟨[out], some .outOfDomain⟩ else
                let t := generateManyM producer sel decycle depthFirst fuel want (if depthFirst then l ++ queue else queue ++ l)
                  (if decycle then item :: past else past)
                ⟨out :: t.items, t.err⟩
            | kids =>
              if !Value.isIterable kids then ⟨[out], some .type⟩
              else
                let l := elems kids
                let t := generateManyM producer sel decycle depthFirst fuel want (if depthFirst then l ++ queue else queue ++ l)
                  (if decycle then item :: past else past)
                ⟨out :: t.items, t.err⟩

mutual
/-- is a collection nested in the value longer than `n`? -/
def overNested (n : Nat) : Value → Bool
  | tuple l | list l | Value.set l | iter l => l.length > n || overNestedL n l
  | _ => false
def overNestedL (n : Nat) : List Value → Bool
  | [] => false
  | x :: xs => overNested n x || overNestedL n xs
end

def intArgs : VL → Option (List Int)
  | [] => some []
  | int i :: r => (intArgs r).map (i :: ·)
  | Value.bool b :: r => (intArgs r).map ((if b then 1 else 0) :: ·)   -- parameters typed plain `int` take booleans
  | _ => none

def runOp1 (opts : Opts) (op : Op) (o : Obj) : R Obj :=
  match op with
  | .where_ p => do let s ← o.it opts; pure (.lazy (LSeq.filterM p.test s.items s.err))
  | .select f => do let s ← o.it opts; pure (.lazy (LSeq.mapM f.eval s.items s.err))
  | .attr name =>
    match o with
    | .val (dict d) => match dGet d (str name) with | some v => .ok (.val v) | none => .error .key
    | o => match o.iterable? opts true with
      | some r => do let s ← r; pure (.lazy (LSeq.mapM (fun x => memberV x name) s.items s.err))
      | none => match o with | .val (str _) => .error .outOfDomain | _ => .error .unknownFunction
  | .skip n => do let s ← o.it opts; if n < 0 then .error .value else pure (.lazy (s.drop n.toNat))
  | .take n => do let s ← o.it opts; if n < 0 then .error .value else pure (.lazy (s.take n.toNat))
  | .append args => do let s ← o.it opts; pure (.lazy (s.thenList args))
  | .distinct key => do let s ← o.it opts; pure (.lazy (distinctM (optLam key).eval [] s.items s.err))
  | .enumerate start => do let s ← o.it opts; pure (.lazy (s.lift (enumerateFrom (start.getD 0))))
  | .any_ p => do
    let s ← o.it opts
    let hit ← LSeq.findM (match p with | none => fun _ => .ok true | some l => l.test) 0 s.items s.err
    pure (.val (bool hit.isSome))
  | .all_ p => do
    let s ← o.it opts
    let hit ← LSeq.findM (fun x => do let b ← (optLam p).test x; pure (!b)) 0 s.items s.err
    pure (.val (bool hit.isNone))
  | .concat colls => do let s ← o.it opts; pure (.lazy (s.thenList colls.flatten))
  | .len =>
    match o with
    | .val (tuple l) | .val (list l) | .val (Value.set l) | .dset l => .ok (.val (int l.length))
    | .val (dict d) | .view .keys d | .view .items d => .ok (.val (int d.length))
    | .val (iter _) | .lazy _ => do let s ← o.it opts; let xs ← s.toList; pure (.val (int xs.length))   -- (the `Iterator()` overload)
    | .val (str _) => .error .outOfDomain
    | _ => .error .noMethod
  | .count => do let s ← o.it opts false; let xs ← s.toList; pure (.val (int xs.length))
  | .memorize =>
    match o with
    | .val (iter l) => lazyOk l
    | .val (str _) => .error .outOfDomain
    | .val (tuple _) | .val (list _) | .val (Value.set _) | .dset _ | .view .keys _ | .view .items _ => do
      let _ ← o.it opts false; pure o
    | .val (dict _) => do let _ ← o.it opts false; pure o       -- (`yaql.iterableDicts`: a sized collection is handed back as it is)
    | o => do let s ← o.it opts; pure (.lazy s)
  | .sum init => reduceWith opts plus init o
  | .max_ init => reduceWith opts maxV init o
  | .min_ init => reduceWith opts minV init o
  | .first dflt => do let s ← o.it opts; let r ← firstOf s dflt; pure (.val r)
  | .single => do let s ← o.it opts; let r ← singleOf s; pure (.val r)
  | .last dflt => do let s ← o.it opts; let r ← lastOf s dflt; pure (.val r)
  | .selectMany f => do
    let s ← o.it opts
    pure (.lazy (LSeq.flatMapM (fun x => do
      let v ← f.eval x
      match v with
      | Value.set l => if l.length > 1 then .error .outOfDomain else pure l
      | v => pure (if isIterable v then elems v else [v])) s.items s.err))
  | .range1 stop => lazyOk (range 0 stop 1)
  | .range3 a b step => if step == some 0 then .error .value else lazyOk (range a b (step.getD 1))
  | .sequenceTake a st n =>
    -- (the endless sequence is `take`'s receiver: it passes the limiter)
    if n < 0 then .error .value else pure (.lazy (limitLazy opts ⟨sequenceTake (a.getD 0) (st.getD 1) n.toNat, none⟩))
  | .orderBy k => do let s ← o.it opts; pure (.ordering s [(k, true)])
  | .orderByDescending k => do let s ← o.it opts; pure (.ordering s [(k, false)])
  | .thenBy k => match o with
    | .ordering s fs => .ok (.ordering s (fs ++ [(k, true)]))
    | o => .error (badReceiver o)
  | .thenByDescending k => match o with
    | .ordering s fs => .ok (.ordering s (fs ++ [(k, false)]))
    | o => .error (badReceiver o)
  | .groupBy k v agg => do
    let s ← o.it opts
    let xs ← (match s.err with
      | none => pure s.items
      | some e => -- the grouping loop runs over the prefix first: a lambda failure there comes earlier
        match groupsM k v s.items [] with | .error e' => .error e' | .ok _ => .error e : R VL)
    let g ← groupsM k v xs []
    match agg with
    | none => lazyOk (g.map fun p => tuple [p.1, list p.2])
    | some a => pure (.lazy (groupAggM a none opts.aggFallback g))
  | .zip colls => do
    let s ← o.it opts
    let ss := s :: colls.map LSeq.ofList
    pure (.lazy (zipM ss (s.items.length + 1) 0))
  | .zipLongest colls dflt => do
    let s ← o.it opts
    let rows := zipLongest (dflt.getD null) (s.items :: colls)
    -- the receiver is asked first in every row: its failure ends the zip at row `len(items)`
    pure (.lazy (match s.err with | none => ⟨rows, none⟩ | some e => ⟨rows.take s.items.length, some e⟩))
  | .join other pred sel => do
    let s ← o.it opts
    pure (.lazy (joinM pred sel (LSeq.ofList other) s.items s.err))
  | .repeatTake times n =>
    match o, times, n with
    | .val (iter _), _, _ | .lazy _, _, _ | .ordering _ _, _, _ | .view _ _, _, _ | .dset _, _, _ | .mdict _, _, _ | .opaque _, _, _ => .error .outOfDomain
    | .val v, some t, none => if t < 0 then .error .outOfDomain else lazyOk (repeatN v t.toNat)
    | .val v, some t, some n =>
      if n < 0 then .error .value else pure (.lazy (limitLazy opts ⟨repeatN v (if t < 0 then n.toNat else min t.toNat n.toNat), none⟩))
    | .val v, none, some n => if n < 0 then .error .value else pure (.lazy (limitLazy opts ⟨repeatN v n.toNat, none⟩))
    | .val _, none, none => .error .outOfDomain
  | .cycleTake n => do
    let s ← o.it opts
    if n < 0 then .error .value
    else
      -- cycle pulls the source while it delivers; only a failure met within the first `n` pulls shows
      if n.toNat ≤ s.items.length then pure (.lazy (limitLazy opts ⟨s.items.take n.toNat, none⟩))
      else match s.err with
        | some e => pure (.lazy (limitLazy opts ⟨s.items, some e⟩))
        | none => pure (.lazy (limitLazy opts ⟨cycleTake s.items n.toNat, none⟩))
  | .takeWhile p => do let s ← o.it opts; pure (.lazy (LSeq.takeWhileM p.test s.items s.err))
  | .skipWhile p => do let s ← o.it opts; pure (.lazy (LSeq.dropWhileM p.test s.items s.err))
  | .indexOf v => do
    let s ← o.it opts
    let hit ← LSeq.findM (fun x => .ok (pyEq x v)) 0 s.items s.err
    pure (.val (int (match hit with | some (i, _) => i | none => -1)))
  | .lastIndexOf v => do let s ← o.it opts; let xs ← s.toList; pure (.val (int (lastIndexOf v xs)))
  | .indexWhere p => do
    let s ← o.it opts
    let hit ← LSeq.findM p.test 0 s.items s.err
    pure (.val (int (match hit with | some (i, _) => i | none => -1)))
  | .lastIndexWhere p => do
    let s ← o.it opts
    let flags ← (LSeq.mapM p.eval s.items s.err).toList
    pure (.val (int (lastIndexWhere truthy flags)))
  | .slice n => do
    let s ← o.it opts
    if n < 0 then
      -- islice(it, n) raises inside the generator: lazily, before anything is pulled
      pure (.lazy ⟨[], some .value⟩)
    else
      let chunks := (slice n.toNat s.items).map tuple
      -- a source failure: chunks completed before it are delivered
      match s.err with
      | none => lazyOk chunks
      | some e => pure (.lazy ⟨if n == 0 then [] else (chunks.take (s.items.length / n.toNat)), if n == 0 then none else some e⟩)
  | .splitWhere p => do
    let s ← o.it opts
    match s.err with
    | some e => pure (.lazy ⟨[], some e⟩)
    | none => pure (.lazy (splitWhereM p.test [] s.items))
  | .sliceWhere p => do
    let s ← o.it opts
    match s.err with
    | some e => pure (.lazy ⟨[], some e⟩)
    | none =>
      match s.items with
      | [] => lazyOk []
      | x :: xs => match p.eval x with
        | .error e => pure (.lazy ⟨[], some e⟩)
        | .ok v => pure (.lazy (sliceWhereM p.eval [x] v xs))
  | .splitAt i => do
    let s ← o.it opts
    let xs ← s.toList
    let (a, b) := splitAt i xs
    pure (.val (list [tuple a, tuple b]))
  | .aggregate f seed => reduceWith opts f.eval seed o
  | .accumulate f seed => do
    let s ← o.it opts
    match seed, s.items, s.err with
    | some a, xs, e => pure (.lazy (LSeq.cons [a] (scanM2 f.eval a xs e)))
    | none, [], none => pure (.lazy ⟨[], some .type⟩)
    | none, [], some e => pure (.lazy ⟨[], some e⟩)
    | none, x :: xs, e => pure (.lazy (LSeq.cons [x] (scanM2 f.eval x xs e)))
  | .reverse => do let s ← o.it opts; let xs ← s.toList; lazyOk xs.reverse
  | .mergeWith other lm im lvl =>
    match o.asDict? with
    | none => .error (badReceiver o)
    | some d =>
      let lmF (a b : Value) : R Value := match lm with
        | some l => l.eval a b
        | none => match a, b with
          | tuple x, tuple y =>
            -- `toList(distinct(lst1 + lst2))`: the distinct members are pulled through the limiter of `toList`
            if !(x ++ y).all hashable then (if opts.limit.isSome then .error .outOfDomain else .error .type)
            else if overLimit opts (distinct (x ++ y)).length then .error .tooLarge
            else .ok (tuple (distinct (x ++ y)))
          | _, _ => .error .outOfDomain
      let imF (a b : Value) : R Value := match im with | some l => l.eval a b | none => .ok b
      -- a nested merge leaves plain (unhashable) dicts inside the result: the model does not track those
      let deep := lvl != 1 && d.any fun p => match p.2, dGet other p.1 with
        | dict _, some (dict _) => true
        | _, _ => false
      do let r ← mergeDictsM lmF imF 64 lvl d other; pure (if deep then .opaque (dict r) else .val (dict r))
  | .isIterable =>
    .ok (.val (bool (match o with
      | .val (dict _) => false
      | .val v => Value.isIterable v
      | _ => true)))
  | .defaultIfEmpty dflt => do
    let s ← o.it opts false
    match o with
    | .val (tuple l) | .val (list l) | .val (Value.set l) | .dset l =>
      pure (if l.isEmpty then .val (tuple dflt) else o)
    | .view .keys d | .view .items d | .val (dict d) => pure (if d.isEmpty then .val (tuple dflt) else o)
    | _ =>
      match s.items, s.err with
      | [], none => pure (.val (tuple dflt))
      | [], some e => .error e
      | _ :: _, _ => pure (.lazy s)
  | .generate pred producer sel decycle limit =>
    match o with
    | .val (iter _) | .lazy _ | .ordering _ _ | .view _ _ | .dset _ | .mdict _ | .opaque _ => .error .outOfDomain
    | .val v => pure (.lazy (generateM pred producer sel decycle limit v []))
  | .generateManyTake producer sel decycle depthFirst n =>
    match o with
    | .val (iter _) | .lazy _ | .ordering _ _ | .view _ _ | .dset _ | .mdict _ | .opaque _ => .error .outOfDomain
    | .val v =>
      if opts.limit.isSome then .error .outOfDomain     -- (what the producer returns passes the limiter: not followed)
      else if n < 0 then .error .value else pure (.lazy (generateManyM producer sel decycle depthFirst 400 n.toNat [v] []))
  -- collections.py
  | .listFn =>
    match o with
    | .val (iter l) => do let s ← o.it opts; let _ ← s.toList; pure (.val (tuple (list_ [iter l])))
    | .lazy _ => do let s ← o.it opts; let xs ← s.toList; pure (.val (tuple xs))
    | .val v => .ok (.val (tuple [v]))
    | .dset l => if l.length > 1 then .error .outOfDomain else .ok (.val (tuple [Value.set l]))   -- (embedding it loses "order unknown")
    | .ordering _ _ | .view _ _ | .mdict _ | .opaque _ => .error .outOfDomain
  | .flatten => do
    let s ← o.it opts
    -- every nested collection passes the limiter when it is reached: not followed
    if (match opts.limit with | some n => overNestedL n s.items | none => false) then .error .outOfDomain
    -- nested iterables are finished data here, so only the source can fail, at its end
    pure (.lazy (s.lift flatten))
  | .toList => do let s ← o.it opts; let xs ← s.toList; pure (.val (tuple xs))
  | .listLit extra =>
    match o with
    | .val (iter _) | .lazy _ | .ordering _ _ | .view _ _ | .dset _ | .mdict _ | .opaque _ => .error .outOfDomain
    | .val v => .ok (.val (tuple (v :: extra)))
  | .dictFn => do
    let s ← (match o.iterable? opts true with | some r => r | none => .error (match o with | .val (str _) => .outOfDomain | _ => .noFunction) : R LSeq)
    let rec go : VL → KV → R KV
      | [], d => .ok d
      | t :: ts, d =>
        match t with
        | tuple (k :: v :: _) | list (k :: v :: _) => if hashable k then go ts (dSet d k v) else .error .type
        | tuple _ | list _ => .error .stopIteration
        | str (k :: v :: _) => go ts (dSet d (str [k]) (str [v]))
        | str _ => .error .stopIteration
        | Value.set _ | dict _ | iter _ => .error .outOfDomain
        | _ => .error .type
    let d ← go s.items []
    match s.err with
    | some e => .error e
    | none => pure (.val (dict d))
  | .toDict k v => do
    let s ← o.it opts
    let rec goD : VL → KV → R KV
      | [], d => .ok d
      | x :: xs, d => do
        let key ← k.eval x
        let val ← (optLam v).eval x
        if hasLazy key then .error .outOfDomain
        if !hashable key then .error .type
        goD xs (dSet d key val)
    let d ← goD s.items []
    match s.err with
    | some e => .error e
    | none => pure (.val (dict d))
  | .index k =>
    match o with
    | .val (str _) => .error .outOfDomain
    | .val v => do let r ← indexV v k; pure (.val r)
    | _ => .error .noFunction
  | .indexDflt k dflt =>
    match o with
    | .val (dict d) => if hashable k then .ok (.val (dictGet d k dflt)) else .error .type
    | .val (str _) => .error .outOfDomain
    | _ => .error .noFunction
  | .get k dflt =>
    match o with
    | .val (dict d) => if hashable k then .ok (.val (dictGet d k (dflt.getD null))) else .error .type
    | o => .error (badReceiver o)
  | .dictSet k v =>
    match o with
    | .val (dict d) => if hashable k then .ok (.val (dict (dictSet d k v))) else .error .type
    | o => .error (badReceiver o)
  | .dictSetMany e =>
    match o with
    | .val (dict d) => .ok (.val (dict (dictSetMany d e)))
    | o => .error (badReceiver o)
  | .dictSetInline e =>
    match o with
    | .val (dict d) => .ok (.val (dict (dictSetMany d e)))
    | o => .error (badReceiver o)
  | .keys => match o with | .val (dict d) => .ok (.view .keys d) | o => .error (badReceiver o)
  | .values => match o with | .val (dict d) => .ok (.view .values d) | o => .error (badReceiver o)
  | .items => match o with | .val (dict d) => .ok (.view .items d) | o => .error (badReceiver o)
  | .inOp v => match o with
    | .val (str _) => .error .outOfDomain
    | o => memberOf opts o v .noFunction
  | .contains v => memberOf opts o v (badReceiver o)
  | .containsKey k =>
    match o with
    | .val (dict d) => if hashable k then .ok (.val (bool (containsKey d k))) else .error .type
    | o => .error (badReceiver o)
  | .containsValue v =>
    match o with
    | .val (dict d) => .ok (.val (bool (containsValue d v)))
    | o => .error (badReceiver o)
  | .plusRight r =>
    match o, r with
    | .val (tuple a), tuple b => do let _ ← limitSized opts a; let _ ← limitSized opts b; pure (.val (tuple (a ++ b)))
    | .val (dict a), dict b => .ok (.val (dict (combineDicts a b)))
    | .val (Value.set a), Value.set b | .dset a, Value.set b => do
      let _ ← limitSized opts a; let _ ← limitSized opts b; pure (.dset (sUnion a b))
    | .val (int a), int b => .ok (.val (int (a + b)))
    | .val (flt a), int b => do let v ← plus (flt a) (int b); pure (.val v)
    | .val (int a), flt b => do let v ← plus (int a) (flt b); pure (.val v)
    | .val (flt a), flt b => do let v ← plus (flt a) (flt b); pure (.val v)
    | .val (str _), _ => .error .outOfDomain
    | o, r =>
      match o.iterable? opts true with
      | some s =>
        if Value.isIterable r || (opts.iterableDicts && r matches dict _) then
          (match r with
           | Value.set l => if l.length > 1 then .error .outOfDomain else do let s ← s; pure (.lazy (s.thenList l))
           | dict d => do let s ← s; let _ ← limitSized opts (dictKeys d); pure (.lazy (s.thenList (dictKeys d)))
           | r => do let s ← s; let _ ← limitSized opts (elems r); pure (.lazy (s.thenList (elems r))))
        else .error .noFunction
      | none => .error .noFunction
  | .plusLeft l =>
    match l, o with
    | tuple a, .val (tuple b) => do let _ ← limitSized opts a; let _ ← limitSized opts b; pure (.val (tuple (a ++ b)))
    | dict a, .val (dict b) => .ok (.val (dict (combineDicts a b)))
    | Value.set a, .val (Value.set b) | Value.set a, .dset b => do
      let _ ← limitSized opts a; let _ ← limitSized opts b; pure (.dset (sUnion a b))
    | int a, .val (int b) => .ok (.val (int (a + b)))
    | flt a, .val (int b) => do let v ← plus (flt a) (int b); pure (.val v)
    | int a, .val (flt b) => do let v ← plus (int a) (flt b); pure (.val v)
    | flt a, .val (flt b) => do let v ← plus (flt a) (flt b); pure (.val v)
    | _, .val (str _) => .error .outOfDomain
    | l, o =>
      match o.iterable? opts true with
      | some s =>
        if Value.isIterable l || (opts.iterableDicts && l matches dict _) then
          (match l with
           | Value.set x => if x.length > 1 then .error .outOfDomain else do let s ← s; pure (.lazy (LSeq.cons x s))
           | dict d => do let _ ← limitSized opts (dictKeys d); let s ← s; pure (.lazy (LSeq.cons (dictKeys d) s))
           | l => do let _ ← limitSized opts (elems l); let s ← s; pure (.lazy (LSeq.cons (elems l) s)))
        else .error .noFunction
      | none => .error .noFunction
  | .timesInt n =>
    match o with
    | .val (tuple l) => .ok (.val (tuple (listByInt l n)))
    | .val (list l) => .ok (.val (list (listByInt l n)))
    | .val (int a) => .ok (.val (int (a * n)))
    | .val (flt a) => do let v ← mulInt (flt a) n; pure (.val v)
    | .val (str _) => .error .outOfDomain
    | _ => .error .noFunction
  | .isList => .ok (.val (bool o.isSequence))
  | .isDict => .ok (.val (bool o.asDict?.isSome))
  | .isSet => .ok (.val (bool (match o with | .val (Value.set _) | .dset _ | .view .keys _ | .view .items _ => true | _ => false)))
  | .delete args =>
    match o with
    | .val (dict d) =>
      -- under `yaql.iterableDicts` `delete(position[, count])` of a collection accepts the dictionary as well
      if opts.iterableDicts && (match intArgs args with | some [_] | some [_, _] => true | _ => false) then .error .ambiguous
      else if args.all hashable then .ok (.val (dict (dictDelete d args))) else .error .type
    | o =>
      match o.iterable? opts true, intArgs args with
      | some s, some [pos] => do let s ← s; pure (.lazy (s.lift (delete pos 1)))
      | some s, some [pos, count] => do let s ← s; pure (.lazy (s.lift (delete pos count)))
      | _, _ => .error (badReceiver o)
  | .deleteAll keys =>
    match o with
    | .val (dict d) => if keys.all hashable then .ok (.val (dict (dictDelete d keys))) else .error .type
    | o => .error (badReceiver o)
  | .replace pos v count => do let s ← o.it opts; pure (.lazy (s.lift (replace pos (count.getD 1) v)))
  | .replaceMany pos vals count => do let s ← o.it opts; pure (.lazy (s.lift (replaceMany pos (count.getD 1) vals)))
  | .insert pos v =>
    match o with
    | .val (tuple l) | .val (list l) => .ok (.val (list (listInsert pos v l)))
    | .val (Value.set _) | .dset _ | .view .keys _ | .view .items _ => .error .noMethod
    | o => do
      let s ← o.it opts
      -- generator: the value is yielded when index `pos` is reached, or after normal exhaustion
      if pos < 0 then pure (.lazy s)
      else if pos.toNat < s.items.length then pure (.lazy (s.lift (iterInsert pos v)))
      else pure (.lazy (s.thenList [v]))
  | .insertMany pos vals => do
    let s ← o.it opts
    if pos < 0 then pure (.lazy (LSeq.cons vals s))
    else if pos.toNat < s.items.length then pure (.lazy (s.lift (insertMany pos vals)))
    else pure (.lazy (s.thenList vals))
  | .setFn =>
    match o with
    | .val (iter l) => do
      let s ← o.it opts
      if s.err.isSome then do let xs ← hashAll s; pure (.dset (sOfList xs))
      else if l.all hashable then .ok (.dset (setOf [iter l])) else .error .type
    | .lazy _ => do let s ← o.it opts; let xs ← hashAll s; pure (.dset (sOfList xs))
    | .val v => if hashable v then .ok (.dset [v]) else .error .type
    | .dset l => if l.length > 1 then .error .outOfDomain else .ok (.dset [Value.set l])
    | .ordering _ _ | .view _ _ | .mdict _ | .opaque _ => .error .outOfDomain
  | .toSet => do
    let s ← o.it opts false
    let xs ← hashAll s
    pure (.dset (toSet xs))
  | .union other => setBin union o other
  | .intersect other => setBin intersect o other
  | .difference other => setBin difference o other
  | .minus other =>
    match o with
    | .view .keys _ | .view .items _ => .error .attribute
    | o => match o.asSet? with
      | some l => .ok (.dset (difference l other))
      | none => .error .noFunction
  | .symmetricDifference other => setBin symmetricDifference o other
  | .add vals =>
    match o with
    | .view .keys _ | .view .items _ => .error .attribute
    | o => match o.asSet? with
      | some l => if vals.all hashable then .ok (.dset (setAdd l vals)) else .error .type
      | none => .error (badReceiver o)
  | .remove vals =>
    match o with
    | .view .keys _ | .view .items _ => .error .attribute
    | o => match o.asSet? with
      | some l => if vals.all hashable then .ok (.dset (setRemove l vals)) else .error .type
      | none => .error (badReceiver o)
  | .setCmp which other =>
    let a? : Option VL := match o with
      | .view .keys d => some (dictKeys d)
      | o => o.asSet?
    match a? with
    | none => (match o with | .val (str _) | .val (int _) | .val null | .view .items _ => .error .outOfDomain | _ => .error .noFunction)
    | some a => .ok (.val (bool (match which with
      | 0 => setLt a other
      | 1 => setLe a other
      | 2 => setLt other a
      | _ => setLe other a)))
  | .zipRoot _ | .joinRoot _ _ | .concatRoot _ | .partialThenFull _ => .error .outOfDomain   -- see `runOpR`
  | .unpack names k => do
    let s ← o.it opts
    -- the length probe pulls len(names)+1 elements; with no names everything is pulled
    let probe := s.take (names.length + 1)
    let pulled ← probe.toList
    if names.isEmpty then
      let all ← s.toList
      match unpack names all with
      | none => .error .value
      | some b =>
        if k ≥ 1 && all.isEmpty then .error .outOfDomain    -- an unbound `$1` is the expression's own `$`
        else pure (.val (tuple ((List.range k).map fun i =>
          ((b.find? fun p => p.1 == Nat.toDigits 10 (i + 1)).map (·.2)).getD null)))
    else
      match unpackBinds names pulled [] with
      | none => .error .value
      | some b => pure (.val (tuple (names.map fun n => ((b.find? fun p => p.1 == n).map (·.2)).getD null)))

/-- results that are plain dicts -/
def mutableResult : Op → Bool
  | .toDict _ _ | .delete _ | .deleteAll _ | .mergeWith _ _ _ _ => true
  | _ => false

/-- does the object hold generators made by the lambdas of an earlier stage (`select($.where(..))`)? -/
def Obj.carriesLazy : Obj → Bool
  | .val (iter l) => hasLazyL l            -- (itself a one-shot iterator: the next stage consumes it once)
  | .val v => hasLazy v
  | .dset l => hasLazyL l
  | .lazy s => hasLazyL s.items
  | .ordering s _ => hasLazyL s.items
  | .view _ d | .mdict d => hasLazyP d
  | .opaque v => hasLazy v

/-- operations that hand the elements of their receiver on, each at most once, without hashing or comparing
    them and without showing them to a lambda that looks inside (`Lam.eval` guards that): generators among
    the elements stay unconsumed and are consumed exactly once, by the finaliser.  Every other operation on
    such a receiver is outside the modelled domain. -/
def Op.linear : Op → Bool
  | .where_ _ | .select _ | .selectMany _ | .takeWhile _ | .skipWhile _ | .indexWhere _ | .lastIndexWhere _
  | .any_ _ | .all_ _ | .splitWhere _ | .toDict _ _
  | .orderBy _ | .orderByDescending _ | .thenBy _ | .thenByDescending _
  | .skip _ | .take _ | .append _ | .enumerate _ | .concat _ | .len | .count | .first _ | .single | .last _
  | .zip _ | .zipLongest _ _ | .slice _ | .splitAt _ | .reverse | .toList | .listLit _
  | .insert _ _ | .insertMany _ _ | .replace _ _ _ | .replaceMany _ _ _ | .delete _ | .deleteAll _
  | .isIterable | .isList | .isDict | .isSet | .unpack _ _ | .defaultIfEmpty _ | .memorize
  | .keys | .values | .items | .index _ | .indexDflt _ _ | .get _ _ | .dictSet _ _ | .dictSetMany _
  | .dictSetInline _ | .attr _ | .containsKey _ => true
  | _ => false

/-- does the lambda call a collection method (`first`, `where`, `sum` ...) on a sub-expression?  `Lam.evalR` rejects a
    dictionary there, which is the behaviour without `yaql.iterableDicts`. -/
def Lam.seqMethods : Lam → Bool
  | .arg | .const _ => false
  | .add l _ | .mul l _ | .mod l _ | .gt l _ | .eq l _ | .member l _ | .index l _ | .not l | .len l | .strOf l | .half l
  | .rangeOf l => l.seqMethods
  | .pair a b => a.seqMethods || b.seqMethods
  | .first _ _ | .last _ _ | .single _ | .sum _ | .whereIn _ _ | .selectIn _ _ | .takeIn _ _ => true

/-- does the lambda take the `len` of a sub-expression?  (`lenV` measures a set, which a context made with `no_sets` cannot) -/
def Lam.usesLen : Lam → Bool
  | .arg | .const _ => false
  | .len _ => true
  | .add l _ | .mul l _ | .mod l _ | .gt l _ | .eq l _ | .member l _ | .index l _ | .not l | .strOf l | .half l
  | .rangeOf l | .first l _ | .last l _ | .single l | .sum l | .takeIn l _ => l.usesLen
  | .pair a b | .whereIn a b | .selectIn a b => a.usesLen || b.usesLen

def Lam2.usesLen : Lam2 → Bool
  | .on1 l | .on2 l | .plusOn l => l.usesLen
  | _ => false

def Lam2.seqMethods : Lam2 → Bool
  | .on1 l | .on2 l | .plusOn l => l.seqMethods
  | _ => false

def Op.lamSeqMethods : Op → Bool
  | .where_ l | .select l | .selectMany l | .orderBy l | .orderByDescending l | .thenBy l | .thenByDescending l
  | .takeWhile l | .skipWhile l | .indexWhere l | .lastIndexWhere l | .splitWhere l | .sliceWhere l => l.seqMethods
  | .distinct l | .any_ l | .all_ l => (l.map Lam.seqMethods).getD false
  | .groupBy k v a => k.seqMethods || (v.map Lam.seqMethods).getD false || (a.map Lam.seqMethods).getD false
  | .toDict k v => k.seqMethods || (v.map Lam.seqMethods).getD false
  | .join _ f g | .joinRoot f g => f.seqMethods || g.seqMethods
  | .aggregate f _ | .accumulate f _ => f.seqMethods
  | .mergeWith _ f g _ => (f.map Lam2.seqMethods).getD false || (g.map Lam2.seqMethods).getD false
  | .generate a b c _ _ => a.seqMethods || b.seqMethods || (c.map Lam.seqMethods).getD false
  | .generateManyTake a b _ _ _ => a.seqMethods || (b.map Lam.seqMethods).getD false
  | _ => false

def Op.lamUsesLen : Op → Bool
  | .where_ l | .select l | .selectMany l | .orderBy l | .orderByDescending l | .thenBy l | .thenByDescending l
  | .takeWhile l | .skipWhile l | .indexWhere l | .lastIndexWhere l | .splitWhere l | .sliceWhere l => l.usesLen
  | .distinct l | .any_ l | .all_ l => (l.map Lam.usesLen).getD false
  | .groupBy k v a => k.usesLen || (v.map Lam.usesLen).getD false || (a.map Lam.usesLen).getD false
  | .toDict k v => k.usesLen || (v.map Lam.usesLen).getD false
  | .join _ f g | .joinRoot f g => f.usesLen || g.usesLen
  | .aggregate f _ | .accumulate f _ => f.usesLen
  | .mergeWith _ f g _ => (f.map Lam2.usesLen).getD false || (g.map Lam2.usesLen).getD false
  | .generate a b c _ _ => a.usesLen || b.usesLen || (c.map Lam.usesLen).getD false
  | .generateManyTake a b _ _ _ => a.usesLen || (b.map Lam.usesLen).getD false
  | _ => false

mutual
def holdsSet : Value → Bool
  | Value.set _ => true
  | tuple l | list l | iter l => holdsSetL l
  | dict d => holdsSetP d
  | _ => false
def holdsSetL : List Value → Bool
  | [] => false
  | x :: xs => holdsSet x || holdsSetL xs
def holdsSetP : List (Value × Value) → Bool
  | [] => false
  | (k, v) :: r => holdsSet k || holdsSet v || holdsSetP r
end

mutual
def holdsDict : Value → Bool
  | dict _ => true
  | tuple l | list l | Value.set l | iter l => holdsDictL l
  | _ => false
def holdsDictL : List Value → Bool
  | [] => false
  | x :: xs => holdsDict x || holdsDictL xs
end

/-- is there a dictionary among the things the object's elements are made of? -/
def Obj.holdsDict : Obj → Bool
  | .val (dict d) | .mdict d | .view _ d => holdsDictL (dictValues d) || holdsDictL (dictKeys d)
  | .val v | .opaque v => Yaql.Seq.holdsDict v
  | .dset l => holdsDictL l
  | .lazy s | .ordering s _ => holdsDictL s.items

/-- the collections among the arguments (parameters declared `Iterable()`): each passes the limiter when the call is made -/
def Op.collArgs : Op → List VL
  | .concat colls | .zip colls | .zipLongest colls _ => colls
  | .join other _ _ => [other]
  | .defaultIfEmpty d => [d]
  | .deleteAll ks => [ks]
  | .insertMany _ vals | .replaceMany _ vals _ => [vals]
  | _ => []

/-- `memorize` / `defaultIfEmpty` return a sized receiver itself -/
def Op.handsBack : Op → Bool
  | .memorize | .defaultIfEmpty _ => true
  | _ => false

/-- does the operation add elements up with yaql's `+`?  (`plus` rejects a dictionary operand next to a collection, which is
    the behaviour without `yaql.iterableDicts`) -/
def Op.usesPlus : Op → Bool
  | .sum _ => true
  | .aggregate f _ | .accumulate f _ => (match f with | .plus | .plusOn _ => true | _ => false)
  | .join _ f g | .joinRoot f g => (match f, g with | .plus, _ | _, .plus | .plusOn _, _ | _, .plusOn _ => true | _, _ => false)
  | .mergeWith _ f g _ => f.isSome || g.isSome
  | _ => false

/-- what a context made with `create_context(no_sets=True)` lacks: the set functions (`set(..)`, `isSet(..)`: no such
    function; `toSet`, `union` ...: no such method; a set literal among the arguments of `-` / `<` / `+` is a call of `set`) -/
def Op.needsSets : Op → Option Err
  | .setFn | .isSet => some .unknownFunction
  | .toSet | .union _ | .intersect _ | .difference _ | .symmetricDifference _ | .add _ | .remove _ => some .unknownMethod
  | .minus _ | .setCmp _ _ => some .unknownFunction
  | .plusRight (Value.set _) | .plusLeft (Value.set _) => some .unknownFunction
  | _ => none

/-- a dictionary among the arguments the operation hands to its lambdas / to `+` -/
def Op.argsHoldDict : Op → Bool
  | .sum (some v) | .aggregate _ (some v) | .accumulate _ (some v) => Yaql.Seq.holdsDict v
  | .mergeWith other _ _ _ => holdsDictL (dictValues other)
  | .join other _ _ => holdsDictL other
  | _ => false

/-- the values the object's elements are made of -/
def Obj.parts : Obj → VL
  | .val (dict d) | .mdict d => dictValues d ++ dictKeys d
  | .view k d => viewElems k d
  | .val (tuple l) | .val (list l) | .val (Value.set l) | .val (iter l) | .dset l => l
  | .val _ | .opaque _ => []
  | .lazy s | .ordering s _ => s.items

/-- a non-empty collection among the arguments the operation hands to `+` -/
def Op.argsHoldColl : Op → Bool
  | .sum (some v) | .aggregate _ (some v) | .accumulate _ (some v) => overNested 0 v
  | .mergeWith other _ _ _ => overNestedL 0 (dictValues other)
  | .join other _ _ => overNestedL 0 other
  | _ => false

def noSetsErr (op : Op) (o : Obj) : Option Err :=
  match op.needsSets with
  | some e => some e
  | none =>
    match op, o with
    | .len, .val (Value.set _) | .len, .view .keys _ | .len, .view .items _ => some .noMethod   -- (the `len` of sets is one of the set functions)
    | _, _ => none

def runOpCore (opts : Opts) (op : Op) (o : Obj) : R Obj := do
  if o.carriesLazy && !op.linear then .error .outOfDomain
  -- under `yaql.limitIterators` the operands of `+` pass the limiter: `plus` does not follow that (collections added up)
  -- ... and so do the receivers of collection methods inside a lambda (`Lam.evalR` does not follow that either)
  if opts.limit.isSome && (op.usesPlus || op.lamSeqMethods) && !(match op with | .mergeWith _ none none _ => true | _ => false)
      && (overNestedL 0 o.parts || op.argsHoldColl) then .error .outOfDomain
  -- under `yaql.iterableDicts` a collection method inside a lambda, and `+`, accept a dictionary: `Lam.evalR` / `plus` do
  -- not follow that
  if opts.iterableDicts && (op.lamSeqMethods || op.usesPlus) && (o.holdsDict || op.argsHoldDict) then .error .outOfDomain
  let r : R Obj := match o with
    | .opaque _ => .error .outOfDomain
    | .mdict d =>
      match op with
      | .setFn => .error .type                                   -- unhashable
      | .listLit _ | .listFn | .repeatTake _ _ | .generate _ _ _ _ _ | .generateManyTake _ _ _ _ _ => .error .outOfDomain   -- (embedding it loses the distinction)
      | op => runOp1 opts op (.val (dict d))
    | o => runOp1 opts op o
  -- the arguments are converted (and limited) once an overload has accepted the receiver, before the function runs
  let r ← (match r with
    | .error .noMethod | .error .noFunction | .error .unknownFunction | .error .ambiguous | .error .outOfDomain => r
    | r => if op.collArgs.any (fun l => overLimit opts l.length) then .error .tooLarge else r : R Obj)
  match r with
  | .val (dict d) =>
    pure (if mutableResult op || (op.handsBack && (match o with | .mdict _ => true | _ => false)) then .mdict d else r)
  | r => pure r

/-- one operation on a run-time object, under the engine's options and the context's flags -/
def runOp (opts : Opts) (op : Op) (o : Obj) : R Obj :=
  match (if opts.noSets then noSetsErr op o else none) with
  | some e => .error e
  | none =>
    -- (`len` inside a lambda on a set that is an ELEMENT: `lenV` does not know the flag)
    if opts.noSets && op.lamUsesLen && holdsSetL o.parts then .error .outOfDomain
    else runOpCore opts op o

/-- the elements every fresh iteration of the expression's own `$` yields, when `$` can be iterated
    more than once: a sequence / input set, or a one-shot iterator that was memorized by the binder
    (`let($.memorize()) -> ...`, `let($.defaultIfEmpty(d)) -> ...`).  By `memorize_interleaved`
    (Props/C13) every iterator of a memorized source yields the whole source, however the consumers
    interleave - so the list-level functions apply. -/
def rootItems (binder : Option Op) (data : Value) : Option VL :=
  match binder, data with
  | none, tuple l | none, list l | none, Value.set l => some l
  | some .memorize, tuple l | some .memorize, list l | some .memorize, Value.set l | some .memorize, iter l => some l
  | some (.defaultIfEmpty d), tuple l | some (.defaultIfEmpty d), list l | some (.defaultIfEmpty d), Value.set l
  | some (.defaultIfEmpty d), iter l => some (if l.isEmpty then d else l)
  | _, _ => none

/-- operations that iterate the root `$` again -/
def runOpR (opts : Opts) (root : Option VL) (op : Op) (o : Obj) : R Obj :=
  if (match op with | .zipRoot _ | .joinRoot _ _ | .concatRoot _ | .partialThenFull _ => true | _ => false) && opts.limit.isSome
  then .error .outOfDomain      -- (a second consumer of `$` under `yaql.limitIterators`: not followed)
  else
  match op with
  | .zipRoot skips =>
    match root with
    | none => .error .outOfDomain
    | some xs => do
      let _ ← o.it opts            -- the receiver is evaluated first
      if skips.any (· < 0) then .error .value
      else runOp opts (.zip (skips.map fun n => xs.drop n.toNat)) o
  | .joinRoot pred sel =>
    match root with
    | none => .error .outOfDomain
    | some xs => runOp opts (.join xs pred sel) o
  | .concatRoot n =>
    match root with
    | none => .error .outOfDomain
    | some xs => do
      let _ ← o.it opts
      if n < 0 then .error .value else runOp opts (.concat [xs.drop n.toNat]) o
  | .partialThenFull k =>
    match root with
    | none => .error .outOfDomain
    | some xs => if k < 0 then .error .value
                 else .ok (.val (tuple [tuple (xs.take k.toNat), tuple xs, int xs.length]))
  | op => runOp opts op o

/-- the root of an expression: the document as `$` sees it, rebound by the binder of `let(binder($)) -> ...` -/
def rootObj (opts : Opts) (binder : Option Op) (data : Value) : R Obj := do
  let d ← Obj.ofInput opts data
  match binder with
  | none => pure d
  | some b => runOp opts b d

/-- what `rootItems` is asked about: the document as bound to `$` -/
def boundData (opts : Opts) (data : Value) : Value := if opts.convertInput then convertInput data else data

/-- written in function style (`set(x)`, `isSet(x)`): the function is looked up BEFORE its argument - the stages in front of
    it - is evaluated -/
def Op.functionStyleSet : Op → Bool
  | .setFn | .isSet => true
  | .plusLeft (Value.set _) => true        -- (`set(..) + <stages>`: the left operand comes first)
  | _ => false

/-- what a second consumer of `$` reads (`none`: not followed - also a set document in a context without the set functions,
    whose `$.len()` has no overload) -/
def rootOf (opts : Opts) (binder : Option Op) (data : Value) : Option VL :=
  if opts.noSets && (match data with | Value.set _ => true | _ => false) then none
  else rootItems binder (boundData opts data)

/-- the stages of a pipeline, before finalisation -/
def runStages (opts : Opts) (binder : Option Op) (ops : List Op) (data : Value) : R Obj := do
  -- (the binder of `let(..) -> ..` is evaluated before the body)
  let root ← rootObj opts binder data
  -- in a context without the set functions an unknown function among the stages is met first, whatever the stages inside
  -- it would do
  if opts.noSets && ops.any Op.functionStyleSet then .error .unknownFunction
  -- a second consumer of `$` under a limit / over a raw dictionary is not followed
  ops.foldlM (fun o op => runOpR opts (rootOf opts binder data) op o) root

/-- `let(binder($)) -> $.op1(...).op2(...)...` (or without binder), then finalisation -/
def runPipeLet (opts : Opts) (binder : Option Op) (ops : List Op) (data : Value) : R Value := do
  let o ← runStages opts binder ops data
  finalise opts o

/-- a pipeline `$.op1(...).op2(...)...` over a document in run-time form, then finalisation of the result -/
def runPipe (opts : Opts) (ops : List Op) (data : Value) : R Value := do
  let o ← ops.foldlM (fun o op => runOp opts op o) (Obj.ofValue data)
  finalise opts o

/-! ### persistent updates: programs that observe the operand again after the update

`insert`, `delete`, `set`, `replace`, `mergeWith`, `+` ... return a NEW collection.  In the model that is true by
construction (every `runOp` is a function of its operand); what has to be checked against the code is that a program which
looks at the operand again AFTER the update sees it unchanged.  `Obs` lists the shapes of such programs; the operand is the
result of an arbitrary pipeline (so the mutable lists and dicts that `insert`, `splitAt`, `enumerate`, `toDict`, `delete`,
`mergeWith` ... return occur as operands), or the unconverted document. -/

inductive Obs where
  | letPair (u : Op)          -- `let(x => P) -> [$x.u(..), $x]`
  | letTwice (u1 u2 : Op)     -- `let(x => P) -> [$x.u1(..), $x.u2(..), $x]`
  | letChain (u1 u2 : Op)     -- `let(x => P) -> let(y => $x.u1(..)) -> [$y.u2(..), $y, $x]`
  | selPair (u : Op)          -- `P.select([$.u(..), $])`: the lambda argument used twice
  | memPair (u : Op)          -- `let(m => P.memorize()) -> [$m.select($.u(..)).toList(), $m.toList()]`
deriving Repr, Inhabited

/-- can the value of a variable be read several times?  (a one-shot iterator cannot; an unsorted ordering re-sorts a
    source that may be one: not followed) -/
def Obj.rereadable : Obj → Bool
  | .val (iter _) | .lazy _ | .ordering _ _ | .opaque _ => false
  | o => !o.carriesLazy          -- (a generator inside it is consumed by whoever reads it first)

/-- a run-time object as a member of a list literal / the result of a lambda.  `Value` has no plain dict and no generator
    that raises when consumed later: the first is harmless when the member is only finalised (`plain = true`), the second
    is not followed. -/
def Obj.embed : Obj → R Value
  | .val v => .ok v
  | .dset l => .ok (Value.set l)
  | .lazy ⟨l, none⟩ => .ok (iter l)
  | .lazy ⟨_, some _⟩ => .error .outOfDomain
  | .mdict d => .ok (dict d)
  | .view .values d => .ok (iter (dictValues d))
  | .view k d => .ok (list (viewElems k d))      -- (finalised like a list)
  | .ordering _ _ | .opaque _ => .error .outOfDomain

/-- the update applied to one ELEMENT of a collection, inside a lambda -/
def updElem (opts : Opts) (u : Op) (x : Value) : R Value := do
  if hasLazy x then .error .outOfDomain
  let r ← runOp opts u (Obj.ofValue x)
  r.embed

/-- the parts of the list literal an observing program returns (or its single lazy result), before finalisation -/
def runObs (opts : Opts) (obs : Obs) (o : Obj) : R (List Obj ⊕ Obj) :=
  match obs with
  | .letPair u => do
    if !o.rereadable then .error .outOfDomain
    let a ← runOp opts u o
    pure (.inl [a, o])
  | .letTwice u1 u2 => do
    if !o.rereadable then .error .outOfDomain
    let a ← runOp opts u1 o
    let b ← runOp opts u2 o
    pure (.inl [a, b, o])
  | .letChain u1 u2 => do
    if !o.rereadable then .error .outOfDomain
    let y ← runOp opts u1 o
    if !y.rereadable then .error .outOfDomain
    let b ← runOp opts u2 y
    pure (.inl [b, y, o])
  | .selPair u => do
    let s ← o.it opts
    pure (.inr (.lazy (LSeq.mapM (fun x => do let a ← updElem opts u x; pure (tuple [a, x])) s.items s.err)))
  | .memPair u => do
    let m ← runOp opts .memorize o
    let s ← m.it opts
    let upd ← (LSeq.mapM (updElem opts u) s.items s.err).toList
    pure (.inl [.val (tuple upd), .val (tuple s.items)])

/-- finalisation of a list literal whose members are run-time objects: the literal is a tuple -/
def finaliseParts (opts : Opts) (parts : List Obj) : R Value := do
  if opts.convertOutput && overLimit opts parts.length then .error .tooLarge
  let r ← parts.mapM (finalise opts)
  pure (if opts.convertOutput && opts.tuplesToLists then list r else tuple r)

/-- an observing program over the result of a pipeline -/
def runObserve (opts : Opts) (binder : Option Op) (ops : List Op) (obs : Obs) (data : Value) : R Value := do
  let o ← runStages opts binder ops data
  match ← runObs opts obs o with
  | .inl parts => finaliseParts opts parts
  | .inr r => finalise opts r

end Yaql.Seq
