import Yaql.Model.Parser
/-!
What a host does with one `YaqlFactory` over time, and which operator table each engine parses by.

`factory.insert_operator(..)` edits the factory's operator list in place; `factory.create(options)`
generates the grammar (ply lexer + LALR parser) from the list *as it is at that moment* and puts both
into a new `YaqlEngine`; `engine.copy(options)` - and `engine(text, options=..)`, which is
`engine.copy(options)(text)` - make an engine that differs in its execution options ONLY: it holds the
same lexer and parser objects.  So an engine is a snapshot of the operator list taken by `create()`,
and a copy keeps the snapshot of the engine it was copied from, whatever happened to the factory in
between.

`root` is a ghost field: the index (in creation order) of the engine `create()` returned from which an
engine descends through `copy` calls.
-/
namespace Yaql.EngineHist
open Yaql.OpTable Yaql.Syntax

structure InsertArgs where
  existing : Option Str
  existingBinary : Bool
  sym : Str
  ty : OpType
  createGroup : Bool
  alias : Option Str
deriving DecidableEq, Repr

structure Engine (Opt : Type) where
  snap : OpList            -- the operator list the engine's grammar was generated from
  delegates : Bool
  options : Opt
  root : Nat
deriving DecidableEq, Repr

structure World (Opt : Type) where
  ops : OpList             -- `factory.operators` now
  delegates : Bool         -- `factory.allow_delegates`
  engines : List (Engine Opt) := []
deriving Repr

inductive HostOp (Opt : Type) where
  | insert (a : InsertArgs)        -- `factory.insert_operator(..)`; a `ValueError` leaves the list as it was
  | create (o : Opt)               -- `factory.create(o)`; `InvalidOperatorTableException` creates nothing
  | copy (i : Nat) (o : Opt)       -- `engines[i].copy(o)`, also what `engines[i](text, options=o)` parses with
deriving Repr

variable {Opt : Type}

def step (merge : Opt → Opt → Opt) (w : World Opt) : HostOp Opt → World Opt
  | .insert a =>
      match insertOperator w.ops a.existing a.existingBinary a.sym a.ty a.createGroup a.alias with
      | .ok l => { w with ops := l }
      | .error _ => w
  | .create o =>
      match buildOperatorTable w.ops with
      | .ok _ => { w with engines := w.engines ++ [⟨w.ops, w.delegates, o, w.engines.length⟩] }
      | .error _ => w
  | .copy i o =>
      match w.engines[i]? with
      | some e => { w with engines := w.engines ++ [{ e with options := merge e.options o }] }
      | none => w

def exec (merge : Opt → Opt → Opt) (w : World Opt) (h : List (HostOp Opt)) : World Opt :=
  h.foldl (step merge) w

/-- the table an engine parses by: `_build_operator_table` of its snapshot -/
def Engine.cfg (e : Engine Opt) : Option Cfg :=
  match buildOperatorTable e.snap with
  | .ok t => some (Cfg.ofTable t e.delegates)
  | .error _ => none

/-- `engine(text)` on the token level -/
def Engine.parse (e : Engine Opt) (toks : List Token) : Option (Except PErr Ast) :=
  e.cfg.map fun c => Yaql.Syntax.parse c toks

/-- the variant the model is NOT: a copy whose grammar is regenerated from the factory's list at copy time -/
def stepRegen (merge : Opt → Opt → Opt) (w : World Opt) : HostOp Opt → World Opt
  | .copy i o =>
      match w.engines[i]? with
      | some e => { w with engines := w.engines ++ [{ e with snap := w.ops, options := merge e.options o }] }
      | none => w
  | op => step merge w op

end Yaql.EngineHist
