/-
Model of yaql/standard_library/strings.py.

Strings are code-point lists.  Part 1 models the Python `str` methods the module
delegates to (`find`, `rfind`, slicing, `split`, `rsplit`, `strip`, `replace`,
`startswith`, `endswith`, `join`) directly on `List Char`; the whitespace class
and the case mapping are parameters (`Cfg`), instantiated by the driver from the
tables generated out of the running interpreter.  Part 2 is yaql's functions on
top of them, one definition per Python function, same index arithmetic.
-/
namespace Yaql.Strings

abbrev Str := List Char

/-- what CPython supplies and the model does not define -/
structure Cfg where
  isSpace : Char → Bool            -- `str.isspace` of one character
  upper : Char → Str               -- `c.upper()` (may be several characters)
  lower : Char → Str               -- `c.lower()`

/-! ## Part 1 - Python `str` methods -/

/-- first `i` in `[lo, lo+n)` with `p i` -/
def findUp (p : Nat → Bool) : Nat → Nat → Option Nat
  | _, 0 => none
  | lo, n + 1 => if p lo then some lo else findUp p (lo + 1) n

/-- last `i` in `[lo, lo+n)` with `p i` -/
def findDown (p : Nat → Bool) (lo : Nat) : Nat → Option Nat
  | 0 => none
  | n + 1 => if p (lo + n) then some (lo + n) else findDown p lo n

/-- `s[i:i+len(sub)] == sub` (for `i <= len(s)`) -/
def occursAt (s sub : Str) (i : Nat) : Bool := sub.isPrefixOf (s.drop i)

/-- CPython `ADJUST_INDICES`, start part -/
def adjStart (len : Nat) (b : Int) : Int :=
  if b < 0 then (if b + len < 0 then 0 else b + len) else b

/-- CPython `ADJUST_INDICES`, end part -/
def adjStop (len : Nat) (e : Int) : Int :=
  if e > len then len else if e < 0 then (if e + len < 0 then 0 else e + len) else e

def optInt : Option Nat → Int
  | some i => i
  | none => -1

/-- number of candidate positions of `sub` in the window `[a, b)` -/
def candidates (a b : Int) (sublen : Nat) : Nat := (b - a - sublen + 1).toNat

/-- `s.find(sub, start, stop)` -/
def pyFind (s sub : Str) (start stop : Int) : Int :=
  let a := adjStart s.length start
  let b := adjStop s.length stop
  optInt (findUp (occursAt s sub) a.toNat (candidates a b sub.length))

/-- `s.rfind(sub, start, stop)` -/
def pyRfind (s sub : Str) (start stop : Int) : Int :=
  let a := adjStart s.length start
  let b := adjStop s.length stop
  optInt (findDown (occursAt s sub) a.toNat (candidates a b sub.length))

/-- index clamping of a slice bound -/
def clampIdx (len : Nat) (i : Int) : Nat :=
  if i < 0 then (i + len).toNat else min i.toNat len

/-- `s[a:b]` -/
def pySlice (s : Str) (a b : Int) : Str :=
  (s.take (clampIdx s.length b)).drop (clampIdx s.length a)

/-- a `maxsplit` / `count` argument: negative means unlimited -/
def limitOf (n : Int) : Option Nat := if n < 0 then none else some n.toNat

def decr : Option Nat → Option Nat
  | none => none
  | some n => some (n - 1)

/-- may one more split / replacement be done? -/
def more : Option Nat → Bool
  | some 0 => false
  | _ => true

/-- `sep.join(pieces)` -/
def join (sep : Str) : List Str → Str
  | [] => []
  | [p] => p
  | p :: q :: r => p ++ sep ++ join sep (q :: r)

/-- the scanning loop of `s.split(sep, k)` for a non-empty `sep`: `skip` characters of a
    separator just recognised are still to be passed over, `cur` is the current piece,
    reversed -/
def splitGo (sep : Str) : Str → Nat → Option Nat → Str → List Str
  | [], _, _, cur => [cur.reverse]
  | _ :: cs, skip + 1, k, cur => splitGo sep cs skip k cur
  | c :: cs, 0, k, cur =>
    if more k && sep.isPrefixOf (c :: cs) then
      cur.reverse :: splitGo sep cs (sep.length - 1) (decr k) []
    else splitGo sep cs 0 k (c :: cur)

/-- `s.split(sep, k)`, `sep` non-empty -/
def splitSep (s sep : Str) (k : Option Nat) : List Str := splitGo sep s 0 k []

/-- `s.rsplit(sep, k)`: the same scan from the right -/
def rsplitSep (s sep : Str) (k : Option Nat) : List Str :=
  ((splitSep s.reverse sep.reverse k).map List.reverse).reverse

/-- `s.split(None, k)`: runs of whitespace separate, none at the ends; when the split
    budget is used up the rest of the string (from its first non-blank) is the last piece.
    `w` is the word being read (reversed), `none` between words. -/
def splitWsGo (sp : Char → Bool) : Str → Option Nat → Option Str → List Str
  | [], _, none => []
  | [], _, some w => [w.reverse]
  | c :: cs, k, none =>
    if sp c then splitWsGo sp cs k none
    else if more k then splitWsGo sp cs (decr k) (some [c])
    else [c :: cs]
  | c :: cs, k, some w =>
    if sp c then w.reverse :: splitWsGo sp cs k none
    else splitWsGo sp cs k (some (c :: w))

def splitWs (sp : Char → Bool) (s : Str) (k : Option Nat) : List Str := splitWsGo sp s k none

def rsplitWs (sp : Char → Bool) (s : Str) (k : Option Nat) : List Str :=
  ((splitWs sp s.reverse k).map List.reverse).reverse

def lstripBy (p : Char → Bool) (s : Str) : Str := s.dropWhile p
def rstripBy (p : Char → Bool) (s : Str) : Str := (s.reverse.dropWhile p).reverse
def stripBy (p : Char → Bool) (s : Str) : Str := rstripBy p (lstripBy p s)

/-- the character class of `strip(chars)`: whitespace when `chars` is `None` -/
def stripClass (cfg : Cfg) : Option Str → Char → Bool
  | none => cfg.isSpace
  | some cs => fun c => cs.contains c

/-- `s.replace('', new, k)`: `new` goes before each of the first `k` characters, and also
    at the end when the budget is not used up -/
def interleave (new : Str) : Str → Option Nat → Str
  | [], k => if more k then new else []
  | c :: cs, k => if more k then new ++ c :: interleave new cs (decr k) else c :: cs

/-- the scanning loop of `s.replace(old, new, k)` for a non-empty `old` -/
def replaceGo (old new : Str) : Str → Nat → Option Nat → Str
  | [], _, _ => []
  | _ :: cs, skip + 1, k => replaceGo old new cs skip k
  | c :: cs, 0, k =>
    if more k && old.isPrefixOf (c :: cs) then
      new ++ replaceGo old new cs (old.length - 1) (decr k)
    else c :: replaceGo old new cs 0 k

/-- `s.replace(old, new, k)` -/
def pyReplace (s old new : Str) (k : Option Nat) : Str :=
  match old with
  | [] => interleave new s k
  | _ :: _ => replaceGo old new s 0 k

def asciiUpper (c : Char) : Char :=
  if 'a'.toNat ≤ c.toNat ∧ c.toNat ≤ 'z'.toNat then Char.ofNat (c.toNat - 32) else c
def asciiLower (c : Char) : Char :=
  if 'A'.toNat ≤ c.toNat ∧ c.toNat ≤ 'Z'.toNat then Char.ofNat (c.toNat + 32) else c

/-- lexicographic comparison by code point: `a < b` -/
def ltStr : Str → Str → Bool
  | [], [] => false
  | [], _ :: _ => true
  | _ :: _, [] => false
  | a :: as, b :: bs => if a.toNat < b.toNat then true else if b.toNat < a.toNat then false else ltStr as bs

/-! ## Part 2 - the functions of strings.py -/

/-- the error classes the functions can raise on well-typed arguments -/
inductive Err where
  | valueError       -- `ValueError` (empty separator)
  | typeError        -- `TypeError`
  | noMatch          -- `NoMatchingFunctionException` / `NoMatchingMethodException`
  | reError          -- `re.error`
  | unsupported      -- outside the modelled fragment (never produced for generated cases)
deriving Repr, DecidableEq, Inhabited

/-- values `str()` is applied to by `join` and the dict form of `replace` -/
inductive Atom where
  | null
  | bool (b : Bool)
  | int (i : Int)
  | str (s : Str)
deriving Repr, DecidableEq, Inhabited

def natDec (n : Nat) : Str := Nat.toDigits 10 n
def intDec (i : Int) : Str := if i < 0 then '-' :: natDec (-i).toNat else natDec i.toNat

/-- `str_` -/
def strOf : Atom → Str
  | .null => ['n', 'u', 'l', 'l']
  | .bool true => ['t', 'r', 'u', 'e']
  | .bool false => ['f', 'a', 'l', 's', 'e']
  | .int i => intDec i
  | .str s => s

/-- `hex_` on an integer -/
def hexOf (i : Int) : Str :=
  if i < 0 then '-' :: '0' :: 'x' :: Nat.toDigits 16 (-i).toNat else '0' :: 'x' :: Nat.toDigits 16 i.toNat

def concat (args : List Str) : Str := args.flatten
def toUpper (cfg : Cfg) (s : Str) : Str := s.flatMap cfg.upper
def toLower (cfg : Cfg) (s : Str) : Str := s.flatMap cfg.lower
def len (s : Str) : Int := s.length
def toCharArray (s : Str) : List Str := s.map fun c => [c]

/-- `split(string, separator=None, max_splits=-1)` -/
def split (cfg : Cfg) (s : Str) (sep : Option Str := none) (maxSplits : Int := -1) : Except Err (List Str) :=
  match sep with
  | none => .ok (splitWs cfg.isSpace s (limitOf maxSplits))
  | some [] => .error .valueError
  | some sep => .ok (splitSep s sep (limitOf maxSplits))

/-- `right_split(string, separator=None, max_splits=-1)` -/
def rightSplit (cfg : Cfg) (s : Str) (sep : Option Str := none) (maxSplits : Int := -1) : Except Err (List Str) :=
  match sep with
  | none => .ok (rsplitWs cfg.isSpace s (limitOf maxSplits))
  | some [] => .error .valueError
  | some sep => .ok (rsplitSep s sep (limitOf maxSplits))

/-- `join(sequence, separator)` and `join_(separator, sequence)` -/
def joinAtoms (sequence : List Atom) (separator : Str) : Str := join separator (sequence.map strOf)

def trim (cfg : Cfg) (s : Str) (chars : Option Str := none) : Str := stripBy (stripClass cfg chars) s
def trimLeft (cfg : Cfg) (s : Str) (chars : Option Str := none) : Str := lstripBy (stripClass cfg chars) s
def trimRight (cfg : Cfg) (s : Str) (chars : Option Str := none) : Str := rstripBy (stripClass cfg chars) s

/-- `norm(string, chars=None)`; `none` is `null` on both sides -/
def norm (cfg : Cfg) (s : Option Str) (chars : Option Str := none) : Option Str :=
  match s with
  | none => none
  | some s =>
    let v := stripBy (stripClass cfg chars) s
    if v.isEmpty then none else some v

/-- `is_empty(string, trim_spaces=True, chars=None)` -/
def isEmpty (cfg : Cfg) (s : Option Str) (trimSpaces : Bool := true) (chars : Option Str := none) : Bool :=
  match s with
  | none => true
  | some s => (if trimSpaces then stripBy (stripClass cfg chars) s else s).isEmpty

/-- `replace(string, old, new, count=-1)` -/
def replace (s old new : Str) (count : Int := -1) : Str := pyReplace s old new (limitOf count)

/-- `replace_with_dict(string, replacements, count=-1)`: the pairs in insertion order,
    each applied to the result of the previous one -/
def replaceDict (s : Str) (replacements : List (Atom × Atom)) (count : Int := -1) : Str :=
  replacements.foldl (fun acc kv => pyReplace acc (strOf kv.1) (strOf kv.2) (limitOf count)) s

/-- `string_by_int` / `int_by_string` (no memory quota configured) -/
def repeatStr (s : Str) (n : Int) : Str := (List.replicate n.toNat s).flatten

/-- `in_` -/
def isIn (left right : Str) : Bool := (findUp (occursAt right left) 0 (right.length + 1)).isSome

/-- `substring(string, start, length=-1)` -/
def substring (s : Str) (start : Int) (length : Int := -1) : Str :=
  let length := if length < 0 then (s.length : Int) else length
  let start := if start < 0 then start + s.length else start
  pySlice s start (start + length)

/-- `index_of(string, sub, start=0)` -/
def indexOf (s sub : Str) (start : Int := 0) : Int := pyFind s sub start s.length

/-- `index_of_(string, sub, start, length)` -/
def indexOf4 (s sub : Str) (start length : Int) : Int :=
  let start := if start < 0 then start + s.length else start
  let length := if length < 0 then s.length - start else length
  pyFind s sub start (start + length)

/-- `last_index_of(string, sub, start=0)` -/
def lastIndexOf (s sub : Str) (start : Int := 0) : Int := pyRfind s sub start s.length

/-- `last_index_of_(string, sub, start, length)` -/
def lastIndexOf4 (s sub : Str) (start length : Int) : Int :=
  let start := if start < 0 then start + s.length else start
  let length := if length < 0 then s.length - start else length
  pyRfind s sub start (start + length)

def startsWith (s : Str) (prefixes : List Str) : Bool := prefixes.any fun p => p.isPrefixOf s
def endsWith (s : Str) (suffixes : List Str) : Bool := suffixes.any fun p => p.isSuffixOf s

/-- the constants of Python's `string` module used by `characters` -/
structure CharTables where
  digits : Str
  hexdigits : Str
  asciiLowercase : Str
  asciiUppercase : Str
  asciiLetters : Str
  octdigits : Str
  punctuation : Str
  printable : Str
  whitespace : Str

structure CharFlags where
  digits : Bool := false
  hexdigits : Bool := false
  asciiLowercase : Bool := false
  asciiUppercase : Bool := false
  asciiLetters : Bool := false
  letters : Bool := false
  octdigits : Bool := false
  punctuation : Bool := false
  printable : Bool := false
  lowercase : Bool := false
  uppercase : Bool := false
  whitespace : Bool := false

def pick (b : Bool) (s : Str) : Str := if b then s else []

/-- `characters(...)`: the distinct characters of the selected classes (a set: order is
    not part of the result) -/
def characters (t : CharTables) (f : CharFlags) : List Char :=
  (pick f.digits t.digits ++ pick f.hexdigits t.hexdigits ++ pick f.asciiLowercase t.asciiLowercase
    ++ pick f.asciiUppercase t.asciiUppercase ++ pick f.asciiLetters t.asciiLetters
    ++ pick f.letters t.asciiLetters ++ pick f.octdigits t.octdigits ++ pick f.punctuation t.punctuation
    ++ pick f.printable t.printable ++ pick f.lowercase t.asciiLowercase
    ++ pick f.uppercase t.asciiUppercase ++ pick f.whitespace t.whitespace).eraseDups

end Yaql.Strings
