import Yaql.Model.Lexer
import Yaql.Model.Parser
/-!
`engine(text)`: the lexer and the parser run interleaved - ply's `parse` pulls one token at a
time and feeds it to the LR automaton, so the first error in *text order* is the one raised: a
grammar error at token `k` wins over a lexical error behind it.

`lexPrefix` is `Yaql.Lexer.lexGo` that keeps the tokens read before a lexical error
(`Yaql.Props.C03.lexPrefix_ok` / `lexPrefix_err` tie the two).
-/
namespace Yaql.Parse
open Yaql.Lexer Yaql.Syntax

def consP (t : Token) (r : List Token × Option LexErr) : List Token × Option LexErr := (t :: r.1, r.2)

/-- the tokens the lexer hands out before it stops, and why it stopped (`none` = end of text) -/
def lexPrefixGo (cfg : LexCfg) : Nat → Bool → List Char → Nat → List Token × Option LexErr
  | _, _, [], _ => ([], none)
  | skip + 1, _, c :: r, pos => lexPrefixGo cfg skip (cfg.chars.isWord c) r (pos + 1)
  | 0, pw, c :: r, pos =>
      if isIgnored c then lexPrefixGo cfg 0 (cfg.chars.isWord c) r (pos + 1)
      else match ruleAt cfg pw (c :: r) pos with
        | .tok t len => consP t (lexPrefixGo cfg (len - 1) (cfg.chars.isWord c) r (pos + 1))
        | .err e => ([], some e)

def lexPrefix (cfg : LexCfg) (text : List Char) : List Token × Option LexErr :=
  lexPrefixGo cfg 0 false text 0

/-- everything `engine(text)` can end with -/
inductive Outcome where
  | ok (tree : Ast)
  /-- `YaqlLexicalException(value, position)` -/
  | lexical (value : List Char) (pos : Nat)
  /-- `YaqlGrammarException(.., position)`; `none` = unexpected end of statement -/
  | grammar (pos : Option Nat)
  /-- outside the model: the text spells a lone surrogate (see `LexErr.surrogate`) -/
  | surrogate (pos : Nat)
deriving Repr, Inhabited

def parseText (lc : LexCfg) (pc : Cfg) (text : List Char) : Outcome :=
  let (toks, stop) := lexPrefix lc text
  match run pc {} toks with
  | .error (.grammar p) => .grammar p
  | .ok st =>
      match stop with
      | some (.lexical v p) => .lexical v p
      | some (.surrogate p) => .surrogate p
      | none =>
          match finish pc st with
          | .ok t => .ok t
          | .error (.grammar p) => .grammar p

end Yaql.Parse
