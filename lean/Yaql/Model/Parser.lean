import Yaql.Model.Token
import Yaql.Model.OpTable
/-!
Parser: the grammar of `yaql/language/parser.py` as ply's LALR(1) automaton runs it, over a token
list.

The model is an operator-precedence shift/reduce machine, one `step` per token (structural
recursion over the token list, no fuel).  Its stack holds the *open* constructs - `(`, an operator
waiting for its right operand, a prefix operator waiting for its operand, an argument list
`f(`/`[`/`x[`/`{`/`x(` with the slots read so far, a `name =>` waiting for its value - and `cur`
is the value that has just been completed, if any.  On a token that can continue a value (binary
or suffix operator, `[`, and `(` when delegates are allowed) the open operators are reduced while
ply's conflict resolution says *reduce*:

  `reduce  iff  level(token) < level(rule)  or  (levels equal and the rule's row is 'left')`

with levels and associativity read from the precedence tuple that `_generate_operator_funcs` hands
to ply (`OpTable.lookupPrec`; a terminal that is not in the tuple has `('right', 0)`), the rule's
precedence being that of its operator token, or of `UNARY_x` for a `%prec UNARY_x` rule.  Every
other token reduces all open operators and must then close / continue the innermost bracket.  The
first token the machine cannot take is the token ply's `p_error` receives (an LALR automaton never
shifts a token that cannot continue a viable prefix); at the end of the input it is `None`.

ply's LALR construction itself is trusted; the tie is differential (`harness/props/c02.py`).
-/
namespace Yaql.Syntax
open Yaql.OpTable (Str Prec OpRec Dict Table PRow lookupPrec unaryNameOf nIndexer unaryPrefix)

/-- expression tree (`yaql/language/expressions.py`), with `utils.NO_VALUE` as a tree of its own -/
inductive Ast where
  | const (kind : TokKind) (val : TokVal)              -- `Constant(value)`: QUOTED_STRING NUMBER TRUE FALSE NULL
  | keywordConst (val : TokVal)                        -- `KeywordConstant(text)`
  | getContextValue (val : TokVal)                     -- `GetContextValue(Constant('$name'))`
  | binary (sym : Str) (alias : Option Str) (lhs rhs : Ast)   -- `BinaryOperator(op, lhs, rhs, alias)`
  | unary (sym : Str) (alias : Option Str) (arg : Ast)        -- `UnaryOperator(op, arg, alias)`
  | index (base : Ast) (args : List Ast)               -- `IndexExpression(value, *args)`
  | list (args : List Ast)                             -- `ListExpression(*args)`
  | map (args : List Ast)                              -- `MapExpression(*args)`
  | func (name : TokVal) (args : List Ast)             -- `Function(name, *args)`
  | call (callee : Ast) (args : List Ast)              -- `Function('#call', value, *args)`
  | wrap (e : Ast)                                     -- `Wrap(value)`
  | mappingRule (src dst : Ast)                        -- `MappingRuleExpression(src, dst)`
  | noValue                                            -- `utils.NO_VALUE` in an argument slot
deriving Repr, Inhabited

/-- what the parser knows about the engine: the operator table, ply's precedence tuple, and
whether `func : value '(' args ')'` is installed -/
structure Cfg where
  ops : Dict OpRec
  prec : List PRow
  delegates : Bool
deriving Repr

def Cfg.ofTable (t : Table) (delegates : Bool) : Cfg :=
  ⟨t.ops, (Yaql.OpTable.generateOperatorFuncs t).precedence, delegates⟩

/-- the table record of an operator token (`[]` and `{}` have no operator token) -/
def Cfg.opRec (c : Cfg) (sym : Str) : Option OpRec :=
  if sym == Yaql.OpTable.indexerSym || sym == Yaql.OpTable.mapSym then none else c.ops.get? sym

/-- precedence of the operator's token (= of the rule `value OP value`, and of `value OP` / `OP value`
when the symbol is unary only) -/
def Cfg.tokPrec (c : Cfg) (r : OpRec) : Prec := lookupPrec c.prec r.name
/-- precedence of the unary rule of the symbol: `%prec UNARY_x` when the symbol is also binary -/
def Cfg.unaryPrec (c : Cfg) (r : OpRec) : Prec := lookupPrec c.prec (unaryNameOf r)
def Cfg.indexerPrec (c : Cfg) : Prec := lookupPrec c.prec nIndexer
/-- `'('` is not in the tuple -/
def noPrec : Prec := ⟨0, false⟩

/-- ply's shift/reduce resolution (`yacc.py: lr_parse_table`) -/
def reduceOver (rule tok : Prec) : Bool :=
  tok.level < rule.level || (tok.level == rule.level && rule.left)

inductive ArgKind where
  | func (name : TokVal)      -- `FUNC args ')'`
  | index (base : Ast)        -- `value INDEXER args ']'`
  | list                      -- `INDEXER args ']'`
  | map                       -- `MAP args '}'`
  | call (callee : Ast)       -- `value '(' args ')'`
deriving Repr

def ArgKind.closer : ArgKind → Char
  | .func _ | .call _ => ')'
  | .index _ | .list => ']'
  | .map => '}'

def ArgKind.build : ArgKind → List Ast → Ast
  | .func n, as => .func n as
  | .index b, as => .index b as
  | .list, as => .list as
  | .map, as => .map as
  | .call f, as => .call f as

inductive Frame where
  | paren                                          -- `'(' . value ')'`
  | binop (lhs : Ast) (sym : Str) (r : OpRec)      -- `value OP . value`
  | pre (sym : Str) (r : OpRec)                    -- `OP . value`
  | amb (lhs : Ast) (sym : Str) (r : OpRec)        -- `value OP .` / `value OP . value` for a symbol that is suffix and binary
  /-- an open argument list: slots read so far; `budget` > 0 iff a `name => value` slot may start
  here (`arglist ',' named_arglist | incomplete_arglist ',' named_arglist`: after a value, or after
  a value and one empty slot; also as the very first slot); `named`: inside `named_arglist`;
  `fresh`: nothing read yet (`args :` empty) -/
  | args (k : ArgKind) (acc : List Ast) (budget : Nat) (named fresh : Bool)
  | named (src : Ast)                              -- `value MAPPING . value`
deriving Repr

structure St where
  stack : List Frame := []
  cur : Option Ast := none
deriving Repr

inductive PErr where
  /-- `YaqlGrammarException`; `position` = `lexpos` of the offending token, `None` at end of input -/
  | grammar (pos : Option Nat)
deriving DecidableEq, Repr

def errAt {α} (t : Token) : Except PErr α := .error (.grammar (some t.pos))

/-- reduce the open operators on top of the stack: all of them (`p = none`: the token cannot be
shifted in these states) or while ply resolves the conflict with token precedence `p` to *reduce* -/
def reduceWhile (c : Cfg) (p : Option Prec) : List Frame → Ast → List Frame × Ast
  | .binop l sym r :: S, v =>
      if (match p with | none => true | some p => reduceOver (c.tokPrec r) p)
      then reduceWhile c p S (.binary sym r.alias l v) else (.binop l sym r :: S, v)
  | .pre sym r :: S, v =>
      if (match p with | none => true | some p => reduceOver (c.unaryPrec r) p)
      then reduceWhile c p S (.unary sym r.alias v) else (.pre sym r :: S, v)
  | S, v => (S, v)

def newArgs (k : ArgKind) : Frame := .args k [] 1 false true

/-- a token in a state that expects the start of a value -/
def stepOperand (c : Cfg) (S : List Frame) (t : Token) : Except PErr St :=
  match t.kind with
  | .quoted | .number | .true_ | .false_ | .null_ => .ok ⟨S, some (.const t.kind t.val)⟩
  | .keyword => .ok ⟨S, some (.keywordConst t.val)⟩
  | .dollar => .ok ⟨S, some (.getContextValue t.val)⟩
  | .func => .ok ⟨newArgs (.func t.val) :: S, none⟩
  | .indexer => .ok ⟨newArgs .list :: S, none⟩
  | .map => .ok ⟨newArgs .map :: S, none⟩
  | .op sym =>
      match c.opRec sym with
      | some r => if r.up > 0 then .ok ⟨.pre sym r :: S, none⟩ else errAt t
      | none => errAt t
  | .lit ch =>
      if ch == '(' then .ok ⟨.paren :: S, none⟩
      else match S with
        | .args k acc b named fresh :: S' =>
            if ch == ',' then
              if named then errAt t else .ok ⟨.args k (acc ++ [.noValue]) (b - 1) false false :: S', none⟩
            else if fresh && ch == k.closer then .ok ⟨S', some (k.build [])⟩
            else errAt t
        | _ => errAt t
  | .mapping => errAt t

/-- the tokens that can continue a value -/
inductive Post where
  | bin (sym : Str) (r : OpRec)
  | suf (sym : Str) (r : OpRec)
  | amb (sym : Str) (r : OpRec)
  | idx
  | call
deriving Repr

def classify (c : Cfg) (t : Token) : Option (Post × Prec) :=
  match t.kind with
  | .op sym =>
      match c.opRec sym with
      | some r =>
          if r.bp ≠ 0 then (if r.up < 0 then some (.amb sym r, c.tokPrec r) else some (.bin sym r, c.tokPrec r))
          else if r.up < 0 then some (.suf sym r, c.tokPrec r)
          else none
      | none => none
  | .indexer => some (.idx, c.indexerPrec)
  | .lit ch => if ch == '(' && c.delegates then some (.call, noPrec) else none
  | _ => none

/-- a token that cannot continue the value `v`, all open operators already reduced: it has to
close or continue the innermost bracket -/
def close (S : List Frame) (v : Ast) (t : Token) : Except PErr St :=
  match S with
  | .paren :: S' =>
      match t.kind with
      | .lit ch => if ch == ')' then .ok ⟨S', some (.wrap v)⟩ else errAt t
      | _ => errAt t
  | .args k acc b named fresh :: S' =>
      match t.kind with
      | .lit ch =>
          if named then errAt t
          else if ch == ',' then .ok ⟨.args k (acc ++ [v]) 2 false false :: S', none⟩
          else if ch == k.closer then .ok ⟨S', some (k.build (acc ++ [v]))⟩
          else errAt t
      | .mapping =>
          if named || b ≥ 1 then .ok ⟨.named v :: .args k acc b named fresh :: S', none⟩ else errAt t
      | _ => errAt t
  | .named src :: .args k acc _ _ _ :: S' =>
      match t.kind with
      | .lit ch =>
          if ch == ',' then .ok ⟨.args k (acc ++ [.mappingRule src v]) 0 true false :: S', none⟩
          else if ch == k.closer then .ok ⟨S', some (k.build (acc ++ [.mappingRule src v]))⟩
          else errAt t
      | _ => errAt t
  | _ => errAt t

/-- a token after a completed value -/
def stepAfter (c : Cfg) (S : List Frame) (v : Ast) (t : Token) : Except PErr St :=
  match classify c t with
  | some (post, p) =>
      let (S', v') := reduceWhile c (some p) S v
      match post with
      | .bin sym r => .ok ⟨.binop v' sym r :: S', none⟩
      | .amb sym r => .ok ⟨.amb v' sym r :: S', none⟩
      | .suf sym r => .ok ⟨S', some (.unary sym r.alias v')⟩
      | .idx => .ok ⟨newArgs (.index v') :: S', none⟩
      | .call => .ok ⟨newArgs (.call v') :: S', none⟩
  | none =>
      let (S', v') := reduceWhile c none S v
      close S' v' t

/-- can the token start a value / follow a value (used only for a symbol that is both a suffix and
a binary operator) -/
def startsValue (c : Cfg) (t : Token) : Bool :=
  match t.kind with
  | .quoted | .number | .true_ | .false_ | .null_ | .keyword | .dollar | .func | .indexer | .map => true
  | .lit ch => ch == '('
  | .op sym => match c.opRec sym with | some r => decide (r.up > 0) | none => false
  | .mapping => false

def followsValue (c : Cfg) (t : Token) : Bool :=
  match t.kind with
  | .op sym => match c.opRec sym with | some r => r.bp ≠ 0 || decide (r.up < 0) | none => false
  | .indexer | .mapping => true
  | .lit ch => ch == ')' || ch == ']' || ch == '}' || ch == ',' || (ch == '(' && c.delegates)
  | _ => false

/-- precedence of a token that can both start and follow a value -/
def bothPrec (c : Cfg) (t : Token) : Prec :=
  match t.kind with
  | .op sym => match c.opRec sym with | some r => c.tokPrec r | none => noPrec
  | .indexer => c.indexerPrec
  | _ => noPrec

/-- After `value OP` with `OP` both a suffix and a binary operator the automaton is in a state with
`value : value OP .` (rule precedence `UNARY_OP`) and `value : value OP . value`; the next token
decides (by ply's precedence resolution when it could do both). -/
def resolveAmb (c : Cfg) (st : St) (next : Option Token) : St :=
  match st.cur, st.stack with
  | none, .amb lhs sym r :: S =>
      let asBinary := match next with
        | none => false
        | some t => startsValue c t &&
            (!followsValue c t || !reduceOver (lookupPrec c.prec (unaryPrefix ++ r.name)) (bothPrec c t))
      if asBinary then ⟨.binop lhs sym r :: S, none⟩ else ⟨S, some (.unary sym r.alias lhs)⟩
  | _, _ => st

def step (c : Cfg) (st : St) (t : Token) : Except PErr St :=
  let st := resolveAmb c st (some t)
  match st.cur with
  | none => stepOperand c st.stack t
  | some v => stepAfter c st.stack v t

def run (c : Cfg) : St → List Token → Except PErr St
  | st, [] => .ok st
  | st, t :: ts =>
      match step c st t with
      | .ok st' => run c st' ts
      | .error e => .error e

/-- end of input (`p_error(None)` unless the automaton accepts) -/
def finish (c : Cfg) (st : St) : Except PErr Ast :=
  let st := resolveAmb c st none
  match st.cur with
  | none => .error (.grammar none)
  | some v =>
      match reduceWhile c none st.stack v with
      | ([], v') => .ok v'
      | _ => .error (.grammar none)

/-- `parser.parse(text, lexer)` on the token list the lexer produces for `text` -/
def parse (c : Cfg) (toks : List Token) : Except PErr Ast :=
  match run c {} toks with
  | .ok st => finish c st
  | .error e => .error e

end Yaql.Syntax
