import Yaql.Model.Eval
import Yaql.Model.Resolve
/-!
# What the reference interpreter dispatches to, call site by call site (property C04 / C05)

`Model/Eval.lean` picks the behaviour of a builtin DIRECTLY: by the name of the function and by the
shape of the argument values (`binop`, `unop`, `indexer`, `memberOf`, `callMethod`, `callFn`).  The
real interpreter goes through overload resolution (`runner.call` -> `choose_overload`, modelled by
`Model/Resolve.lean`) over the registry of `yaql.create_context()`.  This file states *what Eval's
direct dispatch amounts to* in the vocabulary of the resolution model, so that the two can be compared
(`Props/C04Dispatch.lean`: for all values; `Props/C04DispatchGen.lean`: against the registry the
translator dumps from the live code, `Gen/RegistryTypes.lean`):

* `Kind`: the finite abstraction of a run-time object (`Eval.Obj`) that parameter types can observe
  (its Python class and the validators it passes); `kindOf`.
* `AShape` / `CallShape`: a call as `runner.call` receives it - function name, receiver (already a
  value) and the ARGUMENT EXPRESSIONS: literal constants (type-checked before anything is evaluated),
  keyword constants, mapping rules `k => v`, and other expressions, described by their expression
  class and the kind of the value they will produce.
* `dispatchOf : CallShape -> Disp`: the definition (python payload `module.function`) Eval's code for
  that call implements, or the error class it answers with, and which arguments are evaluated before
  the decision (`log`; lazy parameters and calls refused on their constants evaluate nothing).
* `Universe` / `toCall`: the same call as a `Resolve.Call` over a class table.

Names are `List Char` literals (produced with harness/devtools/expand_names.py from
`EvalDispatch.lean.in`: `['t', 'e', 'x', 't']` -> char list, `[116, 101, 120, 116]` -> list of code points; edit the `.in` file and re-run the tool).
-/
namespace Yaql.EvalDispatch
open Yaql Yaql.Eval Yaql.Types Yaql.Resolve

abbrev Name := List Char

/-- python payload `module.function`, as a list of code points (`[116, 101, 120, 116]` in the `.in` file): the kernel compares
    numerals in one step, character literals in dozens -/
abbrev PName := List Nat

/-! ## kinds of run-time objects -/

inductive Kind where
  | null | bool | int | float | str
  | tuple        -- yaql's immutable sequence (converted input lists, `[..]`)
  | list         -- a host list that was not converted
  | dict         -- FrozenDict / dict
  | set          -- frozenset / set
  | iter         -- a one-shot iterator held as a value
  | lazy         -- a generator / map / filter / islice ... produced by a builtin
  | ordered      -- queries.OrderingIterable
  | ctx          -- a context object (`let`, `with`, `unpack`, `def`)
  | host         -- an opaque host object (instance of a class unrelated to everything but `object`)
deriving DecidableEq, Repr, Inhabited

def Kind.all : List Kind :=
  [.null, .bool, .int, .float, .str, .tuple, .list, .dict, .set, .iter, .lazy, .ordered, .ctx, .host]

def kindOfV : Value → Kind
  | .null => .null | .bool _ => .bool | .int _ => .int | .flt _ => .float | .str _ => .str
  | .tuple _ => .tuple | .list _ => .list | .dict _ => .dict | .set _ => .set | .iter _ => .iter
  | .host _ => .host

def kindOf : Obj → Kind
  | .val v => kindOfV v
  | .lazy _ _ => .lazy
  | .ordered _ _ => .ordered
  | .ctx _ => .ctx

/-- `Number()`: int or float, booleans excluded by the validator -/
def Kind.num : Kind → Bool
  | .int | .float => true
  | _ => false

/-- `PythonType(int)`: booleans are ints -/
def Kind.intLike : Kind → Bool
  | .int | .bool => true
  | _ => false

/-- `Iterable()`: iterable, and neither a string nor a mapping -/
def Kind.iterable : Kind → Bool
  | .tuple | .list | .set | .iter | .lazy | .ordered => true
  | _ => false

/-- `Sequence()`: a sequence that is neither a string nor a dict -/
def Kind.sequence : Kind → Bool
  | .tuple | .list => true
  | _ => false

/-- `Iterator()` -/
def Kind.iterator : Kind → Bool
  | .iter | .lazy => true
  | _ => false

/-! ## expressions as arguments -/

/-- the expression classes of `yaql/language/expressions.py` the parser produces -/
inductive EK where
  | constant | keywordConstant | getContextValue | function | binaryOperator | unaryOperator
  | indexExpression | listExpression | mapExpression | mappingRule | wrap
deriving DecidableEq, Repr, Inhabited

def EK.all : List EK :=
  [.constant, .keywordConstant, .getContextValue, .function, .binaryOperator, .unaryOperator,
   .indexExpression, .listExpression, .mapExpression, .mappingRule, .wrap]

/-- `Expression.uses_receiver`: only a plain `Function` node (`f(..)` behind a dot) -/
def EK.usesReceiver : EK → Bool
  | .function => true
  | _ => false

/-- the Python class of the node the parser builds for an expression of the fragment -/
def ekOf : Expr → EK
  | .lit _ => .constant
  | .kw _ => .keywordConstant
  | .var _ => .getContextValue
  | .list _ => .listExpression
  | .map _ => .mapExpression
  | .index _ _ => .indexExpression
  | .un _ _ => .unaryOperator
  | .bin _ _ _ | .arrow _ _ | .member _ _ | .method _ _ _ _ | .umethod _ _ => .binaryOperator
  | .call _ _ _ | .ucall _ _ _ => .function

inductive LitK where
  | null | bool | int | float | str
deriving DecidableEq, Repr, Inhabited

def LitK.kind : LitK → Kind
  | .null => .null | .bool => .bool | .int => .int | .float => .float | .str => .str

/-- one argument of a call, as `runner.call` receives it -/
inductive AShape where
  | lit (k : LitK)                  -- `Constant`: number / string / true / false / null
  | kw (n : Name)                   -- `KeywordConstant`
  | expr (fn : Bool) (k : Kind)     -- any other expression; `fn`: a plain `Function` node (the only class with
                                    -- `uses_receiver`); `k` = kind of the value it evaluates to
  | rule (src dst : AShape)         -- `MappingRuleExpression`  src => dst
  | value (k : Kind)                -- an already evaluated Python value
deriving DecidableEq, Repr, Inhabited

/-- the kind of the value of the argument; a mapping rule evaluates to a `utils.MappingRule` -/
def AShape.kind : AShape → Option Kind
  | .lit k => some k.kind
  | .kw _ => some .str
  | .expr _ k => some k
  | .value k => some k
  | .rule _ _ => none

def AShape.isConst : AShape → Bool
  | .lit _ | .kw _ => true
  | _ => false

/-- `isinstance(arg, Expression) and not isinstance(arg, Constant)`: what resolution evaluates -/
def AShape.evaluable : AShape → Bool
  | .expr _ _ | .rule _ _ => true
  | _ => false

def AShape.isRule : AShape → Bool
  | .rule _ _ => true
  | _ => false

/-- the argument an expression of the fragment is, given the kind of its value -/
def argShape (e : Expr) (k : Kind) : AShape :=
  match e with
  | .lit .null => .lit .null
  | .lit (.bool _) => .lit .bool
  | .lit (.int _) => .lit .int
  | .lit (.flt _) => .lit .float
  | .lit (.str _) => .lit .str
  | .kw s => .kw s
  | e => .expr (ekOf e == .function) k

/-- forget which expression class a non-constant argument has -/
def AShape.unFn : AShape → AShape
  | .expr _ k => .expr false k
  | .rule s d => .rule s.unFn d.unFn
  | a => a

/-- what is called: the function names `Eval.step` hands to the context -/
inductive Callee where
  | getContextData               -- `$x`        #get_context_data
  | list                         -- `[a, b]`    #list
  | map                          -- `{k => v}`  #map
  | indexer                      -- `e[a]`      #indexer
  | dot                          -- `e.x`, `e.f()`   #operator_.
  | arrow                        -- `l -> r`    #operator_->
  | un (op : UnOp)
  | bin (op : BinOp)
  | fn (f : Fn)                  -- a builtin called by name
  | property (n : Name)          -- `#property#n`, what `e.n` falls back to
deriving DecidableEq, Repr, Inhabited

structure CallShape where
  callee : Callee
  receiver : Option Kind          -- `some k`: method call on an (evaluated) receiver of kind `k`
  args : List AShape
deriving DecidableEq, Repr, Inhabited

/-! ## names -/

namespace N
def getContextData : Name := ['#', 'g', 'e', 't', '_', 'c', 'o', 'n', 't', 'e', 'x', 't', '_', 'd', 'a', 't', 'a']
def list : Name := ['#', 'l', 'i', 's', 't']
def map : Name := ['#', 'm', 'a', 'p']
def indexer : Name := ['#', 'i', 'n', 'd', 'e', 'x', 'e', 'r']
def dot : Name := ['#', 'o', 'p', 'e', 'r', 'a', 't', 'o', 'r', '_', '.']
def arrow : Name := ['#', 'o', 'p', 'e', 'r', 'a', 't', 'o', 'r', '_', '-', '>']
def not : Name := ['#', 'u', 'n', 'a', 'r', 'y', '_', 'o', 'p', 'e', 'r', 'a', 't', 'o', 'r', '_', 'n', 'o', 't']
def neg : Name := ['#', 'u', 'n', 'a', 'r', 'y', '_', 'o', 'p', 'e', 'r', 'a', 't', 'o', 'r', '_', '-']
def propertyPrefix : Name := ['#', 'p', 'r', 'o', 'p', 'e', 'r', 't', 'y', '#']
end N

def binName : BinOp → Name
  | .add => ['#', 'o', 'p', 'e', 'r', 'a', 't', 'o', 'r', '_', '+'] | .sub => ['#', 'o', 'p', 'e', 'r', 'a', 't', 'o', 'r', '_', '-'] | .mul => ['#', 'o', 'p', 'e', 'r', 'a', 't', 'o', 'r', '_', '*']
  | .eq => ['*', 'e', 'q', 'u', 'a', 'l'] | .ne => ['*', 'n', 'o', 't', '_', 'e', 'q', 'u', 'a', 'l']
  | .lt => ['#', 'o', 'p', 'e', 'r', 'a', 't', 'o', 'r', '_', '<'] | .le => ['#', 'o', 'p', 'e', 'r', 'a', 't', 'o', 'r', '_', '<', '='] | .gt => ['#', 'o', 'p', 'e', 'r', 'a', 't', 'o', 'r', '_', '>'] | .ge => ['#', 'o', 'p', 'e', 'r', 'a', 't', 'o', 'r', '_', '>', '=']
  | .and => ['#', 'o', 'p', 'e', 'r', 'a', 't', 'o', 'r', '_', 'a', 'n', 'd'] | .or => ['#', 'o', 'p', 'e', 'r', 'a', 't', 'o', 'r', '_', 'o', 'r']

def unName : UnOp → Name
  | .not => N.not
  | .neg => N.neg

/-- the symbol of the operator in the engine's operator table -/
def binSymbol : BinOp → Name
  | .add => ['+'] | .sub => ['-'] | .mul => ['*'] | .eq => ['='] | .ne => ['!', '=']
  | .lt => ['<'] | .le => ['<', '='] | .gt => ['>'] | .ge => ['>', '='] | .and => ['a', 'n', 'd'] | .or => ['o', 'r']

def unSymbol : UnOp → Name
  | .not => ['n', 'o', 't']
  | .neg => ['-']

def BinOp.all : List BinOp := [.add, .sub, .mul, .eq, .ne, .lt, .le, .gt, .ge, .and, .or]

/-- the name a builtin of the fragment is registered under (camelCase convention) -/
def fnName : Fn → Name
  | .let_ => ['l', 'e', 't'] | .with_ => ['w', 'i', 't', 'h'] | .def_ => ['d', 'e', 'f'] | .list => ['l', 'i', 's', 't'] | .dict => ['d', 'i', 'c', 't']
  | .unpack => ['u', 'n', 'p', 'a', 'c', 'k'] | .select => ['s', 'e', 'l', 'e', 'c', 't'] | .where_ => ['w', 'h', 'e', 'r', 'e'] | .selectMany => ['s', 'e', 'l', 'e', 'c', 't', 'M', 'a', 'n', 'y']
  | .orderBy => ['o', 'r', 'd', 'e', 'r', 'B', 'y'] | .orderByDescending => ['o', 'r', 'd', 'e', 'r', 'B', 'y', 'D', 'e', 's', 'c', 'e', 'n', 'd', 'i', 'n', 'g'] | .takeWhile => ['t', 'a', 'k', 'e', 'W', 'h', 'i', 'l', 'e']
  | .skipWhile => ['s', 'k', 'i', 'p', 'W', 'h', 'i', 'l', 'e'] | .indexWhere => ['i', 'n', 'd', 'e', 'x', 'W', 'h', 'e', 'r', 'e'] | .toDict => ['t', 'o', 'D', 'i', 'c', 't']
  | .aggregate => ['a', 'g', 'g', 'r', 'e', 'g', 'a', 't', 'e'] | .sum => ['s', 'u', 'm'] | .first => ['f', 'i', 'r', 's', 't'] | .toList => ['t', 'o', 'L', 'i', 's', 't']
  | .take => ['t', 'a', 'k', 'e'] | .skip => ['s', 'k', 'i', 'p'] | .get => ['g', 'e', 't'] | .len => ['l', 'e', 'n'] | .any => ['a', 'n', 'y'] | .all => ['a', 'l', 'l']

def Fn.all : List Fn :=
  [.let_, .with_, .def_, .list, .dict, .unpack, .select, .where_, .selectMany, .orderBy, .orderByDescending,
   .takeWhile, .skipWhile, .indexWhere, .toDict, .aggregate, .sum, .first, .toList, .take, .skip, .get,
   .len, .any, .all]

def Callee.name : Callee → Name
  | .getContextData => N.getContextData
  | .list => N.list
  | .map => N.map
  | .indexer => N.indexer
  | .dot => N.dot
  | .arrow => N.arrow
  | .un op => unName op
  | .bin op => binName op
  | .fn f => fnName f
  | .property n => N.propertyPrefix ++ n

/-- the callees with a fixed name -/
def Callee.fixed : List Callee :=
  [.getContextData, .list, .map, .indexer, .dot, .arrow, .un .not, .un .neg] ++ BinOp.all.map Callee.bin ++
  Fn.all.map Callee.fn

/-! ## outcomes -/

inductive Outcome where
  | target (payload : PName)  -- the chosen definition, by its python payload `module.function`
  | unknown                   -- NoFunctionRegistered / NoMethodRegistered
  | noMatching                -- NoMatchingFunction / NoMatchingMethod
  | ambiguous                 -- AmbiguousFunction / AmbiguousMethod
  | mapping                   -- MappingTranslationException
  | argument                  -- ArgumentException (keywords to a no_kwargs function)
deriving DecidableEq, Repr, Inhabited

/-- what a call site does: the arguments evaluated before the choice (probe ids = `probeOf`), and the choice -/
structure Disp where
  log : List Nat
  out : Outcome
deriving DecidableEq, Repr, Inhabited

/-- probe ids: argument `i` (0-based, the receiver not counted) logs `i + 1`; the two sides of a mapping rule at
    argument `i` log `10 * (i + 1)` and `10 * (i + 1) + 1` -/
def probesOf (i : Nat) : AShape → List Nat
  | .expr _ _ => [i + 1]
  | .rule s d =>
    (if s.evaluable then [10 * (i + 1)] else []) ++ (if d.evaluable then [10 * (i + 1) + 1] else [])
  | _ => []

def probesFrom (i : Nat) : List AShape → List Nat
  | [] => []
  | a :: r => probesOf i a ++ probesFrom (i + 1) r

/-- every evaluable argument is evaluated, left to right (no lazy parameter) -/
def allProbes (args : List AShape) : List Nat := probesFrom 0 args

def hit (args : List AShape) (p : PName) : Disp := ⟨allProbes args, .target p⟩
def miss (args : List AShape) : Disp := ⟨allProbes args, .noMatching⟩
/-- refused when the overloads are mapped, i.e. before any argument is evaluated -/
def early : Disp := ⟨[], .noMatching⟩

/-! ## Eval's dispatch, site by site

`none` = not a call the fragment makes (e.g. a mapping rule as an operand of `+`). -/

def kindIs (a : AShape) (p : Kind → Bool) : Bool :=
  match a.kind with
  | some k => p k
  | none => false

/-- a literal that no parameter of kind-class `p` accepts makes an overload unmappable -/
def constFails (a : AShape) (p : Kind → Bool) : Bool := a.isConst && !kindIs a p

def isK (k : Kind) : Kind → Bool := fun x => x == k

/-- `+`: numbers, strings, dicts, iterables -/
def dispAdd (a b : AShape) : Disp :=
  let okc (x : AShape) : Bool := !constFails x (fun k => k.num || k == .str)
  if !(okc a && okc b) then early
  else if a.isConst && b.isConst && !(kindIs a Kind.num && kindIs b Kind.num) &&
          !(kindIs a (isK .str) && kindIs b (isK .str)) then early
  else if kindIs a Kind.num && kindIs b Kind.num then hit [a, b] [109, 97, 116, 104, 46, 98, 105, 110, 97, 114, 121, 95, 112, 108, 117, 115]
  else if kindIs a (isK .str) && kindIs b (isK .str) then hit [a, b] [115, 116, 114, 105, 110, 103, 115, 46, 99, 111, 110, 99, 97, 116]
  else if kindIs a (isK .dict) && kindIs b (isK .dict) then hit [a, b] [99, 111, 108, 108, 101, 99, 116, 105, 111, 110, 115, 46, 99, 111, 109, 98, 105, 110, 101, 95, 100, 105, 99, 116, 115]
  else if kindIs a Kind.iterable && kindIs b Kind.iterable then hit [a, b] [99, 111, 108, 108, 101, 99, 116, 105, 111, 110, 115, 46, 99, 111, 109, 98, 105, 110, 101, 95, 108, 105, 115, 116, 115]
  else miss [a, b]

/-- `-`: numbers, sets -/
def dispSub (a b : AShape) : Disp :=
  let okc (x : AShape) : Bool := !constFails x Kind.num
  if !(okc a && okc b) then early
  else if kindIs a Kind.num && kindIs b Kind.num then hit [a, b] [109, 97, 116, 104, 46, 98, 105, 110, 97, 114, 121, 95, 109, 105, 110, 117, 115]
  else if kindIs a (isK .set) && kindIs b (isK .set) then hit [a, b] [99, 111, 108, 108, 101, 99, 116, 105, 111, 110, 115, 46, 100, 105, 102, 102, 101, 114, 101, 110, 99, 101]
  else miss [a, b]

/-- `*`: numbers, and the repetition overloads (integer x string / sequence, both orders) -/
def dispMul (a b : AShape) : Disp :=
  let okc (x : AShape) : Bool := !constFails x (fun k => k.num || k == .str)
  if !(okc a && okc b) then early
  -- two literals: a string needs an Integer() partner
  else if a.isConst && b.isConst && !(kindIs a Kind.num && kindIs b Kind.num) &&
          !(kindIs a (isK .int) && kindIs b (isK .str)) && !(kindIs a (isK .str) && kindIs b (isK .int)) then early
  else if kindIs a Kind.num && kindIs b Kind.num then hit [a, b] [109, 97, 116, 104, 46, 109, 117, 108, 116, 105, 112, 108, 105, 99, 97, 116, 105, 111, 110]
  else if kindIs a (isK .int) && kindIs b (isK .str) then hit [a, b] [115, 116, 114, 105, 110, 103, 115, 46, 105, 110, 116, 95, 98, 121, 95, 115, 116, 114, 105, 110, 103]
  else if kindIs a (isK .str) && kindIs b (isK .int) then hit [a, b] [115, 116, 114, 105, 110, 103, 115, 46, 115, 116, 114, 105, 110, 103, 95, 98, 121, 95, 105, 110, 116]
  else if kindIs a (isK .int) && kindIs b Kind.sequence then hit [a, b] [99, 111, 108, 108, 101, 99, 116, 105, 111, 110, 115, 46, 105, 110, 116, 95, 98, 121, 95, 108, 105, 115, 116]
  else if kindIs a Kind.sequence && kindIs b (isK .int) then hit [a, b] [99, 111, 108, 108, 101, 99, 116, 105, 111, 110, 115, 46, 108, 105, 115, 116, 95, 98, 121, 95, 105, 110, 116]
  else miss [a, b]

/-- `<` `<=` `>` `>=`: the three null overloads, numbers, strings, sets; `sfx` = `lt` / `lte` / `gt` / `gte` -/
def dispCmp (sfx : PName) (a b : AShape) : Disp :=
  if kindIs a (isK .null) && kindIs b (isK .null) then hit [a, b] ([99, 111, 109, 109, 111, 110, 46, 110, 117, 108, 108, 95] ++ sfx ++ [95, 110, 117, 108, 108])
  else if kindIs b (isK .null) then hit [a, b] ([99, 111, 109, 109, 111, 110, 46, 108, 101, 102, 116, 95] ++ sfx ++ [95, 110, 117, 108, 108])
  else if kindIs a (isK .null) then hit [a, b] ([99, 111, 109, 109, 111, 110, 46, 110, 117, 108, 108, 95] ++ sfx ++ [95, 114, 105, 103, 104, 116])
  else if kindIs a Kind.num && kindIs b Kind.num then hit [a, b] ([109, 97, 116, 104, 46] ++ sfx)
  else if kindIs a (isK .str) && kindIs b (isK .str) then hit [a, b] ([115, 116, 114, 105, 110, 103, 115, 46] ++ sfx)
  else if kindIs a (isK .set) && kindIs b (isK .set) then hit [a, b] ([99, 111, 108, 108, 101, 99, 116, 105, 111, 110, 115, 46, 115, 101, 116, 95] ++ sfx)
  else miss [a, b]

def cmpSuffix : BinOp → PName
  | .lt => [108, 116] | .le => [108, 116, 101] | .gt => [103, 116] | _ => [103, 116, 101]

def dispBin (op : BinOp) (a b : AShape) : Disp :=
  match op with
  | .add => dispAdd a b
  | .sub => dispSub a b
  | .mul => dispMul a b
  | .eq => hit [a, b] [99, 111, 109, 109, 111, 110, 46, 101, 113]
  | .ne => hit [a, b] [99, 111, 109, 109, 111, 110, 46, 110, 101, 113]
  | .lt | .le | .gt | .ge => dispCmp (cmpSuffix op) a b
  | .and => ⟨[], .target [98, 111, 111, 108, 101, 97, 110, 46, 97, 110, 100, 95]⟩            -- both operands lazy
  | .or => ⟨[], .target [98, 111, 111, 108, 101, 97, 110, 46, 111, 114, 95]⟩

def dispUn (op : UnOp) (a : AShape) : Disp :=
  match op with
  | .not => hit [a] [98, 111, 111, 108, 101, 97, 110, 46, 110, 111, 116, 95]
  | .neg =>
    if constFails a Kind.num then early
    else if kindIs a Kind.num then hit [a] [109, 97, 116, 104, 46, 117, 110, 97, 114, 121, 95, 109, 105, 110, 117, 115]
    else miss [a]

/-- `e[k]`, `e[k, default]` -/
def dispIndexer (args : List AShape) : Disp :=
  match args with
  | [e, k] =>
    if e.isConst then early
    else if kindIs e Kind.sequence && kindIs k Kind.intLike then hit args [99, 111, 108, 108, 101, 99, 116, 105, 111, 110, 115, 46, 108, 105, 115, 116, 95, 105, 110, 100, 101, 120, 101, 114]
    else if kindIs e (isK .dict) then hit args [99, 111, 108, 108, 101, 99, 116, 105, 111, 110, 115, 46, 100, 105, 99, 116, 95, 105, 110, 100, 101, 120, 101, 114]
    else miss args
  | [e, _, _] =>
    if e.isConst then early
    else if kindIs e (isK .dict) then hit args [99, 111, 108, 108, 101, 99, 116, 105, 111, 110, 115, 46, 100, 105, 99, 116, 95, 105, 110, 100, 101, 120, 101, 114, 95, 119, 105, 116, 104, 95, 100, 101, 102, 97, 117, 108, 116]
    else miss args
  | _ => early

/-- `e.name` (second argument a keyword) -/
def dispMember (e : AShape) (name : Name) : Disp :=
  let args := [e, AShape.kw name]
  if kindIs e (isK .dict) then hit args [99, 111, 108, 108, 101, 99, 116, 105, 111, 110, 115, 46, 100, 105, 99, 116, 95, 107, 101, 121, 119, 111, 114, 100, 95, 97, 99, 99, 101, 115, 115]
  else if kindIs e Kind.iterable then hit args [113, 117, 101, 114, 105, 101, 115, 46, 99, 111, 108, 108, 101, 99, 116, 105, 111, 110, 95, 97, 116, 116, 114, 105, 98, 117, 116, 105, 111, 110]
  else hit args [115, 121, 115, 116, 101, 109, 46, 103, 101, 116, 95, 112, 114, 111, 112, 101, 114, 116, 121]

/-- `e.f(..)`: the first hop, `#operator_.`(e, <Function node>); the node is a lazy argument -/
def dispMethodHop (e : AShape) : Disp := ⟨allProbes [e], .target [115, 121, 115, 116, 101, 109, 46, 111, 112, 95, 100, 111, 116]⟩

def dispArrow (l : AShape) : Disp :=
  if l.isConst then early
  else if kindIs l (isK .ctx) then ⟨allProbes [l], .target [115, 121, 115, 116, 101, 109, 46, 115, 101, 110, 100, 95, 99, 111, 110, 116, 101, 120, 116]⟩
  else ⟨allProbes [l], .noMatching⟩

/-! ### builtins called by name -/

/-- one parameter as Eval treats it: lazy (a lambda: anything goes, nothing is evaluated), or eager with the kinds it accepts -/
structure PSpec where
  acc : Kind → Bool
  lazy : Bool := false

def pAny : PSpec := { acc := fun _ => true }
def pLam : PSpec := { acc := fun _ => true, lazy := true }
def pIter : PSpec := { acc := Kind.iterable }
def pInt : PSpec := { acc := Kind.intLike }
def pStr : PSpec := { acc := isK .str }
def pDict : PSpec := { acc := isK .dict }

/-- when the overloads are mapped: literals and values are type-checked, other expressions pass -/
def PSpec.pre (p : PSpec) (a : AShape) : Bool :=
  match a with
  | .expr _ _ => true
  | .rule _ _ => false
  | a => p.lazy || kindIs a p.acc

/-- after the eager arguments were evaluated -/
def PSpec.post (p : PSpec) (a : AShape) : Bool := p.lazy || kindIs a p.acc

/-- a builtin with ONE definition: required, optional (defaulted) and `*` parameters, in positional order -/
structure Sig where
  payload : PName
  req : List PSpec
  opt : List PSpec := []
  star : Option PSpec := none

/-- the parameter each of `n` positional arguments lands on -/
def Sig.params (sg : Sig) (n : Nat) : Option (List PSpec) :=
  let fixed := sg.req ++ sg.opt
  if n < sg.req.length then none
  else if n ≤ fixed.length then some (fixed.take n)
  else match sg.star with
    | some s => some (fixed ++ List.replicate (n - fixed.length) s)
    | none => none

def allB : List PSpec → List AShape → (PSpec → AShape → Bool) → Bool
  | p :: ps, a :: as, f => f p a && allB ps as f
  | _, _, _ => true

/-- the probes of the evaluable arguments on eager parameters, from argument index `i` on -/
def eagerProbes (i : Nat) : List PSpec → List AShape → List Nat
  | p :: ps, a :: as => (if p.lazy then [] else probesOf i a) ++ eagerProbes (i + 1) ps as
  | _, _ => []

/-- `recv`: the receiver of a method call, an evaluated value in front of the arguments -/
def dispSig (sg : Sig) (recv : Option Kind) (args : List AShape) : Disp :=
  let all := match recv with | some k => AShape.value k :: args | none => args
  match sg.params all.length with
  | none => early
  | some ps =>
    if !allB ps all PSpec.pre then early
    else
      let log := eagerProbes 0 (if recv.isSome then ps.drop 1 else ps) args
      if allB ps all PSpec.post then ⟨log, .target sg.payload⟩ else ⟨log, .noMatching⟩

/-- `len`: five definitions, one parameter each -/
def lenTarget (k : Kind) : Option PName :=
  if k == .dict then some [99, 111, 108, 108, 101, 99, 116, 105, 111, 110, 115, 46, 100, 105, 99, 116, 95, 108, 101, 110]
  else if k.sequence then some [99, 111, 108, 108, 101, 99, 116, 105, 111, 110, 115, 46, 115, 101, 113, 117, 101, 110, 99, 101, 95, 108, 101, 110]
  else if k == .set then some [99, 111, 108, 108, 101, 99, 116, 105, 111, 110, 115, 46, 115, 101, 116, 95, 108, 101, 110]
  else if k.iterator then some [113, 117, 101, 114, 105, 101, 115, 46, 99, 111, 117, 110, 116, 95]
  else if k == .str then some [115, 116, 114, 105, 110, 103, 115, 46, 108, 101, 110, 95]
  else none

def dispLen (recv : Option Kind) (args : List AShape) : Disp :=
  let all := match recv with | some k => AShape.value k :: args | none => args
  match all with
  | [c] =>
    (match c with
     | .rule _ _ => early
     | .expr _ k => (match lenTarget k with | some p => hit args p | none => miss args)
     | c => match c.kind.bind lenTarget with | some p => hit args p | none => early)
  | _ => early

/-- `dict(k => v, ..)` / `dict(pairs)`: both definitions are no_kwargs, mapping rules stay positional -/
def dispDict (args : List AShape) : Disp :=
  if args.all AShape.isRule then hit args [99, 111, 108, 108, 101, 99, 116, 105, 111, 110, 115, 46, 100, 105, 99, 116, 95]
  else match args with
    | [e] =>
      if e.isConst then early
      else if kindIs e Kind.iterable then hit args [99, 111, 108, 108, 101, 99, 116, 105, 111, 110, 115, 46, 100, 105, 99, 116, 95, 95]
      else miss args
    | _ => if args.any AShape.isConst then early else miss args

/-- translate_args: `k => v` with a keyword on the left becomes a keyword argument -/
def kwSplit : List AShape → Option (List AShape × List (Name × AShape))
  | [] => some ([], [])
  | .rule (.kw n) d :: r => (kwSplit r).map fun p => (p.1, (n, d) :: p.2)
  | .rule _ _ :: _ => none
  | a :: r => (kwSplit r).map fun p => (a :: p.1, p.2)

/-- the probes of the positional arguments, then of the keyword arguments (`evalPos`, `evalKw`); a keyword given twice
    keeps its FIRST place and its LAST expression (`kw_args[name] = ..`) -/
def posProbes (i : Nat) : List AShape → List Nat
  | [] => []
  | .rule _ _ :: r => posProbes (i + 1) r
  | a :: r => probesOf i a ++ posProbes (i + 1) r

def kwUpd (n : Name) (p : List Nat) : List (Name × List Nat) → List (Name × List Nat)
  | [] => [(n, p)]
  | (m, q) :: r => if m == n then (m, p) :: r else (m, q) :: kwUpd n p r

def kwProbesAcc (i : Nat) (acc : List (Name × List Nat)) : List AShape → List (Name × List Nat)
  | [] => acc
  | .rule (.kw n) d :: r => kwProbesAcc (i + 1) (kwUpd n (if d.evaluable then [10 * (i + 1) + 1] else []) acc) r
  | _ :: r => kwProbesAcc (i + 1) acc r

def kwLog (args : List AShape) : List Nat :=
  posProbes 0 args ++ ((kwProbesAcc 0 [] args).map (·.2)).flatten

def fnSig : Fn → Option Sig
  | .select => some { payload := [113, 117, 101, 114, 105, 101, 115, 46, 115, 101, 108, 101, 99, 116], req := [pIter, pLam] }
  | .where_ => some { payload := [113, 117, 101, 114, 105, 101, 115, 46, 119, 104, 101, 114, 101], req := [pIter, pLam] }
  | .selectMany => some { payload := [113, 117, 101, 114, 105, 101, 115, 46, 115, 101, 108, 101, 99, 116, 95, 109, 97, 110, 121], req := [pIter, pLam] }
  | .orderBy => some { payload := [113, 117, 101, 114, 105, 101, 115, 46, 111, 114, 100, 101, 114, 95, 98, 121], req := [pIter, pLam] }
  | .orderByDescending => some { payload := [113, 117, 101, 114, 105, 101, 115, 46, 111, 114, 100, 101, 114, 95, 98, 121, 95, 100, 101, 115, 99, 101, 110, 100, 105, 110, 103], req := [pIter, pLam] }
  | .takeWhile => some { payload := [113, 117, 101, 114, 105, 101, 115, 46, 116, 97, 107, 101, 95, 119, 104, 105, 108, 101], req := [pIter, pLam] }
  | .skipWhile => some { payload := [113, 117, 101, 114, 105, 101, 115, 46, 115, 107, 105, 112, 95, 119, 104, 105, 108, 101], req := [pIter, pLam] }
  | .indexWhere => some { payload := [113, 117, 101, 114, 105, 101, 115, 46, 105, 110, 100, 101, 120, 95, 119, 104, 101, 114, 101], req := [pIter, pLam] }
  | .toDict => some { payload := [99, 111, 108, 108, 101, 99, 116, 105, 111, 110, 115, 46, 116, 111, 95, 100, 105, 99, 116], req := [pIter, pLam], opt := [pLam] }
  | .aggregate => some { payload := [113, 117, 101, 114, 105, 101, 115, 46, 97, 103, 103, 114, 101, 103, 97, 116, 101], req := [pIter, pLam], opt := [pAny] }
  | .sum => some { payload := [113, 117, 101, 114, 105, 101, 115, 46, 115, 117, 109, 95], req := [pIter], opt := [pAny] }
  | .first => some { payload := [113, 117, 101, 114, 105, 101, 115, 46, 102, 105, 114, 115, 116], req := [pIter], opt := [pAny] }
  | .toList => some { payload := [99, 111, 108, 108, 101, 99, 116, 105, 111, 110, 115, 46, 116, 111, 95, 108, 105, 115, 116], req := [pIter] }
  | .take => some { payload := [113, 117, 101, 114, 105, 101, 115, 46, 108, 105, 109, 105, 116], req := [pIter, pInt] }
  | .skip => some { payload := [113, 117, 101, 114, 105, 101, 115, 46, 115, 107, 105, 112], req := [pIter, pInt] }
  | .get => some { payload := [99, 111, 108, 108, 101, 99, 116, 105, 111, 110, 115, 46, 100, 105, 99, 116, 95, 103, 101, 116], req := [pDict, pAny], opt := [pAny] }
  | .any => some { payload := [113, 117, 101, 114, 105, 101, 115, 46, 97, 110, 121, 95], req := [pIter], opt := [pLam] }
  | .all => some { payload := [113, 117, 101, 114, 105, 101, 115, 46, 97, 108, 108, 95], req := [pIter], opt := [pLam] }
  | .unpack => some { payload := [115, 121, 115, 116, 101, 109, 46, 117, 110, 112, 97, 99, 107], req := [pIter], star := some pStr }
  | .with_ => some { payload := [115, 121, 115, 116, 101, 109, 46, 119, 105, 116, 104, 95], req := [], star := some pAny }
  | .list => some { payload := [99, 111, 108, 108, 101, 99, 116, 105, 111, 110, 115, 46, 108, 105, 115, 116, 95], req := [], star := some pAny }
  | .def_ => some { payload := [115, 121, 115, 116, 101, 109, 46, 100, 101, 102, 95], req := [pStr, pLam] }
  | .let_ | .dict | .len => none

/-- callable as `f(..)` / as `x.f(..)` (`@specs.method` / `@specs.extension_method`) -/
def fnIsFunction : Fn → Bool
  | .let_ | .with_ | .def_ | .list | .dict | .len | .any | .all => true
  | _ => false

def fnIsMethod : Fn → Bool
  | .let_ | .with_ | .def_ | .list | .dict => false
  | _ => true

/-- `f(args)` (`recv = none`) and `r.f(args)` -/
def dispFn (f : Fn) (recv : Option Kind) (args : List AShape) : Option Disp :=
  if !(if recv.isSome then fnIsMethod f else fnIsFunction f) then some ⟨[], .unknown⟩
  else if f == .dict then some (dispDict args)
  else match kwSplit args with
    | none => some ⟨[], .mapping⟩              -- `1 => x`: the left side is no keyword
    | some (pos, []) =>
      (match f with
       | .let_ => some ⟨kwLog args, .target [115, 121, 115, 116, 101, 109, 46, 108, 101, 116]⟩
       | .len => some (dispLen recv pos)
       | f => (fnSig f).map fun sg => dispSig sg recv pos)
    | some (_, _ :: _) =>
      (match f with
       | .let_ => some ⟨kwLog args, .target [115, 121, 115, 116, 101, 109, 46, 108, 101, 116]⟩     -- `**kwargs` takes every name
       | .with_ => some early                                   -- no parameter of that name, no `**`
       | _ => none)                                             -- keyword arguments of the other builtins: outside

/-- the member names the standard library answers on date/time values (`#property#year` ...): on any other receiver
    `e.year` is "no matching function", not "unknown function".  They are OUTSIDE the fragment (`Eval.memberOf` does not
    know them; the program generator never draws them). -/
def dateTimeProperties : List Name :=
  [['d', 'a', 't', 'e'], ['d', 'a', 'y'], ['d', 'a', 'y', 's'], ['h', 'o', 'u', 'r'], ['h', 'o', 'u', 'r', 's'], ['m', 'i', 'c', 'r', 'o', 's', 'e', 'c', 'o', 'n', 'd'], ['m', 'i', 'c', 'r', 'o', 's', 'e', 'c', 'o', 'n', 'd', 's'], ['m', 'i', 'l', 'l', 'i', 's', 'e', 'c', 'o', 'n', 'd', 's'], ['m', 'i', 'n', 'u', 't', 'e'],
   ['m', 'i', 'n', 'u', 't', 'e', 's'], ['m', 'o', 'n', 't', 'h'], ['o', 'f', 'f', 's', 'e', 't'], ['s', 'e', 'c', 'o', 'n', 'd'], ['s', 'e', 'c', 'o', 'n', 'd', 's'], ['t', 'i', 'm', 'e'], ['t', 'i', 'm', 'e', 's', 't', 'a', 'm', 'p'], ['u', 't', 'c'], ['w', 'e', 'e', 'k', 'd', 'a', 'y'], ['y', 'e', 'a', 'r']]

/-- the call sites of `Eval.step`, by the function and the argument list `runner.call` gets -/
def dispatchOf (s0 : CallShape) : Option Disp :=
  if let .property n := s0.callee then
    -- `#property#n(obj)`: whatever the object, nothing is registered under the name
    (if dateTimeProperties.contains n then none else some ⟨[], .unknown⟩)
  else
  -- only `#operator_.` looks at the class of an argument expression
  let s : CallShape := if s0.callee == .dot then s0 else { s0 with args := s0.args.map AShape.unFn }
  let noRule := !s.args.any AShape.isRule
  let noValue := !s.args.any (fun a => match a with | .value _ => true | _ => false)
  if !noValue then none
  else match s.callee, s.receiver with
  | .fn f, recv => dispFn f recv s.args
  | _, some _ => none
  | .getContextData, none =>
    (match s.args with | [.lit .str] => some (hit s.args [115, 121, 115, 116, 101, 109, 46, 103, 101, 116, 95, 99, 111, 110, 116, 101, 120, 116, 95, 100, 97, 116, 97]) | _ => none)
  | .list, none => if noRule then some (hit s.args [99, 111, 108, 108, 101, 99, 116, 105, 111, 110, 115, 46, 98, 117, 105, 108, 100, 95, 108, 105, 115, 116]) else none
  | .map, none => if s.args.all AShape.isRule then some (hit s.args [99, 111, 108, 108, 101, 99, 116, 105, 111, 110, 115, 46, 100, 105, 99, 116, 95]) else none
  | .indexer, none => if noRule then some (dispIndexer s.args) else none
  | .dot, none =>
    (match s.args with
     | [e, .kw n] => if e.isRule then none else some (dispMember e n)
     | [e, .expr true _] => if e.isRule then none else some (dispMethodHop e)
     | _ => none)
  | .arrow, none =>
    (match s.args with | [l, r] => if l.isRule || r.isRule then none else some (dispArrow l) | _ => none)
  | .un op, none => (match s.args with | [a] => if a.isRule then none else some (dispUn op a) | _ => none)
  | .bin op, none => (match s.args with | [a, b] => if noRule then some (dispBin op a b) else none | _ => none)
  | .property _, none => none

/-! ## the same call for the resolution model -/

structure Universe where
  L : Lattice
  kindVal : Kind → Val          -- a value of the kind as parameter types see it (class, validators passed)
  mapRuleVal : Val              -- an evaluated `utils.MappingRule`
  ekFn : Nat                    -- id of the expression class `Function`
  ekOther : Nat                 -- id shared by every other expression class the parser produces

def litOf : LitK → Lit
  | .null => .null | .bool => .bool | .int => .num | .float => .num | .str => .str

def toArgP (U : Universe) (p : Nat) : AShape → Arg
  | .lit k => .const (U.kindVal k.kind) (litOf k) none U.ekOther
  | .kw n => .const (U.kindVal .str) .str (some n) U.ekOther
  | .expr fn k => .expr (if fn then U.ekFn else U.ekOther) p fn (U.kindVal k)
  | .rule s d => .mapRule (toArgP U (10 * p) s) (toArgP U (10 * p + 1) d) U.mapRuleVal U.ekOther
  | .value k => .value (U.kindVal k)

def toArgs (U : Universe) (i : Nat) : List AShape → List Arg
  | [] => []
  | a :: r => toArgP U (i + 1) a :: toArgs U (i + 1) r

def toCall (U : Universe) (s : CallShape) : Call :=
  { receiver := s.receiver.map U.kindVal, args := toArgs U 0 s.args, kwargs := [] }

/-- one definition of the generated registry (`Gen/RegistryTypes.lean`) -/
structure GDef where
  layer : Nat                   -- 0 = the context `create_context()` returns, then its parents
  payload : PName               -- `module.function` of the python payload
  fd : FDef
deriving Repr, Inhabited

/-- everything registered under one name: what `context.collect_functions(name, ..)` walks (nearest layer first,
    every context of the chain, also those without a definition of the name) -/
structure Group where
  name : Name
  members : List GDef
  layers : List Layer
deriving Repr, Inhabited

def payloadOf (ds : List GDef) (id : Nat) : PName :=
  match ds.find? fun d => d.fd.id == id with
  | some d => d.payload
  | none => []

/-- a resolution outcome in the vocabulary of `Disp` -/
def ofResolve (ds : List GDef) (o : Resolve.Outcome) : Disp :=
  { log := o.log,
    out := match o.res with
      | .ok (id, _) => .target (payloadOf ds id)
      | .error .unknown => .unknown
      | .error .noMatching => .noMatching
      | .error .ambiguous => .ambiguous
      | .error .argument => .argument
      | .error .mappingTranslation => .mapping }

/-- overload resolution of the call on the definitions of one group -/
def resolveIn (U : Universe) (g : Group) (s : CallShape) : Disp :=
  ofResolve g.members (resolve U.L g.layers (toCall U s))

/-! ## the call shapes the fragment is checked on

The enumeration is shared by the kernel-checked theorems (`Props/C04DispatchGen.lean`) and by the harness (the
driver lists it; `harness/props/c04dispatch.py` resolves every shape on the live registry). -/

/-- every literal, a keyword, and an expression of every kind (class of the expression forgotten) -/
def shapesS : List AShape :=
  [.lit .null, .lit .bool, .lit .int, .lit .float, .lit .str, .kw ['a']] ++ Kind.all.map (AShape.expr false)

/-- the same with the expressions that are plain `Function` nodes -/
def shapesFn : List AShape := shapesS ++ Kind.all.map (AShape.expr true)

/-- a small set for the positions of wide argument lists -/
def shapesT : List AShape :=
  [.lit .null, .lit .int, .lit .str, .kw ['a'], .expr false .null, .expr false .int, .expr false .str,
   .expr false .tuple, .expr true .dict]

def shapesU : List AShape := [.lit .int, .expr false .str, .expr false .tuple]

/-- mapping rules `k => v` -/
def shapesR : List AShape :=
  ([AShape.kw ['a'], .kw ['b'], .expr false .str].flatMap fun l =>
    [AShape.lit .int, .expr false .null, .expr true .tuple].map fun r => AShape.rule l r)

/-- keep the last occurrence of every element -/
def dedup {α : Type} [DecidableEq α] : List α → List α
  | [] => []
  | a :: r => if r.contains a then dedup r else a :: dedup r

def prod : List (List AShape) → List (List AShape)
  | [] => [[]]
  | l :: r => l.flatMap fun a => (prod r).map fun as => a :: as

/-- a family of calls: receivers x the product of the per-position argument sets -/
structure Pattern where
  recv : List (Option Kind)
  pos : List (List AShape)
deriving Repr, Inhabited

def Pattern.shapes (c : Callee) (p : Pattern) : List CallShape :=
  p.recv.flatMap fun r => (prod p.pos).map fun as => ⟨c, r, as⟩

def noRecv : List (Option Kind) := [none]
def anyRecv : List (Option Kind) := Kind.all.map some

/-- per-position argument sets for the arities `lo .. hi` (the first positions from `wide`, the later ones from
    `narrow`), plus one arity beyond -/
def arities (wide : Nat) (lo hi : Nat) : List (List (List AShape)) :=
  (List.range (hi + 2 - lo)).map fun d =>
    let n := lo + d
    (List.range n).map fun i => if n ≤ hi then (if i < wide then shapesS else shapesU) else shapesU

/-- the calls of one builtin by name: `mLo .. mHi` arguments behind the receiver / as a function -/
def fnPatterns (f : Fn) : List Pattern :=
  let both (lo hi wide : Nat) : List Pattern :=
    (arities wide lo hi).map (fun ps => ⟨anyRecv, ps⟩) ++ [⟨noRecv, []⟩, ⟨noRecv, [shapesU]⟩]
  match f with
  | .select | .where_ | .selectMany | .orderBy | .orderByDescending | .takeWhile | .skipWhile | .indexWhere => both 0 1 1
  | .toDict | .aggregate | .get => both 0 2 1
  | .sum | .first | .take | .skip => both 0 1 1
  | .toList => both 0 0 0
  | .unpack => (arities 1 0 2).map (fun ps => ⟨anyRecv, ps⟩) ++ [⟨noRecv, [shapesU]⟩]
  | .len => [⟨anyRecv, []⟩, ⟨anyRecv, [shapesU]⟩, ⟨noRecv, []⟩, ⟨noRecv, [shapesS]⟩, ⟨noRecv, [shapesU, shapesU]⟩]
  | .any | .all =>
    (arities 1 0 1).map (fun ps => ⟨anyRecv, ps⟩) ++
    [⟨noRecv, []⟩, ⟨noRecv, [shapesS]⟩, ⟨noRecv, [shapesS, shapesT]⟩, ⟨noRecv, [shapesU, shapesU, shapesU]⟩]
  | .let_ =>
    [⟨noRecv, []⟩, ⟨noRecv, [shapesS]⟩, ⟨noRecv, [shapesT, shapesT]⟩, ⟨noRecv, [shapesR]⟩, ⟨noRecv, [shapesT, shapesR]⟩,
     ⟨noRecv, [shapesR, shapesR]⟩, ⟨noRecv, [shapesU, shapesU, shapesR]⟩, ⟨[some .tuple, some .null], [shapesU]⟩]
  | .with_ =>
    [⟨noRecv, []⟩, ⟨noRecv, [shapesS]⟩, ⟨noRecv, [shapesS, shapesT]⟩, ⟨noRecv, [shapesR]⟩, ⟨noRecv, [shapesU, shapesR]⟩,
     ⟨[some .tuple, some .null], [shapesU]⟩]
  | .list =>
    [⟨noRecv, []⟩, ⟨noRecv, [shapesS]⟩, ⟨noRecv, [shapesS, shapesT]⟩, ⟨noRecv, [shapesU, shapesU, shapesU]⟩,
     ⟨[some .tuple, some .null], [shapesU]⟩]
  | .def_ =>
    [⟨noRecv, []⟩, ⟨noRecv, [shapesS]⟩, ⟨noRecv, [shapesS, shapesT]⟩, ⟨noRecv, [shapesU, shapesU, shapesU]⟩,
     ⟨[some .tuple, some .null], [shapesU, shapesU]⟩]
  | .dict =>
    [⟨noRecv, []⟩, ⟨noRecv, [shapesS]⟩, ⟨noRecv, [shapesT, shapesT]⟩, ⟨noRecv, [shapesR]⟩, ⟨noRecv, [shapesR, shapesR]⟩,
     ⟨noRecv, [shapesU, shapesR]⟩, ⟨noRecv, [shapesR, shapesU]⟩, ⟨[some .tuple, some .null], [shapesU]⟩]

/-- the checked calls of every callee with a fixed name -/
def patterns : Callee → List Pattern
  | .getContextData => [⟨noRecv, [[.lit .str]]⟩]
  | .list => [⟨noRecv, []⟩, ⟨noRecv, [shapesS]⟩, ⟨noRecv, [shapesS, shapesS]⟩, ⟨noRecv, [shapesU, shapesU, shapesU]⟩]
  | .map => [⟨noRecv, []⟩, ⟨noRecv, [shapesR]⟩, ⟨noRecv, [shapesR, shapesR]⟩]
  | .indexer =>
    [⟨noRecv, [shapesS]⟩, ⟨noRecv, [shapesS, shapesS]⟩, ⟨noRecv, [shapesS, shapesS, shapesU]⟩,
     ⟨noRecv, [shapesU, shapesU, shapesU, shapesU]⟩]
  | .dot => [⟨noRecv, [shapesFn, [.kw ['a'], .kw ['l', 'e', 'n']]]⟩, ⟨noRecv, [shapesFn, [.expr true .null, .expr true .int]]⟩]
  | .arrow => [⟨noRecv, [shapesS, shapesS]⟩]
  | .un _ => [⟨noRecv, [shapesS]⟩]
  | .bin _ => [⟨noRecv, [shapesS, shapesS]⟩]
  | .fn f => fnPatterns f
  | .property _ => [⟨noRecv, [shapesU]⟩, ⟨noRecv, []⟩]

/-- the whole finite fragment -/
def fragment : List CallShape :=
  Callee.fixed.flatMap fun c => (patterns c).flatMap fun p => p.shapes c

/-! ### quotient of the shapes by what the parameter types of one group can observe -/

def groupTypes (g : Group) : List PTy :=
  dedup (g.layers.flatMap fun l => l.fns.flatMap fun fd => fd.params.map (·.ty))

/-- everything resolution over the parameter types `ts` can see of an argument that is no mapping rule: the
    verdict of every type on the unevaluated and on the evaluated argument, whether it is evaluable, and the
    keyword it carries (`Keyword` parameters see the value of a keyword constant) -/
def obs (U : Universe) (ts : List PTy) (a : AShape) : List Bool × List Bool × Bool × Bool :=
  let x := toArgP U 1 a
  (ts.map fun t => check U.L t x, ts.map fun t => check U.L t x.evaluated, x.evaluable, a.isRule)

/-- a proposed choice of representatives (emitted by the translator, CHECKED by the theorems) -/
structure Reps where
  lit : LitK → AShape
  kw : AShape
  kind : Kind → Kind
  fnMatters : Bool              -- the group tells `Function` nodes from other expressions

def Reps.app (r : Reps) : AShape → AShape
  | .lit k => r.lit k
  | .kw _ => r.kw
  | .expr fn k => .expr (fn && r.fnMatters) (r.kind k)
  | .value k => .value (r.kind k)
  | .rule s d => .rule s d

def CallShape.rep (r : Reps) (s : CallShape) : CallShape :=
  { s with receiver := s.receiver.map r.kind, args := s.args.map r.app }

def Pattern.rep (r : Reps) (p : Pattern) : Pattern :=
  { recv := dedup (p.recv.map fun o => o.map r.kind), pos := p.pos.map fun l => dedup (l.map r.app) }

/-- every shape of the pattern dispatches like its representative -/
def Pattern.invOk (c : Callee) (r : Reps) (p : Pattern) : Bool :=
  (p.shapes c).all fun s => dispatchOf s == dispatchOf (s.rep r)

/-- on the representatives, Eval's dispatch is the resolution on the group -/
def Pattern.repsOk (U : Universe) (g : Group) (c : Callee) (r : Reps) (p : Pattern) : Bool :=
  ((p.rep r).shapes c).all fun s => dispatchOf s == some (resolveIn U g s)

/-- every argument shape that is no mapping rule, up to the name a keyword constant carries -/
def obsShapes : List AShape := shapesFn ++ Kind.all.map AShape.value

/-- the representatives look the same to every parameter type of the group -/
def Reps.obsOk (U : Universe) (g : Group) (r : Reps) : Bool :=
  let ts := groupTypes g
  obsShapes.all fun a => obs U ts (r.app a) == obs U ts a

/-- the same check without a quotient -/
def Pattern.directOk (U : Universe) (g : Group) (c : Callee) (p : Pattern) : Bool :=
  (p.shapes c).all fun s => dispatchOf s == some (resolveIn U g s)

end Yaql.EvalDispatch
